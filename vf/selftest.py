"""setup / self-test: tools present, every group's extraction succeeds on the current tree."""
import glob
import os
import shutil
import sys

from . import runner
from .cxx2c import ExtractionError


def main():
    ok = True
    for tool in ('cbmc', 'goto-cc', 'goto-instrument', 'gcc', 'python3'):
        if not shutil.which(tool):
            print('missing tool', tool)
            ok = False
    for g in runner.enabled_groups():
        try:
            spec = runner.load_spec(g)
            text, spans = runner.generate(spec)
            probs = runner.closed_world(spec)
            print('%-24s extracted %2d spans, %5d lines of C%s' % (g, len(spans), text.count('\n'), ' CLOSED-WORLD: ' + '; '.join(probs) if probs else ''))
        except ExtractionError as e:
            print('%-24s EXTRACTION ERROR: %s' % (g, e))
            ok = False
    os.makedirs(os.path.join(runner.VERIF, 'evidence'), exist_ok=True)
    os.makedirs(runner.OUT, exist_ok=True)
    return 0 if ok else 1
