"""./check <ID> [--tier quick|thorough]   |   ./check replay <file>   |   ./check selftest
Exit 0: every obligation discharged (known findings printed); 1: VIOLATION; 2: undecided."""
import concurrent.futures as cf
import glob
import hashlib
import json
import os
import re
import sys
import time

from . import cxx2c, runner, replay
from .cxx2c import ExtractionError
from .runner import Undecided, VERIF, OUT, REPO

GLOBAL_TRUSTED = [
    'cbmc / goto-cc / goto-instrument 6.11.0 (dfcc contract instrumentation, MiniSat2 back end)',
    'python extractor vf/cxx2c.py: C++ -> C token rewrite table (output kept in out/<group>/<group>.c, spans hashed)',
    'atomics and fences treated as sequentially consistent; memory_order arguments ignored',
    'rely/guarantee soundness (Jones / Owicki-Gries with auxiliary variables) for the interference stubs',
    'event stubs (EV_*) stand for C++-only callees: receivers, stop sources, call-outs; listed per group under extraction_drops',
    'machine arithmetic is bit-precise (CBMC bit-vectors); stated operand ranges are in the requires clauses',
    'partial correctness only: no termination claim for spin / CAS retry loops',
]


def groups_for(pid, only_group=None):
    gs = []
    for g in ([only_group] if only_group else runner.enabled_groups()):
        spec = runner.load_spec(g)
        if pid in spec.get('properties', []):
            gs.append(spec)
    return gs


def load_known():
    p = os.path.join(VERIF, 'known_findings.json')
    if not os.path.exists(p):
        return []
    with open(p) as f:
        return json.load(f).get('findings', [])


def known_match(known, pid, group, unit, ob):
    for k in known:
        if k.get('kind') != 'known':
            continue
        if pid not in k.get('properties', [k.get('property')]):
            continue
        m = k['match']
        if m.get('group') and m['group'] != group:
            continue
        if m.get('unit') and m['unit'] != unit:
            continue
        if m.get('obligation') and m['obligation'] not in ob['name']:
            continue
        return k
    return None


def prepare_group(spec):
    outdir = os.path.join(OUT, spec['name'])
    os.makedirs(outdir, exist_ok=True)
    text, spans = runner.generate(spec, REPO)
    cfile = os.path.join(outdir, spec['name'] + '.c')
    with open(cfile, 'w') as f:
        f.write(text)
    probs = runner.closed_world(spec, REPO)
    if probs:
        raise Undecided('closed-world scan (%s): %s' % (spec['name'], '; '.join(probs[:5])))
    return cfile, text.split('\n'), spans, outdir


def check_property(pid, tier, only_group=None, only_unit=None, verbose=False):
    t0 = time.time()
    seed = int(os.environ.get('VERIF_SEED', '0') or 0)
    specs = groups_for(pid, only_group)
    if not specs:
        print('no checks registered for %s' % pid)
        return 2
    known = load_known()
    undecided = []
    jobs = []
    prepared = {}
    for spec in specs:
        try:
            prepared[spec['name']] = prepare_group(spec)
        except (ExtractionError, Undecided) as e:
            undecided.append('%s: %s' % (spec['name'], e))
            continue
        for u in spec['units']:
            if u.get('props') and pid not in u['props']:
                continue
            if u.get('tier') == 'thorough' and tier != 'thorough':
                continue
            if only_unit and u['name'] != only_unit:
                continue
            jobs.append((spec, dict(u)))
            if tier == 'thorough' and u.get('mode', 'contract') != 'bounded' and not u.get('no_second_backend'):
                u2 = dict(u)
                other = 'minisat2' if u.get('solver', spec.get('solver')) == 'cadical' else 'cadical'
                u2['name'] = u['name'] + '@' + other
                u2['flags'] = list(u.get('flags', [])) + ['--sat-solver', other]
                u2['timeout'] = 900
                u2['_second'] = True
                jobs.append((spec, u2))
    results = []

    def work(job):
        spec, u = job
        cfile, lines, spans, outdir = prepared[spec['name']]
        try:
            r = runner.run_unit(spec, u, cfile, lines, outdir, tier)
            r['group'] = spec['name']
            r['unit'] = u
            return r
        except Undecided as e:
            res = dict(group=spec['name'], name=u['name'], undecided=str(e), unit=u)
            # the unit could not even be built (e.g. a spliced loop contract names a local that a refactoring removed):
            # the proof is broken, not the property refuted.  Look for a P counterexample on the text WITHOUT loop
            # contracts, loops unwound a few times (under-approximation: any counterexample found is real).
            if ('goto-cc failed' in str(e) or 'goto-instrument failed' in str(e)) and u.get('enforce') and not u.get('_second'):
                try:
                    with nolc_lock:
                        if spec['name'] not in nolc:
                            text2, _ = runner.generate(spec, REPO, no_loop_contracts=True)
                            cf2 = os.path.join(outdir, spec['name'] + '.nolc.c')
                            with open(cf2, 'w') as f:
                                f.write(text2)
                            nolc[spec['name']] = (cf2, text2.split('\n'))
                    cf2, lines2 = nolc[spec['name']]
                    u2 = dict(u)
                    u2['name'] = u['name'] + '.nolc'
                    u2['_no_loop_contracts'] = True
                    r2 = runner.run_unit(spec, u2, cf2, lines2, outdir, tier)
                    p2 = [o for o in r2['obligations'] if o['cls'] == 'P' and o['status'] == 'FAILURE']
                    if p2:
                        r2['group'] = spec['name']
                        r2['unit'] = u2
                        res['fallback'] = (r2, p2, cf2, lines2)
                except (Undecided, ExtractionError):
                    pass
            return res

    import threading
    nolc = {}
    nolc_lock = threading.Lock()
    nworkers = int(os.environ.get('VF_JOBS', '16'))
    with cf.ThreadPoolExecutor(max_workers=nworkers) as ex:
        for r in ex.map(work, jobs):
            results.append(r)

    violations = []
    prepared_nolc = {}
    known_hits = []
    n_ob = n_ok = 0
    n_canary = n_canary_ok = 0
    bounded = []
    fn_rows = []
    samples = []
    solver_time = 0.0
    for r in results:
        if 'undecided' in r and r['unit'].get('_second'):
            # the agreement run on the other back end gave no answer (time-out / tool limit): recorded, decides nothing
            bounded.append(dict(unit=r['name'], group=r['group'], label='second back end gave no answer: ' + r['undecided'][:160]))
            continue
        if 'undecided' in r:
            if r.get('fallback'):
                r2, p2, cf2, lines2 = r['fallback']
                spec2 = [s for s in specs if s['name'] == r['group']][0]
                p2 = [o for o in p2 if not known_match(known, pid, r['group'], r['name'], o)]
                if p2:
                    prepared_nolc[r2['name']] = (cf2, lines2)
                    violations.append((spec2, r2, p2))
                    continue
            undecided.append(r['undecided'])
            continue
        solver_time += r['solver_secs']
        u = r['unit']
        spec = [s for s in specs if s['name'] == r['group']][0]
        is_bounded = r['mode'] == 'bounded' or bool(r.get('unwind'))
        fails_P, fails_A = [], []
        cnt = ok = 0
        for ob in r['obligations']:
            if ob['cls'] == 'canary':
                n_canary += 1
                if ob['status'] == 'FAILURE':
                    n_canary_ok += 1
                else:
                    undecided.append('%s/%s: vacuity canary not reachable: %s' % (r['group'], r['name'], ob['name']))
                continue
            cnt += 1
            if ob['status'] == 'SUCCESS':
                ok += 1
            elif ob['cls'] == 'P':
                fails_P.append(ob)
            else:
                fails_A.append(ob)
        if cnt == 0:
            undecided.append('%s/%s: zero obligations generated' % (r['group'], r['name']))
        if u.get('enforce') and not any('.postcondition' in (o['prop'] or '') for o in r['obligations']):
            undecided.append('%s/%s: no postcondition obligation generated' % (r['group'], r['name']))
        if u.get('expect_loop_obligations') and not any('loop_invariant' in (o['prop'] or '') for o in r['obligations']):
            undecided.append('%s/%s: loop contract silently dropped' % (r['group'], r['name']))
        row = dict(unit=r['name'], group=r['group'], mode=r['mode'], obligations=cnt, discharged=ok,
                   seconds=r['secs'], solver=r['solver'])
        if u.get('enforce'):
            row['function'] = u['enforce']
        if is_bounded:
            row['unwind'] = r.get('unwind')
            row['label'] = 'bounded (never counted as proved)'
            bounded.append(row)
        elif not u.get('_second'):
            n_ob += cnt
            n_ok += ok
            fn_rows.append(row)
            for ob in r['obligations']:
                if ob['cls'] == 'P' and ob['status'] == 'SUCCESS' and len(samples) < 12 and ('postcondition' in ob['name'] or ob['name'].startswith('P:')):
                    if not any(s['obligation'] == ob['name'] for s in samples):
                        samples.append(dict(unit=r['name'], obligation=ob['name'], status=ob['status']))
        else:
            row['label'] = 'second back end agreement run'
            bounded.append(row)
        real_P = []
        for ob in fails_P:
            k = known_match(known, pid, r['group'], r['name'].split('@')[0], ob)
            if k:
                known_hits.append((k, ob))
                if not is_bounded and not u.get('_second'):
                    # an obligation that fails as a recorded known finding is neither claimed nor counted as discharged
                    n_ob -= 1
                    row['obligations'] -= 1
                    row.setdefault('failing_as_known_finding', []).append(ob['name'][:200])
            else:
                real_P.append(ob)
        lc_broken = [o for o in fails_A if o['name'].startswith(('loop_invariant', 'loop_assigns', 'loop_decreases', 'decreases', 'loop_step'))]
        if real_P and lc_broken and u.get('enforce') and u.get('loop_contracts', True) and not u.get('_second') and not u.get('_no_loop_contracts'):
            # the loop contract itself no longer holds for this code: property failures were evaluated in loop states
            # described by an invariant that is not the code's; they count only if a run WITHOUT loop contracts
            # (bounded falsification on the real loop) reproduces a property failure
            u2 = dict(u)
            u2['name'] = u['name'] + '.nolc'
            u2['_no_loop_contracts'] = True
            found = False
            try:
                cfile, lines, spans, outdir = prepared[spec['name']]
                r2 = runner.run_unit(spec, u2, cfile, lines, outdir, tier)
                p2 = [o for o in r2['obligations'] if o['cls'] == 'P' and o['status'] == 'FAILURE'
                      and not known_match(known, pid, r['group'], r['name'], o)]
                if p2:
                    r2['group'] = r['group']
                    r2['unit'] = u2
                    violations.append((spec, r2, p2))
                    found = True
            except Undecided as e:
                pass
            if not found:
                undecided.append('%s/%s: loop contract broken (%s); property failures under the stale invariant were not reproduced on the real loop (bounded re-run): not refuted' % (
                    r['group'], r['name'], lc_broken[0]['name'][:160]))
        elif real_P:
            violations.append((spec, r, real_P))
        elif fails_A and not fails_P:
            # proof broken, not refuted: look for a P counterexample without loop contracts (bounded falsification)
            found = False
            if u.get('enforce') and u.get('loop_contracts', True) and not u.get('_second'):
                u2 = dict(u)
                u2['name'] = u['name'] + '.nolc'
                u2['_no_loop_contracts'] = True
                try:
                    cfile, lines, spans, outdir = prepared[spec['name']]
                    r2 = runner.run_unit(spec, u2, cfile, lines, outdir, tier)
                    p2 = [o for o in r2['obligations'] if o['cls'] == 'P' and o['status'] == 'FAILURE'
                          and not known_match(known, pid, r['group'], r['name'], o)]
                    if p2:
                        r2['group'] = r['group']
                        r2['unit'] = u2
                        violations.append((spec, r2, p2))
                        found = True
                except Undecided as e:
                    pass
            if not found:
                undecided.append('%s/%s: auxiliary obligation failed (proof broken, property not refuted): %s' % (
                    r['group'], r['name'], fails_A[0]['name'][:200]))

    # ---- report
    rc = 0
    printed = set()
    for k, ob in known_hits:
        key = k['id']
        if key in printed:
            continue
        printed.add(key)
        print('KNOWN-FINDING: property=%s %s' % (pid, k['what']))
    replay_paths = []
    for spec, r, obs in violations:
        cfile, lines, spans, outdir = prepared[spec['name']]
        if r['name'] in prepared_nolc:
            cfile, lines = prepared_nolc[r['name']]
        path, reproduced = replay.make_replay(pid, spec, r, obs, cfile, lines, spans, outdir, tier)
        replay_paths.append(path)
        print('VIOLATION property=%s replay=%s%s' % (pid, path, '' if reproduced else ' no-failing-input-found'))
        for ob in obs[:6]:
            print('  failed obligation [%s/%s]: %s' % (r['group'], r['name'], ob['name'][:300]))
        rc = 1
    if undecided and rc == 0:
        rc = 2
    for ud in undecided:
        print('UNDECIDED: %s' % ud[:1200])

    # ---- evidence
    spans_all = []
    drops = []
    assumptions = []
    for spec in specs:
        if spec['name'] in prepared:
            for sp in prepared[spec['name']][2]:
                spans_all.append(dict(group=spec['name'], **sp))
        drops += ['%s: %s' % (spec['name'], d) for d in spec.get('drops', [])]
        assumptions += spec.get('assumptions', [])
    trusted = list(GLOBAL_TRUSTED) + sorted(set(scan_assumes(specs, prepared)))
    ev = dict(
        property_id=pid, tier=tier, seed=seed, level='proof',
        coverage=dict(
            obligations=n_ob, discharged=n_ok,
            checker_cmd='per unit: goto-cc --function <harness> out/<group>/<group>.c ; goto-instrument --dfcc <harness> --enforce-contract <fn> [--replace-call-with-contract <callee>]* --apply-loop-contracts ; cbmc ' + ' '.join(runner.CBMC_FLAGS) + ' (no --unwind for the units counted here)',
            trusted_base=trusted,
            samples=samples,
            functions_under_contract=fn_rows,
            bounded_checks=bounded,
            extracted_spans=spans_all,
            vacuity=dict(canaries=n_canary, canaries_failing_as_required=n_canary_ok),
            solver_time_s=round(solver_time, 2),
            extraction_drops=drops,
            known_findings=sorted(set(k['id'] for k, _ in known_hits)),
            obligations_failing_as_known_findings=[dict(finding=k['id'], obligation=ob['name'][:300]) for k, ob in known_hits],
            undecided=undecided,
            rule='obligations = CBMC properties of the unbounded (contract / lemma) units, excluding vacuity canaries; bounded units and second-back-end runs are listed separately and not counted; an obligation that FAILS and matches a recorded known finding (known_findings.json) is listed under obligations_failing_as_known_findings and is neither claimed nor counted here',
        ),
        assumptions=assumptions,
        wall_s=round(time.time() - t0, 2),
        violations=len(violations),
    )
    # evidence is written only by full property runs (a --group/--unit run covers part of the property)
    if not os.environ.get('VF_NO_EVIDENCE') and not only_group and not only_unit:
        os.makedirs(os.path.join(VERIF, 'evidence'), exist_ok=True)
        with open(os.path.join(VERIF, 'evidence', pid + '.json'), 'w') as f:
            json.dump(ev, f, indent=1)
    print('%s tier=%s: %d/%d obligations discharged in %d units (+%d bounded/second-backend), %d/%d canaries reachable, %.1fs%s' % (
        pid, tier, n_ok, n_ob, len(fn_rows), len(bounded), n_canary_ok, n_canary, time.time() - t0,
        '' if rc == 0 else (' -> VIOLATION' if rc == 1 else ' -> UNDECIDED')))
    return rc


def scan_assumes(specs, prepared):
    """mechanical scan: every __CPROVER_assume outside interference/harness code is listed"""
    out = []
    for spec in specs:
        if spec['name'] not in prepared:
            continue
        lines = prepared[spec['name']][1]
        n = sum(1 for l in lines if '__CPROVER_assume' in l)
        out.append('%s: %d __CPROVER_assume statements in the generated unit (rely havoc, window construction, lemma premises, stub results)' % (spec['name'], n))
    return out


def main(argv):
    if len(argv) >= 2 and argv[1] == 'replay':
        return replay.run_replay(argv[2])
    if len(argv) >= 2 and argv[1] == 'selftest':
        from . import selftest
        return selftest.main()
    if len(argv) < 2:
        print(__doc__)
        return 2
    pid = argv[1]
    tier = os.environ.get('VERIF_TIER', 'quick')
    only_group = only_unit = None
    i = 2
    while i < len(argv):
        if argv[i] == '--tier':
            tier = argv[i + 1]
            i += 2
        elif argv[i] == '--group':
            only_group = argv[i + 1]
            i += 2
        elif argv[i] == '--unit':
            only_unit = argv[i + 1]
            i += 2
        else:
            i += 1
    return check_property(pid, tier, only_group, only_unit)
