"""Mechanical C++ -> C extraction of function bodies from /repo (DESIGN.md section 3.1).

Nothing in here knows a particular function: a spec names (file, signature regex,
occurrence), the body is found by brace matching and rewritten by one global,
ordered table of token-level rules plus the spec's *call abstractions*
(regex -> event stub).  Anything the table cannot express is left in the output
and trips the residual-token scan, which is an extraction error (exit 2), never
a verdict about the property.
"""
import hashlib
import os
import re


class ExtractionError(Exception):
    pass


# --------------------------------------------------------------------------
# lexical helpers
# --------------------------------------------------------------------------

def strip_comments(s):
    """Remove // and /* */ comments, keep newlines (line numbers stay valid),
    keep string and char literals intact."""
    out = []
    i = 0
    n = len(s)
    while i < n:
        if s.startswith('//', i):
            j = s.find('\n', i)
            j = n if j < 0 else j
            i = j
        elif s.startswith('/*', i):
            j = s.find('*/', i)
            j = n if j < 0 else j + 2
            out.append('\n' * s.count('\n', i, j))
            i = j
        elif s[i] == '"' or (s[i] == "'" and not (i > 0 and s[i - 1].isalnum())):
            q = s[i]
            j = i + 1
            while j < n and s[j] != q:
                j += 2 if s[j] == '\\' else 1
            out.append(s[i:j + 1])
            i = j + 1
        else:
            out.append(s[i])
            i += 1
    return ''.join(out)


def match_close(s, i, o='{', c='}'):
    """s[i] == o; return index of the matching c (string/char aware)."""
    assert s[i] == o, (s[i:i + 20], o)
    d = 0
    n = len(s)
    while i < n:
        ch = s[i]
        if ch == '"' or (ch == "'" and not (i > 0 and s[i - 1].isalnum())):
            j = i + 1
            while j < n and s[j] != ch:
                j += 2 if s[j] == '\\' else 1
            i = j + 1
            continue
        if ch == o:
            d += 1
        elif ch == c:
            d -= 1
            if d == 0:
                return i
        i += 1
    raise ExtractionError('unbalanced %s%s' % (o, c))


def split_args(a):
    out = []
    d = 0
    cur = ''
    for ch in a:
        if ch in '([{':
            d += 1
        if ch in ')]}':
            d -= 1
        if ch == ',' and d == 0:
            out.append(cur.strip())
            cur = ''
        else:
            cur += ch
    if cur.strip():
        out.append(cur.strip())
    return out


_SRC_CACHE = {}


def load_source(repo, rel):
    path = os.path.join(repo, rel)
    key = path
    st = os.stat(path)
    ent = _SRC_CACHE.get(key)
    if ent and ent[0] == st.st_mtime_ns:
        return ent[1]
    with open(path) as f:
        s = strip_comments(f.read())
    _SRC_CACHE[key] = (st.st_mtime_ns, s)
    return s


# --------------------------------------------------------------------------
# locating
# --------------------------------------------------------------------------

def locate(repo, rel, sig, occ=0, within=None, kind='body'):
    """Find the brace-matched block following the occ-th match of regex `sig`.
    `within`: optional (sig, occ) of an enclosing block to restrict the search
    (class body or enclosing function).  Returns dict(text, line0, line1, sha)."""
    s = load_source(repo, rel)
    lo, hi = 0, len(s)
    if within:
        chain = within if isinstance(within, list) else [within]
        for w in chain:
            wsig, wocc = (w, 0) if isinstance(w, str) else w
            ms = [m for m in re.finditer(wsig, s[lo:hi])]
            if len(ms) <= wocc:
                raise ExtractionError('%s: enclosing anchor /%s/ #%d not found' % (rel, wsig, wocc))
            b = s.index('{', lo + ms[wocc].end() - 1)
            e = match_close(s, b)
            lo, hi = b, e + 1
    ms = [m for m in re.finditer(sig, s[lo:hi])]
    if len(ms) <= occ:
        raise ExtractionError('%s: anchor /%s/ #%d not found' % (rel, sig, occ))
    m = ms[occ]
    start = lo + m.start()
    if kind == 'expr':
        # the regex itself delimits the text: group 1
        text = m.group(1)
        line0 = s.count('\n', 0, lo + m.start(1)) + 1
        return dict(text=text, line0=line0, line1=line0 + text.count('\n'),
                    sha=hashlib.sha256(text.encode()).hexdigest(), file=rel)
    # skip a constructor's mem-initialiser list / trailing return: first '{'
    # at paren depth 0 after the match
    i = lo + m.end()
    # allow the regex to end just before or at the '{'
    if s[i - 1] == '{':
        i -= 1
    d = 0
    while i < hi:
        ch = s[i]
        if ch in '([':
            d += 1
        elif ch in ')]':
            d -= 1
        elif ch == '{' and d == 0:
            # brace-initialiser in a mem-init list looks like  name{...}  :
            # preceded by an identifier char.  A function body is preceded
            # by ')' / keyword / '>' ...
            j = i - 1
            while j >= 0 and s[j].isspace():
                j -= 1
            if s[j].isalnum() or s[j] == '_':
                word_end = j + 1
                k = j
                while k >= 0 and (s[k].isalnum() or s[k] == '_'):
                    k -= 1
                word = s[k + 1:word_end]
                if word not in ('noexcept', 'const', 'override', 'final', 'try', 'else', 'do', 'mutable'):
                    # member brace-init: skip it
                    i = match_close(s, i) + 1
                    continue
            break
        elif ch == ';' and d == 0:
            raise ExtractionError('%s: anchor /%s/ is a declaration, not a definition' % (rel, sig))
        i += 1
    b = i
    e = match_close(s, b)
    text = s[b:e + 1]
    line0 = s.count('\n', 0, start) + 1
    line1 = s.count('\n', 0, e) + 1
    return dict(text=text, sig=s[start:b], line0=line0, line1=line1,
                sha=hashlib.sha256((s[start:b] + text).encode()).hexdigest(), file=rel)


# --------------------------------------------------------------------------
# the global rewrite table
# --------------------------------------------------------------------------

RECV = r'(?P<recv>(?:\(\*[A-Za-z_]\w*\)|\*?[A-Za-z_]\w*)(?:(?:->|\.)\w+|\[[^\]]*\])*)'

ATOMIC_OPS = {
    'load': 'VF_LOAD', 'store': 'VF_STORE', 'exchange': 'VF_XCHG',
    'fetch_add': 'VF_FETCH_ADD', 'fetch_sub': 'VF_FETCH_SUB',
    'fetch_or': 'VF_FETCH_OR', 'fetch_and': 'VF_FETCH_AND',
    'compare_exchange_weak': 'VF_CAS_WEAK', 'compare_exchange_strong': 'VF_CAS_STRONG',
}


def rewrite_atomics(body, atomic_members=None):
    """X.op(args) / X->op(args)  ->  VF_OP(&(X), args [, VF_MO_seq_cst])."""
    pat = re.compile(RECV + r'\s*(?P<sep>\.|->)\s*(?P<op>' + '|'.join(ATOMIC_OPS) + r')\s*\(')
    pos = 0
    while True:
        m = pat.search(body, pos)
        if not m:
            return body
        recv = m.group('recv')
        if atomic_members is not None:
            last = re.split(r'->|\.', recv)[-1]
            last = re.sub(r'\[.*', '', last).lstrip('*(').rstrip(')')
            if last not in atomic_members:
                pos = m.end()
                continue
        p = m.end() - 1
        e = match_close(body, p, '(', ')')
        args = split_args(body[p + 1:e])
        op = m.group('op')
        if op.startswith('compare_exchange'):
            args[0] = '&(' + args[0] + ')'
        tgt = '&(' + recv + ')' if m.group('sep') == '.' else '(' + recv + ')'
        new = ATOMIC_OPS[op] + '(' + tgt + ''.join(', ' + a for a in args) + ')'
        body = body[:m.start()] + new + body[e + 1:]
        pos = m.start() + len(ATOMIC_OPS[op])


def rewrite_casts(b, typemap):
    pat = re.compile(r'\b(static_cast|reinterpret_cast|const_cast)\s*<')
    while True:
        m = pat.search(b)
        if not m:
            return b
        lt = m.end() - 1
        gt = match_close(b, lt, '<', '>')
        ty = b[lt + 1:gt].strip()
        ty = map_type(ty, typemap)
        p = b.index('(', gt)
        e = match_close(b, p, '(', ')')
        b = b[:m.start()] + '((' + ty + ')(' + b[p + 1:e] + '))' + b[e + 1:]


BASE_TYPEMAP = [
    (r'\bstd::size_t\b', 'size_t'), (r'\bstd::uintptr_t\b', 'uintptr_t'),
    (r'\bstd::intptr_t\b', 'intptr_t'), (r'\bstd::ptrdiff_t\b', 'ptrdiff_t'),
    (r'\bstd::uint8_t\b', 'uint8_t'), (r'\bstd::uint16_t\b', 'uint16_t'),
    (r'\bstd::uint32_t\b', 'uint32_t'), (r'\bstd::uint64_t\b', 'uint64_t'),
    (r'\bstd::int8_t\b', 'int8_t'), (r'\bstd::int16_t\b', 'int16_t'),
    (r'\bstd::int32_t\b', 'int32_t'), (r'\bstd::int64_t\b', 'int64_t'),
    (r'\bbool\b', '_Bool'),
]


def map_type(ty, typemap):
    for pat, rep in list(typemap) + BASE_TYPEMAP:
        ty = re.sub(pat, rep, ty)
    return ty


def rewrite_if_decl(b):
    """if (auto x = e; c) S  ->  { __auto_type x = e; if (c) S }   (S brace block, optional else)
       if (auto* p = e) S    ->  { __auto_type p = e; if (p) S }"""
    pat = re.compile(r'\bif\s*\(\s*((?:const\s+)?(?:auto\s*\*?|__auto_type)\s*(\w+)\s*=)')
    while True:
        m = pat.search(b)
        if not m:
            return b
        p = b.index('(', m.start())
        e = match_close(b, p, '(', ')')
        inner = b[p + 1:e]
        # split at top-level ';'
        d = 0
        semi = -1
        for k, ch in enumerate(inner):
            if ch in '([{':
                d += 1
            elif ch in ')]}':
                d -= 1
            elif ch == ';' and d == 0:
                semi = k
                break
        name = m.group(2)
        if semi >= 0:
            decl, cond = inner[:semi], inner[semi + 1:]
        else:
            decl, cond = inner, name
        # statement after the if
        j = e + 1
        while b[j].isspace():
            j += 1
        if b[j] != '{':
            raise ExtractionError('if-with-declaration needs a braced statement')
        end = match_close(b, j)
        k = end + 1
        while k < len(b) and b[k].isspace():
            k += 1
        while b.startswith('else', k):
            k += 4
            while b[k].isspace():
                k += 1
            if b.startswith('if', k):
                pp = b.index('(', k)
                ee = match_close(b, pp, '(', ')')
                k = ee + 1
                while b[k].isspace():
                    k += 1
            if b[k] != '{':
                raise ExtractionError('else after if-with-declaration needs braces')
            end = match_close(b, k)
            k = end + 1
            while k < len(b) and b[k].isspace():
                k += 1
        b = b[:m.start()] + '{ ' + decl.strip() + '; if (' + cond.strip() + ') ' + b[e + 1:end + 1] + ' }' + b[end + 1:]


def rewrite_refs(b):
    """auto& r = E;  ->  __auto_type r_p = &(E);  and later uses of r -> (*r_p)
    within the rest of the enclosing text (bodies here are small; a name is
    bound once)."""
    pat = re.compile(r'\b(?:const\s+)?(?:auto|__auto_type|[A-Za-z_][\w:]*(?:<[^;=<>]*>)?)\s*&\s*(\w+)\s*=\s*')
    pos = 0
    while True:
        m = pat.search(b, pos)
        if not m:
            return b
        # make sure this is a declaration statement: preceded by ; { } or start
        j = m.start() - 1
        while j >= 0 and b[j].isspace():
            j -= 1
        if j >= 0 and b[j] not in ';{}':
            pos = m.end()
            continue
        name = m.group(1)
        semi = b.index(';', m.end())
        # allow ; inside parens? initialisers here are single expressions
        expr = b[m.end():semi]
        head = b[:m.start()] + '__auto_type ' + name + '_p = &(' + expr.strip() + ');'
        tail = b[semi + 1:]
        tail = re.sub(r'(?<![\w.>])' + name + r'\b', '(*' + name + '_p)', tail)
        b = head + tail
        pos = len(head)


def loops_in(b):
    """[(kind, kw_start, header_end, body_start, body_end, stmt_end)] for the
    loops of b in source order.  do-while: header_end = position after 'do'."""
    out = []
    for m in re.finditer(r'\b(while|for|do)\b', b):
        kw = m.group(1)
        i = m.end()
        if kw == 'do':
            j = i
            while b[j].isspace():
                j += 1
            if b[j] != '{':
                raise ExtractionError('do without braces')
            e = match_close(b, j)
            # trailing while(...) ;
            k = e + 1
            while b[k].isspace():
                k += 1
            assert b.startswith('while', k)
            p = b.index('(', k)
            pe = match_close(b, p, '(', ')')
            semi = b.index(';', pe)
            out.append(dict(kind='do', kw=m.start(), hdr_end=i, body=(j, e), cond=(p, pe), end=semi + 1))
        else:
            j = i
            while b[j].isspace():
                j += 1
            if b[j] != '(':
                continue
            pe = match_close(b, j, '(', ')')
            k = pe + 1
            while b[k].isspace():
                k += 1
            if kw == 'while' and b[k] == ';':
                # tail of a do-while
                continue
            if b[k] != '{':
                raise ExtractionError('%s loop body without braces' % kw)
            e = match_close(b, k)
            out.append(dict(kind=kw, kw=m.start(), hdr_end=pe + 1, body=(k, e), cond=(j, pe), end=e + 1))
    return out


def splice_loop_contracts(b, contracts):
    """contracts: {ordinal: text}.  Inserted between loop header and body."""
    if not contracts:
        return b
    ls = loops_in(b)
    for ordn in sorted(contracts, reverse=True):
        if ordn >= len(ls):
            raise ExtractionError('loop ordinal %d not found (function has %d loops)' % (ordn, len(ls)))
        l = ls[ordn]
        at = l['hdr_end']
        b = b[:at] + '\n' + contracts[ordn].strip() + '\n' + b[at:]
    return b


def outline_loop(b, ordn, stubcall):
    """Cut-point split: replace the ordn-th loop statement by `stubcall` and
    return (new_text, cond_text, body_text) where body_text has break /
    continue / return rewritten to exit codes (only those that belong to this
    loop, i.e. not inside a nested loop or switch for break/continue)."""
    ls = loops_in(b)
    if ordn >= len(ls):
        raise ExtractionError('loop ordinal %d not found' % ordn)
    l = ls[ordn]
    bs, be = l['body']
    body = b[bs:be + 1]
    cond = b[l['cond'][0] + 1:l['cond'][1]]
    # nested loop/switch spans inside body (relative)
    nested = []
    for n in loops_in(body):
        nested.append((n['kw'], n['end']))
    for m in re.finditer(r'\bswitch\b', body):
        p = body.index('(', m.end())
        pe = match_close(body, p, '(', ')')
        k = body.index('{', pe)
        nested.append((m.start(), match_close(body, k) + 1))

    def in_nested(pos):
        return any(a <= pos < z for a, z in nested)

    out = []
    i = 0
    for m in re.finditer(r'\b(break|continue)\s*;|\breturn\b([^;]*);', body):
        if m.group(1):
            if in_nested(m.start()):
                continue
            out.append(body[i:m.start()])
            out.append('return VF_X_%s;' % m.group(1).upper())
        else:
            out.append(body[i:m.start()])
            val = m.group(2).strip()
            if val:
                out.append('{ VF_SET_RET(%s); return VF_X_RETURN; }' % val)
            else:
                out.append('return VF_X_RETURN;')
        i = m.end()
    out.append(body[i:])
    body2 = ''.join(out)
    # fall off the end = continue
    body2 = body2[:body2.rindex('}')] + ' return VF_X_CONTINUE; }'
    new = b[:l['kw']] + stubcall + b[l['end']:]
    return new, cond, body2



LOCK_DECL = re.compile(r'\bstd::(unique_lock|lock_guard|scoped_lock)(?:<[^<>;]*>)?\s+(\w+)\s*[\{\(]\s*([^,{}();]+?)\s*'
                       r'(?:,\s*std::(try_to_lock|defer_lock|adopt_lock))?\s*[\}\)]\s*;')


def _enclosing_block_end(b, pos):
    """index of the '}' closing the innermost block that contains position pos"""
    d = 0
    i = pos
    n = len(b)
    while i < n:
        ch = b[i]
        if ch == '"' or (ch == "'" and not (i > 0 and b[i - 1].isalnum())):
            j = i + 1
            while j < n and b[j] != ch:
                j += 2 if b[j] == '\\' else 1
            i = j + 1
            continue
        if ch == '{':
            d += 1
        elif ch == '}':
            if d == 0:
                return i
            d -= 1
        i += 1
    raise ExtractionError('lock declaration outside any block')


def _wrap_scope_exit(blk, exit_stmt):
    """insert exit_stmt before every return of blk (value computed first) -- blk is the text from the
    declaration to the end of its enclosing block"""
    out = []
    i = 0
    for r in re.finditer(r'\breturn\b([^;]*);', blk):
        out.append(blk[i:r.start()])
        val = r.group(1).strip()
        if val:
            out.append('{ __typeof__(%s) vf_rv = (%s); %s return vf_rv; }' % (val, val, exit_stmt))
        else:
            out.append('{ %s return; }' % exit_stmt)
        i = r.end()
    out.append(blk[i:])
    return ''.join(out)


def rewrite_raii(b, raii):
    """raii: {TypeName: (ctor_macro, dtor_macro)}.  `TypeName x;` -> `struct TypeName x; CTOR(&x);` and DTOR(&x) at every
    exit of the declaring block (destructor placement made explicit)."""
    for ty, (ctor, dtor) in (raii or {}).items():
        pat = re.compile(r'(?<![\w:.>])' + ty + r'\s+(\w+)\s*;')
        pos = 0
        while True:
            m = pat.search(b, pos)
            if not m:
                break
            j = m.start() - 1
            while j >= 0 and b[j].isspace():
                j -= 1
            if j >= 0 and b[j] not in ';{}':
                pos = m.end()
                continue
            name = m.group(1)
            end = _enclosing_block_end(b, m.end())
            exit_stmt = '%s(&%s);' % (dtor, name)
            decl = 'struct %s %s; %s(&%s);' % (ty, name, ctor, name)
            blk = _wrap_scope_exit(b[m.end():end], exit_stmt)
            b = b[:m.start()] + decl + blk + ' ' + exit_stmt + ' ' + b[end:]
            pos = m.start() + len(decl)
    return b


def rewrite_locks(b):
    """std::unique_lock l{m}; / std::lock_guard l{m}; [, std::try_to_lock]  ->  VF_ACQUIRE(&(m)); / VF_TRY_ACQUIRE(&(m));
    l.unlock() / l.lock() / cv.wait(l) / !l  ->  VF_RELEASE / VF_ACQUIRE / VF_CV_WAIT / !VF_HELD ;
    RAII unlock made explicit: VF_SCOPE_EXIT(&(m)) before every return inside the declaring block and at its end
    (DESIGN.md section 3.1).  cv.notify_one()/notify_all() -> VF_NOTIFY_ONE/ALL(&(cv))."""
    while True:
        m = LOCK_DECL.search(b)
        if not m:
            break
        name, mx, opt = m.group(2), m.group(3).strip(), m.group(4)
        M = '&(' + mx + ')'
        if opt == 'try_to_lock':
            decl = 'VF_TRY_ACQUIRE(%s);' % M
        elif opt == 'defer_lock':
            decl = ';'
        elif opt == 'adopt_lock':
            decl = 'VF_ADOPT(%s);' % M
        else:
            decl = 'VF_ACQUIRE(%s);' % M
        end = _enclosing_block_end(b, m.end())
        head, blk, tail = b[:m.start()], b[m.end():end], b[end:]
        blk = re.sub(r'(?<![\w.>])' + name + r'\s*\.\s*unlock\s*\(\s*\)', 'VF_RELEASE(%s)' % M, blk)
        blk = re.sub(r'(?<![\w.>])' + name + r'\s*\.\s*lock\s*\(\s*\)', 'VF_ACQUIRE(%s)' % M, blk)
        blk = re.sub(r'(?<![\w.>])' + name + r'\s*\.\s*owns_lock\s*\(\s*\)', 'VF_HELD(%s)' % M, blk)
        # predicate wait: cv.wait(l, [..]{ return P; })  ==  while (!(P)) cv.wait(l);
        blk = re.sub(r'([\w.>-]+)\s*\.\s*wait\s*\(\s*' + name + r'\s*,\s*\[[^\]]*\]\s*(?:\(\s*\))?\s*(?:noexcept\s*)?\{\s*return\s+([^;{}]*);\s*\}\s*\)',
                     lambda m: 'while (!(%s)) { VF_CV_WAIT(&(%s), %s); }' % (m.group(2), m.group(1), M), blk)
        blk = re.sub(r'([\w.>-]+)\s*\.\s*wait\s*\(\s*' + name + r'\s*\)', r'VF_CV_WAIT(&(\1), %s)' % M, blk)
        blk = re.sub(r'([\w.>-]+)\s*\.\s*wait_until\s*\(\s*' + name + r'\s*,', r'VF_CV_WAIT_UNTIL(&(\1), %s,' % M, blk)
        blk = re.sub(r'([\w.>-]+)\s*\.\s*wait_for\s*\(\s*' + name + r'\s*,', r'VF_CV_WAIT_FOR(&(\1), %s,' % M, blk)
        blk = re.sub(r'(?<![\w.>])' + name + r'\b(?!\s*[.(\w])', 'VF_HELD(%s)' % M, blk)
        # explicit RAII release at every return of the declaring block
        out = []
        i = 0
        for r in re.finditer(r'\breturn\b([^;]*);', blk):
            out.append(blk[i:r.start()])
            val = r.group(1).strip()
            if val:
                out.append('{ __typeof__(%s) vf_rv = (%s); VF_SCOPE_EXIT(%s); return vf_rv; }' % (val, val, M))
            else:
                out.append('{ VF_SCOPE_EXIT(%s); return; }' % M)
            i = r.end()
        out.append(blk[i:])
        blk = ''.join(out)
        b = head + decl + blk + ' VF_SCOPE_EXIT(%s); ' % M + tail
    b = re.sub(r'([\w.>-]+)\s*\.\s*notify_one\s*\(\s*\)', r'VF_NOTIFY_ONE(&(\1))', b)
    b = re.sub(r'([\w.>-]+)\s*\.\s*notify_all\s*\(\s*\)', r'VF_NOTIFY_ALL(&(\1))', b)
    return b


RESIDUAL = [
    (r'::', 'scope operator'),
    (r'\btemplate\b', 'template'),
    (r'\boperator\b', 'operator'),
    (r'\bnew\b', 'new'),
    (r'\bdelete\b', 'delete'),
    (r'\bthrow\b', 'throw'),
    (r'\btry\b', 'try'),
    (r'\bcatch\b', 'catch'),
    (r'\bUNIFEX_TRY\b', 'UNIFEX_TRY'),
    (r'\bUNIFEX_CATCH\b', 'UNIFEX_CATCH'),
    (r'\bconstexpr\b', 'constexpr'),
    (r'\bdecltype\b', 'decltype'),
    (r'\bauto\b', 'auto'),
    (r'\bnullptr\b', 'nullptr'),
    (r'\bthis\b', 'this'),
    (r'\[\s*[&=\w,\s]*\]\s*\(', 'lambda'),
    (r'(?<=[\w>])&&\s*\w+\s*(?:=(?!=)|;|,|\))', 'rvalue reference'),
    (r'\w\s*<[^<>;(){}|&]*>\s*[({]', 'template-id'),
    (r'\bstd\b', 'std'),
    (r'->\*', 'pointer to member'),
    (r'\busing\b', 'using'),
]


def rewrite(body, ctx):
    """ctx keys (all optional):
       cls          C struct name used as prefix for sibling methods
       self         expression for the object ('self')
       members      data members of the class (bare name -> self->name)
       methods      sibling member functions called without object
       atomic       names of atomic members (restrict atomic rewriting), or None = any
       pre          [(regex, repl)] call abstractions applied on the C++ text
       post         [(regex, repl)] applied at the end
       typemap      [(regex, repl)] type names
       enums        {EnumName: prefix}   Enum::x -> prefix_x
       ptrmem       {Next: field}        p->*Next -> p->field
       scalars      [type names]  T x{e}; / T(e) functional casts
       obj_methods  {method: Cname}  obj->method(a) / obj.method(a) -> Cname(obj|&obj, a)
       raii         {Type: (CTOR, DTOR)}  local `Type x;` -> `struct Type x; CTOR(&x);` + DTOR(&x) at every exit of its block
    """
    b = body
    self_ = ctx.get('self', 'self')
    for pat, rep in ctx.get('pre', []):
        b, n = re.subn(pat, rep, b)
    # drop attributes / specifiers
    b = re.sub(r'\[\[\s*(?:maybe_unused|nodiscard|fallthrough|likely|unlikely)\s*\]\]\s*;?', '', b)
    b = re.sub(r'\bnoexcept\b(?!\s*\()', '', b)
    b = re.sub(r'^[ \t]*#\s*pragma[^\n]*$', '', b, flags=re.M)
    # preprocessor conditionals that (after dropping pragmas/comments) guard nothing
    b = re.sub(r'^[ \t]*#\s*if[^\n]*\n(?:\s*#\s*el(?:if|se)[^\n]*\n|\s*\n)*\s*#\s*endif[^\n]*$', '', b, flags=re.M)
    b = rewrite_locks(b)
    b = rewrite_raii(b, ctx.get('raii'))
    for name, field in ctx.get('ptrmem', {}).items():
        b = re.sub(r'->\*\s*' + name + r'\b', '->' + field, b)
        b = re.sub(r'\.\*\s*' + name + r'\b', '.' + field, b)
    b = rewrite_atomics(b, ctx.get('atomic'))
    b = re.sub(r'std::atomic_thread_fence\(', 'VF_FENCE(', b)
    b = re.sub(r'std::memory_order(?:_|::)(\w+)', r'VF_MO_\1', b)
    b = re.sub(r'\bmemory_order_(\w+)', r'VF_MO_\1', b)
    b = rewrite_casts(b, ctx.get('typemap', []))
    b = re.sub(r'\bstd::launder\s*\(', '(', b)
    b = re.sub(r'\bstd::exchange\s*\(', 'VF_EXCHANGE(', b)
    b = re.sub(r'\bstd::swap\s*\(', 'VF_SWAP(', b)
    b = re.sub(r'\bstd::min\s*\(', 'VF_MIN(', b)
    b = re.sub(r'\bstd::max\s*\(', 'VF_MAX(', b)
    b = re.sub(r'\bstd::move\s*\(', '(', b)
    b = re.sub(r'\bstd::terminate\s*\(\s*\)', 'VF_terminate()', b)
    b = re.sub(r'\bstd::this_thread::get_id\s*\(\s*\)', 'VF_this_thread_id()', b)
    b = re.sub(r'\bstd::this_thread::yield\s*\(\s*\)', 'VF_yield()', b)
    b = re.sub(r'\bUNIFEX_ASSERT\s*\(', 'VF_ASSERT(', b)
    b = re.sub(r'\bassert\s*\(', 'VF_ASSERT(', b)
    b = re.sub(r'\bif\s+constexpr\b', 'if', b)
    b = re.sub(r'\bconstexpr\b', '', b)
    for en, pre in ctx.get('enums', {}).items():
        b = re.sub(r'\b' + en + r'::(\w+)', pre + r'_\1', b)
    b = re.sub(r'\bnullptr\b', 'NULL', b)
    b = re.sub(r'\btrue\b', '1', b)
    b = re.sub(r'\bfalse\b', '0', b)
    b = re.sub(r'\b(?:const\s+)?auto\s*\*\s*(?:const\s+)?', '__auto_type ', b)
    b = rewrite_if_decl(b)
    b = rewrite_refs(b)
    b = re.sub(r'\b(?:const\s+)?auto\b(?!\s*&)', '__auto_type', b)
    b = map_type(b, ctx.get('typemap', []))
    # brace / paren initialised scalar locals and functional casts
    for t in ctx.get('scalars', []):
        b = re.sub(r'\b(' + t + r')\s+(\w+)\s*\{([^{};]*)\}\s*;', r'\1 \2 = (\3);', b)
        b = re.sub(r'\b(' + t + r')\s+(\w+)\s*\(([^(){};]*)\)\s*;', r'\1 \2 = (\3);', b)
        b = re.sub(r'(?<![\w>.])' + t + r'\s*\(([^()]*)\)', r'((' + t + r')(\1))', b)
    b = re.sub(r'\b((?:struct\s+)?[A-Za-z_]\w*\s*\*?)\s+(\w+)\s*\{\s*([^{};]*?)\s*\}\s*;', lambda m: m.group(0) if m.group(1).strip() in ('return', 'else', 'do', 'struct') else '%s %s = (%s);' % (m.group(1), m.group(2), m.group(3) or '0'), b)
    # object methods: obj->m(a) / obj.m(a)
    for me, cname in ctx.get('obj_methods', {}).items():
        pat = re.compile(RECV + r'\s*(?P<sep>\.|->)\s*' + me + r'\s*\(')
        while True:
            m = pat.search(b)
            if not m:
                break
            p = m.end() - 1
            e = match_close(b, p, '(', ')')
            args = b[p + 1:e].strip()
            recv = m.group('recv')
            obj = recv if m.group('sep') == '->' else '&' + recv
            b = b[:m.start()] + cname + '(' + obj + (', ' + args if args else '') + ')' + b[e + 1:]
    cls = ctx.get('cls', '')
    for me in ctx.get('methods', []):
        b = re.sub(r'(?<![\w.>:])' + me + r'\s*\(\s*\)', cls + '_' + me + '(' + self_ + ')', b)
        b = re.sub(r'(?<![\w.>:])' + me + r'\s*\(', cls + '_' + me + '(' + self_ + ', ', b)
    for mem in ctx.get('members', []):
        b = re.sub(r'(?<![\w.>])' + mem + r'\b', self_ + '->' + mem, b)
    b = re.sub(r'\bthis\b', self_, b)
    for pat, rep in ctx.get('post', []):
        b = re.sub(pat, rep, b)
    b = fix_auto_stmt_expr(b)
    return b


def fix_auto_stmt_expr(b):
    """goto-cc rejects `__auto_type x = ({ T t = ..; .. })` (it converts the
    initialiser twice).  The atomic macros are statement expressions, so give the
    declared variable the type of the accessed location instead."""
    pat = re.compile(r'__auto_type(\s+\w+\s*=\s*)(VF_LOAD|VF_XCHG|VF_FETCH_ADD|VF_FETCH_SUB|VF_FETCH_OR|VF_FETCH_AND|VF_EXCHANGE|VF_MIN|VF_MAX|VF_CAS_WEAK|VF_CAS_STRONG)\s*\(')
    pos = 0
    while True:
        m = pat.search(b, pos)
        if not m:
            return b
        p = m.end() - 1
        e = match_close(b, p, '(', ')')
        arg0 = split_args(b[p + 1:e])[0]
        mac = m.group(2)
        if mac.startswith('VF_CAS'):
            ty = '_Bool'
        elif mac in ('VF_EXCHANGE', 'VF_MIN', 'VF_MAX'):
            ty = '__typeof__(%s)' % arg0
        else:
            ty = '__typeof__(*(%s))' % arg0
        b = b[:m.start()] + ty + b[m.start() + len('__auto_type'):]
        pos = m.start() + len(ty)


def residual_scan(b, what):
    # ignore string literals
    t = re.sub(r'"(?:\\.|[^"\\])*"', '""', b)
    for pat, name in RESIDUAL:
        m = re.search(pat, t)
        if m:
            line = t.count('\n', 0, m.start()) + 1
            raise ExtractionError('%s: residual C++ (%s) near `%s` (line %d of the span)' % (
                what, name, t[max(0, m.start() - 30):m.end() + 30].replace('\n', ' '), line))
