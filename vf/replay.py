"""Replay of a verifier counterexample (DESIGN.md section 8.3, route R2): the generated C
(= the text extracted from /repo) is compiled natively with gcc, the nondeterministic
choices and environment steps are fed from the CBMC trace, contract clauses are
evaluated at run time.  R1 drivers (real C++ object code) are per group:
specs/<group>/replay.cpp, used when the spec names one."""
import hashlib
import json
import os
import re
import subprocess
import time

from . import runner
from .cxx2c import match_close, split_args

VERIF = runner.VERIF


def _implies(text):
    """rewrite CBMC's `a ==> b` into C, innermost parentheses first"""
    guard = 0
    while '==>' in text and guard < 10000:
        guard += 1
        i = text.index('==>')
        # enclosing parenthesis of position i
        d = 0
        lo = -1
        for k in range(i - 1, -1, -1):
            ch = text[k]
            if ch == ')':
                d += 1
            elif ch == '(':
                if d == 0:
                    lo = k
                    break
                d -= 1
        if lo < 0:
            break
        hi = match_close(text, lo, '(', ')')
        inner = text[lo + 1:hi]
        # if there is a deeper group containing ==>, the first occurrence search handles it
        # because index() finds the leftmost; make sure the leftmost is innermost-first by recursion
        parts = []
        d = 0
        cur = ''
        k = 0
        # split by top-level commas
        args = []
        while k < len(inner):
            ch = inner[k]
            if ch in '([{':
                d += 1
            elif ch in ')]}':
                d -= 1
            if ch == ',' and d == 0:
                args.append(cur)
                cur = ''
            else:
                cur += ch
            k += 1
        args.append(cur)
        new_args = []
        for a in args:
            # split by top-level ==>
            segs = []
            d = 0
            cur = ''
            k = 0
            while k < len(a):
                if a.startswith('==>', k) and d == 0:
                    segs.append(cur)
                    cur = ''
                    k += 3
                    continue
                ch = a[k]
                if ch in '([{':
                    d += 1
                elif ch in ')]}':
                    d -= 1
                cur += ch
                k += 1
            segs.append(cur)
            if len(segs) > 1:
                e = segs[-1]
                for s in reversed(segs[:-1]):
                    e = '(!(%s) || (%s))' % (s.strip(), e.strip())
                new_args.append(e)
            else:
                new_args.append(a)
        text = text[:lo + 1] + ','.join(new_args) + text[hi:]
    return text


def _contract_of(text, fname):
    """find `RET fname(params) <clauses> {` ; -> (start, ret, params, [ensures], body_start)"""
    for m in re.finditer(r'^([A-Za-z_][\w \t\*]*?)\b' + re.escape(fname) + r'\s*\(', text, flags=re.M):
        p = m.end() - 1
        e = match_close(text, p, '(', ')')
        rest = text[e + 1:]
        mm = re.match(r'\s*__CPROVER_(?:requires|ensures|assigns)\s*\(', rest)
        if not mm:
            continue
        k = e + 1
        ens = []
        while True:
            m2 = re.match(r'\s*(?:/\*(?:(?!\*/).)*\*/\s*)*__CPROVER_(requires|ensures|assigns)\s*\(', text[k:], flags=re.S)
            if not m2:
                break
            pp = k + m2.end() - 1
            ee = match_close(text, pp, '(', ')')
            if m2.group(1) == 'ensures':
                ens.append(text[pp + 1:ee])
            k = ee + 1
        return m.start(), m.group(1).strip(), text[p + 1:e], ens, k
    return None


def native_source(ctext, unit):
    """generated C + f__checked wrapper + main"""
    text = ctext
    wrapper = ''
    fn = unit.get('enforce')
    if fn:
        c = _contract_of(text, fn)
        if c:
            start, ret, params, ens, _ = c
            names = []
            for prm in split_args(params):
                if prm.strip() == 'void' or not prm.strip():
                    continue
                names.append(re.findall(r'(\w+)\s*(?:\[\s*\])?$', prm.strip())[0])
            olds = []
            checks = []
            # object-like macros whose body mentions __CPROVER_old are expanded textually first
            omac = dict(re.findall(r'^#define[ \t]+(\w+)[ \t]+(.*__CPROVER_old.*)$', text, flags=re.M))
            for e in ens:
                e2 = e
                for mn, mb in omac.items():
                    e2 = re.sub(r'\b' + mn + r'\b', '(' + mb.strip() + ')', e2)
                while '__CPROVER_old' in e2:
                    i = e2.index('__CPROVER_old')
                    p = e2.index('(', i)
                    q = match_close(e2, p, '(', ')')
                    ex = e2[p + 1:q]
                    olds.append(ex)
                    e2 = e2[:i] + 'vf_old_%d' % (len(olds) - 1) + e2[q + 1:]
                e2 = e2.replace('__CPROVER_return_value', 'vf_ret')
                checks.append((e, e2))
            w = '\n%s %s__checked(%s) {\n' % (ret, fn, params)
            for i, ex in enumerate(olds):
                w += '  __typeof__(%s) vf_old_%d = (%s);\n' % (ex, i, ex)
            call = '%s(%s)' % (fn, ', '.join(names))
            if ret.replace('static', '').strip() == 'void':
                w += '  %s;\n' % call
            else:
                w += '  %s vf_ret = %s;\n' % (ret.replace('static', '').strip(), call)
            for e, e2 in checks:
                msg = 'postcondition of %s: %s' % (fn, ' '.join(e.split()).replace('==>', 'implies'))
                w += '  __CPROVER_assert((%s), %s);\n' % (e2, json.dumps(msg))
            if ret.replace('static', '').strip() != 'void':
                w += '  return vf_ret;\n'
            w += '}\n'
            wrapper = w
            # harness calls the checked wrapper
            h = unit['harness']
            hm = re.search(r'^void\s+' + re.escape(h) + r'\s*\(void\)\s*\{', text, flags=re.M)
            if hm:
                b = text.index('{', hm.start())
                e = match_close(text, b)
                hb = re.sub(r'\b' + re.escape(fn) + r'\s*\(', fn + '__checked(', text[b:e + 1])
                text = text[:hm.start()] + wrapper + text[hm.start():b] + hb + text[e + 1:]
    text = _implies(text)
    text += '\nint main(void) { %s(); printf("REPLAY-END: harness returned without failing an obligation\\n"); return 0; }\n' % unit['harness']
    return text


def nondet_values(trace):
    vals = []
    for st in trace:
        if st.get('stepType') != 'assignment':
            continue
        fn = (st.get('sourceLocation') or {}).get('function', '')
        if not fn.startswith('VF_nondet_'):
            continue
        lhs = st.get('lhs', '')
        if lhs != 'v':
            continue
        v = st.get('value', {})
        data = v.get('data')
        if data is None:
            continue
        if data in ('TRUE', 'true'):
            data = '1'
        if data in ('FALSE', 'false'):
            data = '0'
        b = v.get('binary')
        if b and re.fullmatch(r'[01]+', b):
            data = str(int(b, 2))
        else:
            data = re.sub(r'[uUlL]+$', '', str(data))
        vals.append((fn, data))
    return vals


def make_replay(pid, spec, r, obs, cfile, lines, spans, outdir, tier):
    """-> (path, reproduced)"""
    rdir = os.path.join(runner.OUT, 'replay', pid)
    os.makedirs(rdir, exist_ok=True)
    u = dict(r['unit'])
    name = r['name']
    first = obs[0]
    slug = re.sub(r'\W+', '_', first['name'])[:60]
    path = os.path.join(rdir, '%s.%s.%s.json' % (spec['name'], name.replace('@', '_'), slug))
    rec = dict(property=pid, group=spec['name'], unit=name, function=u.get('enforce'),
               failed_obligations=[dict(name=o['name'], cbmc_property=o['prop'], line_in_generated_c=o['line']) for o in obs],
               generated_c=cfile, spans=[s for s in spans], tier=tier)
    reproduced = False
    try:
        u['name'] = name.replace('@', '_')
        rt = runner.run_unit(spec, u, cfile, lines, outdir, tier, trace=True)
        tr = None
        for o in rt['obligations']:
            if o['status'] == 'FAILURE' and o['cls'] == 'P' and o['prop'] == first['prop'] and 'trace' in o:
                tr = o['trace']
                break
        if tr is None:
            for o in rt['obligations']:
                if o['status'] == 'FAILURE' and o['cls'] == 'P' and 'trace' in o:
                    tr = o['trace']
                    break
        if tr is not None:
            vals = nondet_values(tr)
            rec['counterexample'] = dict(
                nondet_choices=[dict(source=f, value=v) for f, v in vals],
                assignments=[dict(lhs=s.get('lhs'), value=(s.get('value') or {}).get('data'),
                                  function=(s.get('sourceLocation') or {}).get('function'),
                                  line=(s.get('sourceLocation') or {}).get('line'))
                             for s in tr if s.get('stepType') == 'assignment' and not s.get('hidden')
                             and not str(s.get('lhs', '')).startswith('__')][:400])
            rec['verifier_output'] = 'cbmc property %s FAILURE: %s' % (first['prop'], first['name'])
            # R2 native replay
            with open(cfile) as f:
                ctext = f.read()
            nat = native_source(ctext, r['unit'])
            nfile = os.path.join(outdir, u['name'] + '.native.c')
            with open(nfile, 'w') as f:
                f.write(nat)
            tfile = os.path.join(outdir, u['name'] + '.trace.txt')
            with open(tfile, 'w') as f:
                f.write('\n'.join(v for _, v in vals) + '\n')
            exe = os.path.join(outdir, u['name'] + '.native')
            ndefs = ['-D' + d for d in r['unit'].get('defines', [])]
            cp = subprocess.run(['gcc', '-O0', '-g', '-w', '-DVF_NATIVE'] + ndefs + ['-I', runner.PRELUDE, '-I', spec['dir'], nfile, '-o', exe],
                                stdout=subprocess.PIPE, stderr=subprocess.STDOUT, text=True, timeout=120)
            if cp.returncode != 0:
                rec['native_replay'] = dict(route='R2', status='native build failed', output=cp.stdout[-2000:])
            else:
                rp = subprocess.run([exe], env=dict(os.environ, VF_TRACE=tfile), stdout=subprocess.PIPE, stderr=subprocess.STDOUT,
                                    text=True, timeout=60)
                out = rp.stdout[-3000:]
                reproduced = 'REPLAY-FAIL' in out
                if rp.returncode < 0 and not first['name'].startswith('memory/arithmetic'):
                    out += '\nnative run died with signal %d although the failed obligation is not a memory-safety one: not counted as reproduced\n' % (-rp.returncode)
                elif rp.returncode < 0:
                    reproduced = True
                    out += '\nREPLAY-FAIL: native run of the extracted text died with signal %d (e.g. SIGFPE = 8 division by zero, SIGSEGV = 11)\n' % (-rp.returncode)
                rec['native_replay'] = dict(route='R2 (extracted text compiled with gcc, choices scripted from the trace)',
                                            status='reproduced' if reproduced else 'not reproduced', output=out,
                                            cmd='gcc -DVF_NATIVE %s ; VF_TRACE=%s %s' % (nfile, tfile, exe), defines=r['unit'].get('defines', []))
        else:
            rec['verifier_output'] = 'cbmc reported FAILURE without a trace'
    except runner.Undecided as e:
        rec['verifier_output'] = 'trace run failed: %s' % e
    except Exception as e:  # replay is best effort; the violation stands
        rec['native_replay'] = dict(status='replay machinery error: %r' % (e,))
    # R1: real C++ driver if the group has one
    r1 = spec.get('replay_r1')
    if r1 and not reproduced:
        try:
            ok, out = r1(rec, runner.REPO, outdir)
            rec['native_replay_r1'] = dict(route='R1 (real C++ from /repo)', status='reproduced' if ok else 'not reproduced', output=out[-3000:])
            reproduced = reproduced or ok
        except Exception as e:
            rec['native_replay_r1'] = dict(status='error %r' % (e,))
    rec['reproduced'] = reproduced
    if not reproduced:
        rec['note'] = 'no-failing-input-found: the failed obligation and the verifier output above are the report'
    with open(path, 'w') as f:
        json.dump(rec, f, indent=1)
    return path, reproduced


def run_replay(path):
    with open(path) as f:
        rec = json.load(f)
    print(json.dumps({k: rec[k] for k in ('property', 'group', 'unit', 'function', 'failed_obligations', 'reproduced') if k in rec}, indent=1))
    nr = rec.get('native_replay') or {}
    cmd = nr.get('cmd')
    if cmd and nr.get('status') == 'reproduced':
        parts = cmd.split(' ; ')
        cc = parts[0].split()
        nfile = cc[-1]
        exe = nfile[:-2]
        group = rec['group']
        subprocess.run(['gcc', '-O0', '-g', '-w', '-DVF_NATIVE'] + ['-D' + d for d in nr.get('defines', [])] + ['-I', runner.PRELUDE, '-I', os.path.join(VERIF, 'specs', group), nfile, '-o', exe])
        env, exe2 = parts[1].split()
        rp = subprocess.run([exe2], env=dict(os.environ, VF_TRACE=env.split('=', 1)[1]), stdout=subprocess.PIPE, stderr=subprocess.STDOUT, text=True)
        print(rp.stdout)
        return 1 if 'REPLAY-FAIL' in rp.stdout else 0
    print(rec.get('verifier_output', ''))
    return 1
