"""Generate C from a group spec + /repo, run goto-cc / goto-instrument --dfcc / cbmc,
parse and classify the obligations (DESIGN.md sections 3 and 8)."""
import hashlib
import importlib.util
import json
import os
import re
import resource
import subprocess
import time

from . import cxx2c
from .cxx2c import ExtractionError

VERIF = os.path.dirname(os.path.dirname(os.path.abspath(__file__)))
REPO = os.environ.get('VF_REPO', '/repo')
OUT = os.environ.get('VF_OUT') or os.path.join(VERIF, 'out')
PRELUDE = os.path.join(VERIF, 'prelude')
MEM_LIMIT = 10 * 1024 ** 3

CBMC_FLAGS = ['--bounds-check', '--pointer-check', '--signed-overflow-check',
              '--div-by-zero-check', '--pointer-overflow-check', '--conversion-check',
              '--drop-unused-functions']


class Undecided(Exception):
    """machinery could not decide (exit 2); never a violation"""


def enabled_groups():
    """groups that take part in ./check <PID>, selftest and the manifest: specs/ENABLED, one per line
    (a group under construction is run explicitly with --group)"""
    p = os.path.join(VERIF, 'specs', 'ENABLED')
    with open(p) as f:
        return [l.strip() for l in f if l.strip() and not l.startswith('#')]


def load_spec(group):
    path = os.path.join(VERIF, 'specs', group, 'spec.py')
    sp = importlib.util.spec_from_file_location('spec_' + group, path)
    mod = importlib.util.module_from_spec(sp)
    sp.loader.exec_module(mod)
    spec = mod.SPEC
    spec['name'] = group
    spec['dir'] = os.path.dirname(path)
    return spec


# --------------------------------------------------------------------------
# generation
# --------------------------------------------------------------------------

def _ctx_for(spec, ex):
    ctx = dict(spec.get('ctx', {}))
    for k, v in ex.get('ctx', {}).items():
        if isinstance(v, list) and isinstance(ctx.get(k), list):
            ctx[k] = ctx[k] + v if k not in ('pre',) else v + ctx[k]
        elif isinstance(v, dict) and isinstance(ctx.get(k), dict):
            d = dict(ctx[k])
            d.update(v)
            ctx[k] = d
        else:
            ctx[k] = v
    return ctx


def generate(spec, repo=REPO, no_loop_contracts=False):
    """-> (c_text, spans) ; spans: list of dict(key,file,line0,line1,sha)"""
    pieces = {}
    spans = []
    extracts = spec.get('extracts', {})

    def get(key):
        if key in pieces:
            return pieces[key]
        if key not in extracts:
            raise ExtractionError('template refers to unknown extract %r' % key)
        ex = extracts[key]
        ctx = _ctx_for(spec, ex)
        if 'from_key' in ex:
            raw = get(ex['from_key'] + '#raw')
            text = raw
        else:
            loc = cxx2c.locate(repo, ex['file'], ex['sig'], ex.get('occ', 0), ex.get('within'),
                               kind=ex.get('kind', 'body'))
            spans.append(dict(key=key, file=loc['file'], line0=loc['line0'], line1=loc['line1'], sha=loc['sha']))
            text = loc['text']
            for must in ex.get('must_contain', []):
                if not re.search(must, text):
                    raise ExtractionError('%s: expected /%s/ in the located span (anchor drifted?)' % (key, must))
        if ex.get('kind') == 'expr':
            c = cxx2c.rewrite(text, ctx).strip()
            cxx2c.residual_scan(c, key)
            pieces[key] = c
            return c
        c = cxx2c.rewrite(text, ctx) if 'from_key' not in ex else text
        # outlined loops (cut points): innermost ordinals first is not needed;
        # ordinals refer to the text as it is before any outlining of this key
        outl = ex.get('outline', {})
        for ordn in sorted(outl, reverse=True):
            c, cond, body = cxx2c.outline_loop(c, ordn, outl[ordn])
            pieces['%s.loop%d.cond' % (key, ordn)] = cond.strip()
            pieces['%s.loop%d.body#raw' % (key, ordn)] = body
            pieces['%s.loop%d.body' % (key, ordn)] = body
        if not no_loop_contracts:
            c = cxx2c.splice_loop_contracts(c, ex.get('loops'))
        cxx2c.residual_scan(c, key)
        pieces[key] = c
        pieces[key + '#raw'] = c
        return c

    # make sure outlined parents are generated before their children are asked for
    def resolve(key):
        if key in pieces:
            return pieces[key]
        m = re.match(r'(.*)\.loop\d+\.(?:cond|body)$', key)
        if m and key not in extracts:
            resolve(m.group(1))
            if key in pieces:
                return pieces[key]
        ex = extracts.get(key)
        if ex and 'from_key' in ex:
            resolve(ex['from_key'])
        return get(key)

    with open(os.path.join(spec['dir'], spec.get('template', spec['name'] + '.c'))) as f:
        tmpl = f.read()

    def sub(m):
        key = m.group(2)
        return resolve(key)

    text = re.sub(r'/\*@(BODY|EXPR|LOOPCOND|LOOPBODY) ([\w.#]+)\*/', sub, tmpl)
    # every declared extract must be used (an unused one would be an unverified claim)
    for key in extracts:
        if key not in pieces:
            raise ExtractionError('extract %r is declared but not used by the template' % key)
    return text, spans


def closed_world(spec, repo=REPO):
    """DESIGN 3.4: every occurrence of the protocol's shared members must lie in an
    extracted span or a span the spec classifies.  -> list of problems"""
    probs = []
    for cw in spec.get('closed_world', []):
        s = cxx2c.load_source(repo, cw['file'])
        lo, hi = 0, len(s)
        if cw.get('within'):
            loc_lo = None
            m = list(re.finditer(cw['within'], s))
            if not m:
                probs.append('%s: class anchor /%s/ not found' % (cw['file'], cw['within']))
                continue
            b = s.index('{', m[0].end() - 1)
            lo, hi = b, cxx2c.match_close(s, b) + 1
        allowed = []
        for key, ex in spec.get('extracts', {}).items():
            if ex.get('file') == cw['file'] and ex.get('kind') != 'expr':
                try:
                    loc = cxx2c.locate(repo, ex['file'], ex['sig'], ex.get('occ', 0), ex.get('within'))
                    allowed.append((loc['line0'], loc['line1']))
                except ExtractionError:
                    pass
        for pat in cw.get('allow', []):
            for m in re.finditer(pat, s[lo:hi]):
                l0 = s.count('\n', 0, lo + m.start()) + 1
                l1 = s.count('\n', 0, lo + m.end()) + 1
                allowed.append((l0, l1))
        for name in cw['members']:
            for m in re.finditer(r'(?<![\w])' + name + r'\b', s[lo:hi]):
                line = s.count('\n', 0, lo + m.start()) + 1
                if not any(a <= line <= z for a, z in allowed):
                    probs.append('%s:%d: use of %s outside every extracted/classified span' % (cw['file'], line, name))
    return probs


# --------------------------------------------------------------------------
# running the tools
# --------------------------------------------------------------------------

def _limits():
    resource.setrlimit(resource.RLIMIT_AS, (MEM_LIMIT, MEM_LIMIT))


def run(cmd, timeout, cwd=None):
    t0 = time.time()
    try:
        p = subprocess.run(cmd, stdout=subprocess.PIPE, stderr=subprocess.PIPE, timeout=timeout,
                           cwd=cwd, preexec_fn=_limits, text=True, errors='replace')
        return p.returncode, p.stdout, p.stderr, time.time() - t0
    except subprocess.TimeoutExpired as e:
        return -9, (e.stdout or b'').decode(errors='replace') if isinstance(e.stdout, bytes) else (e.stdout or ''), 'TIMEOUT after %ds' % timeout, time.time() - t0


def classify(res, lines, unit):
    """-> class in {'P','A','canary'} and a readable name."""
    prop = res.get('property', '')
    desc = res.get('description', '')
    loc = res.get('sourceLocation', {}) or {}
    line = int(loc.get('line', 0) or 0)
    srcline = lines[line - 1].strip() if 0 < line <= len(lines) else ''
    fn = loc.get('function', '')
    if 'VACUITY-CANARY' in desc:
        return 'canary', desc
    if fn.startswith('__CPROVER_contracts') or prop.startswith('__CPROVER_contracts'):
        return 'A', 'contract instrumentation: %s' % desc
    if 'undefined function' in desc:      # a call the extraction has no stub for: the changed code is outside the verified text, not a refutation
        return 'A', desc
    if '.postcondition' in prop or 'ensures clause' in desc:
        return 'P', 'postcondition of %s: %s' % (fn or unit.get('enforce', ''), srcline)
    if '.assertion' in prop or prop.endswith('.assert') or re.search(r'\.assertion\.\d+$', prop):
        if desc.startswith('A:'):
            return 'A', desc
        return 'P', desc
    if '.precondition' in prop or 'requires clause' in desc:
        if '/*P*/' in srcline or desc.startswith('P'):
            return 'P', 'precondition at call: %s' % srcline
        return 'A', 'precondition: %s %s' % (desc, srcline)
    for k in ('assigns', 'loop_invariant', 'loop_assigns', 'loop_decreases', 'decreases', 'unwind', 'recursion', 'loop_step'):
        if '.' + k in prop:
            return 'A', '%s: %s [%s]' % (k, desc, srcline)
    if 'no-body' in prop or 'no body' in desc or 'undefined function' in desc:
        return 'A', desc
    # pointer / bounds / overflow / division checks
    return 'P', 'memory/arithmetic safety in %s: %s [%s]' % (fn, desc, srcline)


def parse_cbmc_json(out):
    try:
        data = json.loads(out)
    except json.JSONDecodeError:
        # cbmc may be cut off; try to salvage
        return None, None, out[-2000:]
    results = None
    status = None
    msgs = []
    for item in data:
        if 'result' in item:
            results = item['result']
        if 'cProverStatus' in item:
            status = item['cProverStatus']
        if 'messageText' in item:
            msgs.append(item['messageText'])
    return results, status, '\n'.join(msgs)


def build_unit(spec, unit, cfile, outdir, extra_defs=()):
    """-> path of goto binary ready for cbmc (or raises Undecided)"""
    name = unit['name']
    gb = os.path.join(outdir, name + '.gb')
    igb = os.path.join(outdir, name + '.i.gb')
    harness = unit['harness']
    defs = ['-D' + d for d in list(unit.get('defines', [])) + list(extra_defs)]
    rc, so, se, _ = run(['goto-cc', '-I', PRELUDE, '-I', spec['dir'], '--function', harness] + defs + [cfile, '-o', gb], 120)
    if rc != 0:
        raise Undecided('%s: goto-cc failed: %s' % (name, (se or so)[-1500:]))
    mode = unit.get('mode', 'contract')
    if mode in ('lemma', 'bounded') and not unit.get('enforce'):
        return gb
    cmd = ['goto-instrument', '--dfcc', harness]
    if unit.get('enforce'):
        cmd += ['--enforce-contract-rec' if unit.get('rec') else '--enforce-contract', unit['enforce']]
    for r in unit.get('replace', []):
        cmd += ['--replace-call-with-contract', r]
    if unit.get('loop_contracts', True) and not unit.get('_no_loop_contracts'):
        cmd += ['--apply-loop-contracts']
    cmd += [gb, igb]
    rc, so, se, _ = run(cmd, 300)
    if rc != 0:
        raise Undecided('%s: goto-instrument failed: %s' % (name, (se or so)[-1500:]))
    unit['_instr_cmd'] = ' '.join(cmd[:-2])
    return igb


def run_unit(spec, unit, cfile, lines, outdir, tier='quick', trace=False, extra_defs=(), extra_flags=()):
    """-> dict(name, obligations=[...], secs, status, cmd) ; raises Undecided"""
    t0 = time.time()
    binp = build_unit(spec, unit, cfile, outdir, extra_defs)
    flags = list(CBMC_FLAGS)
    mode = unit.get('mode', 'contract')
    unwind = unit.get('unwind')
    if isinstance(unwind, dict):
        unwind = unwind.get(tier, unwind.get('quick'))
    if unwind:
        flags += ['--unwind', str(unwind), '--unwinding-assertions']
    elif not unit.get('_no_loop_contracts') and '--unwind' not in unit.get('flags', []):
        # safety net, not a bound on the proof: every loop of a contract unit is closed by a loop contract or by a cut point,
        # and harness loops are short and constant.  A residual loop (e.g. a control-flow rewrite that a source change turned
        # into a back edge) would otherwise be unwound for ever; with unwinding assertions on, hitting this limit is reported
        # as a failed auxiliary obligation (undecided), never as success.
        flags += ['--unwind', str(unit.get('unwind_guard', 64)), '--unwinding-assertions']
    if unit.get('_no_loop_contracts'):
        flags += ['--unwind', str(unit.get('falsify_unwind', 8)), '--no-unwinding-assertions']
    solver_choice = unit.get('solver', spec.get('solver'))
    if solver_choice and not any(f == '--sat-solver' for f in unit.get('flags', [])):
        flags += ['--sat-solver', solver_choice]
    flags += list(unit.get('flags', [])) + list(extra_flags)
    if unit.get('object_bits'):
        flags += ['--object-bits', str(unit['object_bits'])]
    cmd = ['cbmc', binp] + flags + ['--json-ui']
    if trace:
        cmd.append('--trace')
    tmo = unit.get('timeout', {}).get(tier, 600) if isinstance(unit.get('timeout'), dict) else unit.get('timeout', 600)
    rc, so, se, secs = run(cmd, tmo)
    log = os.path.join(outdir, unit['name'] + ('.trace' if trace else '') + '.json')
    with open(log, 'w') as f:
        f.write(so)
    if rc == -9:
        raise Undecided('%s: cbmc timed out after %ds' % (unit['name'], tmo))
    results, status, msgs = parse_cbmc_json(so)
    if results is None:
        raise Undecided('%s: cbmc gave no result (rc=%s): %s %s' % (unit['name'], rc, msgs[-1500:] if msgs else '', se[-500:]))
    if re.search(r'ignoring (forall|exists)', msgs or ''):
        raise Undecided('%s: quantifier ignored by the back end' % unit['name'])
    obs = []
    for r in results:
        cls, nm = classify(r, lines, unit)
        ob = dict(prop=r.get('property'), cls=cls, name=nm, status=r.get('status'),
                  line=int((r.get('sourceLocation') or {}).get('line', 0) or 0),
                  function=(r.get('sourceLocation') or {}).get('function', ''))
        if trace and r.get('status') == 'FAILURE' and 'trace' in r:
            ob['trace'] = r['trace']
        obs.append(ob)
    solver = 'cbmc 6.11 SAT (MiniSat2)'
    if '--sat-solver' in flags:
        solver = 'cbmc 6.11 SAT (%s)' % flags[flags.index('--sat-solver') + 1]
    return dict(name=unit['name'], mode=mode, unwind=unwind, obligations=obs, secs=round(time.time() - t0, 2),
                solver_secs=round(secs, 2), status=status, solver=solver,
                cmd='goto-cc --function %s <gen.c> ; %s ; %s' % (unit['harness'], unit.get('_instr_cmd', '(no instrumentation: lemma harness)'), ' '.join(['cbmc'] + flags)))
