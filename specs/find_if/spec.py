H = 'include/unifex/find_if.hpp'
SPEC = dict(
    properties=['C17'],
    solver='cadical',
    ctx=dict(
        pre=[(r'std::advance\((\w+),\s*(\w+)\)', r'\1 += \2'),
             (r'std::invoke\(func,\s*\*it,\s*values\.\.\.\)', 'EV_pred(it)'),
             (r'std::invoke\(\(Func&&\)func_,\s*\*it,\s*values\.\.\.\)', 'EV_pred(it)'),
             (r'state\.perChunkState\[(\w+)\]\s*=\s*(\w+);', r'PCS_WRITE(\1, \2);'),
             (r'state\.found_flag\s*=\s*true;', 'EV_found();'),
             (r'stopSource\.request_stop\(\);', 'EV_request_stop();'),
             (r'for \(auto it : state\.perChunkState\) \{', 'for (diff_t vf_k = 0; vf_k < num_chunks; ++vf_k) { Iterator it = PCS_READ(vf_k);'),
             (r'return std::tuple<Iterator, Values\.\.\.>\(\s*(\w+),\s*std::move\(values\)\.\.\.\);', r'return \1;'),
             (r'auto distance = std::distance\(begin_it, end_it\);', ''),
             (r'using diff_t = decltype\(distance\);', '')],
    ),
    extracts={
        'partition': dict(file=H, kind='expr',
                          sig=r'(?s)(constexpr diff_t max_num_chunks = [^;]*;.*?)struct State'),
        'chunk_body': dict(file=H, sig=r'\[&\]\(diff_t index\)',
                           loops={0: '__CPROVER_assigns(it, G.pred_calls)\n'
                                     '__CPROVER_loop_invariant(G.begin_it <= chunk_begin_it && chunk_end_it <= G.end_it && chunk_begin_it <= it && it <= chunk_end_it && (G.first >= chunk_begin_it ==> it <= G.first) && G.pcs_writes == 0 && G.found_writes == 0 && G.stop_requests == 0)\n'
                                     '__CPROVER_decreases(chunk_end_it - it)'}),
        'scan_body': dict(file=H, sig=r'\[&state, end_it, &values\.\.\.\]\(\) mutable\s*-> std::tuple<Iterator, Values\.\.\.>',
                          loops={0: '__CPROVER_assigns(vf_k)\n'
                                    '__CPROVER_loop_invariant(0 <= vf_k && vf_k <= num_chunks && vf_k <= G.pcs_first)\n'
                                    '__CPROVER_decreases(num_chunks - vf_k)'}),
        'seq_body': dict(file=H, sig=r'\[this, begin_it, end_it\]\(auto\.\.\. values\)',
                         loops={0: '__CPROVER_assigns(it, G.pred_calls)\n'
                                   '__CPROVER_loop_invariant(begin_it <= it && it <= end_it && it <= G.first)\n'
                                   '__CPROVER_decreases(end_it - it)'}),
        'vec_size': dict(file=H, kind='expr', sig=r'std::vector<Iterator>\((\w+), \w+\)'),
        'vec_fill': dict(file=H, kind='expr', sig=r'std::vector<Iterator>\(\w+, (\w+)\)'),
        'bulk_count': dict(file=H, kind='expr', sig=r'unifex::bulk_schedule\(\s*std::move\(sched\), (\w+)\)'),
    },
    units=[
        dict(name='find_if_partition', harness='h_partition', enforce='find_if_partition'),
        dict(name='find_if_chunk', harness='h_chunk', enforce='find_if_chunk', expect_loop_obligations=True, falsify_unwind=12),
        dict(name='find_if_scan', harness='h_scan', enforce='find_if_scan', expect_loop_obligations=True),
        dict(name='find_if_seq', harness='h_seq', enforce='find_if_seq', expect_loop_obligations=True),
        dict(name='lemma_find_first', harness='lemma_find_first', mode='lemma'),
        dict(name='lemma_tiling', harness='lemma_tiling', mode='lemma'),
        dict(name='lemma_mul_mono', harness='lemma_mul_mono', mode='lemma'),
        dict(name='lemma_mul_step', harness='lemma_mul_step', mode='lemma'),
        dict(name='lemma_setup', harness='lemma_setup', mode='lemma'),
    ],
    assumptions=[
        'iterators are random-access positions (the parallel overload itself assumes so); distance <= 2^40',
        'the predicate is a function of the position (same answer when asked twice); it is evaluated through the stub EV_pred',
        'bulk_schedule visits chunk indices in order and polls stop only at its chunk boundaries (proved for bulk_schedule in group bulk); let_value / let_value_with / bulk_transform / bulk_join plumbing around the lambdas is template code and not reached',
        'the composition lemma picks the chunk holding the first match by assumption; its existence follows from the tiling facts proved in the same lemma (discrete intermediate value argument, not re-proved by CBMC)',
    ],
    drops=['tuple packing of extra values (return std::tuple<Iterator,Values...>(it, ...) -> return it)', 'std::atomic<bool> found_flag and std::vector as event stubs PCS_READ/PCS_WRITE/EV_found',
           'range-for over the result vector rewritten to an index loop over its size'],
)
