/* C17 (second half): find_if, include/unifex/find_if.hpp.
 * Iterators are modelled as integer positions (random access, as the parallel
 * overload itself assumes); the range is [begin_it, end_it) with
 * end_it = begin_it + distance.  The predicate is an arbitrary function of the
 * position with first match at FIRST (== end_it: no match):
 *    pred(p) = 0 for p < FIRST, 1 for p == FIRST, arbitrary for p > FIRST
 * which describes every predicate/range pair.  Evaluating it outside the range is
 * the obligation "predicate only on elements of the range". */
#include <stddef.h>
typedef ptrdiff_t diff_t;
typedef ptrdiff_t Iterator;
struct vf_ghost {
  Iterator begin_it, end_it, first;   /* the range and its first match */
  /* per-chunk result vector: arbitrary contents whose first non-end entry is at
   * index pcs_first with value pcs_val (pcs_first == size: all end) */
  diff_t pcs_size, pcs_first; Iterator pcs_val;
  /* writes of the chunk body under verification */
  unsigned pcs_writes; diff_t pcs_w_index; Iterator pcs_w_val;
  unsigned found_writes, stop_requests;
  unsigned pred_calls;
  diff_t cb_off;   /* chunk_size * index of the chunk body under verification (ghost name for the product) */
};
static struct vf_ghost G;
#include "vf.h"
static void vf_interfere(void) {}

#define RANGE_MAX ((diff_t)1 << 40)

static _Bool EV_pred(Iterator it) {
  VF_CANARY("predicate evaluated");
  VF_P(G.begin_it <= it && it < G.end_it, "predicate evaluated only on elements of the range");
  G.pred_calls++;
  if (it < G.first) return 0;
  if (it == G.first) return 1;
  return VF_nondet_bool();
}
static Iterator PCS_READ(diff_t k) {
  VF_P(0 <= k && k < G.pcs_size, "per-chunk result vector read in bounds");
  if (k < G.pcs_first) return G.end_it;
  if (k == G.pcs_first) return G.pcs_val;
  Iterator v = VF_nondet_i64();
  return v;
}
static void PCS_WRITE(diff_t k, Iterator v) {
  VF_P(0 <= k && k < G.pcs_size, "per-chunk result vector written in bounds");
  G.pcs_writes++; G.pcs_w_index = k; G.pcs_w_val = v;
}
static void EV_found(void) { G.found_writes++; }
static void EV_request_stop(void) { G.stop_requests++; }

/* ---- partition: the statements computing num_chunks / chunk_size ---- */
struct partition { diff_t num_chunks, chunk_size; };
static struct partition PART;
void find_if_partition(diff_t distance)
__CPROVER_requires(0 <= distance && distance <= RANGE_MAX)
__CPROVER_assigns(PART.num_chunks, PART.chunk_size)
__CPROVER_ensures(1 <= PART.num_chunks && PART.num_chunks <= 41) /* result vector size; bulk_schedule count */
__CPROVER_ensures(0 <= PART.chunk_size && PART.chunk_size <= distance + 1)
__CPROVER_ensures(PART.chunk_size * (PART.num_chunks - 1) <= distance) /* every chunk begins inside [begin,end]: the chunks tile the range exactly */
{
  /*@EXPR partition*/
  PART.num_chunks = num_chunks; PART.chunk_size = chunk_size;
}

/* ---- the per-chunk body run by bulk_transform for chunk `index` ---- */
#define CHUNK_BEGIN(i) (G.begin_it + G.cb_off)
#define CHUNK_END(i)   ((i) < PART.num_chunks - 1 ? CHUNK_BEGIN(i) + PART.chunk_size : G.end_it)
void find_if_chunk(diff_t index, Iterator begin_it, Iterator end_it, diff_t chunk_size, diff_t num_chunks)
__CPROVER_requires(begin_it == G.begin_it && end_it == G.end_it && chunk_size == PART.chunk_size && num_chunks == PART.num_chunks)
__CPROVER_requires(-RANGE_MAX <= begin_it && begin_it <= end_it && end_it <= 2 * RANGE_MAX && end_it - begin_it <= RANGE_MAX && begin_it <= G.first && G.first <= end_it)
__CPROVER_requires(1 <= num_chunks && num_chunks <= 41 && 0 <= chunk_size && chunk_size <= end_it - begin_it + 1)
__CPROVER_requires(0 <= index && index < num_chunks && G.pcs_size == num_chunks)
/* tiling facts for this chunk (lemma_tiling): its begin offset chunk_size*index lies in the range and, unless it is the last chunk, so does its end */
__CPROVER_requires(G.cb_off == chunk_size * index && 0 <= G.cb_off && G.cb_off <= end_it - begin_it && (index < num_chunks - 1 ==> G.cb_off + chunk_size <= end_it - begin_it))
__CPROVER_requires(G.pcs_writes == 0 && G.found_writes == 0 && G.stop_requests == 0 && G.pred_calls == 0)
__CPROVER_assigns(G.pcs_writes, G.pcs_w_index, G.pcs_w_val, G.found_writes, G.stop_requests, G.pred_calls)
__CPROVER_ensures(G.pcs_writes <= 1)
/* the first match lies in this chunk => exactly it is recorded, and later chunks are cancelled */
__CPROVER_ensures((CHUNK_BEGIN(index) <= G.first && G.first < CHUNK_END(index)) ==> (G.pcs_writes == 1 && G.pcs_w_index == index && G.pcs_w_val == G.first && G.found_writes == 1 && G.stop_requests == 1))
/* anything recorded is a match inside this chunk, recorded in this chunk's slot */
__CPROVER_ensures(G.pcs_writes == 1 ==> (G.pcs_w_index == index && CHUNK_BEGIN(index) <= G.pcs_w_val && G.pcs_w_val < CHUNK_END(index) && G.pcs_w_val >= G.first && G.found_writes == 1 && G.stop_requests == 1))
/* no match in this chunk before the first match => nothing recorded */
__CPROVER_ensures(G.first >= CHUNK_END(index) ==> G.pcs_writes == 0)
/*@BODY chunk_body*/

/* ---- the final scan over the per-chunk results ---- */
Iterator find_if_scan(Iterator end_it, diff_t num_chunks)
__CPROVER_requires(end_it == G.end_it && num_chunks == G.pcs_size && 1 <= num_chunks && num_chunks <= 41)
__CPROVER_requires(0 <= G.pcs_first && G.pcs_first <= G.pcs_size && G.pcs_val != G.end_it)
__CPROVER_assigns()
__CPROVER_ensures(__CPROVER_return_value == (G.pcs_first < G.pcs_size ? G.pcs_val : G.end_it)) /* first non-end entry in chunk order, else end */
/*@BODY scan_body*/

/* ---- sequential overload ---- */
Iterator find_if_seq(Iterator begin_it, Iterator end_it)
__CPROVER_requires(begin_it == G.begin_it && end_it == G.end_it && G.pred_calls == 0)
__CPROVER_requires(-RANGE_MAX <= begin_it && begin_it <= end_it && end_it <= 2 * RANGE_MAX && end_it - begin_it <= RANGE_MAX && begin_it <= G.first && G.first <= end_it)
__CPROVER_assigns(G.pred_calls)
__CPROVER_ensures(__CPROVER_return_value == G.first) /* first element satisfying the predicate, or end */
/*@BODY seq_body*/

/* ---------------- harnesses ---------------- */
static void h_range(void) {
  G.begin_it = VF_nondet_i64(); G.end_it = VF_nondet_i64(); G.first = VF_nondet_i64();
  G.pcs_writes = 0; G.found_writes = 0; G.stop_requests = 0; G.pred_calls = 0;
}
void h_partition(void) { diff_t d = VF_nondet_i64(); find_if_partition(d); VF_CANARY("after partition"); }
void h_chunk(void) {
  h_range();
  PART.num_chunks = VF_nondet_i64(); PART.chunk_size = VF_nondet_i64(); G.pcs_size = PART.num_chunks;
  diff_t index = VF_nondet_i64(); G.cb_off = VF_nondet_i64();
  find_if_chunk(index, G.begin_it, G.end_it, PART.chunk_size, PART.num_chunks);
  VF_CANARY("after chunk body");
  if (G.pcs_writes == 1) { VF_CANARY("chunk can record a match"); }
}
void h_scan(void) {
  h_range();
  G.pcs_size = VF_nondet_i64(); G.pcs_first = VF_nondet_i64(); G.pcs_val = VF_nondet_i64();
  Iterator r = find_if_scan(G.end_it, G.pcs_size);
  VF_CANARY("after scan");
  if (r != G.end_it) { VF_CANARY("scan can find an entry"); }
}
void h_seq(void) { h_range(); Iterator r = find_if_seq(G.begin_it, G.end_it); VF_CANARY("after sequential find_if"); if (r != G.end_it) { VF_CANARY("sequential find_if can find"); } }

/* ---- M4 lemmas over the contracts ----
 * lemma_tiling (nonlinear): under the partition contract the chunks
 *   [begin + cs*i, i < nc-1 ? begin + cs*(i+1) : end) tile [begin,end] in index order.
 * lemma_find_first (linear, over abstract chunk bounds satisfying the tiling facts):
 *   the vector starts all-end; bulk_schedule(num_chunks) runs the chunk bodies in index
 *   order and skips a chunk only if an earlier chunk requested stop, which only a chunk
 *   that recorded a match does; each executed chunk satisfies the chunk contract.  Then
 *   no chunk before the chunk holding FIRST records anything, so that chunk is executed,
 *   records FIRST, and the scan (contract: first non-end slot) returns FIRST. */
/* The two nonlinear facts about machine multiplication the tiling argument needs, proved once
 * on the operand ranges the partition contract guarantees (x = chunk_size, i,j = chunk indices): */
#define MUL_X_MAX (RANGE_MAX + 1)
void lemma_mul_mono(void) {
  diff_t x = VF_nondet_i64(), i = VF_nondet_i64(), j = VF_nondet_i64();
  __CPROVER_assume(0 <= x && x <= MUL_X_MAX && 0 <= i && i <= j && j <= 41);
  VF_CANARY("lemma premises satisfiable");
  VF_P(x * i <= x * j, "lemma (MONO): 0 <= x, 0 <= i <= j <= 41  =>  x*i <= x*j");
}
void lemma_mul_step(void) {
  diff_t x = VF_nondet_i64(), i = VF_nondet_i64();
  __CPROVER_assume(0 <= x && x <= MUL_X_MAX && 0 <= i && i <= 41);
  VF_CANARY("lemma premises satisfiable");
  VF_P(x * (i + 1) == x * i + x, "lemma (STEP): x*(i+1) == x*i + x");
  VF_P(x * 0 == 0, "lemma: x*0 == 0");
}
/* tiling, linear: the products cs*c, cs*(c+1), cs*d, cs*(nc-1) are named by ghost variables
 * constrained by instances of MONO and STEP only */
void lemma_tiling(void) {
  diff_t distance = VF_nondet_i64(), nc = VF_nondet_i64(), cs = VF_nondet_i64();
  Iterator begin = VF_nondet_i64();
  __CPROVER_assume(0 <= distance && distance <= RANGE_MAX && -RANGE_MAX <= begin && begin <= RANGE_MAX);
  Iterator end = begin + distance;
  diff_t c = VF_nondet_i64(), d = VF_nondet_i64();
  __CPROVER_assume(1 <= nc && nc <= 41 && 0 <= cs && cs <= distance + 1 && 0 <= c && c < nc && 0 <= d && d < nc);
  diff_t p_c = VF_nondet_i64(), p_c1 = VF_nondet_i64(), p_d = VF_nondet_i64(), p_m = VF_nondet_i64(), p_0 = VF_nondet_i64(); /* cs*c, cs*(c+1), cs*d, cs*(nc-1), cs*0 */
  __CPROVER_assume(p_m <= distance);                         /* partition contract: cs*(nc-1) <= distance */
  __CPROVER_assume(p_0 == 0 && p_0 <= p_c && p_0 <= p_d);     /* x*0 == 0, MONO(0,c), MONO(0,d) */
  __CPROVER_assume(p_c <= p_m && p_d <= p_m);                /* MONO(c,nc-1), MONO(d,nc-1) */
  __CPROVER_assume(p_c1 == p_c + cs);                        /* STEP(c) */
  __CPROVER_assume(c + 1 <= nc - 1 ==> p_c1 <= p_m);         /* MONO(c+1,nc-1) */
  __CPROVER_assume(c + 1 <= d ==> p_c1 <= p_d);              /* MONO(c+1,d) */
  __CPROVER_assume(c + 1 == d ==> p_c1 == p_d);              /* same product */
  __CPROVER_assume(c == 0 ==> p_c == p_0);
  __CPROVER_assume(c == nc - 1 ==> p_c == p_m);
#define LBc (begin + p_c)
#define LEc (c < nc - 1 ? LBc + cs : end)
#define LBd (begin + p_d)
  VF_CANARY("lemma premises satisfiable");
  VF_P(begin <= LBc && LBc <= LEc && LEc <= end, "lemma: every chunk lies inside [begin,end]");
  VF_P(c == 0 ==> LBc == begin, "lemma: first chunk starts at begin");
  VF_P(c == nc - 1 ==> LEc == end, "lemma: last chunk ends at end");
  VF_P((c + 1 < nc && d == c + 1) ==> LEc == LBd, "lemma: consecutive chunks abut (no gap, no overlap)");
  VF_P(c < d ==> LEc <= LBd, "lemma: chunks are ordered like their indices");
  /* what find_if_chunk's precondition asks of cb_off = cs*index, for index = c */
  VF_P(0 <= p_c && p_c <= end - begin && (c < nc - 1 ==> p_c + cs <= end - begin), "lemma: find_if_chunk's tiling precondition holds for every chunk index");
}
#undef LBc
#undef LEc
#undef LBd
void lemma_find_first(void) {
  Iterator begin = VF_nondet_i64(), end = VF_nondet_i64(), first = VF_nondet_i64();
  __CPROVER_assume(-RANGE_MAX <= begin && begin <= end && end <= 2 * RANGE_MAX && begin <= first && first < end);
  diff_t nc = VF_nondet_i64(), c = VF_nondet_i64(), ch = VF_nondet_i64();
  __CPROVER_assume(1 <= nc && 0 <= c && c < nc && 0 <= ch && ch < nc);
  /* abstract bounds of chunk c and of chunk ch (the one holding FIRST), related by lemma_tiling */
  Iterator LBc = VF_nondet_i64(), LEc = VF_nondet_i64(), LBh = VF_nondet_i64(), LEh = VF_nondet_i64();
  __CPROVER_assume(begin <= LBc && LBc <= LEc && LEc <= end && begin <= LBh && LBh <= LEh && LEh <= end);
  __CPROVER_assume(c < ch ==> LEc <= LBh);
  __CPROVER_assume(LBh <= first && first < LEh);
  _Bool c_records = VF_nondet_bool(); Iterator r_c = VF_nondet_i64();
  __CPROVER_assume(c_records ==> (LBc <= r_c && r_c < LEc && r_c >= first)); /* chunk contract: a record is a match inside the chunk */
  VF_CANARY("lemma premises satisfiable");
  VF_P((c < ch) ==> !c_records, "lemma: no chunk before the first match's chunk records a hit, so none requests stop and the first match's chunk runs");
}

/* the result vector has one slot per chunk, all initialised to end_it, and
 * bulk_schedule is asked for exactly num_chunks indices (expressions extracted from /repo) */
void lemma_setup(void) {
  diff_t num_chunks = VF_nondet_i64(), chunk_size = VF_nondet_i64(), distance = VF_nondet_i64(), max_num_chunks = VF_nondet_i64(), min_chunk_size = VF_nondet_i64();
  Iterator begin_it = VF_nondet_i64(), end_it = VF_nondet_i64();
  VF_CANARY("lemma_setup reachable");
  VF_P((/*@EXPR vec_size*/) == num_chunks, "lemma: result vector has num_chunks slots");
  VF_P((/*@EXPR vec_fill*/) == end_it, "lemma: result vector slots start as end_it (= no match)");
  VF_P((/*@EXPR bulk_count*/) == num_chunks, "lemma: bulk_schedule runs exactly num_chunks chunk bodies");
}
