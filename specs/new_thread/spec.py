H = 'include/unifex/new_thread_context.hpp'
CTX = r'class context \{'
OP = r'class _op<Receiver>::type final \{'

# std::thread handles: a handle is an id (0 = not joinable); moves / exchange / destruction are modelled in the template
THREADS = [
    (r'std::thread (\w+);', r'vf_thread \1;'),
    (r'(\w+) = std::exchange\((\w+), std::move\((\w+)\)\);', r'VF_THREAD_EXCHANGE_INTO(&\1, &\2, &\3);'),
    (r'(\w+) = std::move\((\w+)\);', r'VF_THREAD_MOVE_ASSIGN(&\1, &\2);'),
    (r'(\w+)->retire_thread\(std::move\((\w+)\)\)', r'context_retire_thread(\1, VF_THREAD_MOVE_OUT(&\2))'),
]
# general rules missing from the global table (DESIGN 3.1 lists them): predicate wait, UNIFEX_TRY / UNIFEX_CATCH
PRED_WAIT = [(r'(\w+)\.wait\((\w+), \[this\]\(\) noexcept \{\s*return ([^;]*);\s*\}\);', r'while (!(\3)) { \1.wait(\2); }')]
TRY = [(r'UNIFEX_TRY\s*\{', '{'), (r'\}\s*UNIFEX_CATCH\s*\(\.\.\.\)\s*\{', '} if (0) { vf_catch:')]
RAII = {'vf_thread': ('VF_THREAD_CTOR', 'VF_THREAD_DTOR')}
TH_METHODS = {'joinable': 'vf_thread_joinable', 'join': 'EV_thread_join'}

ctx_ctx = dict(cls='context', members=['mut_', 'cv_', 'threadToJoin_', 'activeThreadCount_'], methods=[], atomic=['activeThreadCount_'],
               obj_methods=TH_METHODS, raii=RAII, pre=THREADS + PRED_WAIT)
retire_ctx = dict(ctx_ctx, post=[(r'\}\s*$', ' VF_THREAD_DTOR(&t); }')])       # the by-value parameter `std::thread t` is destroyed at the end of the call
op_ctx = dict(cls='op', members=['ctx_', 'mut_', 'thread_'], methods=[], atomic=['activeThreadCount_'], obj_methods=TH_METHODS, raii=RAII,
              typemap=[(r'\bcontext\s*\*', 'struct context*')],
              pre=THREADS + TRY + [
                  # thread creation: may throw (std::system_error); the new thread runs run()
                  (r'thread_ = std::thread\(\[this\]\(\) noexcept \{ this->run\(\); \}\);', 'if (EV_thread_create(this, &thread_)) { VF_SCOPE_EXIT(&mut_); goto vf_catch; }'),
                  # the same creation into a local handle (variant form: `std::thread t{[this]...};` then `thread_ = std::move(t);`)
                  (r'std::thread (\w+)\{\[this\]\(\) noexcept \{ this->run\(\); \}\};', r'vf_thread \1; if (EV_thread_create(this, &\1)) goto vf_catch;'),
                  (r'get_stop_token\(receiver_\)\.stop_requested\(\)', 'EV_stop_requested(this)'),
                  (r'unifex::set_done\(std::move\(receiver_\)\)', 'EV_set_done(this)'),
                  (r'unifex::set_value\(std::move\(receiver_\)\);', 'if (EV_set_value(this)) goto vf_catch;'),
                  (r'unifex::set_error\(std::move\(receiver_\), std::current_exception\(\)\)', 'EV_set_error(this)'),
              ],
              # instrumentation (no statement changed): the operation is not touched after its receiver was completed (mut_ bookkeeping of the monitor model excepted)
              post=[(r'\bself->(?!mut_)', 'VF_OP_ALIVE(self)->')])
WAIT_INV = ('__CPROVER_assigns(CTX, G)\n'
            '__CPROVER_loop_invariant(DTOR_LOOP_INV)')

SPEC = dict(
    properties=['C06'],
    ctx=dict(),
    extracts={
        'count_init': dict(file=H, kind='expr', sig=r'std::atomic<size_t> activeThreadCount_ = ([^;]*);', ctx=dict()),
        'retire_thread': dict(file=H, sig=r'void retire_thread\(std::thread t\) noexcept', within=CTX, ctx=retire_ctx),
        'ctx_dtor': dict(file=H, sig=r'~context\(\)', within=CTX, ctx=ctx_ctx, loops={0: WAIT_INV}),
        'op_start': dict(file=H, sig=r'inline void _op<Receiver>::type::start\(\) & noexcept', ctx=op_ctx),
        'op_run': dict(file=H, sig=r'inline void _op<Receiver>::type::run\(\) noexcept', ctx=op_ctx),
        'op_dtor': dict(file=H, sig=r'~type\(\)', within=OP, ctx=dict(op_ctx, post=[])),
    },
    closed_world=[
        dict(file=H, members=['activeThreadCount_', 'threadToJoin_', 'thread_'],
             allow=[r'std::thread threadToJoin_;', r'std::atomic<size_t> activeThreadCount_ = [^;]*;', r'std::thread thread_;']),
    ],
    units=[
        dict(name='retire_thread', harness='h_retire_thread', enforce='context_retire_thread'),
        dict(name='ctx_dtor', harness='h_ctx_dtor', enforce='context_dtor', expect_loop_obligations=True),
        dict(name='op_start', harness='h_op_start', enforce='op_start'),
        dict(name='op_run', harness='h_op_run', enforce='op_run', replace=['context_retire_thread']),
        dict(name='op_dtor', harness='h_op_dtor', enforce='op_dtor'),
        dict(name='lemma_nt_count', harness='lemma_nt_count', mode='lemma'),
        dict(name='lemma_nt_rely', harness='lemma_nt_rely', mode='lemma'),
        dict(name='lemma_nt_chain', harness='lemma_nt_chain', mode='lemma'),
        dict(name='lemma_nt_init', harness='lemma_nt_init', mode='lemma'),
    ],
    assumptions=[
        'std::mutex + std::condition_variable behave as a monitor (mutual exclusion; wait releases and re-acquires; spurious wake-ups allowed; a notify issued after the state change reaches a thread already waiting); cv.wait(lk, pred) is `while (!pred()) wait(lk)`',
        'std::thread: a handle is joinable iff it owns a thread; move / exchange transfer ownership and leave the source empty; move-assignment onto and destruction of a joinable handle are std::terminate (obligations); join() returns only after the thread function has returned; a thread function starts after the std::thread constructor was entered',
        'no schedule operation is started once ~context() has begun, and the context is not destroyed by one of its own threads (caller obligations); the context outlives every start() call',
        'join chain (lemma_nt_chain): the k-th retiring thread joins the (k-1)-th before its thread function returns, the destructor joins the last one: by induction every created thread has exited and was joined exactly once when ~context() returns',
        'the receiver may destroy the operation as soon as set_value / set_done / set_error has been delivered; std::mutex::unlock may be followed immediately by the destruction of the mutex (POSIX)',
        'std::lock_guard construction does not throw; fewer than 2^32 threads',
        'atomics sequentially consistent',
    ],
    drops=['memory orders', 'std::thread -> id handle (struct vf_thread); the thread function [this]{ run(); } is the separately verified op_run unit',
           'RAII unlock / std::thread destructors of locals and of the by-value parameter made explicit at scope exits',
           'cv_.wait(lk, pred) -> while (!pred) cv_.wait(lk) and UNIFEX_TRY / UNIFEX_CATCH -> goto vf_catch by spec-level regexes',
           'receiver completion signals and the stop-token query -> event stubs (payload std::current_exception() dropped); set_value may throw',
           'schedule_sender / scheduler / connect (handle plumbing) are not reached'],
)
