/* C06: include/unifex/new_thread_context.hpp -- "context destructors join every thread they created"; each schedule operation
 * completes exactly once, on the new thread (or with the error inline when the thread could not be created).
 *   context::retire_thread, context::~context, _op<Receiver>::type::{start, run, ~type}
 * Bodies / expressions marked @BODY / @EXPR are extracted from /repo on every run; everything else is specification.
 *
 * Protocol.  activeThreadCount_ (atomic; M1 rely/guarantee) == (destructor has taken its initial 1 away ? 0 : 1) + started - retired,
 * where `started` counts start()'s increments and `retired` the critical sections of retire_thread.  threadToJoin_ (monitor mut_/cv_)
 * holds the handle of the LAST thread that retired (empty iff none has).  A retiring thread, under mut_, swaps its own handle in, takes
 * the previous one out and decrements the count (notifying when it reaches 0); outside the lock it joins the previous thread.  The
 * destructor takes the initial 1 away, waits under mut_ until the count is 0 (every started thread has retired) and joins the last one.
 * Join chain (lemma_nt_chain): thread k joins thread k-1 before it exits and the destructor joins the last: every thread is joined
 * exactly once and has exited when ~context() returns. */
#include <stddef.h>
#include <stdint.h>

struct vf_thread { int id; };                     /* std::thread: id 0 = not joinable */
enum { T_NONE = 0, T_ME = 1, T_SLOT = 2, T_NIDS };  /* T_ME: the calling / newly created thread; T_SLOT: whatever thread is found in threadToJoin_ */
enum { TS_UNBORN, TS_RUNNING, TS_SLOT, TS_HELD, TS_JOINED };   /* not started / running / retired: handle parked in threadToJoin_ / handle taken out by this call / joined */
enum { P_S, P_R, P_D };                           /* start() / the new thread (run, retire_thread) / ~context() */

struct vf_ghost {
  int me;
  /* count protocol */
  size_t started, retired; _Bool dtor_dec;
  size_t mine;                 /* 1 while the thread this call is about is counted in `started` but cannot have retired yet */
  uint64_t lin_old, lin_new; unsigned lin_count;
  /* monitor mut_ */
  int acq_slot; size_t acq_retired; _Bool ctx_acquired;
  /* threads */
  uint8_t ts[T_NIDS];
  unsigned joins, self_joins;
  _Bool ctx_dead;
};
static struct vf_ghost G;
/* operation / receiver ghosts (not touched by the context's functions) */
struct vf_opghost {
  unsigned creates; _Bool created, threw;
  _Bool on_new_thread;
  unsigned completed, value, done, error, polls; _Bool stop_seen;
  _Bool op_dead; int snap_thread; void* snap_ctx;
};
static struct vf_opghost OG;

static void vf_guar(void* p, uint64_t o, uint64_t n);
#define VF_G(p, o, n) vf_guar((void*)(p), (uint64_t)(o), (uint64_t)(n))
#include "vf.h"
#include "vf_monitor.h"

struct context { struct vf_mutex mut_; struct vf_cv cv_; struct vf_thread threadToJoin_; size_t activeThreadCount_; };
struct op { struct context* ctx_; int receiver_; struct vf_mutex mut_; struct vf_thread thread_; };
static struct context CTX;
static struct op OP;
#define ACTIVETHREADCOUNT_INIT (/*@EXPR count_init*/)
#define NT_MAX 0xFFFFFFFFu

#define IMP(a, b) (!(a) || (b))
#define BEQ(a, b) ((a) ? ((b) ? 1 : 0) : ((b) ? 0 : 1))
struct proto { size_t cnt, started, retired; _Bool dtor_dec; };
/* protocol invariant: the count word is exactly the number of parties the destructor still has to wait for */
#define CNTINV(p, mine) ((p).started <= NT_MAX && (p).retired + (mine) <= (p).started && (p).cnt == ((p).dtor_dec ? 0u : 1u) + ((p).started - (p).retired))
#define PROTO_NOW(p) do { (p).cnt = CTX.activeThreadCount_; (p).started = G.started; (p).retired = G.retired; (p).dtor_dec = G.dtor_dec ? 1 : 0; } while (0)
#define CNTINV_NOW (G.started <= NT_MAX && G.retired + G.mine <= G.started && CTX.activeThreadCount_ == (G.dtor_dec ? 0u : 1u) + (G.started - G.retired))
/* rely of party `me` (holding mut_ or not): other start() calls increment (never once the destructor has begun: caller), other threads
 * retire (only while I do not hold mut_; never the thread I stand for), the destructor takes its 1 away (never seen by start(): the context
 * outlives it; the destructor itself is the only one to do it) */
#define RELY(me, held, mine, a, b) ( CNTINV(b, mine) && (b).started >= (a).started && (b).retired >= (a).retired && IMP((a).dtor_dec, (b).dtor_dec) \
   && IMP(held, (b).retired == (a).retired) \
   && IMP((a).dtor_dec, (b).started == (a).started) \
   && IMP((me) == P_D || (me) == P_S, BEQ((b).dtor_dec, (a).dtor_dec)) )

static void vf_env(_Bool held) {
  if (G.ctx_dead) return;
  struct proto a, b;
  PROTO_NOW(a);
  b.cnt = VF_nondet_size_t(); b.started = VF_nondet_size_t(); b.retired = VF_nondet_size_t(); b.dtor_dec = VF_nondet_bool() ? 1 : 0;
  __CPROVER_assume(RELY(G.me, held, G.mine, a, b));
  CTX.activeThreadCount_ = b.cnt; G.started = b.started; G.retired = b.retired; G.dtor_dec = b.dtor_dec;
}
static void vf_interfere(void) { vf_env(CTX.mut_.held); }

static void vf_guar(void* p, uint64_t o, uint64_t n) {
  if (p == (void*)&CTX.activeThreadCount_) {
    VF_P(!G.ctx_dead, "no access to the count of a destroyed context");
    VF_P(G.lin_count == 0, "guarantee: each call changes activeThreadCount_ at most once");
    if (G.me == P_S) {
      VF_P(n == o + 1, "guarantee: start() only increments activeThreadCount_ by one");
      VF_P(OG.created && !OG.threw, "guarantee: the count is incremented only for a thread that was actually created");
      VF_P(OP.mut_.held, "the new thread is counted before start() releases the operation's lock, i.e. before that thread can retire (the destructor cannot see 0 early)");
      VF_P(!G.dtor_dec, "no thread is started once the destructor has begun");
      G.started++; G.mine = 1;
    } else if (G.me == P_R) {
      VF_P(o >= 1 && n == o - 1, "guarantee: a retiring thread only decrements activeThreadCount_ by one");
      VF_P(CTX.mut_.held, "a retiring thread decrements activeThreadCount_ only under mut_ (the destructor's wait cannot miss the transition to 0)");
      VF_P(G.mine == 1, "a thread retires once");
      G.retired++; G.mine = 0;
    } else {
      VF_P(o >= 1 && n == o - 1, "guarantee: the destructor only takes its initial 1 away");
      VF_P(!G.dtor_dec, "the destructor takes its initial 1 away once");
      G.dtor_dec = 1;
    }
    G.lin_old = o; G.lin_new = n; G.lin_count++;
  } else {
    VF_P(0, "atomic write to an unexpected location");
  }
}

/* ---------------- std::thread model ---------------- */
#define VF_THREAD_CTOR(t) ((t)->id = T_NONE)
static void VF_THREAD_DTOR(struct vf_thread* t) { VF_P(t->id == T_NONE, "no joinable std::thread is destroyed (std::terminate): every handle is joined or handed on"); }
static _Bool vf_thread_joinable(struct vf_thread* t) { return t->id != T_NONE; }
/* a = std::move(b): move-assignment onto a joinable thread is std::terminate */
static void VF_THREAD_MOVE_ASSIGN(struct vf_thread* a, struct vf_thread* b) {
  VF_P(a->id == T_NONE, "no std::thread handle is overwritten while joinable (std::terminate)");
  a->id = b->id; b->id = T_NONE;
}
static struct vf_thread VF_THREAD_MOVE_OUT(struct vf_thread* b) { struct vf_thread r; r.id = b->id; b->id = T_NONE; return r; }
/* a = std::exchange(slot, std::move(c)) */
static void VF_THREAD_EXCHANGE_INTO(struct vf_thread* a, struct vf_thread* slot, struct vf_thread* c) {
  int old = slot->id;
  slot->id = c->id; c->id = T_NONE;
  VF_P(a->id == T_NONE, "no std::thread handle is overwritten while joinable (std::terminate)");
  a->id = old;
  if (slot == &CTX.threadToJoin_) {
    VF_P(CTX.mut_.held, "threadToJoin_ is accessed only under mut_");
    if (old != T_NONE) { VF_P(G.ts[old] == TS_SLOT, "the handle taken out of threadToJoin_ is a retired, not yet joined thread"); G.ts[old] = TS_HELD; }
    if (slot->id != T_NONE) { VF_P(G.ts[slot->id] == TS_RUNNING, "a thread parks its handle in threadToJoin_ once"); G.ts[slot->id] = TS_SLOT; }
  }
}
static void EV_thread_join(struct vf_thread* t) {
  VF_CANARY("std::thread::join reachable");
  VF_P(t->id != T_NONE, "join() is called on a joinable handle only");
  VF_P(!(G.me == P_R && t->id == T_ME), "a thread never joins itself");
  if (t->id == T_SLOT) { VF_P(G.ts[T_SLOT] == TS_HELD || G.ts[T_SLOT] == TS_SLOT, "each thread is joined exactly once (by the holder of its unique handle)"); G.ts[T_SLOT] = TS_JOINED; }
  else if (t->id == T_ME) { G.self_joins++; }
  G.joins++;
  t->id = T_NONE;
}

/* ---------------- monitors ---------------- */
/* mut_ of the context protects threadToJoin_: empty iff no thread has retired, else the handle of the last one */
#define SLOT_LI (G.retired == 0 ? CTX.threadToJoin_.id == T_NONE : (CTX.threadToJoin_.id == T_SLOT && G.ts[T_SLOT] == TS_SLOT))
static void vf_monitor_enter(struct vf_mutex* m) {
  if (m == &CTX.mut_) {
    VF_P(!G.ctx_dead, "no lock on a destroyed context");
    vf_env(0);                                   /* other threads retired meanwhile */
    if (G.retired == 0) CTX.threadToJoin_.id = T_NONE; else { CTX.threadToJoin_.id = T_SLOT; G.ts[T_SLOT] = TS_SLOT; }
    G.acq_slot = CTX.threadToJoin_.id; G.acq_retired = G.retired; G.ctx_acquired = 1;
  } else {
    VF_P(m == &OP.mut_ && !OG.op_dead, "the operation's lock is taken on a live operation");
  }
}
static void vf_op_dies(void);
static void vf_monitor_exit(struct vf_mutex* m) {
  if (m == &CTX.mut_) {
    if (G.me == P_R) {
      VF_P(CTX.threadToJoin_.id == T_ME && G.ts[T_ME] == TS_SLOT, "monitor invariant at release: the retiring thread leaves its own handle in threadToJoin_ (the next retiring thread or the destructor joins it)");
      VF_P(G.retired == G.acq_retired + 1 && G.lin_count == 1, "monitor invariant at release: ... and has decremented activeThreadCount_ exactly once under the same lock hold");
      VF_P(IMP(G.acq_slot != T_NONE, G.ts[T_SLOT] == TS_HELD), "monitor invariant at release: the previous occupant of threadToJoin_ was taken out, not dropped");
      VF_P(IMP(CTX.activeThreadCount_ == 0, CTX.cv_.notify_one + CTX.cv_.notify_all >= 1), "the transition of activeThreadCount_ to 0 is followed by a notify before mut_ is released (no lost wake-up of the destructor)");
    } else if (G.me == P_D) {
      VF_P(G.retired == G.acq_retired, "monitor invariant at release: the destructor does not retire threads");
      VF_P(CTX.threadToJoin_.id == G.acq_slot || (CTX.threadToJoin_.id == T_NONE && G.ts[T_SLOT] == TS_JOINED), "monitor invariant at release: threadToJoin_ unchanged, or emptied by joining it");
    } else {
      VF_P(0, "start() does not take the context's lock");
    }
  } else {
    VF_P(m == &OP.mut_, "known mutex");
    if (G.me == P_S && OG.created) {
      VF_P(OP.thread_.id == T_ME, "the new thread's handle is stored in thread_ before the operation's lock is released (run() reads it under that lock)");
      VF_P(G.lin_count == 1, "the new thread is counted in activeThreadCount_ before the operation's lock is released");
      G.mine = 0;                               /* from here on the new thread runs: it may complete the receiver and retire */
      /* the new thread may already have run: run() took the handle out under this lock and completed the receiver, which may destroy the operation */
      if (VF_nondet_bool()) { OP.thread_.id = T_NONE; vf_op_dies(); }
    }
  }
}
static void vf_cv_wait_check(struct vf_cv* cv, struct vf_mutex* m) {
  VF_CANARY("cv_.wait reachable");
  VF_P(m == &CTX.mut_ && cv == &CTX.cv_ && G.me == P_D, "only the destructor waits, on the context's monitor");
  VF_P(G.dtor_dec && G.retired < G.started, "the destructor blocks only while a thread it created has not retired yet, checked under mut_ (it cannot sleep for ever, nor return early)");
}

/* ---------------- operation / receiver event stubs ---------------- */
void op_dtor(struct op* self);
static void vf_op_dies(void) {
  op_dtor(&OP);                                  /* ~type(): UNIFEX_ASSERT(!thread_.joinable()) */
  struct op f; OP.thread_.id = f.thread_.id; OP.ctx_ = f.ctx_;
  OG.snap_thread = OP.thread_.id; OG.snap_ctx = OP.ctx_; OG.op_dead = 1;
}
#define OP_EQ_SNAP (OP.thread_.id == OG.snap_thread && (void*)OP.ctx_ == OG.snap_ctx)
#define VF_OP_ALIVE(p) ({ VF_P(!OG.op_dead, "no access to the operation after its receiver was completed / after the new thread was let go (it may be destroyed)"); (p); })

/* std::thread([this]{ run(); }): may throw std::system_error; the new thread blocks on the operation's lock until start() releases it */
static _Bool EV_thread_create(struct op* self, struct vf_thread* dst) {
  VF_P(self == &OP && dst == &OP.thread_ && !OG.op_dead, "the thread handle is stored in this operation");
  VF_P(OG.creates == 0 && !OG.created, "start() creates at most one thread");
  VF_P(OP.mut_.held, "the thread is created and its handle assigned under the operation's lock (run() cannot read thread_ before it is written)");
  VF_P(dst->id == T_NONE, "no std::thread handle is overwritten while joinable (std::terminate)");
  OG.creates++;
  if (VF_nondet_bool()) { OG.threw = 1; return 1; }
  OG.created = 1; G.ts[T_ME] = TS_RUNNING; dst->id = T_ME;
  return 0;
}
static _Bool EV_stop_requested(struct op* self) {
  VF_P(self == &OP && !OG.op_dead && OG.completed == 0, "the stop token is queried on the live, not yet completed operation");
  OG.polls++; _Bool r = VF_nondet_bool(); if (r) OG.stop_seen = 1; return r;
}
static void vf_deliver(struct op* self) {
  VF_P(self == &OP && !OG.op_dead, "completion of this (live) operation's receiver");
  VF_P(OG.completed == 0, "each schedule operation completes exactly once");
  OG.completed++;
  if (VF_nondet_bool()) vf_op_dies();            /* the receiver may destroy the operation now */
}
static _Bool EV_set_value(struct op* self) {
  VF_CANARY("set_value reachable");
  VF_P(OG.on_new_thread && G.me == P_R, "set_value is delivered on the thread created for this operation, never inline from start()");
  VF_P(!OG.stop_seen && OG.polls == 1, "done is delivered instead of value when stop was requested first");
  VF_P(OP.thread_.id == T_NONE, "the thread handle has been moved out of the operation before the receiver can destroy it");
  VF_P(OG.completed == 0, "each schedule operation completes exactly once");
  if (VF_nondet_bool()) { OG.threw = 1; return 1; }     /* set_value may throw: nothing delivered yet */
  vf_deliver(self); OG.value++;
  return 0;
}
static void EV_set_done(struct op* self) {
  VF_CANARY("set_done reachable");
  VF_P(OG.on_new_thread && G.me == P_R, "set_done is delivered on the thread created for this operation");
  VF_P(OG.stop_seen, "done only when a stop request was observed");
  VF_P(OP.thread_.id == T_NONE, "the thread handle has been moved out of the operation before the receiver can destroy it");
  vf_deliver(self); OG.done++;
}
static void EV_set_error(struct op* self) {
  VF_CANARY("set_error reachable");
  VF_P(OG.threw, "set_error only from an exception handler");
  VF_P(IMP(G.me == P_S, !OG.created && G.lin_count == 0), "start() reports an error only if no thread was created (and none was counted)");
  VF_P(IMP(G.me == P_R, !OG.stop_seen), "the new thread reports an error only for a throwing set_value");
  VF_P(OP.thread_.id == T_NONE, "no joinable handle is left in the operation when the receiver can destroy it");
  vf_deliver(self); OG.error++;
}

/* ---------------- functions under contract ---------------- */
#define FRESH_CALL (G.lin_count == 0 && G.joins == 0 && G.self_joins == 0 && !G.ctx_acquired && !G.ctx_dead \
   && !CTX.mut_.held && CTX.mut_.acquired == 0 && CTX.mut_.released == 0 && CTX.cv_.notify_one == 0 && CTX.cv_.notify_all == 0 && CTX.cv_.waits == 0)

/* retire_thread(t): t is the calling thread's own handle */
void context_retire_thread(struct context* self, struct vf_thread t)
__CPROVER_requires(self == &CTX && G.me == P_R && t.id == T_ME && G.ts[T_ME] == TS_RUNNING && G.mine == 1 && CNTINV_NOW && FRESH_CALL)
__CPROVER_requires(OG.completed == 1)   /* the thread retires after it has completed its receiver */
__CPROVER_assigns(CTX, G)
__CPROVER_ensures(!CTX.mut_.held && CTX.mut_.acquired == 1 && CTX.mut_.released == 1 && CNTINV_NOW)
/* retired exactly once: own handle parked (checked at the release), count decremented once under the lock */
__CPROVER_ensures(G.lin_count == 1 && G.mine == 0 && G.ts[T_ME] != TS_RUNNING && G.self_joins == 0)
/* the thread that retired immediately before (if any) is joined by this one, exactly once, before it exits; nobody else is joined */
__CPROVER_ensures(G.acq_slot == T_NONE ==> (G.joins == 0 && G.acq_retired == 0))
__CPROVER_ensures(G.acq_slot != T_NONE ==> (G.joins == 1 && G.ts[T_SLOT] == TS_JOINED))
/* the last one out wakes the destructor */
__CPROVER_ensures(G.lin_new == 0 ==> (CTX.cv_.notify_one + CTX.cv_.notify_all >= 1))
/*@BODY retire_thread*/

/* ~context() */
#define DTOR_LOOP_INV (CTX.mut_.held && G.me == P_D && G.dtor_dec && G.lin_count == 1 && G.mine == 0 && CNTINV_NOW && SLOT_LI && G.joins == 0 && G.acq_slot == CTX.threadToJoin_.id && G.acq_retired == G.retired \
   && CTX.mut_.acquired == 1 && CTX.mut_.released == 0 && !G.ctx_dead && G.ctx_acquired)
void context_dtor(struct context* self)
__CPROVER_requires(self == &CTX && G.me == P_D && !G.dtor_dec && G.mine == 0 && CNTINV_NOW && FRESH_CALL)
__CPROVER_assigns(CTX, G)
__CPROVER_ensures(G.dtor_dec && G.lin_count == 1 && CNTINV_NOW && !CTX.mut_.held)
__CPROVER_ensures(G.retired == G.started && CTX.activeThreadCount_ == 0)                 /* returns only when every thread it created has retired ... */
__CPROVER_ensures(G.started >= 1 ==> (G.joins == 1 && G.ts[T_SLOT] == TS_JOINED))        /* ... and the last of them (which joined its predecessor, lemma_nt_chain) is joined, once */
__CPROVER_ensures(G.started == 0 ==> G.joins == 0)                                        /* no thread created: nothing to join, no join on an empty handle */
__CPROVER_ensures(CTX.threadToJoin_.id == T_NONE)                                         /* the member threadToJoin_ is destroyed non-joinable */
/*@BODY ctx_dtor*/

/* start() */
void op_start(struct op* self)
__CPROVER_requires(self == &OP && OP.ctx_ == &CTX && G.me == P_S && OP.thread_.id == T_NONE && !OP.mut_.held && G.ts[T_ME] == TS_UNBORN && !G.dtor_dec && G.mine == 0 && CNTINV_NOW && FRESH_CALL)
__CPROVER_requires(!OG.created && !OG.threw && OG.creates == 0 && OG.completed == 0 && OG.value == 0 && OG.done == 0 && OG.error == 0 && OG.polls == 0 && !OG.op_dead && !OG.on_new_thread)
__CPROVER_assigns(CTX, OP, G, OG)
__CPROVER_ensures(OG.creates == 1 && !OP.mut_.held && !CTX.mut_.held && CTX.mut_.acquired == 0)
/* thread created: counted exactly once (before it could retire: checked at the release of the operation's lock), nothing delivered by start() itself */
__CPROVER_ensures(OG.created ==> (!OG.threw && G.lin_count == 1 && G.lin_new == G.lin_old + 1 && OG.completed == 0 && G.ts[T_ME] == TS_RUNNING))
/* thread not created: nothing counted, the error delivered exactly once */
__CPROVER_ensures(!OG.created ==> (OG.threw && G.lin_count == 0 && OG.completed == 1 && OG.error == 1 && OG.value == 0 && OG.done == 0 && (OG.op_dead || OP.thread_.id == T_NONE)))
__CPROVER_ensures(!OG.op_dead || OP_EQ_SNAP)                                               /* nothing written after the operation may be gone */
/*@BODY op_start*/

/* run(): the new thread */
void op_run(struct op* self)
__CPROVER_requires(self == &OP && OP.ctx_ == &CTX && G.me == P_R && OG.on_new_thread && OP.thread_.id == T_ME && !OP.mut_.held && G.ts[T_ME] == TS_RUNNING && G.mine == 1 && CNTINV_NOW && FRESH_CALL)
__CPROVER_requires(!OG.threw && OG.completed == 0 && OG.value == 0 && OG.done == 0 && OG.error == 0 && OG.polls == 0 && !OG.stop_seen && !OG.op_dead)
__CPROVER_assigns(CTX, OP, G, OG)
__CPROVER_ensures(OG.completed == 1 && OG.value + OG.done + OG.error == 1)                     /* exactly one completion signal */
__CPROVER_ensures(OG.polls == 1 && BEQ(OG.done == 1, OG.stop_seen) && IMP(OG.error == 1, OG.threw && OG.value == 0))  /* done iff stop was requested; error only for a throwing set_value */
__CPROVER_ensures(G.lin_count == 1 && G.mine == 0 && G.ts[T_ME] != TS_RUNNING && G.self_joins == 0)                         /* the thread retires exactly once, after the completion, handing on its own handle */
__CPROVER_ensures(!OG.op_dead || OP_EQ_SNAP)                                               /* the operation is not touched after the completion */
/*@BODY op_run*/

/* ~type() */
void op_dtor(struct op* self)
__CPROVER_requires(self == &OP)
__CPROVER_assigns()
__CPROVER_ensures(1)
/*@BODY op_dtor*/

/* ---------------- harnesses ---------------- */
static void h_zero(int me) {
  G.me = me; G.lin_count = 0; G.joins = 0; G.self_joins = 0; OG.creates = 0; OG.created = 0; OG.threw = 0; G.ctx_acquired = 0; G.ctx_dead = 0;
  OG.on_new_thread = 0; OG.completed = 0; OG.value = 0; OG.done = 0; OG.error = 0; OG.polls = 0; OG.stop_seen = 0; OG.op_dead = 0; G.acq_slot = T_NONE; G.acq_retired = 0;
  G.ts[T_NONE] = TS_UNBORN; G.ts[T_ME] = TS_UNBORN; G.ts[T_SLOT] = TS_UNBORN;
  CTX.mut_.held = 0; CTX.mut_.acquired = 0; CTX.mut_.released = 0; CTX.cv_.notify_one = 0; CTX.cv_.notify_all = 0; CTX.cv_.waits = 0;
  OP.mut_.held = 0; OP.mut_.acquired = 0; OP.mut_.released = 0; OP.ctx_ = &CTX; OP.thread_.id = T_NONE;
}
/* any state of the count protocol */
static void h_count(size_t mine, _Bool dtor_dec) {
  G.mine = mine; G.dtor_dec = dtor_dec;
  G.started = VF_nondet_size_t(); G.retired = VF_nondet_size_t(); CTX.activeThreadCount_ = VF_nondet_size_t();
  __CPROVER_assume(CNTINV_NOW);
  CTX.threadToJoin_.id = VF_nondet_int();        /* protected by mut_: rebuilt at every acquire */
}
void h_retire_thread(void) {
  h_zero(P_R); h_count(1, VF_nondet_bool() ? 1 : 0); OG.on_new_thread = 1; G.ts[T_ME] = TS_RUNNING;
  struct vf_thread t; t.id = T_ME; OG.completed = 1;
  context_retire_thread(&CTX, t);
  VF_CANARY("after retire_thread");
  if (G.acq_slot != T_NONE) { VF_CANARY("retire_thread joins its predecessor"); } else { VF_CANARY("retire_thread of the first thread"); }
  if (G.lin_new == 0) { VF_CANARY("the last thread out wakes the destructor"); } else { VF_CANARY("not the last party"); }
}
void h_ctx_dtor(void) {
  h_zero(P_D); h_count(0, 0);
  context_dtor(&CTX);
  VF_CANARY("after ~context");
  if (G.started >= 1) { VF_CANARY("the destructor joins the last thread"); } else { VF_CANARY("the destructor of a context that created no thread"); }
}
void h_op_start(void) {
  h_zero(P_S); h_count(0, 0);
  op_start(&OP);
  VF_CANARY("after start");
  if (OG.created) { VF_CANARY("start can create the thread"); } else { VF_CANARY("thread creation can fail"); }
  if (OG.op_dead) { VF_CANARY("the operation can be gone when start returns"); }
}
void h_op_run(void) {
  h_zero(P_R); h_count(1, VF_nondet_bool() ? 1 : 0); OG.on_new_thread = 1; G.ts[T_ME] = TS_RUNNING; OP.thread_.id = T_ME;
  op_run(&OP);
  VF_CANARY("after run");
  if (OG.value) { VF_CANARY("run can complete with value"); }
  if (OG.done) { VF_CANARY("run can complete with done"); }
  if (OG.error) { VF_CANARY("run can complete with the error of a throwing set_value"); }
  if (OG.op_dead) { VF_CANARY("the receiver can destroy the operation"); }
}
void h_op_dtor(void) { h_zero(P_R); OP.thread_.id = T_NONE; op_dtor(&OP); VF_CANARY("after ~type"); }

/* ---------------- M4 lemmas over the contracts ---------------- */
static struct proto any_proto(void) { struct proto p; p.cnt = VF_nondet_size_t(); p.started = VF_nondet_size_t(); p.retired = VF_nondet_size_t(); p.dtor_dec = VF_nondet_bool() ? 1 : 0; return p; }
enum { ST_START, ST_RETIRE, ST_DTOR, ST_NKINDS };
void lemma_nt_count(void) {
  struct proto a = any_proto(), b;
  __CPROVER_assume(CNTINV(a, 0) && a.started < NT_MAX);
  int kind = VF_nondet_int(); __CPROVER_assume(kind >= 0 && kind < ST_NKINDS);
  b = a; _Bool en = 0;
  switch (kind) {                       /* the steps as vf_guar describes them */
  case ST_START:  en = !a.dtor_dec; b.cnt = a.cnt + 1; b.started = a.started + 1; break;
  case ST_RETIRE: en = a.retired < a.started; b.cnt = a.cnt - 1; b.retired = a.retired + 1; break;     /* some started thread that has not retired; under mut_ */
  case ST_DTOR:   en = !a.dtor_dec; b.cnt = a.cnt - 1; b.dtor_dec = 1; break;
  }
  __CPROVER_assume(en);
  VF_CANARY("lemma premises satisfiable");
  VF_P(CNTINV(b, 0), "lemma: every step of every party preserves the count invariant");
  VF_P(IMP(kind != ST_START, a.cnt >= 1), "lemma: a decrement never wraps (the count is at least 1 whenever somebody may decrement)");
  /* guarantee => rely */
  int me = VF_nondet_int(); __CPROVER_assume(me == P_S || me == P_R || me == P_D);
  _Bool held = VF_nondet_bool();
  size_t mine = VF_nondet_bool() ? 1 : 0;
  __CPROVER_assume(CNTINV(a, mine));
  if (!(kind == ST_RETIRE && held)                       /* a retire step needs mut_: not while I hold it */
      && !(kind == ST_DTOR && (me == P_D || me == P_S))    /* the destructor's own step; no destructor during start() (caller) */
      && !(kind == ST_RETIRE && mine == 1 && a.retired + 1 == a.started))   /* the thread I stand for does not retire behind my back */
    VF_P(RELY(me, held, mine, a, b), "lemma: each party's step is allowed by every other party's rely");
  /* consequences */
  VF_P(IMP(b.dtor_dec && b.cnt == 0, b.retired == b.started), "lemma: once the destructor has taken its 1 away, count == 0 means every started thread has retired");
  VF_P(IMP(!b.dtor_dec, b.cnt >= 1), "lemma: before the destructor begins the count never reaches 0 (retire_thread does not notify early)");
  VF_P(IMP(b.dtor_dec && b.retired < b.started, b.cnt != 0), "lemma: the destructor's predicate is false while a thread has not retired");
}
void lemma_nt_rely(void) {
  struct proto a = any_proto(), b = any_proto(), c = any_proto();
  int me = VF_nondet_int(); __CPROVER_assume(me == P_S || me == P_R || me == P_D);
  _Bool held = VF_nondet_bool(); size_t mine = VF_nondet_bool() ? 1 : 0;
  __CPROVER_assume(CNTINV(a, mine));
  VF_P(RELY(me, held, mine, a, a), "lemma: rely reflexive");
  __CPROVER_assume(RELY(me, held, mine, a, b) && RELY(me, held, mine, b, c));
  VF_CANARY("rely premises satisfiable");
  VF_P(RELY(me, held, mine, a, c), "lemma: rely transitive");
}
/* join chain: number the threads in the order of their retire_thread critical sections (serialised by mut_).  retire_thread's contract:
 * thread k joins thread k-1 before it returns (= before thread k exits).  join returns only after the joined thread has exited. */
void lemma_nt_chain(void) {
  _Bool exited_k = VF_nondet_bool(), joined_km1 = VF_nondet_bool(), exited_km1 = VF_nondet_bool(), all_joined_below_km1 = VF_nondet_bool();
  __CPROVER_assume(IMP(exited_k, joined_km1));            /* contract of retire_thread (k): predecessor joined before it returns */
  __CPROVER_assume(IMP(joined_km1, exited_km1));          /* std::thread::join */
  __CPROVER_assume(IMP(exited_km1, all_joined_below_km1)); /* induction hypothesis for k-1 */
  VF_CANARY("lemma premises satisfiable");
  VF_P(IMP(exited_k, all_joined_below_km1 && joined_km1), "lemma: when thread k has exited every thread that retired before it has been joined");
  /* ~context: count == 0 => all started threads retired; it joins the last one (k = started); by the line above all others were joined by their successors */
  size_t started = VF_nondet_size_t(), w = VF_nondet_size_t();
  __CPROVER_assume(started >= 1 && started <= NT_MAX && w >= 1 && w <= started);
  size_t joiner = (w < started) ? w + 1 : 0;              /* 0 = the destructor */
  VF_P(joiner != w, "lemma: no thread is its own joiner");
  VF_P((joiner == 0) == (w == started), "lemma: exactly the last retired thread is joined by the destructor, every other one by its successor: one joiner per thread");
}
void lemma_nt_init(void) {
  h_zero(P_D);
  CTX.activeThreadCount_ = ACTIVETHREADCOUNT_INIT; G.started = 0; G.retired = 0; G.dtor_dec = 0; G.mine = 0;
  VF_THREAD_CTOR(&CTX.threadToJoin_);
  VF_P(ACTIVETHREADCOUNT_INIT == 1, "lemma: the count starts at 1 (the destructor's share): it cannot reach 0 before the destructor begins");
  VF_P(CNTINV_NOW && SLOT_LI, "lemma: a fresh context satisfies the count invariant and the monitor invariant (no thread retired, threadToJoin_ empty)");
  VF_CANARY("lemma_nt_init reachable");
}
