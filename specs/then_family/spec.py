import re

HT = 'include/unifex/then.hpp'
HE = 'include/unifex/upon_error.hpp'
HD = 'include/unifex/upon_done.hpp'
RCVCLS = r'struct _receiver<Receiver, Func>::type \{'       # the same spelling in the three headers (namespaces _then / _upon_error / _upon_done)

# ---------------------------------------------------------------------------------------------------------------------------------
# call abstractions (the only per-spec rules).  Everything these functions do is a call into a C++-only callee: the user's function
# (std::invoke on func_) and the receiver CPOs on receiver_.  Both spellings used by the three headers are admitted:
#     std::move(receiver_) | (Receiver&&)receiver_ | (Receiver&&)(receiver_)          std::move(func_) | (Func&&)func_
#     std::forward<T>(x)[...] | (T&&)x[...] | (T&&)(x)[...]                             (x = the function parameter: payload token)
# The CPO name written in the source becomes the channel argument of the stub (CH_set_value / CH_set_error / CH_set_done), the
# payload is the parameter name written in the source, PAY_VOID for an empty argument list, PAY_EXCEPTION for std::current_exception(),
# or the token returned by the function when the call is nested:  set_value(receiver_, invoke(func_, x))  ->  r = invoke; set_value(r)
# (C++ evaluates the argument before the call: an exception of the function skips the CPO call).
# ---------------------------------------------------------------------------------------------------------------------------------
RCV = r'(?:std::move\(\s*(?:this->)?receiver_\s*\)|\(Receiver&&\)\s*(?:\(\s*(?:this->)?receiver_\s*\)|(?:this->)?receiver_))'
FUNC = r'(?:std::move\(\s*(?:this->)?func_\s*\)|\(Func&&\)\s*(?:\(\s*(?:this->)?func_\s*\)|(?:this->)?func_))'
PAY = r'(?:std::forward<\w+>\(\s*(\w+)\s*\)|\(\w+&&\)\s*(?:\(\s*(\w+)\s*\)|(\w+)))(?:\s*\.\.\.)?'
INVOKE = r'std::invoke\(\s*' + FUNC + r'\s*(?:,\s*' + PAY + r')?\s*\)'       # groups: 3 (payload name alternatives)
CPO = r'unifex::(set_value|set_error|set_done)'


def _name(*alts):
    for a in alts:
        if a:
            return a
    return 'PAY_VOID'


def calls(text, throw):
    """apply the call abstractions to `text`; `throw` is the statement executed when a may-throw stub reports an exception"""
    t = text
    # CPO(receiver_, invoke(func_[, x]));
    t = re.sub(r'(?s)' + CPO + r'\(\s*' + RCV + r'\s*,\s*' + INVOKE + r'\s*\)\s*;',
               lambda m: '{ int vf_r = 0; if (EV_invoke_func(this, func_, %s, &vf_r)) %s if (EV_complete(this, CH_%s, receiver_, vf_r)) %s }'
               % (_name(m.group(2), m.group(3), m.group(4)), throw, m.group(1), throw), t)
    # CPO(receiver_, std::current_exception());
    t = re.sub(r'(?s)' + CPO + r'\(\s*' + RCV + r'\s*,\s*std::current_exception\(\)\s*\)\s*;',
               lambda m: 'if (EV_complete(this, CH_%s, receiver_, PAY_EXCEPTION)) %s' % (m.group(1), throw), t)
    # CPO(receiver_[, x]);
    t = re.sub(r'(?s)' + CPO + r'\(\s*' + RCV + r'\s*(?:,\s*' + PAY + r')?\s*\)\s*;',
               lambda m: 'if (EV_complete(this, CH_%s, receiver_, %s)) %s' % (m.group(1), _name(m.group(2), m.group(3), m.group(4)), throw), t)
    # invoke(func_[, x]);   as a statement (result, if any, discarded)
    t = re.sub(r'(?s)(?:(?<=[;{}])|^)(\s*)' + INVOKE + r'\s*;',
               lambda m: '%sif (EV_invoke_func(this, func_, %s, NULL)) %s' % (m.group(1), _name(m.group(2), m.group(3), m.group(4)), throw), t)
    return t


BAL = r'(?:[^{}]|\{[^{}]*\})*'


def _try(m):
    # UNIFEX_TRY { A } UNIFEX_CATCH(...) { B }  ->  { A' } if (0) { vf_catch_<n>: B }   (DESIGN 3.1 last row; spec-level as in the other
    # groups).  A function here has TWO try blocks (void / non-void result): the label is numbered by its position in the span, and the
    # may-throw stubs inside A jump to the label of their own block.  G.in_try tells the stubs that a handler exists.
    lab = 'vf_catch_%d' % m.start()
    return '{ G.in_try = 1; %s G.in_try = 0; } if (0) { %s: G.in_try = 0;' % (calls(m.group(1), 'goto %s;' % lab), lab)


def _void_alias(m):
    # using R = std::invoke_result_t<Func, ...>;  if constexpr (std::is_void_v<R>)  ->  VF_CFG_void   (the alias name is read from the source)
    t = m.group(0)
    a = re.search(r'using (\w+) = std::invoke_result_t<Func(?:,\s*[\w.\s]+)?>;', t)
    if a:
        t = t.replace(a.group(0), '')
        t = re.sub(r'std::is_void_v<\s*' + a.group(1) + r'\s*>', 'VF_CFG_void', t)
    return t


PRE = [
    (r'(?s)^.*$', _void_alias),
    # which `if constexpr` branch an instantiation takes: symbolic configuration constants, ALL branches verified
    (r'std::is_nothrow_invocable_v<Func(?:,\s*[\w.\s]+)?>', 'VF_CFG_nothrow'),           # then.hpp
    (r'(?s)noexcept\(\s*' + INVOKE + r'\s*\)', 'VF_CFG_nothrow'),                        # upon_error.hpp / upon_done.hpp
    (r'(?s)UNIFEX_TRY\s*\{(' + BAL + r')\}\s*UNIFEX_CATCH\s*\(\.\.\.\)\s*\{', _try),
    # outside any try block: an exception leaves the function (std::terminate if it is noexcept, see VF_THROW_OUT in the template)
    (r'(?s)^.*$', lambda m: calls(m.group(0), 'VF_THROW_OUT;')),
]
# every access to a member of the adaptor's receiver object asserts that the object may still exist (no statement changed)
POST = [(r'\bself->(func_|receiver_)\b', r'VF_M(self)->\1')]
CTX = dict(cls='tf_rcv', members=['func_', 'receiver_'], methods=[], pre=PRE, post=POST)
# is the member function declared noexcept?  (read from the source: `&& noexcept {` -> 1 ||, `&& {` -> nothing)
NX_CTX = dict(pre=[(r'noexcept', '1 ||')])

SIGS = dict(set_value=r'void set_value\(Values&&\.\.\. values\) &&', set_error=r'void set_error\(Error&& error\) &&', set_done=r'void set_done\(\) &&')
extracts = {}
for pfx, f in (('then', HT), ('ue', HE), ('ud', HD)):
    for fn, sig in SIGS.items():
        extracts['%s_%s' % (pfx, fn)] = dict(file=f, sig=sig + r'(?:\s*noexcept\b)?(?!\s*\()', within=RCVCLS, ctx=CTX)
        extracts['%s_%s_nx' % (pfx, fn)] = dict(file=f, kind='expr', sig=sig + r'(\s*(?:noexcept\b(?!\s*\())?)\s*\{', within=RCVCLS, ctx=NX_CTX)

QUERY = r'(?s)friend auto tag_invoke\(CPO cpo, const (?:R|type)& r\) noexcept\(.*?return std::move\(cpo\)\(std::as_const\(r\.receiver_\)\);\s*\}'
VISIT = r'(?s)tag_invoke\(tag_t<visit_continuations>, const type& (\w+), Visit&& visit\) \{\s*std::invoke\(visit, \1\.receiver_\);\s*\}'
DECLS = [r'UNIFEX_NO_UNIQUE_ADDRESS Func func_;', r'UNIFEX_NO_UNIQUE_ADDRESS Receiver receiver_;']


def U(name, **kw):
    return dict(name=name, harness='h_' + name, enforce=name, **kw)


SPEC = dict(
    properties=['C05', 'C01'],
    ctx={},
    extracts=extracts,
    # sequential code, no rely: the scan only documents that func_ / receiver_ of the three receiver classes are used nowhere else
    # than in the nine extracted bodies, the member declarations and the const query forwarders
    closed_world=[dict(file=f, within=RCVCLS, members=['func_', 'receiver_'], allow=DECLS + [QUERY, VISIT]) for f in (HT, HE, HD)],
    units=[
        U('then_set_value'), U('then_set_error'), U('then_set_done'),
        U('ue_set_value'), U('ue_set_error'), U('ue_set_done'),
        U('ud_set_value'), U('ud_set_error'), U('ud_set_done'),
        dict(name='lemma_tf_table', harness='lemma_tf_table', mode='lemma'),
        dict(name='lemma_tf_propagated', harness='lemma_tf_propagated', mode='lemma'),
    ],
    assumptions=[
        'the predecessor operation completes the adaptor\'s receiver exactly once, on exactly one channel, not before it was started (C01 for the child); '
        'the ONE exception: a predecessor whose call of a potentially-throwing receiver set_value exits with an exception (upon_error / upon_done set_value are not noexcept '
        'and have no try block) gets the exception back with the receiver object intact and un-completed, and will signal set_error on the same object (lemma_tf_propagated states what the code owes for that)',
        'a throwing downstream set_value has NOT completed the downstream receiver (EV_complete(CH_set_value) throws only BEFORE delivering): the library may then call set_error on it',
        'OBSERVATION (assumed away, as for let_value): in a noexcept member function OUTSIDE a try block the downstream set_value is assumed not to throw. '
        'then / upon_error / upon_done take the try-less branch whenever the FUNCTION is nothrow-invocable, whatever the downstream receiver\'s set_value is; '
        'a throwing receiver set_value there reaches std::terminate (the claimed property is about throwing callables and value copies)',
        'downstream set_error / set_done do not throw (noexcept by the receiver concept)',
        'the user function throws only in instantiations in which it is not nothrow-invocable (VF_CFG_nothrow is the value of is_nothrow_invocable_v / noexcept(std::invoke(...)) for the instantiation); '
        'VF_CFG_void is the value of is_void_v<invoke_result_t<...>>: the four combinations are verified in the same unit (symbolic constants, a canary for each)',
        'the downstream receiver may destroy the whole operation (and with it the adaptor\'s receiver object) as soon as a completion signal was delivered',
        'payload identity only: values / errors / function results are opaque tokens; "unchanged" means the token delivered is the token received; perfect forwarding, value categories and the '
        'sender-side type computations (value_types / error_types / sends_done) are not modelled',
        'start(), connect(), the sender types and the then/upon_error/upon_done CPOs are not part of this group (connect forwards func_ and the receiver into the receiver object: not modelled)',
    ],
    drops=['template genericity (Receiver, Func, Values..., Error): one symbolic instantiation; `if constexpr` on is_void_v<result> and on is_nothrow_invocable_v / noexcept(std::invoke(..)) '
           '-> symbolic constants VF_CFG_void / VF_CFG_nothrow, every branch verified',
           'std::invoke(std::move(func_), args...) -> may-throw event EV_invoke_func(self, func_, payload token, &result token); '
           'unifex::set_value/set_error/set_done(std::move(receiver_), payload) -> EV_complete(self, CH_<cpo>, receiver_, payload token) (CH_set_value may throw before delivering)',
           'nested call set_value(receiver_, invoke(func_, x)) -> { r = invoke; set_value(r) } (argument evaluated first)',
           'UNIFEX_TRY / UNIFEX_CATCH -> goto vf_catch_<n> at the may-throw stubs inside the block (one label per try block); outside a try block VF_THROW_OUT '
           '(std::terminate when the member function is noexcept -- read from the signature --, otherwise the exception propagates to the caller)',
           '`using result_t = std::invoke_result_t<...>;` dropped (its name is used to recognise is_void_v<result_t>)',
           'std::move / (T&&) casts, std::forward: value categories', 'receiver queries (tag_invoke forwarding to receiver_), visit_continuations'],
)
