/* C05 / C01 (scoped): the receivers of then / upon_error / upon_done
 *   include/unifex/then.hpp        _then::_receiver<Receiver, Func>::type::{set_value, set_error, set_done}
 *   include/unifex/upon_error.hpp  _upon_error::_receiver<Receiver, Func>::type::{set_value, set_error, set_done}
 *   include/unifex/upon_done.hpp   _upon_done::_receiver<Receiver, Func>::type::{set_value, set_error, set_done}
 * Bodies marked @BODY / @EXPR are extracted from /repo on every run; everything else here is specification.
 *
 * Each of the three adaptors handles ONE channel (then: value, upon_error: error, upon_done: done) by running the user's function
 * and delivering its result on the VALUE channel, and forwards the other two channels unchanged.  The receiver object holds two
 * members, func_ and receiver_ (opaque tokens here).  Sequential code: no atomics, no interference; the content is in the two
 * event stubs:
 *   EV_invoke_func  the user's function: at most once, only on the adaptor's channel, on the incoming payload, before any completion;
 *                   may throw in instantiations in which it is not nothrow-invocable
 *   EV_complete     a completion signal on the downstream receiver: at most once per incoming signal, on receiver_, never after a
 *                   previous one (the downstream receiver may have destroyed the operation: dead-object snapshot); set_value may
 *                   throw BEFORE delivering
 * and the channel-fidelity table is the postcondition of every function (TF_C05_*), exactly-once / untouched-after is TF_C01_*. */
#include <stddef.h>
#include <stdint.h>

struct tf_rcv { int func_; int receiver_; };                 /* Func func_; Receiver receiver_;  (identity tokens) */

enum { CH_NONE, CH_set_value, CH_set_error, CH_set_done };   /* named after the CPO written in the source */
#define PAY_EXCEPTION (-1)                                   /* std::current_exception() */
#define PAY_VOID (-2)                                        /* empty argument list: set_value(), set_done(), func() */

struct vf_ghost {
  /* the incoming signal (harness) */
  int adaptor;                 /* the channel this adaptor transforms: CH_set_value (then) / CH_set_error (upon_error) / CH_set_done (upon_done) */
  int in_ch, in_pay;           /* which channel came in, with which payload token */
  int func_token, rcv_token;   /* identity of func_ / receiver_ at entry */
  int func_result;             /* the token the function returns (non-void instantiations) */
  int fn_noexcept;             /* the member function under verification is declared noexcept (from the source) */
  /* what the function under verification did */
  unsigned completed; int out_ch, out_pay;      /* downstream completion signals delivered; channel and payload of the (last) one */
  unsigned func_calls; int func_arg; int func_threw;
  unsigned sv_attempts; int sv_threw;           /* downstream set_value calls (delivered or throwing) */
  int in_try;                                   /* inside a UNIFEX_TRY block (a handler exists) */
  int propagated;                               /* an exception left the member function */
  unsigned terminates;
  int dead; struct tf_rcv snap;                 /* the adaptor's receiver object may have been destroyed; its bytes at that moment */
};
static struct vf_ghost G;
static struct tf_rcv RCV;
static int VF_CFG_void;        /* std::is_void_v<std::invoke_result_t<Func, ...>> of the instantiation */
static int VF_CFG_nothrow;     /* std::is_nothrow_invocable_v<Func, ...> / noexcept(std::invoke((Func&&)func_, ...)) of the instantiation */

/* noexcept-ness of the nine member functions, read from their signatures */
#define THEN_SET_VALUE_NX (/*@EXPR then_set_value_nx*/ 0)
#define THEN_SET_ERROR_NX (/*@EXPR then_set_error_nx*/ 0)
#define THEN_SET_DONE_NX  (/*@EXPR then_set_done_nx*/ 0)
#define UE_SET_VALUE_NX   (/*@EXPR ue_set_value_nx*/ 0)
#define UE_SET_ERROR_NX   (/*@EXPR ue_set_error_nx*/ 0)
#define UE_SET_DONE_NX    (/*@EXPR ue_set_done_nx*/ 0)
#define UD_SET_VALUE_NX   (/*@EXPR ud_set_value_nx*/ 0)
#define UD_SET_ERROR_NX   (/*@EXPR ud_set_error_nx*/ 0)
#define UD_SET_DONE_NX    (/*@EXPR ud_set_done_nx*/ 0)

#include "vf.h"
static void vf_interfere(void) {}
#define IMP(a, b) (!(a) || (b))

/* the downstream receiver has been completed: it may destroy the operation state that contains this receiver object */
static void vf_rcv_may_be_gone(void) {
  struct tf_rcv f;
  RCV.func_ = f.func_; RCV.receiver_ = f.receiver_;
  G.snap = RCV; G.dead = 1;
}
/* every member access of the extracted text goes through this (spec.py POST) */
#define VF_M(self) ({ VF_P(!G.dead, "C01: no member of the adaptor's receiver (func_, receiver_) is touched after the downstream receiver was completed"); (self); })
/* an exception outside every try block of the member function: std::terminate if the function is noexcept, else it propagates to the caller */
#define VF_THROW_OUT do { if (G.fn_noexcept) { G.terminates++; VF_terminate(); } G.propagated = 1; return; } while (0)

#ifdef VF_RCV_SET_VALUE_THROWS_ANYWHERE
#define VF_SV_MAY_THROW 1
#else
#define VF_SV_MAY_THROW (G.in_try || !G.fn_noexcept)
#endif

/* ---------------- event stubs ---------------- */
/* std::invoke(std::move(func_), payload...) ; result == NULL: the call is a full expression statement (result discarded) */
static _Bool EV_invoke_func(struct tf_rcv* self, int func, int arg, int* result) {
  VF_P(self == &RCV, "the function is invoked by the receiver under verification");
  VF_P(!G.dead && G.completed == 0, "C01: the function runs BEFORE the downstream receiver is completed, never after");
  VF_P(func == G.func_token, "the callable invoked is the adaptor's func_");
  VF_P(G.in_ch == G.adaptor, "C05: the function is invoked only when the predecessor completed on the channel the adaptor is for");
  VF_P(G.func_calls == 0, "C01/C05: the function is invoked at most once per incoming signal");
  VF_P(arg == G.in_pay, "C05: the function is applied to the incoming payload, unmodified");
  G.func_calls++; G.func_arg = arg;
  if (!VF_CFG_nothrow && VF_nondet_bool()) { G.func_threw = 1; return 1; }
  if (result) {
    VF_A(!VF_CFG_void, "the result of a void function cannot be an argument (does not compile in that instantiation)");
    *result = G.func_result;
  }
  return 0;
}
/* unifex::set_value / set_error / set_done (std::move(receiver_) [, payload]) ; returns 1 when the call exits with an exception */
static _Bool EV_complete(struct tf_rcv* self, int ch, int rcv, int pay) {
  VF_P(self == &RCV, "the completion is sent by the receiver under verification");
  VF_P(!G.dead, "C01: nothing of the adaptor is used after the downstream receiver was completed");
  VF_P(G.completed == 0, "C01: the downstream receiver is completed at most once per incoming signal");
  VF_P(rcv == G.rcv_token, "the receiver completed is the adaptor's downstream receiver_");
  VF_P(pay != PAY_EXCEPTION || G.func_threw || G.sv_threw, "C05: std::current_exception() is delivered only from a handler, while an exception of the function / of set_value is in flight");
  VF_P(IMP(G.func_threw || G.sv_threw, ch == CH_set_error && pay == PAY_EXCEPTION), "C05: after a throw the only signal is set_error(std::current_exception())");
  if (ch == CH_set_value) {
    VF_P(G.sv_attempts == 0, "C01: set_value is attempted at most once");
    G.sv_attempts++;
    /* a throwing set_value has NOT completed the receiver.  Outside a try block of a noexcept function it is assumed not to throw (spec: assumptions;
     * -DVF_RCV_SET_VALUE_THROWS_ANYWHERE lifts the assumption: the try-less nothrow-function branches then reach std::terminate, see
     * probes/native/then_noexcept_func_throwing_receiver_set_value_terminates.cpp) */
    if (VF_SV_MAY_THROW && VF_nondet_bool()) { G.sv_threw = 1; return 1; }
  }
  G.completed++; G.out_ch = ch; G.out_pay = pay;
  vf_rcv_may_be_gone();
  return 0;
}

/* ---------------- the property, as predicates over the ghost state ---------------- */
#define TF_FRESH(g) ((g).completed == 0 && (g).out_ch == CH_NONE && (g).func_calls == 0 && !(g).func_threw && (g).sv_attempts == 0 && !(g).sv_threw \
  && !(g).in_try && !(g).propagated && (g).terminates == 0 && !(g).dead)
#define TF_WF(g) (((g).adaptor == CH_set_value || (g).adaptor == CH_set_error || (g).adaptor == CH_set_done) \
  && ((g).in_ch == CH_set_value || (g).in_ch == CH_set_error || (g).in_ch == CH_set_done) \
  && ((g).in_ch == CH_set_done ? (g).in_pay == PAY_VOID : (g).in_pay > 0) && (g).func_result > 0 && (g).func_token > 0 && (g).rcv_token > 0)
#define TF_MATCH(g) ((g).in_ch == (g).adaptor)
#define TF_THREW(g) ((g).func_threw || (g).sv_threw)
/* C01: for every incoming signal the downstream receiver is completed exactly once -- or (only a member that is not noexcept, only through a
 * throwing downstream set_value) the exception goes back to the predecessor with NOTHING delivered; std::terminate is never reached */
#define TF_C01_ONCE(g) ((g).terminates == 0 && ((g).propagated ? ((g).completed == 0 && !(g).dead && (g).sv_threw && !(g).fn_noexcept) : ((g).completed == 1 && (g).dead)))
/* C01/C05: the function is invoked exactly once on the adaptor's channel, never on the other two */
#define TF_FUNC_IFF_MATCH(g) ((g).func_calls == (TF_MATCH(g) ? 1u : 0u) && IMP((g).func_threw, (g).func_calls == 1 && !VF_CFG_nothrow))
/* C05, the adaptor's own channel: the signal is replaced by the function's result on the VALUE channel (void result -> empty value);
 * a throwing function / set_value becomes exactly one set_error(current_exception), and after a throwing FUNCTION no set_value was attempted */
#define TF_C05_TRANSFORMS(g) (IMP(TF_MATCH(g), !(g).propagated && (g).func_arg == (g).in_pay \
  && IMP(!TF_THREW(g), (g).out_ch == CH_set_value && (g).out_pay == (VF_CFG_void ? PAY_VOID : (g).func_result) && (g).sv_attempts == 1) \
  && IMP(TF_THREW(g), (g).out_ch == CH_set_error && (g).out_pay == PAY_EXCEPTION) \
  && IMP((g).func_threw, (g).sv_attempts == 0)))
/* C05, the other two channels: same channel, same payload, no function call */
#define TF_C05_PASSES(g) (IMP(!TF_MATCH(g), (g).func_calls == 0 && !(g).func_threw \
  && ((g).propagated ? (g).in_ch == CH_set_value : ((g).out_ch == (g).in_ch && (g).out_pay == (g).in_pay && !(g).sv_threw))))
#define TF_ENS(g) (TF_C01_ONCE(g) && TF_FUNC_IFF_MATCH(g) && TF_C05_TRANSFORMS(g) && TF_C05_PASSES(g))
/* nothing written to the object after it may have been destroyed; an object that was not completed is intact (the predecessor will use it again) */
#define TF_UNTOUCHED (G.dead ? (RCV.func_ == G.snap.func_ && RCV.receiver_ == G.snap.receiver_) : (RCV.func_ == G.func_token && RCV.receiver_ == G.rcv_token))

#define TF_REQ(ad, in) (self == &RCV && TF_FRESH(G) && TF_WF(G) && G.adaptor == (ad) && G.in_ch == (in) && RCV.func_ == G.func_token && RCV.receiver_ == G.rcv_token)

/* ---------------- functions under contract ---------------- */
/* ---- then: values -> func's result; errors and done pass through ---- */
void then_set_value(struct tf_rcv* self, int values)
__CPROVER_requires(TF_REQ(CH_set_value, CH_set_value) && values == G.in_pay && G.fn_noexcept == THEN_SET_VALUE_NX)
__CPROVER_assigns(G, RCV)
__CPROVER_ensures(TF_C01_ONCE(G) && !G.propagated)        /* C01: exactly one downstream completion, also when the function / set_value throws */
__CPROVER_ensures(TF_FUNC_IFF_MATCH(G))
__CPROVER_ensures(TF_C05_TRANSFORMS(G))                   /* C05: then replaces the values by the function's result; a throw becomes set_error(current_exception) */
__CPROVER_ensures(TF_C05_PASSES(G))
__CPROVER_ensures(TF_UNTOUCHED)
/*@BODY then_set_value*/

void then_set_error(struct tf_rcv* self, int error)
__CPROVER_requires(TF_REQ(CH_set_value, CH_set_error) && error == G.in_pay && G.fn_noexcept == THEN_SET_ERROR_NX)
__CPROVER_assigns(G, RCV)
__CPROVER_ensures(TF_C01_ONCE(G) && !G.propagated)
__CPROVER_ensures(TF_FUNC_IFF_MATCH(G))
__CPROVER_ensures(TF_C05_TRANSFORMS(G))
__CPROVER_ensures(TF_C05_PASSES(G) && G.out_ch == CH_set_error && G.out_pay == error)     /* C05: errors pass through unchanged, no function call */
__CPROVER_ensures(TF_UNTOUCHED)
/*@BODY then_set_error*/

void then_set_done(struct tf_rcv* self)
__CPROVER_requires(TF_REQ(CH_set_value, CH_set_done) && G.fn_noexcept == THEN_SET_DONE_NX)
__CPROVER_assigns(G, RCV)
__CPROVER_ensures(TF_C01_ONCE(G) && !G.propagated)
__CPROVER_ensures(TF_FUNC_IFF_MATCH(G))
__CPROVER_ensures(TF_C05_TRANSFORMS(G))
__CPROVER_ensures(TF_C05_PASSES(G) && G.out_ch == CH_set_done)                            /* C05: done passes through unchanged, no function call */
__CPROVER_ensures(TF_UNTOUCHED)
/*@BODY then_set_done*/

/* ---- upon_error: errors -> func's result on the VALUE channel; values and done pass through ---- */
void ue_set_value(struct tf_rcv* self, int values)
__CPROVER_requires(TF_REQ(CH_set_error, CH_set_value) && values == G.in_pay && G.fn_noexcept == UE_SET_VALUE_NX)
__CPROVER_assigns(G, RCV)
__CPROVER_ensures(TF_C01_ONCE(G))                         /* C01: exactly once, or the downstream set_value's exception goes back to the predecessor with nothing delivered */
__CPROVER_ensures(TF_FUNC_IFF_MATCH(G))
__CPROVER_ensures(TF_C05_TRANSFORMS(G))
__CPROVER_ensures(TF_C05_PASSES(G) && IMP(!G.propagated, G.out_ch == CH_set_value && G.out_pay == values))   /* C05: values pass through unchanged */
__CPROVER_ensures(TF_UNTOUCHED)
/*@BODY ue_set_value*/

void ue_set_error(struct tf_rcv* self, int error)
__CPROVER_requires(TF_REQ(CH_set_error, CH_set_error) && error == G.in_pay && G.fn_noexcept == UE_SET_ERROR_NX)
__CPROVER_assigns(G, RCV)
__CPROVER_ensures(TF_C01_ONCE(G) && !G.propagated)
__CPROVER_ensures(TF_FUNC_IFF_MATCH(G))
__CPROVER_ensures(TF_C05_TRANSFORMS(G))                   /* C05: the error is turned into the function's result on the VALUE channel */
__CPROVER_ensures(TF_C05_PASSES(G))
__CPROVER_ensures(TF_UNTOUCHED)
/*@BODY ue_set_error*/

void ue_set_done(struct tf_rcv* self)
__CPROVER_requires(TF_REQ(CH_set_error, CH_set_done) && G.fn_noexcept == UE_SET_DONE_NX)
__CPROVER_assigns(G, RCV)
__CPROVER_ensures(TF_C01_ONCE(G) && !G.propagated)
__CPROVER_ensures(TF_FUNC_IFF_MATCH(G))
__CPROVER_ensures(TF_C05_TRANSFORMS(G))
__CPROVER_ensures(TF_C05_PASSES(G) && G.out_ch == CH_set_done)
__CPROVER_ensures(TF_UNTOUCHED)
/*@BODY ue_set_done*/

/* ---- upon_done: done -> func's result on the VALUE channel; values and errors pass through ---- */
void ud_set_value(struct tf_rcv* self, int values)
__CPROVER_requires(TF_REQ(CH_set_done, CH_set_value) && values == G.in_pay && G.fn_noexcept == UD_SET_VALUE_NX)
__CPROVER_assigns(G, RCV)
__CPROVER_ensures(TF_C01_ONCE(G))
__CPROVER_ensures(TF_FUNC_IFF_MATCH(G))
__CPROVER_ensures(TF_C05_TRANSFORMS(G))
__CPROVER_ensures(TF_C05_PASSES(G) && IMP(!G.propagated, G.out_ch == CH_set_value && G.out_pay == values))
__CPROVER_ensures(TF_UNTOUCHED)
/*@BODY ud_set_value*/

void ud_set_error(struct tf_rcv* self, int error)
__CPROVER_requires(TF_REQ(CH_set_done, CH_set_error) && error == G.in_pay && G.fn_noexcept == UD_SET_ERROR_NX)
__CPROVER_assigns(G, RCV)
__CPROVER_ensures(TF_C01_ONCE(G) && !G.propagated)
__CPROVER_ensures(TF_FUNC_IFF_MATCH(G))
__CPROVER_ensures(TF_C05_TRANSFORMS(G))
__CPROVER_ensures(TF_C05_PASSES(G) && G.out_ch == CH_set_error && G.out_pay == error)
__CPROVER_ensures(TF_UNTOUCHED)
/*@BODY ud_set_error*/

void ud_set_done(struct tf_rcv* self)
__CPROVER_requires(TF_REQ(CH_set_done, CH_set_done) && G.fn_noexcept == UD_SET_DONE_NX)
__CPROVER_assigns(G, RCV)
__CPROVER_ensures(TF_C01_ONCE(G) && !G.propagated)
__CPROVER_ensures(TF_FUNC_IFF_MATCH(G))
__CPROVER_ensures(TF_C05_TRANSFORMS(G))                   /* C05: done is turned into the function's result on the VALUE channel */
__CPROVER_ensures(TF_C05_PASSES(G))
__CPROVER_ensures(TF_UNTOUCHED)
/*@BODY ud_set_done*/

/* ---------------- harnesses ---------------- */
static int h_token(void) { int t = VF_nondet_int(); __CPROVER_assume(t > 0); return t; }
static void h_signal(int adaptor, int in_ch, int fn_noexcept) {
  G.adaptor = adaptor; G.in_ch = in_ch; G.in_pay = in_ch == CH_set_done ? PAY_VOID : h_token();
  G.func_token = h_token(); G.rcv_token = h_token(); G.func_result = h_token(); G.fn_noexcept = fn_noexcept;
  G.completed = 0; G.out_ch = CH_NONE; G.out_pay = 0; G.func_calls = 0; G.func_arg = 0; G.func_threw = 0; G.sv_attempts = 0; G.sv_threw = 0;
  G.in_try = 0; G.propagated = 0; G.terminates = 0; G.dead = 0;
  RCV.func_ = G.func_token; RCV.receiver_ = G.rcv_token; G.snap = RCV;
  VF_CFG_void = VF_nondet_bool() ? 1 : 0; VF_CFG_nothrow = VF_nondet_bool() ? 1 : 0;
}
/* canaries of a transforming function: the four instantiation shapes, both throw sources, the value path */
#define H_TRANSFORM_CANARIES() do { \
  if (VF_CFG_void && VF_CFG_nothrow) { VF_CANARY("void result, nothrow function"); } \
  if (VF_CFG_void && !VF_CFG_nothrow) { VF_CANARY("void result, potentially throwing function"); } \
  if (!VF_CFG_void && VF_CFG_nothrow) { VF_CANARY("non-void result, nothrow function"); } \
  if (!VF_CFG_void && !VF_CFG_nothrow) { VF_CANARY("non-void result, potentially throwing function"); } \
  if (G.func_threw && VF_CFG_void) { VF_CANARY("the function can throw (void)"); } \
  if (G.func_threw && !VF_CFG_void) { VF_CANARY("the function can throw (non-void)"); } \
  if (G.sv_threw && VF_CFG_void) { VF_CANARY("the downstream set_value can throw inside the try block (void)"); } \
  if (G.sv_threw && !VF_CFG_void) { VF_CANARY("the downstream set_value can throw inside the try block (non-void)"); } \
  if (G.out_ch == CH_set_value && G.out_pay == PAY_VOID) { VF_CANARY("empty value delivered"); } \
  if (G.out_ch == CH_set_value && G.out_pay == G.func_result) { VF_CANARY("function result delivered"); } \
  if (G.out_ch == CH_set_error) { VF_CANARY("set_error(current_exception) delivered"); } } while (0)

void h_then_set_value(void) { h_signal(CH_set_value, CH_set_value, THEN_SET_VALUE_NX); then_set_value(&RCV, G.in_pay); VF_CANARY("after then set_value"); H_TRANSFORM_CANARIES(); }
void h_then_set_error(void) { h_signal(CH_set_value, CH_set_error, THEN_SET_ERROR_NX); then_set_error(&RCV, G.in_pay); VF_CANARY("after then set_error"); }
void h_then_set_done(void)  { h_signal(CH_set_value, CH_set_done, THEN_SET_DONE_NX); then_set_done(&RCV); VF_CANARY("after then set_done"); }

void h_ue_set_value(void) {
  h_signal(CH_set_error, CH_set_value, UE_SET_VALUE_NX); ue_set_value(&RCV, G.in_pay); VF_CANARY("after upon_error set_value");
  if (G.propagated) { VF_CANARY("upon_error set_value: the downstream set_value's exception propagates (member is not noexcept)"); } else { VF_CANARY("upon_error set_value: values delivered"); }
}
void h_ue_set_error(void) { h_signal(CH_set_error, CH_set_error, UE_SET_ERROR_NX); ue_set_error(&RCV, G.in_pay); VF_CANARY("after upon_error set_error"); H_TRANSFORM_CANARIES(); }
void h_ue_set_done(void)  { h_signal(CH_set_error, CH_set_done, UE_SET_DONE_NX); ue_set_done(&RCV); VF_CANARY("after upon_error set_done"); }

void h_ud_set_value(void) {
  h_signal(CH_set_done, CH_set_value, UD_SET_VALUE_NX); ud_set_value(&RCV, G.in_pay); VF_CANARY("after upon_done set_value");
  if (G.propagated) { VF_CANARY("upon_done set_value: the downstream set_value's exception propagates (member is not noexcept)"); } else { VF_CANARY("upon_done set_value: values delivered"); }
}
void h_ud_set_error(void) { h_signal(CH_set_done, CH_set_error, UD_SET_ERROR_NX); ud_set_error(&RCV, G.in_pay); VF_CANARY("after upon_done set_error"); }
void h_ud_set_done(void)  { h_signal(CH_set_done, CH_set_done, UD_SET_DONE_NX); ud_set_done(&RCV); VF_CANARY("after upon_done set_done"); H_TRANSFORM_CANARIES(); }

/* ---------------- M4 lemmas over the contracts ---------------- */
static void lemma_ghost(struct vf_ghost* g) {
  g->adaptor = VF_nondet_int(); g->in_ch = VF_nondet_int(); g->in_pay = VF_nondet_int(); g->func_token = VF_nondet_int(); g->rcv_token = VF_nondet_int();
  g->func_result = VF_nondet_int(); g->fn_noexcept = VF_nondet_bool() ? 1 : 0; g->completed = VF_nondet_u32(); g->out_ch = VF_nondet_int(); g->out_pay = VF_nondet_int();
  g->func_calls = VF_nondet_u32(); g->func_arg = VF_nondet_int(); g->func_threw = VF_nondet_bool() ? 1 : 0; g->sv_attempts = VF_nondet_u32(); g->sv_threw = VF_nondet_bool() ? 1 : 0;
  g->in_try = 0; g->propagated = VF_nondet_bool() ? 1 : 0; g->terminates = VF_nondet_u32(); g->dead = VF_nondet_bool() ? 1 : 0;
  VF_CFG_void = VF_nondet_bool() ? 1 : 0; VF_CFG_nothrow = VF_nondet_bool() ? 1 : 0;
}
/* the documented channel table of the three adaptors follows from the postcondition every one of the nine functions is verified against */
void lemma_tf_table(void) {
  struct vf_ghost g; lemma_ghost(&g);
  __CPROVER_assume(TF_WF(g) && TF_ENS(g));
  VF_CANARY("lemma_tf_table: premises satisfiable");
  if (g.propagated) { VF_CANARY("lemma_tf_table: propagated case"); }
  if (!g.propagated) {
    VF_P(g.completed == 1, "lemma: one downstream completion per incoming signal");
    /* then */
    VF_P(IMP(g.adaptor == CH_set_value && g.in_ch == CH_set_error, g.out_ch == CH_set_error && g.out_pay == g.in_pay && g.func_calls == 0), "lemma: then forwards an error unchanged without calling the function");
    VF_P(IMP(g.adaptor == CH_set_value && g.in_ch == CH_set_done, g.out_ch == CH_set_done && g.func_calls == 0), "lemma: then forwards done without calling the function");
    VF_P(IMP(g.adaptor == CH_set_value && g.in_ch == CH_set_value, g.func_calls == 1 && (g.out_ch == CH_set_value || (g.out_ch == CH_set_error && g.out_pay == PAY_EXCEPTION))), "lemma: then delivers the function's result or the exception");
    /* upon_error */
    VF_P(IMP(g.adaptor == CH_set_error && g.in_ch == CH_set_value, g.out_ch == CH_set_value && g.out_pay == g.in_pay && g.func_calls == 0), "lemma: upon_error forwards values unchanged");
    VF_P(IMP(g.adaptor == CH_set_error && g.in_ch == CH_set_done, g.out_ch == CH_set_done && g.func_calls == 0), "lemma: upon_error forwards done");
    VF_P(IMP(g.adaptor == CH_set_error && g.out_ch == CH_set_error, g.in_ch == CH_set_error && g.out_pay == PAY_EXCEPTION && (g.func_threw || g.sv_threw)), "lemma: upon_error never forwards an error: the only error it produces is the exception of its own function / of set_value");
    /* upon_done */
    VF_P(IMP(g.adaptor == CH_set_done && g.in_ch == CH_set_value, g.out_ch == CH_set_value && g.out_pay == g.in_pay && g.func_calls == 0), "lemma: upon_done forwards values unchanged");
    VF_P(IMP(g.adaptor == CH_set_done && g.in_ch == CH_set_error, g.out_ch == CH_set_error && g.out_pay == g.in_pay && g.func_calls == 0), "lemma: upon_done forwards an error unchanged");
    VF_P(IMP(g.adaptor == CH_set_done, g.out_ch != CH_set_done), "lemma: upon_done never completes with done");
    /* all */
    VF_P(IMP(g.out_ch == CH_set_done, g.in_ch == CH_set_done && g.adaptor != CH_set_done), "lemma: done goes out only when done came in and is not the adaptor's channel");
    VF_P(IMP(g.out_ch == CH_set_value && TF_MATCH(g), g.out_pay == (VF_CFG_void ? PAY_VOID : g.func_result) && !g.func_threw && !g.sv_threw), "lemma: a value on the adaptor's channel is the function's result (empty for void), and nothing threw");
    VF_P(IMP(g.func_threw || g.sv_threw, g.out_ch == CH_set_error && g.out_pay == PAY_EXCEPTION), "lemma: a throwing callable / set_value is turned into set_error(current_exception)");
    VF_P((g.func_calls == 1) == TF_MATCH(g) && g.func_calls <= 1, "lemma: the function runs exactly when the predecessor completed on the matching channel");
  }
}
/* the one case without a downstream completion: what the code owes the predecessor that gets the exception back and signals set_error on the same object */
void lemma_tf_propagated(void) {
  struct vf_ghost g; lemma_ghost(&g);
  __CPROVER_assume(TF_WF(g) && TF_ENS(g) && g.propagated);
  VF_CANARY("lemma_tf_propagated: premises satisfiable");
  VF_P(!g.fn_noexcept && g.in_ch == CH_set_value && !TF_MATCH(g), "lemma: an exception leaves only a forwarding set_value that is not noexcept");
  VF_P(g.completed == 0 && !g.dead && g.func_calls == 0 && g.sv_threw && !g.func_threw, "lemma: nothing was delivered, the function did not run, the receiver object is alive: the follow-up set_error starts from a fresh signal");
  /* the follow-up signal: error channel with the exception in flight; by the same contract it yields exactly one completion */
  struct vf_ghost n = g; n.in_ch = CH_set_error; n.in_pay = h_token(); n.sv_threw = 0; n.propagated = 0; n.out_ch = CH_NONE; n.sv_attempts = 0;
  VF_P(TF_FRESH(n) && TF_WF(n), "lemma: the state left behind satisfies the precondition of set_error for the follow-up signal");
}
