H = 'include/unifex/v2/async_scope.hpp'
CLS = r'struct async_scope final \{'
ctx = dict(
    cls='async_scope',
    pre=[(r'\bscope_ended\(', 'AS_scope_ended('),
         (r'(?<![\w>.])use_count\((?=\w)', 'AS_use_count('),
         (r'(\w+)->evt_\.set\(\)', r'EV_evt_set(\1)'),
         (r'(?<![\w>.])evt_\.set\(\)', 'EV_evt_set(self)')],
    members=['opState_', 'scope_'],
)
nr_ctx = dict(cls='nest_receiver', members=['op_'], raii={'scope_reference': ('SR_CTOR', 'SR_DTOR')},
              pre=[(r'auto scope = std::move\(op->scope_\);', 'scope_reference scope; SR_MOVE(&scope, &op->scope_);'),
                   (r'op->op_\.destruct\(\);', 'EV_inner_destruct(op);'),
                   (r'func\(std::move\(op->receiver_\)\);', 'EV_complete_receiver(op);')])
SPEC = dict(
    properties=['C08'],
    ctx=ctx,
    extracts={
        'scopeEndedBit': dict(file=H, kind='expr', sig=r'static constexpr std::size_t scopeEndedBit\{([^}]*)\}'),
        'opState_init': dict(file=H, kind='expr', sig=r'std::atomic<std::size_t> opState_\{([^}]*)\}'),
        'scope_ended': dict(file=H, sig=r'static bool scope_ended\(std::size_t state\) noexcept'),
        'use_count_s': dict(file=H, sig=r'static std::size_t use_count\(std::size_t state\) noexcept'),
        'try_record_start': dict(file=H, sig=r'friend bool try_record_start\(async_scope\* scope\) noexcept',
                                 loops={0: '__CPROVER_assigns(opState, S.opState_, G.lin_old, G.lin_new, G.lin_count)\n'
                                           '__CPROVER_loop_invariant(G.lin_count == 0 && COUNT(opState) < AS_COUNT_MAX)'}),
        'record_completion': dict(file=H, sig=r'friend void record_completion\(async_scope\* scope\) noexcept'),
        'end_scope': dict(file=H, sig=r'void end_scope\(\) noexcept', within=CLS),
        'joined': dict(file=H, sig=r'bool joined\(\) const noexcept'),
        'join_started': dict(file=H, sig=r'bool join_started\(\) const noexcept'),
        'use_count_m': dict(file=H, sig=r'std::size_t use_count\(\) const noexcept'),
        'scope_or_nullptr': dict(file=H, sig=r'scope_reference::scope_or_nullptr\(async_scope\* scope\) noexcept'),
        'scope_reference_dtor': dict(file=H, sig=r'inline scope_reference::~scope_reference\(\)'),
        'nest_complete': dict(file=H, sig=r'void complete\(Func func\) noexcept', within=r'struct _nest_receiver<Sender, Receiver>::type final \{', ctx=nr_ctx),
    },
    closed_world=[dict(file=H, members=['opState_'], within=CLS,
                       allow=[r'std::atomic<std::size_t> opState_\{'])],
    units=[
        dict(name='try_record_start', harness='h_try_record_start', enforce='try_record_start'),
        dict(name='record_completion', harness='h_record_completion', enforce='record_completion'),
        dict(name='end_scope', harness='h_end_scope', enforce='async_scope_end_scope'),
        dict(name='joined', harness='h_joined', enforce='async_scope_joined'),
        dict(name='join_started', harness='h_join_started', enforce='async_scope_join_started'),
        dict(name='use_count', harness='h_use_count', enforce='async_scope_use_count'),
        dict(name='scope_or_nullptr', harness='h_scope_or_nullptr', enforce='scope_reference_scope_or_nullptr',
             replace=['try_record_start']),
        dict(name='scope_reference_dtor', harness='h_scope_reference_dtor', enforce='scope_reference_dtor',
             replace=['record_completion']),
        dict(name='nest_receiver_complete', harness='h_nest_complete', enforce='nest_receiver_complete', replace=['scope_reference_dtor']),
        dict(name='lemma_scope_protocol', harness='lemma_scope_protocol', mode='lemma'),
        dict(name='lemma_scope_init', harness='lemma_scope_init', mode='lemma'),
    ],
    assumptions=[
        'one record_completion per successful try_record_start (RAII scope_reference in template code: nest/spawn)',
        'async_manual_reset_event::set wakes its waiters (C16); evt_.set() is an event stub',
        'count < 2^40 (resource bound standing in for UNIFEX_ASSERT(opState + 2u > opState))',
        'atomics sequentially consistent',
    ],
    drops=['scope_reference move construction (auto scope = std::move(op->scope_)) -> SR_MOVE + explicit destructor call at scope exit', 'inner operation destruct / receiver completion in _nest_receiver::complete -> event stubs', 'memory orders', 'noexcept/[[nodiscard]]/friend', 'evt_.set() replaced by event stub EV_evt_set'],
)
