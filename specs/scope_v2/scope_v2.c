/* C08: v2 async_scope packed counter (include/unifex/v2/async_scope.hpp).
 * opState_ = 2*count + open.  Bodies marked @BODY/@EXPR are extracted from /repo
 * on every run; everything else here is specification. */
#include <stddef.h>
struct async_scope;
struct vf_ghost {
  size_t lin_old, lin_new;   /* values at the verified call's own write */
  unsigned lin_count;        /* number of writes the call performed */
  unsigned evt_set;          /* EV_evt_set calls */
  size_t my_refs;            /* references (units of count) the calling party owns */
  unsigned completions;      /* record_completion calls made by ~scope_reference */
};
static struct vf_ghost G;
#define VF_G(p, o, n) (vf_guarantee((size_t)(o), (size_t)(n)), G.lin_old = (size_t)(o), G.lin_new = (size_t)(n), G.lin_count++)
static void vf_guarantee(size_t o, size_t n);
#include "vf.h"

struct async_scope { size_t opState_; int evt_; };
struct scope_reference { struct async_scope* scope_; };
static struct async_scope S;
static struct scope_reference REF;

#define AS_COUNT_MAX ((size_t)1 << 40)   /* resource bound standing in for the code's own overflow assert */

static const size_t scopeEndedBit = /*@EXPR scopeEndedBit*/;
static const size_t opState_INIT = /*@EXPR opState_init*/;

static _Bool AS_scope_ended(size_t state)
/*@BODY scope_ended*/

static size_t AS_use_count(size_t state)
/*@BODY use_count_s*/

/* --- protocol predicates (specification, from the property statement) --- */
#define OPEN(s)   (((s) & (size_t)1) != 0)
#define COUNT(s)  ((s) >> 1)
/* a legal step of any party: admit while open, complete one unit, close */
#define STEP_ADMIT(o, n) (OPEN(o) && (n) == (o) + 2)
#define STEP_DONE(o, n)  (COUNT(o) >= 1 && (n) == (o) - 2)
#define STEP_CLOSE(o, n) ((n) == ((o) & ~(size_t)1))
static void vf_guarantee(size_t o, size_t n) {
  VF_P(STEP_ADMIT(o, n) || STEP_DONE(o, n) || STEP_CLOSE(o, n),
       "guarantee: every write to the scope word is admit(+1 while open), done(-1) or close");
}
/* rely: what other parties may do between two of my atomic accesses:
 * the open bit only goes 1->0; once closed the count never grows; the count
 * never drops below the units I own; resource bound */
#define RELY(o, n) ((!OPEN(o) ? !OPEN(n) : 1) && (!OPEN(o) ? COUNT(n) <= COUNT(o) : 1) \
                    && COUNT(n) >= G.my_refs && COUNT(n) < AS_COUNT_MAX)
static void vf_interfere(void) {
  size_t o = S.opState_;
  size_t n = VF_nondet_size_t();
  __CPROVER_assume(RELY(o, n));
  S.opState_ = n;
}

static void EV_evt_set(struct async_scope* s) {
  VF_CANARY("evt_.set() reachable");
  G.evt_set++;
}

/* ---------------- functions under contract ---------------- */

_Bool try_record_start(struct async_scope* scope)
__CPROVER_requires(scope == &S && G.lin_count == 0 && G.my_refs == 0 && COUNT(S.opState_) < AS_COUNT_MAX)
__CPROVER_assigns(S.opState_, G.lin_old, G.lin_new, G.lin_count)
__CPROVER_ensures(__CPROVER_return_value ==> (G.lin_count == 1 && OPEN(G.lin_old) && G.lin_new == G.lin_old + 2)) /* admitted before close => counted, exactly one unit */
__CPROVER_ensures(!__CPROVER_return_value ==> G.lin_count == 0) /* refused => nothing written */
/*@BODY try_record_start*/

void record_completion(struct async_scope* scope)
__CPROVER_requires(scope == &S && G.lin_count == 0 && G.evt_set == 0 && G.my_refs == 1 && COUNT(S.opState_) >= 1 && COUNT(S.opState_) < AS_COUNT_MAX)
__CPROVER_assigns(S.opState_, G.lin_old, G.lin_new, G.lin_count, G.evt_set)
__CPROVER_ensures(G.lin_count == 1 && G.lin_new == G.lin_old - 2 && COUNT(G.lin_old) >= 1) /* removes exactly one unit */
__CPROVER_ensures((G.evt_set >= 1) == (G.lin_new == 0)) /* join event set iff this step made (closed and count 0) true */
__CPROVER_ensures(G.evt_set <= 1)
/*@BODY record_completion*/

void async_scope_end_scope(struct async_scope* self)
__CPROVER_requires(self == &S && G.lin_count == 0 && G.evt_set == 0 && G.my_refs == 0 && COUNT(S.opState_) < AS_COUNT_MAX)
__CPROVER_assigns(S.opState_, G.lin_old, G.lin_new, G.lin_count, G.evt_set)
__CPROVER_ensures(G.lin_count == 1 && G.lin_new == (G.lin_old & ~(size_t)1)) /* closes, count untouched */
__CPROVER_ensures((G.evt_set >= 1) == (OPEN(G.lin_old) && G.lin_new == 0)) /* join event set iff THIS call closed the scope with nothing outstanding: a later close never sets it (it could overtake the last completion's own set) */
__CPROVER_ensures(G.evt_set <= 1)
/*@BODY end_scope*/

_Bool async_scope_joined(struct async_scope* self)
__CPROVER_requires(self == &S && G.lin_count == 0 && COUNT(S.opState_) < AS_COUNT_MAX)
__CPROVER_assigns(S.opState_)
__CPROVER_ensures(G.lin_count == 0)
__CPROVER_ensures(__CPROVER_return_value == (S.opState_ == 0)) /* joined <=> closed and count 0 (at the load) */
/*@BODY joined*/

_Bool async_scope_join_started(struct async_scope* self)
__CPROVER_requires(self == &S && G.lin_count == 0 && COUNT(S.opState_) < AS_COUNT_MAX)
__CPROVER_assigns(S.opState_)
__CPROVER_ensures(G.lin_count == 0)
__CPROVER_ensures(__CPROVER_return_value == !OPEN(S.opState_))
/*@BODY join_started*/

size_t async_scope_use_count(struct async_scope* self)
__CPROVER_requires(self == &S && G.lin_count == 0 && COUNT(S.opState_) < AS_COUNT_MAX)
__CPROVER_assigns(S.opState_)
__CPROVER_ensures(G.lin_count == 0)
__CPROVER_ensures(__CPROVER_return_value == COUNT(S.opState_))
/*@BODY use_count_m*/

struct async_scope* scope_reference_scope_or_nullptr(struct async_scope* scope)
__CPROVER_requires((scope == &S || scope == NULL) && G.lin_count == 0 && G.my_refs == 0 && COUNT(S.opState_) < AS_COUNT_MAX)
__CPROVER_assigns(S.opState_, G.lin_old, G.lin_new, G.lin_count)
__CPROVER_ensures(__CPROVER_return_value == scope || __CPROVER_return_value == NULL)
__CPROVER_ensures((__CPROVER_return_value != NULL) == (G.lin_count == 1)) /* a reference is handed out iff a unit was added */
__CPROVER_ensures(G.lin_count == 1 ==> (OPEN(G.lin_old) && G.lin_new == G.lin_old + 2))
/*@BODY scope_or_nullptr*/

void scope_reference_dtor(struct scope_reference* self)
__CPROVER_requires(self == &REF && (self->scope_ == &S || self->scope_ == NULL))
__CPROVER_requires(G.lin_count == 0 && G.evt_set == 0 && G.my_refs == (self->scope_ != NULL ? 1 : 0) && COUNT(S.opState_) < AS_COUNT_MAX)
__CPROVER_requires(self->scope_ != NULL ==> COUNT(S.opState_) >= 1)
__CPROVER_assigns(S.opState_, G.lin_old, G.lin_new, G.lin_count, G.evt_set)
__CPROVER_ensures((__CPROVER_old(REF.scope_) != NULL) == (G.lin_count == 1)) /* a held reference is released exactly once, an empty one never */
__CPROVER_ensures(G.lin_count == 1 ==> G.lin_new == G.lin_old - 2)
__CPROVER_ensures((G.evt_set >= 1) == (G.lin_count == 1 && G.lin_new == 0))
/*@BODY scope_reference_dtor*/

/* ---- _nest_receiver::complete: the nested operation's scope reference is released only after its receiver was completed
 * (so join() cannot complete while a nested operation is still delivering its result) ---- */
struct nest_op { struct scope_reference scope_; int op_; int receiver_; };
struct nest_receiver { struct nest_op* op_; };
static struct nest_op NOP;
static struct nest_receiver NR;
struct vf_nest { unsigned inner_destructed, receiver_completed, released_after; _Bool dead; struct nest_op snap; };
static struct vf_nest GN;
#define SR_CTOR(p) ((p)->scope_ = NULL)
#define SR_MOVE(dst, src) ((dst)->scope_ = (src)->scope_, (src)->scope_ = NULL)
#define SR_DTOR(p) do { VF_P(GN.receiver_completed == 1, "the scope reference held by a nested operation is released only after that operation's receiver has been completed (join cannot overtake a nested completion)"); \
                        REF.scope_ = (p)->scope_; scope_reference_dtor(&REF); GN.released_after++; } while (0)
static void EV_inner_destruct(struct nest_op* op) { VF_P(op == &NOP && GN.inner_destructed == 0 && GN.receiver_completed == 0, "the inner operation is destroyed once, before the receiver is completed"); GN.inner_destructed++; }
static void EV_complete_receiver(struct nest_op* op) {
  VF_CANARY("nest receiver completion reachable");
  VF_P(op == &NOP && GN.receiver_completed == 0, "the nested operation's receiver is completed exactly once");
  VF_P(GN.inner_destructed == 1, "the inner operation is destroyed before the receiver is completed");
  VF_P(NOP.scope_.scope_ == NULL, "the scope reference was moved out of the operation before the receiver may destroy it");
  GN.receiver_completed++;
  struct nest_op f; NOP = f; GN.dead = 1; GN.snap = NOP;    /* the receiver may destroy the nest operation */
}
void nest_receiver_complete(struct nest_receiver* self)
__CPROVER_requires(self == &NR && NR.op_ == &NOP && (NOP.scope_.scope_ == &S || NOP.scope_.scope_ == NULL))
__CPROVER_requires(G.lin_count == 0 && G.evt_set == 0 && G.my_refs == (NOP.scope_.scope_ != NULL ? 1 : 0) && COUNT(S.opState_) < AS_COUNT_MAX && (NOP.scope_.scope_ != NULL ==> COUNT(S.opState_) >= 1))
__CPROVER_requires(GN.inner_destructed == 0 && GN.receiver_completed == 0 && GN.released_after == 0 && !GN.dead)
__CPROVER_assigns(S.opState_, G.lin_old, G.lin_new, G.lin_count, G.evt_set, NOP, REF, GN)
__CPROVER_ensures(GN.receiver_completed == 1 && GN.inner_destructed == 1 && GN.released_after == 1)
__CPROVER_ensures((__CPROVER_old(NOP.scope_.scope_) != NULL) == (G.lin_count == 1)) /* the reference is released exactly once */
__CPROVER_ensures(NOP.scope_.scope_ == GN.snap.scope_.scope_ && NOP.op_ == GN.snap.op_ && NOP.receiver_ == GN.snap.receiver_) /* the operation may be gone after its receiver was completed: never touched afterwards */
/*@BODY nest_complete*/

/* ---------------- harnesses ---------------- */
static void h_common(void) {
  S.opState_ = VF_nondet_size_t();
  G.lin_count = 0; G.evt_set = 0; G.completions = 0;
}
void h_try_record_start(void) { h_common(); G.my_refs = 0; _Bool r = try_record_start(&S); VF_CANARY("after try_record_start"); if (r) { VF_CANARY("try_record_start can succeed"); } else { VF_CANARY("try_record_start can fail"); } }
void h_record_completion(void) { h_common(); G.my_refs = 1; record_completion(&S); VF_CANARY("after record_completion"); }
void h_end_scope(void) { h_common(); G.my_refs = 0; async_scope_end_scope(&S); VF_CANARY("after end_scope"); }
void h_joined(void) { h_common(); G.my_refs = 0; async_scope_joined(&S); VF_CANARY("after joined"); }
void h_join_started(void) { h_common(); G.my_refs = 0; async_scope_join_started(&S); VF_CANARY("after join_started"); }
void h_use_count(void) { h_common(); G.my_refs = 0; async_scope_use_count(&S); VF_CANARY("after use_count"); }
void h_scope_or_nullptr(void) { h_common(); G.my_refs = 0; struct async_scope* p = VF_nondet_bool() ? &S : NULL; scope_reference_scope_or_nullptr(p); VF_CANARY("after scope_or_nullptr"); }
void h_nest_complete(void) { h_common(); NR.op_ = &NOP; NOP.scope_.scope_ = VF_nondet_bool() ? &S : NULL; G.my_refs = VF_nondet_size_t(); GN.inner_destructed = 0; GN.receiver_completed = 0; GN.released_after = 0; GN.dead = 0; nest_receiver_complete(&NR); VF_CANARY("after _nest_receiver::complete"); }
void h_scope_reference_dtor(void) { h_common(); REF.scope_ = VF_nondet_bool() ? &S : NULL; G.my_refs = VF_nondet_size_t(); scope_reference_dtor(&REF); VF_CANARY("after ~scope_reference"); }

/* ---------------- M4 lemmas over the contracts ---------------- */
/* Ghost history flag: evt_ever = the event has been set.  One step of any party,
 * summarised by its contract (STEP_* + "evt set iff new state == 0"). */
void lemma_scope_protocol(void) {
  size_t o = VF_nondet_size_t(), n = VF_nondet_size_t();
  __CPROVER_assume(COUNT(o) < AS_COUNT_MAX);
  int kind = VF_nondet_int();
  __CPROVER_assume(kind >= 0 && kind <= 2);
  _Bool evt;
  if (kind == 0) { __CPROVER_assume(STEP_ADMIT(o, n)); evt = 0; }
  else if (kind == 1) { __CPROVER_assume(STEP_DONE(o, n)); evt = (n == 0); }
  else { __CPROVER_assume(STEP_CLOSE(o, n)); evt = (OPEN(o) && n == 0); }
  VF_CANARY("lemma premises satisfiable");
  /* (i) every guarantee step is allowed by every other party's rely, provided the
   * stepping party only gives up units it owns (count stays >= units owned by others) */
  size_t others = VF_nondet_size_t();
  __CPROVER_assume(others <= COUNT(o) && (kind == 1 ? others <= COUNT(o) - 1 : 1));
  VF_P((!OPEN(o) ? !OPEN(n) : 1), "lemma: open bit never comes back");
  VF_P((!OPEN(o) ? COUNT(n) <= COUNT(o) : 1), "lemma: once closed the count never grows (nothing starts after close)");
  VF_P(COUNT(n) >= others, "lemma: a step never consumes a unit owned by another party");
  /* (ii) the event is set only in a step that ends in (closed, 0) ... */
  VF_P(evt ==> (!OPEN(n) && COUNT(n) == 0), "lemma: join event set only when closed and nothing outstanding");
  /* ... and the step that first reaches (closed, 0) sets it */
  VF_P((n == 0 && o != 0) ==> evt, "lemma: the step that makes (closed and count 0) true sets the join event");
  VF_P((o == 0) ==> !evt, "lemma: once (closed, 0) has been reached no later step sets the join event again (exactly one setter: the join cannot be woken ahead of the real setter)");
  /* (iii) state 0 is absorbing for legal steps of parties that own what they release */
  VF_P((o == 0) ==> (n == 0 || kind == 1), "lemma: (closed,0) is absorbing (done needs an owned unit, which count 0 excludes)");
  VF_P((o == 0 && kind == 1) ==> 0, "lemma: no completion step is enabled at count 0");
}
void lemma_scope_init(void) {
  VF_P(OPEN(opState_INIT) && COUNT(opState_INIT) == 0, "lemma: a fresh scope is open with count 0");
  VF_P(scopeEndedBit == 1, "lemma: the open bit is bit 0 (count = state >> 1)");
  size_t s = VF_nondet_size_t();
  VF_P(AS_scope_ended(s) == !OPEN(s), "lemma: scope_ended(state) <=> open bit clear");
  VF_P(AS_use_count(s) == COUNT(s), "lemma: use_count(state) = state >> 1");
  VF_CANARY("lemma_scope_init reachable");
}
