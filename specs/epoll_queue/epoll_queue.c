/* C14 (items 1 and 2): io_epoll_context's scheduling entry points and the remote-queue wake protocol
 * (source/linux/io_epoll_context.cpp): schedule_impl, schedule_local (both overloads), schedule_remote, signal_remote_queue,
 * execute_pending_local, try_schedule_local_remote_queue_contents, the loop of run_impl.
 *
 *   remoteQueue_ (atomic_intrusive_queue)  head_ == INACT  the loop has marked itself inactive: the next producer must write the eventfd
 *                                          NULL / chain    the loop is active and will look at the queue again before it blocks
 *   remoteQueueReadSubmitted_              the loop's own record of "I marked the queue inactive and have not consumed a wake-up since"
 *   localQueue_ (intrusive_queue)          FIFO of ready items, I/O thread only
 *   item->enqueued_                        0 -> 1 when the item is handed to the context, 1 -> 0 when the loop takes it out to execute it
 * The remote queue's operations are represented by their contracts (specs/atomic_queue/aq_contract.h, enforced in group
 * atomic_queue).  Bodies marked @BODY/@EXPR/@LOOP* are extracted from the source tree on every run; the rest is specification. */
#include <stddef.h>
#include <stdint.h>
#include <sys/types.h>
#include <sys/epoll.h>
#include <errno.h>
#undef errno
#define errno (G.err)

struct item { int enqueued_; struct item* next_; void (*execute_)(struct item*); };   /* io_epoll_context::operation_base */
typedef void (*exec_fn)(struct item*);
struct aq { void* head_; };
struct iqueue { struct item* head_; struct item* tail_; };
struct istack { struct item* head_; };
struct io_epoll_context {
  struct iqueue localQueue_; _Bool remoteQueueReadSubmitted_; _Bool timersAreDirty_; struct aq remoteQueue_;
  int remoteQueueEventFd_; int epollFd_; int timerFd_; int currentDueTime_; int timers_;
};

struct vf_ghost {
  /* ghosts of the queue contracts (aq_contract.h) */
  _Bool i_am_consumer; void* lin_old; void* lin_new; unsigned lin_count; struct item* it_next_at_lin; unsigned mr_calls; struct item* mr_arg;
  /* this group */
  int err;                          /* errno */
  unsigned enq_incs, enq_decs;      /* 0 -> 1 / 1 -> 0 transitions of an item's enqueued_ made by the verified call */
  unsigned eventfd_writes; uint64_t eventfd_value; size_t eventfd_len;
  unsigned local_calls, remote_calls, signal_calls;   /* callee summaries */
  unsigned exec; struct item* exec_item; exec_fn carried;   /* executions by the verified call; continuation the head item carried */
  _Bool dead; struct item snap;     /* the operand item may have been executed and destroyed by the I/O thread */
  _Bool took;                       /* execute_pending_local took the batch */
  struct iqueue old_local;          /* harness copy of the local queue at entry (canaries only) */
  unsigned epl_calls, timers_calls, try_calls;
  unsigned epoll_waits, eventfd_reads, timerfd_reads, due_resets, throws; int wait_timeout; int wait_result;
  struct iqueue cq_in;              /* completionQueue when the loop body was entered */
  _Bool rqrs_in;                    /* remoteQueueReadSubmitted_ when the loop body was entered */
};
static struct vf_ghost G;
static struct io_epoll_context S;
static struct io_epoll_context* currentThreadContext;   /* static thread_local in the .cpp */
static struct item IT;             /* the operand item */
static struct item W0, WT;         /* local queue window: head / tail */
static struct item X0, XT;         /* window of a batch handed to schedule_local(queue) */
static struct item R0, R1;         /* items of other producers in the remote queue (oldest / newest of a batch) */
static struct iqueue PENDING;      /* execute_pending_local's local `pending` */
enum { VF_MAX_EVENTS = /*@EXPR max_event_count*/ };
static struct epoll_event completions[VF_MAX_EVENTS];   /* acquire_completion_queue_items' local event array */
static struct iqueue completionQueue;                  /* ... and its local queue of newly completed items */
static struct item C0;             /* a registered completion item reported ready by epoll */
#define remote_queue_event_user_data ((void*)(/*@EXPR remote_queue_event_user_data*/))
static _Bool SHOULD_STOP;          /* stop_operation::shouldStop_ (run_impl's reference parameter) */
#define ON_IO (currentThreadContext == &S)   /* thread identity: is_running_on_io_thread() */
static char vf_opaque_obj;
#define OPAQUE ((struct item*)&vf_opaque_obj)

static void vf_guarantee(void* p, int o, int n);
#define VF_G(p, o, n) vf_guarantee((void*)(p), (int)(o), (int)(n))
#include "vf.h"
#include "../atomic_queue/aq_contract.h"
#include "eq_contract.h"
#define RQ (&S.remoteQueue_)
#define INACT AQ_INACT(RQ)

/* guarantee: the only atomic written outside the remote queue's own operations is an item's enqueued_, and it only moves
 * 0 -> 1 (handed to the context) and 1 -> 0 (taken out for execution) */
static void vf_guarantee(void* p, int o, int n) {
  VF_P(p == (void*)&IT.enqueued_ || p == (void*)&W0.enqueued_ || p == (void*)&C0.enqueued_, "guarantee: the only atomic word written here is the enqueued_ flag of the item being scheduled / executed");
  VF_P((o == 0 && n == 1) || (o == 1 && n == 0), "C14-2 guarantee: enqueued_ only moves 0 -> 1 (schedule) and 1 -> 0 (execution)");
  VF_P(n == 1 ? !G.dead : 1, "no write to an item that may already have been executed");
  if (n == 1) { G.enq_incs++; } else { G.enq_decs++; }
}
/* rely: the remote queue's head moves as the other parties' contracts allow; nobody else touches the operand item while the
 * caller owns it (between enqueued_ == 0 and its publication) nor a queued item of the local queue (I/O thread only) */
static void vf_interfere(void) {
  void* o = S.remoteQueue_.head_;
  int k = VF_nondet_int();
  void* n = k == 0 ? INACT : k == 1 ? NULL : k == 2 ? (void*)&R0 : k == 3 ? (void*)&R1 : o;
  __CPROVER_assume(G.i_am_consumer ? AQ_RELY_CONSUMER(RQ, o, n) : AQ_RELY_PRODUCER(RQ, o, n, &IT));
  S.remoteQueue_.head_ = n;
}

/* ---------------- initial values, from the code ---------------- */
static void item_init(struct item* b) { b->enqueued_ = /*@EXPR ob_enqueued_init*/; b->next_ = /*@EXPR ob_next_init*/; b->execute_ = /*@EXPR ob_execute_init*/; }
static void ctx_init(struct io_epoll_context* self) {
  self->localQueue_.head_ = /*@EXPR iq_head_init*/; self->localQueue_.tail_ = /*@EXPR iq_tail_init*/;
  self->remoteQueueReadSubmitted_ = /*@EXPR rqrs_init*/;
  { struct aq* vf_q = &self->remoteQueue_; struct aq* self = vf_q; self->head_ = /*@EXPR aq_ctor_default*/; }
}

/* ---------------- intrusive_queue<operation_base, &operation_base::next_> (extracted, inlined into the callers) ---------------- */
static _Bool IQ_empty(struct iqueue* self)
/*@BODY iq_empty*/
static struct item* IQ_pop_front(struct iqueue* self)
/*@BODY iq_pop_front*/
static void IQ_push_back(struct iqueue* self, struct item* item)
/*@BODY iq_push_back*/
static void IQ_append(struct iqueue* self, struct iqueue other)
/*@BODY iq_append*/
static struct iqueue IQ_move(struct iqueue* other) { struct iqueue r; r.head_ = /*@EXPR iq_move_head*/; r.tail_ = /*@EXPR iq_move_tail*/; return r; }

/* well-formed queue, window form: empty | [h] | [h .. t] with an opaque middle; QUEUED: what every queued item looks like */
#define QSHAPE(q, h, t) (((q)->head_ == NULL && (q)->tail_ == NULL) \
   || ((q)->head_ == &(h) && (((q)->tail_ == &(h) && (h).next_ == NULL) || ((q)->tail_ == &(t) && (t).next_ == NULL && ((h).next_ == &(t) || (h).next_ == OPAQUE)))))
#define QUEUED(n) ((n).enqueued_ == 1 && (n).execute_ != NULL)
#define QITEMS(q, h, t) (((q)->head_ == NULL || QUEUED(h)) && ((q)->tail_ != &(t) || QUEUED(t)))
static void dummy_continuation_a(struct item* i) {}
static void dummy_continuation_b(struct item* i) {}
static exec_fn pick_fn(void) { return VF_nondet_bool() ? &dummy_continuation_a : &dummy_continuation_b; }
static void queue_build(struct iqueue* q, struct item* h, struct item* t) {
  t->next_ = NULL; t->enqueued_ = 1; t->execute_ = pick_fn(); h->enqueued_ = 1; h->execute_ = pick_fn();
  if (VF_nondet_bool()) { q->head_ = NULL; q->tail_ = NULL; }
  else { q->head_ = h; if (VF_nondet_bool()) { h->next_ = NULL; q->tail_ = h; } else { h->next_ = VF_nondet_bool() ? t : OPAQUE; q->tail_ = t; } }
}
#define LOCALQ (&S.localQueue_)
#define OLD_HEAD __CPROVER_old(S.localQueue_.head_)
#define OLD_TAIL __CPROVER_old(S.localQueue_.tail_)
#define OLD_TAIL_NEXT (OLD_TAIL == &W0 ? W0.next_ : WT.next_)   /* the link field of the node that was the tail */
/* appended behind the old tail (FIFO): head unchanged, or the first appended node if the queue was empty; interior links untouched */
#define APPENDED(first, last) (S.localQueue_.tail_ == (last) && (OLD_HEAD == NULL ? S.localQueue_.head_ == (first) \
                               : (S.localQueue_.head_ == OLD_HEAD && OLD_TAIL_NEXT == (first))) \
                               && (OLD_TAIL == &WT ==> W0.next_ == __CPROVER_old(W0.next_)))
#define LOCAL_UNCHANGED (S.localQueue_.head_ == OLD_HEAD && S.localQueue_.tail_ == OLD_TAIL)

/* ---------------- event stubs ---------------- */
/* write(remoteQueueEventFd_, &value, 8): wakes the loop out of epoll_wait */
static ssize_t EV_eventfd_write(struct io_epoll_context* self, uint64_t value, size_t len) {
  VF_CANARY("eventfd write reachable");
  VF_P(self == &S, "the context's own eventfd");
  G.eventfd_writes++; G.eventfd_value = value; G.eventfd_len = len;
  /* the loop wakes up and may execute (and thereby destroy) everything in the remote queue, the operand included */
  { struct item f; IT = f; G.dead = 1; G.snap = IT; }
  return (ssize_t)len;
}
/* execute(item): the continuation runs; it may destroy the item and may schedule further items (local queue changes) */
static void EV_execute(struct item* item, exec_fn fn) {
  VF_CANARY("item execution reachable");
  VF_P(ON_IO, "C14: work runs on the thread inside run()");
  VF_P(item == &W0 && G.exec == 0, "C14-2: the item executed is the one popped from the head of the batch, once");
  VF_P(EQ_AT_EXECUTE(item, fn, G.carried), "C14-2: an item is executed with enqueued_ back to 0, next_ and execute_ cleared, through the continuation it carried");
  G.exec++; G.exec_item = item;
  { struct item f; *item = f; G.dead = 1; G.snap = *item; }
  S.localQueue_.head_ = VF_nondet_bool() ? OPAQUE : NULL; S.localQueue_.tail_ = S.localQueue_.head_;
}
#define IT_UNTOUCHED (IT.enqueued_ == G.snap.enqueued_ && IT.next_ == G.snap.next_ && IT.execute_ == G.snap.execute_)
#define W0_UNTOUCHED (W0.enqueued_ == G.snap.enqueued_ && W0.next_ == G.snap.next_ && W0.execute_ == G.snap.execute_)

/* remoteQueue_.enqueue(item): contract stub (aq_contract.h): assert requires; effect by concrete choice; assume ensures.
 * Unless the consumer was inactive (it then sleeps until the eventfd is written) it may take and run the item at once */
static _Bool AQ_enqueue(struct aq* self, struct item* it) {
  VF_A(self == RQ && it == &IT && AQ_REQ_PRODUCER(RQ, &IT), "precondition of atomic_intrusive_queue::enqueue at the call site");
  VF_P(IT.enqueued_ == 1 && IT.execute_ != NULL, "C14-2: the item is marked enqueued (and has its continuation) before it becomes visible to the consumer");
  VF_P(G.eventfd_writes == 0, "the eventfd is written after the item is in the queue, not before");
  vf_interfere();
  void* o = S.remoteQueue_.head_;
  IT.next_ = (o == INACT) ? NULL : (struct item*)o;
  G.lin_old = o; G.lin_new = (void*)&IT; G.lin_count++; G.it_next_at_lin = IT.next_;
  S.remoteQueue_.head_ = (void*)&IT;
  _Bool rv = (o == INACT);
  __CPROVER_assume(AQ_ENS_ENQUEUE(RQ, &IT, rv));
  if (!rv) { struct item f; IT = f; G.dead = 1; G.snap = IT; }
  return rv;
}

/* remoteQueue_.try_mark_inactive_or_dequeue_all(): contract stub (aq_contract.h): assert requires; outcome by concrete choice
 * (sentinel installed over an empty inbox | everything taken, oldest first, the old head last); the word then moves on as
 * the producers' steps allow; assume ensures.  Items found in the inbox were put there by schedule_remote: QUEUED */
static struct iqueue AQ_try_mark_inactive_or_dequeue_all(struct aq* self) {
  VF_P(G.i_am_consumer, "only the loop (the single consumer) marks the remote queue inactive or takes its contents");
  VF_A(self == RQ && AQ_REQ_CONSUMER(RQ), "precondition of try_mark_inactive_or_dequeue_all at the call site");
  struct iqueue r;
  G.lin_count++; G.it_next_at_lin = NULL;
  if (VF_nondet_bool()) { G.lin_old = NULL; G.lin_new = INACT; G.mr_arg = NULL; r.head_ = NULL; r.tail_ = NULL; }
  else {
    R0.enqueued_ = 1; R0.execute_ = pick_fn(); R1.enqueued_ = 1; R1.execute_ = pick_fn();
    if (VF_nondet_bool()) { G.lin_old = (void*)&R0; R0.next_ = NULL; r.head_ = &R0; r.tail_ = &R0; }
    else { G.lin_old = (void*)&R1; R1.next_ = NULL; R0.next_ = VF_nondet_bool() ? &R1 : OPAQUE; r.head_ = &R0; r.tail_ = &R1; }
    G.lin_new = NULL; G.mr_calls++; G.mr_arg = (struct item*)G.lin_old;
  }
  S.remoteQueue_.head_ = G.lin_new;
  vf_interfere();
  __CPROVER_assume(AQ_ENS_TMIODA(RQ, r));
  return r;
}

/* ---------------- functions under contract ---------------- */
_Bool CTX_is_running_on_io_thread(struct io_epoll_context* self)
/*@BODY is_running_on_io_thread*/

#define SCHED_REQ(self, op) ((self) == &S && (op) == &IT && EQ_REQ_SCHEDULE(&IT) && G.enq_incs == 0 && G.enq_decs == 0 && G.eventfd_writes == 0 && G.lin_count == 0 && !G.dead)

/* schedule_local(op): I/O thread only.  enqueued_ 0 -> 1, the item becomes the tail of the local queue; no wake-up, remote queue untouched */
void CTX_schedule_local(struct io_epoll_context* self, struct item* op)
__CPROVER_requires(SCHED_REQ(self, op) && ON_IO && QSHAPE(LOCALQ, W0, WT))
__CPROVER_assigns(IT, S.localQueue_, W0.next_, WT.next_, G.enq_incs, G.enq_decs, S.remoteQueue_.head_)
__CPROVER_ensures(EQ_ENS_ENQUEUED(&IT, __CPROVER_old(IT.enqueued_)) && G.enq_incs == 1 && G.enq_decs == 0) /* C14-2: 0 -> 1, once */
__CPROVER_ensures(APPENDED(&IT, &IT) && IT.next_ == NULL) /* behind everything already queued (FIFO) */
__CPROVER_ensures(IT.execute_ == __CPROVER_old(IT.execute_)) /* keeps its continuation */
__CPROVER_ensures(G.eventfd_writes == 0 && G.lin_count == 0) /* local scheduling needs no wake-up and does not touch the remote queue */
/*@BODY schedule_local*/

/* schedule_local(queue): the whole batch goes behind the local queue, in order; nothing is dropped */
#define OPS_WF(ops) (((ops).head_ == NULL) == ((ops).tail_ == NULL))
void CTX_schedule_local_q(struct io_epoll_context* self, struct iqueue ops)
__CPROVER_requires(self == &S && OPS_WF(ops) && QSHAPE(LOCALQ, W0, WT))
__CPROVER_assigns(S.localQueue_, W0.next_, WT.next_)
__CPROVER_ensures(__CPROVER_old(ops.head_) == NULL ==> (LOCAL_UNCHANGED && W0.next_ == __CPROVER_old(W0.next_) && WT.next_ == __CPROVER_old(WT.next_)))
__CPROVER_ensures(__CPROVER_old(ops.head_) != NULL ==> APPENDED(__CPROVER_old(ops.head_), __CPROVER_old(ops.tail_))) /* the batch's first node follows the old tail, its last node is the new tail */
/*@BODY schedule_local_q*/

/* signal_remote_queue: exactly one 8-byte write of the value 1 to the eventfd */
void CTX_signal_remote_queue(struct io_epoll_context* self)
__CPROVER_requires(self == &S && G.eventfd_writes == 0)
__CPROVER_assigns(G.eventfd_writes, G.eventfd_value, G.eventfd_len, G.err, IT, G.dead, G.snap)
__CPROVER_ensures(G.eventfd_writes == 1 && G.eventfd_value == 1 && G.eventfd_len == 8)
__CPROVER_ensures(G.dead && IT_UNTOUCHED)
/*@BODY signal_remote_queue*/

/* schedule_remote(op): enqueued_ 0 -> 1, then ONE enqueue; the eventfd is written iff that enqueue replaced the inactive
 * sentinel (C14-1: with the queue lemmas: exactly one wake-up per idle period, no item stranded); the item is not touched
 * once it is visible to a running consumer */
void CTX_schedule_remote(struct io_epoll_context* self, struct item* op)
__CPROVER_requires(SCHED_REQ(self, op) && !G.i_am_consumer && S.remoteQueue_.head_ != (void*)&IT)
__CPROVER_assigns(IT, S.remoteQueue_.head_, G.enq_incs, G.enq_decs, G.lin_old, G.lin_new, G.lin_count, G.it_next_at_lin, G.eventfd_writes, G.eventfd_value, G.eventfd_len, G.err, G.dead, G.snap)
__CPROVER_ensures(G.enq_incs == 1 && G.enq_decs == 0) /* C14-2: 0 -> 1, once */
__CPROVER_ensures(G.lin_count == 1 && G.lin_new == (void*)&IT && G.it_next_at_lin == (G.lin_old == INACT ? (struct item*)NULL : (struct item*)G.lin_old)) /* pushed once, in front of the previous chain */
__CPROVER_ensures(G.eventfd_writes == (G.lin_old == INACT ? 1 : 0)) /* C14-1: writes the eventfd iff enqueue reported "consumer inactive" */
__CPROVER_ensures(G.dead && IT_UNTOUCHED) /* the I/O thread may already have run and destroyed the item */
/*@BODY schedule_remote*/

/* schedule_impl: local or remote by thread identity */
void CTX_schedule_impl(struct io_epoll_context* self, struct item* op)
__CPROVER_requires(SCHED_REQ(self, op) && !G.i_am_consumer && S.remoteQueue_.head_ != (void*)&IT && G.local_calls == 0 && G.remote_calls == 0)
__CPROVER_requires(QSHAPE(LOCALQ, W0, WT))
__CPROVER_assigns(IT, S.localQueue_, W0.next_, WT.next_, S.remoteQueue_.head_, G.enq_incs, G.enq_decs, G.lin_old, G.lin_new, G.lin_count, G.it_next_at_lin, G.eventfd_writes, G.eventfd_value, G.eventfd_len, G.err, G.dead, G.snap)
__CPROVER_ensures(G.enq_incs == 1 && G.enq_decs == 0)
__CPROVER_ensures(ON_IO ==> (G.lin_count == 0 && G.eventfd_writes == 0 && APPENDED(&IT, &IT))) /* on the I/O thread: local queue, no wake-up */
__CPROVER_ensures(!ON_IO ==> (G.lin_count == 1 && LOCAL_UNCHANGED && G.eventfd_writes == (G.lin_old == INACT ? 1 : 0))) /* from any other thread: remote queue + wake protocol; the local queue (I/O thread only) is not touched */
/*@BODY schedule_impl*/

/* execute_pending_local: takes the WHOLE local queue (items scheduled while the batch runs wait for the next round) and
 * executes every item of the batch; loop at cut points */
#define EPL_INV (ON_IO && QSHAPE(&PENDING, W0, WT) && QITEMS(&PENDING, W0, WT) && G.took)
static void epl__loop0(struct io_epoll_context* self) {
  VF_P(EPL_INV, "cut point (execute_pending_local loop head): the rest of the batch is a well-formed queue of enqueued items");
  /* arbitrary number of iterations later: the executed items may have scheduled new ones */
  queue_build(&PENDING, &W0, &WT);
  __CPROVER_assume(EPL_INV && !(/*@LOOPCOND execute_pending_local.loop0.cond*/));
  queue_build(LOCALQ, &W0, &WT);   /* whatever the executed items scheduled: a well-formed queue of enqueued items (window re-chosen) */
}
#define VF_EPL_LOOP G.took = 1; epl__loop0(self)

void CTX_execute_pending_local(struct io_epoll_context* self)
__CPROVER_requires(self == &S && ON_IO && QSHAPE(LOCALQ, W0, WT) && QITEMS(LOCALQ, W0, WT) && !G.took && G.exec == 0 && G.enq_decs == 0 && G.enq_incs == 0 && !G.dead && PENDING.head_ == NULL && PENDING.tail_ == NULL)
__CPROVER_assigns(S.localQueue_, S.remoteQueue_.head_, PENDING, W0, WT, G.took, G.exec, G.exec_item, G.enq_decs, G.dead, G.snap, SHOULD_STOP)
__CPROVER_ensures(G.took == (__CPROVER_old(S.localQueue_.head_) != NULL)) /* an empty queue: nothing to do */
__CPROVER_ensures(!G.took ==> LOCAL_UNCHANGED)
__CPROVER_ensures(PENDING.head_ == NULL && PENDING.tail_ == NULL) /* the loop leaves only when the whole batch has been popped (each pop is followed by exactly one execution: loop body unit) */
__CPROVER_ensures(G.enq_incs == 0)
__CPROVER_ensures(AQ_RELY_CONSUMER(RQ, __CPROVER_old(S.remoteQueue_.head_), S.remoteQueue_.head_)) /* the remote queue is left to the producers: an active queue stays active */
__CPROVER_ensures(QSHAPE(LOCALQ, W0, WT) && QITEMS(LOCALQ, W0, WT)) /* what is left in the local queue (scheduled by the items that ran) is a well-formed queue of enqueued items */
/*@BODY execute_pending_local*/

int epl__loop0_body(struct io_epoll_context* self)
__CPROVER_requires(self == &S && EPL_INV && (/*@LOOPCOND execute_pending_local.loop0.cond*/) && G.exec == 0 && G.enq_decs == 0 && !G.dead && G.carried == W0.execute_)
__CPROVER_assigns(S.localQueue_, S.remoteQueue_.head_, PENDING, W0, G.exec, G.exec_item, G.enq_decs, G.dead, G.snap)
__CPROVER_ensures(__CPROVER_return_value == VF_X_CONTINUE)
__CPROVER_ensures(G.exec == 1 && G.exec_item == &W0 && G.enq_decs == 1) /* C14-2: pops the head, 1 -> 0 exactly once, executes exactly that item once (state at the call: checked in EV_execute) */
__CPROVER_ensures(PENDING.head_ == __CPROVER_old(W0.next_) && (PENDING.head_ == NULL ? PENDING.tail_ == NULL : PENDING.tail_ == __CPROVER_old(PENDING.tail_))) /* the rest of the batch stays, in order */
__CPROVER_ensures(G.dead && W0_UNTOUCHED) /* the executed item may be gone: never touched afterwards */
/*@LOOPBODY execute_pending_local.loop0.body*/

/* try_schedule_local_remote_queue_contents: ONE step on the remote queue: marks the loop inactive only over an EMPTY
 * queue (returns true), otherwise takes EVERYTHING and appends it to the local queue in order (returns false) */
_Bool CTX_try_schedule_local_remote_queue_contents(struct io_epoll_context* self)
__CPROVER_requires(G.i_am_consumer && S.remoteQueue_.head_ != INACT) /*P*/ /* C14-1: only the loop, and only while it is an ACTIVE consumer, looks into the remote queue (an inactive loop waits for its wake-up) */
__CPROVER_requires(self == &S && AQ_REQ_CONSUMER(RQ) && QSHAPE(LOCALQ, W0, WT))
__CPROVER_assigns(AQ_ASSIGNS_CONSUMER(RQ), S.localQueue_, W0.next_, WT.next_, R0, R1)
__CPROVER_ensures(G.lin_count == 1)
__CPROVER_ensures(AQ_RELY_CONSUMER(RQ, G.lin_new, S.remoteQueue_.head_)) /* afterwards only producers move the word: after taking the contents the queue stays active */
__CPROVER_ensures(__CPROVER_return_value == 0 || __CPROVER_return_value == 1)
__CPROVER_ensures(__CPROVER_return_value == (G.lin_new == INACT)) /* true <=> the queue was marked inactive */
__CPROVER_ensures(__CPROVER_return_value ==> (G.lin_old == NULL && LOCAL_UNCHANGED && W0.next_ == __CPROVER_old(W0.next_) && WT.next_ == __CPROVER_old(WT.next_))) /* C14-1: the loop marks itself inactive only on an empty queue */
__CPROVER_ensures(!__CPROVER_return_value ==> (G.lin_new == NULL && G.lin_old != NULL && G.lin_old != INACT && G.mr_calls == 1 && (void*)G.mr_arg == G.lin_old \
                   && S.localQueue_.tail_ == (struct item*)G.lin_old && S.localQueue_.head_ != NULL && (OLD_HEAD != NULL ==> (S.localQueue_.head_ == OLD_HEAD && OLD_TAIL_NEXT != NULL)))) /* everything that was in the inbox is now at the back of the local queue (newest item last) */
/*@BODY try_schedule*/

/* ---- run_impl: entry / exit segment, and the loop body against the contracts of its callees ---- */
static void CTX_update_timers(struct io_epoll_context* self) { G.timers_calls++; S.timersAreDirty_ = VF_nondet_bool(); }   /* group epoll_timer */
/* ---- acquire_completion_queue_items: epoll_wait, then one dispatch step per event (loop at cut points), then the ready
 * completion items go to the local queue ---- */
void* CTX_timer_user_data(struct io_epoll_context* self)
/*@BODY timer_user_data*/
static struct iqueue IQ_default(void) { struct iqueue q; q.head_ = /*@EXPR iq_head_init*/; q.tail_ = /*@EXPR iq_tail_init*/; return q; }
/* epoll_wait(epollFd_, completions, 256, timeout): 0..256 events, or -1 with errno */
static int EV_epoll_wait(struct io_epoll_context* self, int timeout) {
  VF_P(self == &S && S.remoteQueueReadSubmitted_, "C14-1: the loop waits in epoll_wait only after marking the remote queue inactive (a later producer writes the eventfd)");
  VF_P(timeout == 0 || (timeout == -1 && S.localQueue_.head_ == NULL), "C14-1: the loop blocks only when it has nothing to run locally; otherwise it only polls");
  G.epoll_waits++; G.wait_timeout = timeout;
  int r = VF_nondet_int();
  __CPROVER_assume(r >= -1 && r <= VF_MAX_EVENTS);
  if (r < 0) { G.err = VF_nondet_int(); }
  G.wait_result = r;
  return r;
}
static void EV_throw(int code) { VF_CANARY("epoll_wait failure reachable"); G.throws++; }
/* read(remoteQueueEventFd_): consumes the wake-up.  The eventfd is readable only because some producer wrote it, which
 * schedule_remote does only after its enqueue replaced the inactive sentinel; the loop has not re-installed it since */
static ssize_t EV_eventfd_read(struct io_epoll_context* self, uint64_t* buf, size_t len) {
  VF_CANARY("eventfd read reachable");
  VF_P(self == &S && len == 8 && G.eventfd_reads == 0, "the wake-up is consumed once, 8 bytes");
  G.eventfd_reads++;
  vf_interfere();
  __CPROVER_assume(S.remoteQueue_.head_ != INACT);
  *buf = VF_nondet_u64();
  return (ssize_t)len;
}
static ssize_t EV_timerfd_read(struct io_epoll_context* self, uint64_t* buf, size_t len) { VF_P(self == &S && len == 8, "timerfd read, 8 bytes"); G.timerfd_reads++; *buf = VF_nondet_u64(); return (ssize_t)len; }
static void EV_currentDueTime_reset(struct io_epoll_context* self) { G.due_resets++; }

#define LOCAL_WF_ABS ((S.localQueue_.head_ == NULL) == (S.localQueue_.tail_ == NULL))
/* cut-point invariant of the dispatch loop: the flag is in step with the queue word; the completion queue is a well-formed
 * queue of items marked enqueued; the local queue is as epoll_wait found it */
#define ACQ_INV (G.i_am_consumer && (!S.remoteQueueReadSubmitted_ ==> S.remoteQueue_.head_ != INACT) && QSHAPE(&completionQueue, X0, XT) && QITEMS(&completionQueue, X0, XT) \
                 && QSHAPE(LOCALQ, W0, WT))   /* the dispatch loop does not touch the local queue (frame) */
static void acq__loop0(struct io_epoll_context* self) {
  VF_P(ACQ_INV, "cut point (dispatch loop head): flag in step with the remote queue, completion queue well formed");
  queue_build(&completionQueue, &X0, &XT);
  if (VF_nondet_bool()) { S.remoteQueueReadSubmitted_ = 0; S.remoteQueue_.head_ = VF_nondet_bool() ? NULL : (void*)&R0; }
  S.timersAreDirty_ = VF_nondet_bool();
  __CPROVER_assume(ACQ_INV);
}
#define VF_ACQ_LOOP acq__loop0(self)

void CTX_acquire_completion_queue_items(struct io_epoll_context* self)
__CPROVER_requires(S.remoteQueueReadSubmitted_) /*P*/ /* C14-1: the loop goes to epoll_wait only after marking the remote queue inactive (a later producer writes the eventfd) */
__CPROVER_requires(self == &S && G.i_am_consumer && G.epoll_waits == 0 && G.throws == 0 && QSHAPE(LOCALQ, W0, WT) && QITEMS(LOCALQ, W0, WT))
__CPROVER_assigns(S.localQueue_, S.remoteQueueReadSubmitted_, S.timersAreDirty_, S.remoteQueue_.head_, G.epoll_waits, G.wait_timeout, G.wait_result, G.err, G.throws, W0, WT, X0, XT, completionQueue, completions)
__CPROVER_ensures(G.epoll_waits == 1) /* one epoll_wait per round */
__CPROVER_ensures((G.wait_timeout == -1) == (__CPROVER_old(S.localQueue_.head_) == NULL)) /* blocks iff there is nothing to run locally */
__CPROVER_ensures(!S.remoteQueueReadSubmitted_ ==> S.remoteQueue_.head_ != INACT) /* the flag is cleared only together with a consumed wake-up: the loop is an active consumer again */
__CPROVER_ensures(G.throws == (G.wait_result < 0 ? 1 : 0))
__CPROVER_ensures(G.wait_result < 0 ==> (LOCAL_UNCHANGED && S.remoteQueueReadSubmitted_)) /* a failing epoll_wait leaves the queues alone */
__CPROVER_ensures(G.wait_result >= 0 ==> (completionQueue.head_ == NULL ? LOCAL_UNCHANGED : APPENDED(completionQueue.head_, completionQueue.tail_))) /* every ready completion item goes behind the local queue, in order */
__CPROVER_ensures(LOCAL_WF_ABS)
/*@BODY acquire*/

#define EVENT_PTR(i) (completions[i].data.ptr)
int acq__loop0_body(struct io_epoll_context* self, uint32_t i)
__CPROVER_requires(self == &S && i < VF_MAX_EVENTS && ACQ_INV && (EVENT_PTR(i) == remote_queue_event_user_data || EVENT_PTR(i) == (void*)&S.timers_ || EVENT_PTR(i) == (void*)&C0))
__CPROVER_requires(C0.enqueued_ == 0 && C0.execute_ != NULL && G.eventfd_reads == 0 && G.timerfd_reads == 0 && G.enq_incs == 0 && G.enq_decs == 0 && !G.dead && G.rqrs_in == S.remoteQueueReadSubmitted_ \
                   && G.cq_in.head_ == completionQueue.head_ && G.cq_in.tail_ == completionQueue.tail_)
__CPROVER_assigns(S.remoteQueueReadSubmitted_, S.timersAreDirty_, S.remoteQueue_.head_, completionQueue, C0, X0.next_, XT.next_, G.eventfd_reads, G.timerfd_reads, G.due_resets, G.enq_incs, G.enq_decs, G.err)
__CPROVER_ensures(__CPROVER_return_value == VF_X_CONTINUE)
__CPROVER_ensures(ACQ_INV || (completionQueue.tail_ == &C0)) /* invariant (the window of the completion queue is re-chosen at the next cut point) */
__CPROVER_ensures((G.eventfd_reads == 1) == (EVENT_PTR(i) == remote_queue_event_user_data)) /* the eventfd is read for, and only for, the remote-queue event */
__CPROVER_ensures(S.remoteQueueReadSubmitted_ == (G.rqrs_in && G.eventfd_reads == 0)) /* C14-1: the flag is cleared exactly when the wake-up was consumed */
__CPROVER_ensures(!S.remoteQueueReadSubmitted_ ==> S.remoteQueue_.head_ != INACT)
__CPROVER_ensures(EVENT_PTR(i) == (void*)&S.timers_ ==> (S.timersAreDirty_ && G.timerfd_reads == 1 && G.due_resets == __CPROVER_old(G.due_resets) + 1))
__CPROVER_ensures(EVENT_PTR(i) == (void*)&C0 ? (G.enq_incs == 1 && C0.enqueued_ == 1 && C0.execute_ == __CPROVER_old(C0.execute_) && completionQueue.tail_ == &C0 && C0.next_ == NULL \
                   && (G.cq_in.head_ == NULL ? completionQueue.head_ == &C0 : (completionQueue.head_ == G.cq_in.head_ && (G.cq_in.tail_ == &X0 ? X0.next_ : XT.next_) == &C0))) \
                   : (G.enq_incs == 0 && completionQueue.head_ == G.cq_in.head_ && completionQueue.tail_ == G.cq_in.tail_)) /* C14-2: a ready completion item goes 0 -> 1 and to the back of the completion queue; other events queue nothing */
/*@LOOPBODY acquire.loop0.body*/

/* loop invariant: the loop's flag is in step with the queue word: while the flag is clear the loop is an ACTIVE consumer
 * (the precondition of try_mark_inactive_or_dequeue_all); the local queue is well formed */
#define RUN_INV (ON_IO && G.i_am_consumer && currentThreadContext == &S && (!S.remoteQueueReadSubmitted_ ==> S.remoteQueue_.head_ != INACT) \
                 && QSHAPE(LOCALQ, W0, WT) && QITEMS(LOCALQ, W0, WT))
static int run__loop0(struct io_epoll_context* self, const _Bool* shouldStop) {
  VF_P(RUN_INV, "cut point (run loop head): flag in step with the remote queue, local queue well formed");
  queue_build(LOCALQ, &W0, &WT);
  S.remoteQueueReadSubmitted_ = VF_nondet_bool(); S.timersAreDirty_ = VF_nondet_bool();
  S.remoteQueue_.head_ = S.remoteQueueReadSubmitted_ ? (VF_nondet_bool() ? INACT : (void*)&R0) : (VF_nondet_bool() ? NULL : (void*)&R0);
  SHOULD_STOP = 1;
  __CPROVER_assume(RUN_INV && !(/*@LOOPCOND run_impl.loop0.cond*/) || 1);
  return VF_X_BREAK;
}
#define VF_RUN_LOOP run__loop0(self, shouldStop)

void CTX_run_impl(struct io_epoll_context* self, const _Bool* shouldStop)
__CPROVER_requires(self == &S && shouldStop == &SHOULD_STOP && G.i_am_consumer && !S.remoteQueueReadSubmitted_ && S.remoteQueue_.head_ != INACT && QSHAPE(LOCALQ, W0, WT) && QITEMS(LOCALQ, W0, WT) && !ON_IO)
__CPROVER_assigns(currentThreadContext, S, W0, WT, SHOULD_STOP)
__CPROVER_ensures(currentThreadContext == __CPROVER_old(currentThreadContext)) /* thread identity restored on the way out */
__CPROVER_ensures(SHOULD_STOP) /* run() returns only after the stop operation was executed */
/*@BODY run_impl*/

int run__loop0_body(struct io_epoll_context* self, const _Bool* shouldStop)
__CPROVER_requires(self == &S && shouldStop == &SHOULD_STOP && RUN_INV && (/*@LOOPCOND run_impl.loop0.cond*/) && G.lin_count == 0 && G.mr_calls == 0 && !G.took && G.exec == 0 && G.enq_decs == 0 && G.enq_incs == 0 && !G.dead \
                   && PENDING.head_ == NULL && PENDING.tail_ == NULL && G.epoll_waits == 0 && G.throws == 0 && G.rqrs_in == S.remoteQueueReadSubmitted_ && G.timers_calls == 0)
__CPROVER_assigns(S, W0, WT, X0, XT, R0, R1, PENDING, completionQueue, completions, SHOULD_STOP, G)
__CPROVER_ensures(__CPROVER_return_value == VF_X_BREAK || __CPROVER_return_value == VF_X_CONTINUE)
__CPROVER_ensures(__CPROVER_return_value == VF_X_BREAK ==> SHOULD_STOP) /* the loop is left only when the stop operation has run */
__CPROVER_ensures(__CPROVER_return_value == VF_X_CONTINUE ==> (ON_IO && G.i_am_consumer && (!S.remoteQueueReadSubmitted_ ==> S.remoteQueue_.head_ != INACT) && ((S.localQueue_.head_ == NULL) == (S.localQueue_.tail_ == NULL)))) /* invariant re-established (the local queue is well formed; the window is re-chosen at the next cut point) */
__CPROVER_ensures((__CPROVER_return_value == VF_X_CONTINUE && !G.rqrs_in && G.epoll_waits == 1) ==> (G.lin_count == 1 && G.lin_new == INACT && G.lin_old == NULL)) /* C14-1: the loop reaches epoll_wait only after ITS mark-inactive step found the remote queue empty */
__CPROVER_ensures((__CPROVER_return_value == VF_X_CONTINUE && G.rqrs_in) ==> G.lin_count == 0) /* while marked inactive the loop does not touch the remote queue (it waits for the wake-up) */
__CPROVER_ensures((__CPROVER_return_value == VF_X_CONTINUE && (G.rqrs_in || (G.lin_count == 1 && G.lin_new == INACT))) ==> G.epoll_waits == 1) /* C14: in every round in which remote producers can reach the loop only through the eventfd, the round polls epoll (zero timeout when local work is pending): remote work and a remote stop request are not starved by work that keeps rescheduling itself locally */
/*@LOOPBODY run_impl.loop0.body*/

/* ---------------- harnesses ---------------- */
static void h_init(void) {
  ctx_init(&S);
  G.i_am_consumer = 0; G.lin_old = NULL; G.lin_new = NULL; G.lin_count = 0; G.it_next_at_lin = NULL; G.mr_calls = 0; G.mr_arg = NULL;
  currentThreadContext = VF_nondet_bool() ? &S : NULL;
  G.err = 0; G.enq_incs = 0; G.enq_decs = 0; G.eventfd_writes = 0; G.eventfd_value = 0; G.eventfd_len = 0; G.local_calls = 0; G.remote_calls = 0; G.signal_calls = 0;
  G.epoll_waits = 0; G.eventfd_reads = 0; G.timerfd_reads = 0; G.due_resets = 0; G.throws = 0; G.wait_timeout = 0; G.wait_result = 0;
  G.exec = 0; G.exec_item = NULL; G.dead = 0; G.took = 0; G.epl_calls = 0; G.timers_calls = 0; G.try_calls = 0;
  PENDING.head_ = NULL; PENDING.tail_ = NULL; SHOULD_STOP = VF_nondet_bool();
  item_init(&IT); IT.execute_ = pick_fn();
  queue_build(LOCALQ, &W0, &WT);
  G.old_local = S.localQueue_;
  int k = VF_nondet_int();
  S.remoteQueue_.head_ = k == 0 ? INACT : k == 1 ? NULL : (void*)&R0;
  S.remoteQueueReadSubmitted_ = (S.remoteQueue_.head_ == INACT);
}
void h_schedule_local(void) { h_init(); currentThreadContext = &S; CTX_schedule_local(&S, &IT); VF_CANARY("after schedule_local"); if (G.old_local.head_ == NULL) { VF_CANARY("schedule_local into an empty queue"); } else { VF_CANARY("schedule_local into a non-empty queue"); } }
void h_schedule_local_q(void) {
  h_init();
  struct iqueue ops; queue_build(&ops, &X0, &XT);
  CTX_schedule_local_q(&S, ops);
  VF_CANARY("after schedule_local(queue)");
  if (ops.head_ != NULL && G.old_local.head_ != NULL) { VF_CANARY("a batch can be appended to a non-empty local queue"); }
}
void h_signal_remote_queue(void) { h_init(); CTX_signal_remote_queue(&S); VF_CANARY("after signal_remote_queue"); }
void h_schedule_remote(void) {
  h_init(); currentThreadContext = VF_nondet_bool() ? &S : NULL;
  CTX_schedule_remote(&S, &IT);
  VF_CANARY("after schedule_remote");
  if (G.eventfd_writes) { VF_CANARY("schedule_remote can wake the loop"); } else { VF_CANARY("schedule_remote can find the loop active"); }
}
void h_schedule_impl(void) {
  h_init(); CTX_schedule_impl(&S, &IT);
  VF_CANARY("after schedule_impl");
  if (ON_IO) { VF_CANARY("schedule_impl can schedule locally"); } else { VF_CANARY("schedule_impl can schedule remotely"); }
}
void h_execute_pending_local(void) { h_init(); currentThreadContext = &S; G.i_am_consumer = 1; CTX_execute_pending_local(&S); VF_CANARY("after execute_pending_local"); if (G.took) { VF_CANARY("execute_pending_local can take a batch"); } else { VF_CANARY("execute_pending_local can find the queue empty"); } }
void h_epl_loop0_body(void) {
  struct io_epoll_context* self = &S;
  h_init(); currentThreadContext = &S; G.i_am_consumer = 1; G.took = 1;
  queue_build(&PENDING, &W0, &WT); S.localQueue_.head_ = NULL; S.localQueue_.tail_ = NULL;
  __CPROVER_assume(/*@LOOPCOND execute_pending_local.loop0.cond*/);
  G.carried = W0.execute_;
  int r = epl__loop0_body(&S);
  VF_CANARY("after one iteration of execute_pending_local");
  if (PENDING.head_ == NULL) { VF_CANARY("the iteration can empty the batch"); } else { VF_CANARY("the iteration can leave items in the batch"); }
}
void h_try_schedule(void) {
  h_init(); G.i_am_consumer = 1; currentThreadContext = &S;
  __CPROVER_assume(S.remoteQueue_.head_ != INACT); S.remoteQueueReadSubmitted_ = 0;
  _Bool r = CTX_try_schedule_local_remote_queue_contents(&S);
  VF_CANARY("after try_schedule_local_remote_queue_contents");
  if (r) { VF_CANARY("the loop can mark itself inactive"); } else { VF_CANARY("the loop can take remote items"); }
}
void h_acquire(void) {
  h_init(); G.i_am_consumer = 1; currentThreadContext = &S;
  S.remoteQueueReadSubmitted_ = 1; G.epoll_waits = 0; G.throws = 0;
  CTX_acquire_completion_queue_items(&S);
  VF_CANARY("after acquire_completion_queue_items");
  if (G.wait_timeout == -1) { VF_CANARY("the loop can block"); } else { VF_CANARY("the loop can poll"); }
  if (G.wait_result >= 0 && !S.remoteQueueReadSubmitted_) { VF_CANARY("a wake-up can be consumed"); }
}
void h_acq_loop0_body(void) {
  h_init(); G.i_am_consumer = 1; currentThreadContext = &S;
  uint32_t i = VF_nondet_u32(); __CPROVER_assume(i < VF_MAX_EVENTS);
  int k = VF_nondet_int();
  completions[i].data.ptr = k == 0 ? remote_queue_event_user_data : k == 1 ? (void*)&S.timers_ : (void*)&C0;
  item_init(&C0); C0.execute_ = pick_fn(); C0.next_ = VF_nondet_bool() ? OPAQUE : NULL;
  queue_build(&completionQueue, &X0, &XT); G.cq_in = completionQueue;
  G.eventfd_reads = 0; G.timerfd_reads = 0; G.due_resets = 0;
  G.rqrs_in = S.remoteQueueReadSubmitted_;
  int r = acq__loop0_body(&S, i);
  VF_CANARY("after one dispatch step");
  if (G.enq_incs) { VF_CANARY("a completion item can be queued"); }
  if (G.timerfd_reads) { VF_CANARY("a timer event can be dispatched"); }
}
void h_run_impl(void) {
  h_init(); G.i_am_consumer = 1; currentThreadContext = VF_nondet_bool() ? (struct io_epoll_context*)&vf_opaque_obj : NULL;
  __CPROVER_assume(S.remoteQueue_.head_ != INACT); S.remoteQueueReadSubmitted_ = 0;
  CTX_run_impl(&S, &SHOULD_STOP);
  VF_CANARY("after run_impl");
}
void h_run_loop0_body(void) {
  h_init(); G.i_am_consumer = 1; currentThreadContext = &S;
  G.rqrs_in = S.remoteQueueReadSubmitted_;
  int r = run__loop0_body(&S, &SHOULD_STOP);
  if (r == VF_X_BREAK) { VF_CANARY("the run loop can stop"); }
  else {
    VF_CANARY("the run loop can go round");
    if (G.epoll_waits) { VF_CANARY("the run loop can go to epoll_wait"); }
    if (G.lin_count && G.lin_new == NULL) { VF_CANARY("the run loop can take remote items"); }
  }
}

/* ---------------- M4 lemmas over the contracts ---------------- */
void lemma_epoll_init(void) {
  ctx_init(&S); item_init(&IT);
  VF_P(S.remoteQueue_.head_ != INACT && S.remoteQueue_.head_ == NULL, "lemma: a fresh context's remote queue is active and empty");
  VF_P(!S.remoteQueueReadSubmitted_, "lemma: ... and its flag says so: the loop invariant holds initially");
  VF_P(S.localQueue_.head_ == NULL && S.localQueue_.tail_ == NULL, "lemma: a fresh context has nothing to run");
  VF_P(IT.enqueued_ == 0 && IT.next_ == NULL && IT.execute_ == NULL, "lemma: a fresh item is in no queue");
  VF_CANARY("lemma_epoll_init reachable");
}
/* an item's enqueued_ over its life, as the contracts move it: schedule (requires 0, makes 1), execution (requires 1, makes 0) */
void lemma_epoll_enqueued(void) {
  int e = VF_nondet_int(); __CPROVER_assume(e == 0 || e == 1);
  _Bool in_queue = (e == 1);                    /* invariant: enqueued_ == 1 <=> the item is in exactly one queue of the context */
  int step = VF_nondet_int(); __CPROVER_assume(step == 0 || step == 1);
  IT.enqueued_ = e; IT.execute_ = pick_fn(); IT.next_ = NULL;
  if (step == 0) { __CPROVER_assume(EQ_REQ_SCHEDULE(&IT)); int old = IT.enqueued_; IT.enqueued_ = 1; VF_P(EQ_ENS_ENQUEUED(&IT, old), "lemma: schedule moves 0 -> 1"); VF_P(!in_queue, "lemma: only an item that is in no queue can be scheduled (no double insertion)"); }
  else { __CPROVER_assume(IT.enqueued_ == 1); IT.enqueued_ = 0; exec_fn f = IT.execute_; IT.execute_ = NULL; VF_P(EQ_AT_EXECUTE(&IT, f, f), "lemma: execution moves 1 -> 0 and clears the continuation"); VF_P(in_queue, "lemma: only a queued item is executed"); VF_P(!EQ_REQ_SCHEDULE(&IT) , "lemma: an executed item must be given a new continuation before it can be scheduled again"); }
  VF_CANARY("lemma premises satisfiable");
}
/* wake protocol: the loop marked itself inactive (contract of try_schedule: only over an empty queue); then two producers
 * run schedule_remote (contract: one push each, eventfd written iff the push replaced the sentinel) */
void lemma_epoll_wake(void) {
  void* s0 = INACT;
  struct item* a = &IT; struct item* b = &R0;
  void* s1 = (void*)a; a->next_ = NULL;                 /* AQ_STEP_PUSH over the sentinel */
  VF_P(AQ_STEP_PUSH(RQ, s0, s1, a, a->next_), "lemma: the first producer's step is a push over the sentinel");
  _Bool wake_a = (s0 == INACT);
  void* s2 = (void*)b; b->next_ = (struct item*)s1;
  VF_P(AQ_STEP_PUSH(RQ, s1, s2, b, b->next_), "lemma: the second producer's step is a push over the first item");
  _Bool wake_b = (s1 == INACT);
  VF_P(wake_a && !wake_b, "lemma: exactly one wake-up is written for the idle period");
  VF_P(s2 != INACT && b->next_ == a, "lemma: when the loop wakes up (flag cleared after reading the eventfd) the queue word is not the sentinel, and both items are in the chain it takes next");
  /* while the loop is active (flag clear) a producer never needs to wake it: the loop looks at the queue again before blocking,
   * and it blocks only after a mark-inactive step that saw the queue empty */
  void* t0 = VF_nondet_bool() ? NULL : (void*)&R0;
  VF_P(!AQ_STEP_MARK_INACTIVE(RQ, t0, INACT) || t0 == NULL, "lemma: the mark-inactive step is enabled only on an empty queue: an item pushed while the loop was active is taken, not stranded");
  VF_CANARY("lemma_epoll_wake reachable");
}
