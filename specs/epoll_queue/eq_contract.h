/* Contracts of io_epoll_context's scheduling entry points as macros, so that
 *   - specs/epoll_queue/epoll_queue.c ENFORCES them on the extracted bodies of schedule_local / schedule_remote, and
 *   - client groups (specs/epoll_io, specs/epoll_timer) check exactly the same precondition text at their call sites
 *     (event stubs EV_schedule_local / EV_schedule_remote) and may rely on exactly the same postcondition text.
 * No library code in here.  op = the operation_base* handed to the context.
 * struct operation_base { int enqueued_; struct operation_base* next_; void (*execute_)(struct operation_base*); } */
#ifndef EQ_CONTRACT_H
#define EQ_CONTRACT_H

/* an item may be handed to the context only if it has a continuation and is in none of the context's queues
 * (the code asserts both: UNIFEX_ASSERT(op->execute_), UNIFEX_ASSERT(op->enqueued_.load() == 0)) */
#define EQ_REQ_SCHEDULE(op)   ((op) != NULL && (op)->execute_ != NULL && (op)->enqueued_ == 0)

/* enqueued_ goes 0 -> 1 exactly once per schedule (C14-2); the item keeps its continuation */
#define EQ_ENS_ENQUEUED(op, old_enq)  ((old_enq) == 0 && (op)->enqueued_ == 1)

/* the loop executes an item only after taking it out of the queue: enqueued_ 1 -> 0, next_ and execute_ cleared, and the
 * continuation that is called is the one the item carried (C14-2: executed once with execute_ cleared) */
#define EQ_AT_EXECUTE(item, fn, carried)  ((item)->enqueued_ == 0 && (item)->next_ == NULL && (item)->execute_ == NULL && (fn) == (carried) && (fn) != NULL)
#endif
