CPP = 'source/linux/io_epoll_context.cpp'
H = 'include/unifex/linux/io_epoll_context.hpp'
AQ = 'include/unifex/detail/atomic_intrusive_queue.hpp'
IQ = 'include/unifex/detail/intrusive_queue.hpp'
IQC = r'class intrusive_queue \{'
AQC = r'class atomic_intrusive_queue \{'
CTXC = r'class io_epoll_context \{'
OPBASE = r'struct operation_base \{'

TYPEMAP = [(r'\boperation_base\b', 'struct item'), (r'\bcompletion_base\b', 'struct item'), (r'\boperation_queue\b', 'struct iqueue'),
           (r'\bItem\b', 'struct item'), (r'(?<!struct )\bepoll_event\b', 'struct epoll_event')]

# logging macros expand to nothing in the build that is shipped (LOGGING_ENABLED is not defined)
LOGS = [(r'\bLOGX?\([^;]*\);', '')]

ctx = dict(
    cls='CTX',
    members=['localQueue_', 'remoteQueueReadSubmitted_', 'timersAreDirty_', 'remoteQueue_', 'remoteQueueEventFd_', 'epollFd_', 'timerFd_', 'currentDueTime_'],
    methods=['is_running_on_io_thread', 'schedule_remote', 'signal_remote_queue', 'execute_pending_local', 'update_timers',
             'try_schedule_local_remote_queue_contents', 'acquire_completion_queue_items', 'timer_user_data'],
    obj_methods={'push_back': 'IQ_push_back', 'append': 'IQ_append', 'empty': 'IQ_empty', 'pop_front': 'IQ_pop_front',
                 'enqueue': 'AQ_enqueue', 'try_mark_inactive_or_dequeue_all': 'AQ_try_mark_inactive_or_dequeue_all'},
    atomic=['enqueued_'],
    typemap=TYPEMAP,
    pre=LOGS + [
        # general rule missing from the table: ++x / --x on a std::atomic member
        (r'\+\+(\w+)(->|\.)enqueued_;', r'\1\2enqueued_.fetch_add(1);'),
        (r'--(\w+)(->|\.)enqueued_;', r'\1\2enqueued_.fetch_sub(1);'),
        # overload set schedule_local(operation_base*) / schedule_local(operation_queue): one C name each
        (r'\bschedule_local\(std::move\((\w+)\)\)', r'CTX_schedule_local_q(this, \1)'),
        (r'\bschedule_local\((\w+)\)', r'CTX_schedule_local(this, \1)'),
        # syscalls
        (r'\bwrite\(remoteQueueEventFd_\.get\(\), &value, sizeof\(value\)\)', 'EV_eventfd_write(this, value, sizeof(value))'),
    ],
)
iq_ctx = dict(cls='IQ', members=['head_', 'tail_'], methods=['empty'], obj_methods={'empty': 'IQ_empty'}, ptrmem={'Next': 'next_'},
              typemap=TYPEMAP, atomic=[], pre=[(r'\bintrusive_queue other\b', 'struct iqueue other'), (r'\bother\.', 'other->')])
iq_val_ctx = dict(iq_ctx, pre=[(r'\bintrusive_queue other\b', 'struct iqueue other')])

# execute_pending_local: the local `pending` queue is shared by the loop segments (cut points): lifted to the static object PENDING;
# the log-only counter is dropped with the log statement that prints it
epl_ctx = dict(pre=LOGS + [
    (r'size_t count \[\[maybe_unused\]\] = 0;', ''), (r'\+\+count;', ''),
    (r'--(\w+)->enqueued_;', r'\1->enqueued_.fetch_sub(1);'),
    (r'auto pending = std::move\(localQueue_\);', 'PENDING = IQ_move(&localQueue_);'),
    (r'\bpending\.', 'PENDING.'),
    (r'\bexecute\(item\);', 'EV_execute(item, execute);'),
])
# run_impl: scope_guard g = [=]() noexcept { B }; ... }   ->   ... { B } }   (the guard runs when the function is left; exceptions dropped);
# the reference parameter shouldStop becomes a pointer
run_ctx = dict(pre=LOGS + [
    (r'(?s)scope_guard g = \[=\]\(\) noexcept \{(.*?)\};(.*)\}\s*$', r'\2 { \1 } }'),
    (r'\bshouldStop\b', '(*shouldStop)'),
])

# acquire_completion_queue_items: the locals shared by the loop segments (event array, completion queue) are lifted to statics of the
# same name (their declarations are dropped); epoll_wait / read / throw_ -> stubs
acq_ctx = dict(pre=LOGS + [
    (r'epoll_event completions\[io_epoll_max_event_count\];', ''),
    (r'operation_queue completionQueue;', 'completionQueue = IQ_default();'),
    (r'epoll_wait\(\s*epollFd_\.get\(\),\s*completions,\s*io_epoll_max_event_count,\s*([^;]*)\);', r'EV_epoll_wait(this, \1);'),
    (r'throw_\(std::system_error\{errorCode, std::system_category\(\), "epoll_wait"\}\);', '{ EV_throw(errorCode); return; }'),
    (r'\bread\(remoteQueueEventFd_\.get\(\), &buffer, sizeof\(buffer\)\)', 'EV_eventfd_read(this, &buffer, sizeof(buffer))'),
    (r'\bread\(timerFd_\.get\(\), &buffer, sizeof\(buffer\)\)', 'EV_timerfd_read(this, &buffer, sizeof(buffer))'),
    (r'currentDueTime_\.reset\(\);', 'EV_currentDueTime_reset(this);'),
])

SPEC = dict(
    properties=['C14'],
    ctx=ctx,
    extracts={
        'ob_enqueued_init': dict(file=H, kind='expr', within=OPBASE, sig=r': enqueued_\(([^)]*)\)'),
        'ob_next_init': dict(file=H, kind='expr', within=OPBASE, sig=r', next_\(([^)]*)\)'),
        'ob_execute_init': dict(file=H, kind='expr', within=OPBASE, sig=r', execute_\(([^)]*)\)'),
        'rqrs_init': dict(file=H, kind='expr', within=CTXC, sig=r'bool remoteQueueReadSubmitted_ = ([^;]*);'),
        'iq_head_init': dict(file=IQ, kind='expr', sig=r'Item\* head_ = ([^;]*);', within=IQC),
        'iq_tail_init': dict(file=IQ, kind='expr', sig=r'Item\* tail_ = ([^;]*);', within=IQC),
        'aq_ctor_default': dict(file=AQ, kind='expr', sig=r'atomic_intrusive_queue\(\) noexcept : head_\(([^)]*)\) \{\}'),
        # the single-owner queue operations used by the context (also verified on their own in group thread_pool); inlined here
        'iq_empty': dict(file=IQ, sig=r'bool empty\(\) const noexcept', within=IQC, ctx=iq_ctx),
        'iq_pop_front': dict(file=IQ, sig=r'Item\* pop_front\(\) noexcept', within=IQC, ctx=iq_ctx),
        'iq_push_back': dict(file=IQ, sig=r'void push_back\(Item\* item\) noexcept', within=IQC, ctx=iq_ctx),
        'iq_append': dict(file=IQ, sig=r'void append\(intrusive_queue other\) noexcept', within=IQC, ctx=iq_val_ctx),
        'iq_move_head': dict(file=IQ, kind='expr', within=IQC, ctx=iq_ctx, sig=r'intrusive_queue\(intrusive_queue&& other\) noexcept\s*: head_\((std::exchange\(other\.head_, nullptr\))\)'),
        'iq_move_tail': dict(file=IQ, kind='expr', within=IQC, ctx=iq_ctx, sig=r', tail_\((std::exchange\(other\.tail_, nullptr\))\) \{\}'),
        # the context
        'is_running_on_io_thread': dict(file=CPP, sig=r'bool io_epoll_context::is_running_on_io_thread\(\) const noexcept'),
        'schedule_impl': dict(file=CPP, sig=r'void io_epoll_context::schedule_impl\(operation_base\* op\)'),
        'schedule_local': dict(file=CPP, sig=r'void io_epoll_context::schedule_local\(operation_base\* op\) noexcept'),
        'schedule_local_q': dict(file=CPP, sig=r'void io_epoll_context::schedule_local\(operation_queue ops\) noexcept'),
        'schedule_remote': dict(file=CPP, sig=r'void io_epoll_context::schedule_remote\(operation_base\* op\) noexcept'),
        'signal_remote_queue': dict(file=CPP, sig=r'void io_epoll_context::signal_remote_queue\(\)'),
        'execute_pending_local': dict(file=CPP, sig=r'void io_epoll_context::execute_pending_local\(\) noexcept', ctx=epl_ctx, outline={0: 'VF_EPL_LOOP;'}),
        'try_schedule': dict(file=CPP, sig=r'bool io_epoll_context::try_schedule_local_remote_queue_contents\(\) noexcept'),
        'max_event_count': dict(file=CPP, kind='expr', sig=r'static constexpr std::uint32_t io_epoll_max_event_count = ([^;]*);'),
        'remote_queue_event_user_data': dict(file=CPP, kind='expr', sig=r'static constexpr void\* remote_queue_event_user_data = ([^;]*);'),
        'timer_user_data': dict(file=H, sig=r'void\* timer_user_data\(\) const', within=CTXC, ctx=dict(members=['timers_'])),
        'acquire': dict(file=CPP, sig=r'void io_epoll_context::acquire_completion_queue_items\(\)', ctx=acq_ctx, outline={0: 'VF_ACQ_LOOP;'}),
        'run_impl': dict(file=CPP, sig=r'void io_epoll_context::run_impl\(const bool& shouldStop\)', ctx=run_ctx, outline={0: 'VF_RUN_LOOP;'}),
    },
    closed_world=[
        dict(file=CPP, members=['remoteQueueReadSubmitted_', 'remoteQueue_', 'localQueue_', 'enqueued_'],
             allow=[]),
        dict(file=H, members=['remoteQueueReadSubmitted_', 'remoteQueue_', 'localQueue_'], within=CTXC,
             allow=[r'operation_queue localQueue_;', r'bool remoteQueueReadSubmitted_ = false;',
                    r'atomic_intrusive_queue<operation_base, &operation_base::next_> remoteQueue_;']),
    ],
    units=[
        dict(name='schedule_impl', harness='h_schedule_impl', enforce='CTX_schedule_impl', replace=['CTX_schedule_local', 'CTX_schedule_remote']),
        dict(name='schedule_local', harness='h_schedule_local', enforce='CTX_schedule_local'),
        dict(name='schedule_local_q', harness='h_schedule_local_q', enforce='CTX_schedule_local_q'),
        dict(name='schedule_remote', harness='h_schedule_remote', enforce='CTX_schedule_remote', replace=['CTX_signal_remote_queue']),
        dict(name='signal_remote_queue', harness='h_signal_remote_queue', enforce='CTX_signal_remote_queue'),
        dict(name='execute_pending_local', harness='h_execute_pending_local', enforce='CTX_execute_pending_local'),
        dict(name='execute_pending_local_body', harness='h_epl_loop0_body', enforce='epl__loop0_body'),
        dict(name='try_schedule', harness='h_try_schedule', enforce='CTX_try_schedule_local_remote_queue_contents',
             replace=['CTX_schedule_local_q']),
        dict(name='acquire', harness='h_acquire', enforce='CTX_acquire_completion_queue_items', replace=['CTX_schedule_local_q']),
        dict(name='acquire_body', harness='h_acq_loop0_body', enforce='acq__loop0_body'),
        dict(name='run_impl', harness='h_run_impl', enforce='CTX_run_impl'),
        dict(name='run_impl_body', harness='h_run_loop0_body', enforce='run__loop0_body',
             replace=['CTX_execute_pending_local', 'CTX_try_schedule_local_remote_queue_contents', 'CTX_acquire_completion_queue_items']),
        dict(name='lemma_epoll_init', harness='lemma_epoll_init', mode='lemma'),
        dict(name='lemma_epoll_enqueued', harness='lemma_epoll_enqueued', mode='lemma'),
        dict(name='lemma_epoll_wake', harness='lemma_epoll_wake', mode='lemma'),
    ],
    assumptions=[
        'the contracts of atomic_intrusive_queue (specs/atomic_queue/aq_contract.h, enforced on the real bodies in group atomic_queue, with its lemmas '
        '"one waker per idle period" and "no lost item") stand for remoteQueue_.enqueue / try_mark_inactive_or_dequeue_all here; the I/O thread '
        'inside run() is the single consumer',
        'an item is handed to the context by one party at a time (nobody else touches enqueued_/next_/execute_ of an item between the check '
        'enqueued_ == 0 and its publication); the code asserts the same',
        'write() on the eventfd succeeds (a failing write reaches std::terminate: the counter would have to overflow 2^64-2); the eventfd stays '
        'readable until the loop reads it; real epoll_wait / eventfd / timerfd behaviour is not modelled',
        'acquire_completion_queue_items: epoll_wait returns 0..256 events, each one of {remote-queue eventfd, timerfd, a registered completion item}; '
        'a reported completion item is not already queued (it was executed, and its registration removed or re-armed, before the next epoll_wait: '
        'execute_pending_local drains the whole local queue first) -- the code asserts the same; the eventfd is readable only after a producer wrote it, '
        'which by schedule_remote\'s contract happens only after that producer replaced the inactive sentinel, and the loop does not re-install the sentinel '
        'while remoteQueueReadSubmitted_ is set (lemma_epoll_wake): the stub of read(eventfd) therefore reports the queue word as not-inactive; '
        'read() on the eventfd / timerfd succeeds with 8 bytes',
        'update_timers is an event stub here (group epoll_timer)',
        'M2 meta-argument: the local queue window (empty / one node / head .. tail with opaque middle) enumerates every shape of a well-formed '
        'intrusive_queue; appending at the tail and popping at the head is FIFO; every queued item has enqueued_ == 1 and a continuation '
        '(established by schedule_local / schedule_remote, whose contracts say so for the item they add)',
        'execute_pending_local: "every item of the batch is executed" is a cut-point argument (the loop leaves only with the batch empty; each iteration '
        'pops one item and executes exactly that item once); termination of the loop is not claimed',
        'thread identity is the ghost G.on_io_thread <=> currentThreadContext == this (thread_local); exceptions out of run_impl are dropped',
        'atomics sequentially consistent',
    ],
    drops=['memory orders', 'noexcept / [[maybe_unused]]', 'LOG/LOGX statements and the log-only local `count`',
           'operation_base / completion_base -> struct item; operation_queue -> struct iqueue (one instantiation of intrusive_queue)',
           'local `pending` of execute_pending_local lifted to a static object shared by the loop segments; `auto pending = std::move(localQueue_)` -> move constructor written out from its two member initialisers',
           'execute(item) through the local function pointer -> event stub EV_execute (the continuation may destroy the item and schedule further items)',
           'scope_guard in run_impl -> its body placed at the function end; const bool& shouldStop -> pointer',
           '++x / --x on std::atomic<int> enqueued_ -> fetch_add(1) / fetch_sub(1) (spec-level regex: rule missing from the global table)',
           'write(eventfd) -> event stub; ~intrusive_queue assertions (moved-from locals are empty)',
           'acquire_completion_queue_items: locals `completions` (event array) and `completionQueue` lifted to statics of the same name shared by the loop segments; '
           'epoll_wait / read(eventfd) / read(timerfd) / currentDueTime_.reset() -> event stubs; throw_(std::system_error) -> stub + return (exception propagation out of run_impl dropped); '
           'the for-loop over the returned events is verified as one dispatch step for an arbitrary index (cut point), its index arithmetic (i < count <= 256) by the requires of that step'],
)
