H = 'include/unifex/detail/intrusive_heap.hpp'
EP_H = 'include/unifex/linux/io_epoll_context.hpp'
EP_CPP = 'source/linux/io_epoll_context.cpp'
UR_H = 'include/unifex/linux/io_uring_context.hpp'
UR_CPP = 'source/linux/io_uring_context.cpp'
CLS = r'class intrusive_heap \{'
# one instantiation per use site: io_epoll_context::timer_heap (io_uring_context::timer_heap is the same text)
#   intrusive_heap<schedule_at_operation, &schedule_at_operation::timerNext_, &schedule_at_operation::timerPrev_, time_point, &schedule_at_operation::dueTime_>
ctx = dict(
    cls='intrusive_heap',
    members=['head_'],
    methods=['empty'],
    ptrmem={'Next': 'timerNext_', 'Prev': 'timerPrev_', 'SortKey': 'dueTime_'},
    typemap=[(r'\bT\*', 'struct schedule_at_operation*')],
)
INSERT_SIG = r'void insert\(T\* item\) noexcept'
SPEC = dict(
    properties=['C07'],
    ctx=ctx,
    extracts={
        'head_init': dict(file=H, kind='expr', sig=r'intrusive_heap\(\) noexcept : head_\(([^()]*)\) \{\}'),
        # the instantiation is read from the header: a changed template argument list changes the verified text
        'inst_item': dict(file=EP_H, kind='expr', sig=r'using timer_heap = intrusive_heap<\s*(\w+),'),
        'inst_next': dict(file=EP_H, kind='expr', sig=r'using timer_heap = intrusive_heap<\s*\w+,\s*&\w+::(\w+),'),
        'inst_prev': dict(file=EP_H, kind='expr', sig=r'using timer_heap = intrusive_heap<\s*\w+,\s*&\w+::\w+,\s*&\w+::(\w+),'),
        'inst_key': dict(file=EP_H, kind='expr', sig=r'using timer_heap = intrusive_heap<\s*\w+,\s*&\w+::\w+,\s*&\w+::\w+,\s*\w+,\s*&\w+::(\w+)>'),
        'empty': dict(file=H, sig=r'bool empty\(\) const noexcept', within=CLS),
        'top': dict(file=H, sig=r'T\* top\(\) const noexcept', within=CLS),
        'pop': dict(file=H, sig=r'T\* pop\(\) noexcept', within=CLS),
        'insert': dict(file=H, sig=INSERT_SIG, within=CLS, outline={0: 'VF_LOOP0;'}, must_contain=[r'insertAfter']),
        'insert_full': dict(file=H, sig=INSERT_SIG, within=CLS),
        'remove': dict(file=H, sig=r'void remove\(T\* item\) noexcept', within=CLS),
    },
    closed_world=[
        # head_ is private to the class: constructor initialiser and the destructor (assertions only) are classified
        dict(file=H, members=['head_'], within=CLS,
             allow=[r'intrusive_heap\(\) noexcept : head_\([^()]*\) \{\}', r'(?s)~intrusive_heap\(\) \{.*?\n  \}', r'T\* head_;']),
        # the link fields of the items are touched by nobody but the heap: only their declarations and the
        # template argument lists mention them
        dict(file=EP_H, members=['timerNext_', 'timerPrev_'],
             allow=[r'schedule_at_operation\* timerNext_;', r'schedule_at_operation\* timerPrev_;', r'&schedule_at_operation::timerNext_,', r'&schedule_at_operation::timerPrev_,']),
        dict(file=EP_CPP, members=['timerNext_', 'timerPrev_']),
        dict(file=UR_H, members=['timerNext_', 'timerPrev_'],
             allow=[r'schedule_at_operation\* timerNext_;', r'schedule_at_operation\* timerPrev_;', r'&schedule_at_operation::timerNext_,', r'&schedule_at_operation::timerPrev_,']),
        dict(file=UR_CPP, members=['timerNext_', 'timerPrev_']),
    ],
    units=[
        dict(name='empty', harness='h_empty', enforce='intrusive_heap_empty'),
        dict(name='top', harness='h_top', enforce='intrusive_heap_top', replace=['intrusive_heap_empty']),
        dict(name='pop', harness='h_pop', enforce='intrusive_heap_pop', replace=['intrusive_heap_empty']),
        dict(name='insert', harness='h_insert', enforce='intrusive_heap_insert'),
        dict(name='insert_walk_step', harness='h_insert_loop0_body', enforce='insert__loop0_body'),
        dict(name='remove', harness='h_remove', enforce='intrusive_heap_remove'),
        dict(name='lemma_heap', harness='lemma_heap', mode='lemma'),
        dict(name='insert_bounded', harness='h_insert_bounded', mode='bounded', solver='cadical', unwind=9, defines=['VF_BOUNDED'], timeout=300),
        dict(name='remove_pop_bounded', harness='h_remove_pop_bounded', mode='bounded', unwind=9, defines=['VF_BOUNDED'], timeout=300),
        dict(name='head_min_bounded', harness='h_head_min_bounded', mode='bounded', unwind=9, defines=['VF_BOUNDED'], timeout=300),
    ],
    assumptions=[
        'time_point keys are represented by an int64 scalar: the heap uses only `<` and `<=` of the key; group monotonic_clock proves that time_point\'s operators are a strict total order with '
        'a <= b iff !(b < a) on all pairs (lemma_order) and the order of the values on canonical pairs (lemma_order_value, |s| < 2^32) -- the int64 order is a model of exactly those facts',
        'M2 meta-argument: head_window_build() / member_window_build() / the cut-point stub enumerate every shape the local list invariant (head has no predecessor; m = n->next implies m->prev == n and '
        'n.due <= m.due) allows around the operand, far ends opaque; the successor of a list member is a member; a sorted sequence with x spliced between adjacent a <= x < b is sorted with x behind every '
        'equal key; removing an element of a sorted sequence leaves it sorted -- facts about sequences, cross-checked by the bounded units (lists of at most 6 items), not re-proved unboundedly',
        'caller obligations (checked as /*P*/ preconditions at the contracts, discharged at the call sites in group io_epoll): top() / pop() on a non-empty heap, remove() of an item that is linked into '
        'this heap, insert() of an item that is not linked; the heap is confined to the I/O thread (no interference)',
        'head-is-a-minimum (never-early / due-time order of update_timers via top() + pop()) follows from local sortedness by induction along the list: proved for lists of at most 6 items (bounded), '
        'unbounded only as the adjacent-pair statement in pop()\'s contract (popped.due <= new head.due)',
        'the destructor (walk with assertions only, UNIFEX_ASSERT(empty())) is classified, not verified; io_uring_context::timer_heap is the same instantiation text and is covered by the same units '
        '(closed-world scan of its link fields included)',
    ],
    drops=['template parameters -> the io_epoll_context::timer_heap instantiation (T = schedule_at_operation, ->*Next / ->*Prev / ->*SortKey -> timerNext_ / timerPrev_ / dueTime_); the argument list is re-read from '
           'io_epoll_context.hpp on every run (lemma_heap)', 'Key = monotonic_clock::time_point -> int64', 'noexcept / const', 'schedule_at_operation reduced to its three heap fields (+ a ghost id in the bounded units)'],
)
