/* C07 (timer container half): unifex::intrusive_heap, include/unifex/detail/intrusive_heap.hpp -- despite the name a
 * doubly linked list kept in ascending order of the sort key -- instantiated as io_epoll_context::timer_heap
 * (T = schedule_at_operation, Next = timerNext_, Prev = timerPrev_, SortKey = dueTime_, Key = monotonic_clock::time_point).
 *
 * time_point is represented by an int64 scalar: the heap uses only `<` and `<=` of the key, and group monotonic_clock
 * proves those are a strict total order with a <= b iff !(b < a) (lemma_order) -- the facts used here.
 *
 * M2 (unbounded heap): every operation touches a bounded neighbourhood; the window objects are
 *   H   the heap                      IT  the operand item
 *   W0  the head, W1 its successor    C   some member the insertion walk has reached, N its successor
 *   P / S  predecessor / successor of the operand in remove
 * far ends are the opaque non-dereferenceable address OPAQUE.  Local shape invariant of a well-formed list:
 *   head_->prev == NULL;  if n->next == m then m->prev == n and n->due <= m->due.
 * The insertion walk is verified at its cut point (loop head); insert additionally has an M3 bounded global cross-check.
 * Bodies marked @BODY / @EXPR / @LOOPCOND / @LOOPBODY are extracted from /repo on every run. */
#include <stddef.h>
#include <stdint.h>
struct schedule_at_operation { struct schedule_at_operation* timerNext_; struct schedule_at_operation* timerPrev_; int64_t dueTime_; int id; };
struct intrusive_heap { struct schedule_at_operation* head_; };
typedef struct schedule_at_operation item_t;
struct vf_ghost {
  item_t* cur;        /* the member after which the insertion walk stopped */
  item_t* cur_next0;  /* its successor before the splice */
};
static struct vf_ghost G;
#include "vf.h"
static void vf_interfere(void) {}   /* the heap is confined to the I/O thread: no interference */

static struct intrusive_heap H;
static item_t IT, W0, W1, C, N, P, S;
static char vf_opaque_obj;
#define OPAQUE ((item_t*)&vf_opaque_obj)

/* no link of the window points at the operand (it is not in the list) */
#define NOT_LINKED_IT (H.head_ != &IT && W0.timerNext_ != &IT && W1.timerNext_ != &IT && C.timerNext_ != &IT && N.timerNext_ != &IT \
                       && W0.timerPrev_ != &IT && W1.timerPrev_ != &IT && C.timerPrev_ != &IT && N.timerPrev_ != &IT)

/* ================= empty / top / pop ================= */
_Bool intrusive_heap_empty(const struct intrusive_heap* self)
__CPROVER_requires(self == &H)
__CPROVER_assigns()
__CPROVER_ensures(__CPROVER_return_value == (H.head_ == NULL))
/*@BODY empty*/

/* head window: non-empty list whose head W0 has no predecessor and whose successor, if any, is W1 pointing back, not earlier */
#define HEAD_WINDOW (H.head_ == &W0 && W0.timerPrev_ == NULL && (W0.timerNext_ == NULL || (W0.timerNext_ == &W1 && W1.timerPrev_ == &W0 && W0.dueTime_ <= W1.dueTime_)))

item_t* intrusive_heap_top(const struct intrusive_heap* self)
__CPROVER_requires(H.head_ != NULL) /*P*/ /* top() is only asked of a non-empty heap */
__CPROVER_requires(self == &H && HEAD_WINDOW)
__CPROVER_assigns()
__CPROVER_ensures(__CPROVER_return_value == &W0) /* the head: by sortedness an item with the earliest due time */
/*@BODY top*/

item_t* intrusive_heap_pop(struct intrusive_heap* self)
__CPROVER_requires(H.head_ != NULL) /*P*/ /* pop() is only asked of a non-empty heap */
__CPROVER_requires(self == &H && HEAD_WINDOW)
__CPROVER_assigns(H.head_, W0.timerNext_, W0.timerPrev_, W1.timerNext_, W1.timerPrev_)
__CPROVER_ensures(__CPROVER_return_value == &W0) /* the head is removed: an item with the earliest due time, the oldest among equals */
__CPROVER_ensures(H.head_ == __CPROVER_old(W0.timerNext_)) /* its successor is the new head */
__CPROVER_ensures(H.head_ != NULL ==> (H.head_ == &W1 && W1.timerPrev_ == NULL && W1.timerNext_ == __CPROVER_old(W1.timerNext_))) /* whose back link is cleared (shape invariant); the rest of the list is untouched */
__CPROVER_ensures(H.head_ != &W0 && W1.timerPrev_ != &W0) /* the heap keeps no reference to the popped item */
__CPROVER_ensures(W0.timerNext_ == __CPROVER_old(W0.timerNext_) && W0.timerPrev_ == NULL) /* the popped item's own links are left as they were */
__CPROVER_ensures(H.head_ != NULL ==> W0.dueTime_ <= W1.dueTime_) /* successive pops come out in non-decreasing due-time order */
/*@BODY pop*/

/* ================= insert ================= */
#define INS_REQ(self, item) ((self) == &H && (item) == &IT && (H.head_ == NULL || (H.head_ == &W0 && W0.timerPrev_ == NULL)))
#define INS_EMPTY (H.head_ == &IT && IT.timerNext_ == NULL && IT.timerPrev_ == NULL)
/* new head: strictly earlier than the old head (an equal due time goes behind it: FIFO among ties) */
#define INS_HEAD (H.head_ == &IT && IT.timerPrev_ == NULL && IT.timerNext_ == &W0 && W0.timerPrev_ == &IT && IT.dueTime_ < W0.dueTime_)
/* spliced after member cur: cur.due <= item.due < next.due, links consistent in both directions, head untouched */
#define INS_AFTER (H.head_ == &W0 && W0.timerPrev_ == NULL && G.cur != NULL && G.cur->timerNext_ == &IT && IT.timerPrev_ == G.cur && G.cur->dueTime_ <= IT.dueTime_ \
                   && IT.timerNext_ == G.cur_next0 && (IT.timerNext_ == NULL || (IT.timerNext_->timerPrev_ == &IT && IT.dueTime_ < IT.timerNext_->dueTime_)))

/* cut point of the insertion walk: `insertAfter` is a member whose due time is not later than the item's */
static void insert__loop0(struct intrusive_heap* self, item_t* item, item_t** insertAfter_p) {
  VF_P(*insertAfter_p == &W0 && H.head_ == &W0 && W0.dueTime_ <= IT.dueTime_, "cut point (insertion walk head): the walk starts at the head, whose due time is not later than the new item's");
  /* an arbitrary number of steps later: insertAfter is the head itself or some later member C (C.due <= item.due by the invariant) */
  if (VF_nondet_bool()) { G.cur = &W0; }
  else { G.cur = &C; C.dueTime_ = VF_nondet_i64(); C.timerPrev_ = OPAQUE; __CPROVER_assume(W0.dueTime_ <= C.dueTime_ && C.dueTime_ <= IT.dueTime_); }
  G.cur->timerNext_ = VF_nondet_bool() ? &N : NULL;
  N.timerPrev_ = G.cur; N.timerNext_ = VF_nondet_bool() ? OPAQUE : NULL; N.dueTime_ = VF_nondet_i64();
  __CPROVER_assume(G.cur->dueTime_ <= N.dueTime_);   /* the list is sorted */
  *insertAfter_p = G.cur;
  G.cur_next0 = G.cur->timerNext_;
  item_t* insertAfter = *insertAfter_p;
  __CPROVER_assume(!(/*@LOOPCOND insert.loop0.cond*/));   /* the walk has stopped */
}
#define VF_LOOP0 insert__loop0(self, item, &insertAfter)

/* loop body segment: {invariant and loop condition} body {invariant}; the loop condition is the extracted text */
#define insertAfter (*insertAfter_p)
int insert__loop0_body(struct intrusive_heap* self, item_t* item, item_t** insertAfter_p)
__CPROVER_requires(self == &H && item == &IT && *insertAfter_p == &C && (C.timerNext_ == NULL || (C.timerNext_ == &N && N.timerPrev_ == &C)) && C.dueTime_ <= IT.dueTime_)
__CPROVER_requires(/*@LOOPCOND insert.loop0.cond*/)
__CPROVER_assigns(*insertAfter_p)
__CPROVER_ensures(__CPROVER_return_value == VF_X_CONTINUE)
__CPROVER_ensures(*insertAfter_p == &N && N.dueTime_ <= IT.dueTime_) /* one step: move to the successor, which is again a member not later than the item */
/*@LOOPBODY insert.loop0.body*/
#undef insertAfter

void intrusive_heap_insert(struct intrusive_heap* self, item_t* item)
__CPROVER_requires(NOT_LINKED_IT) /*P*/ /* an item is never linked into the heap twice */
__CPROVER_requires(INS_REQ(self, item))
__CPROVER_assigns(H.head_, IT.timerNext_, IT.timerPrev_, W0.timerNext_, W0.timerPrev_, C, N, G.cur, G.cur_next0)
__CPROVER_ensures(__CPROVER_old(H.head_) == NULL ==> INS_EMPTY) /* empty heap: the item is the whole list */
__CPROVER_ensures((__CPROVER_old(H.head_) != NULL && IT.dueTime_ < W0.dueTime_) ==> INS_HEAD) /* earlier than everything queued: new head */
__CPROVER_ensures((__CPROVER_old(H.head_) != NULL && !(IT.dueTime_ < W0.dueTime_)) ==> INS_AFTER) /* otherwise linked exactly once, in due-time order, behind every item with an equal or earlier due time */
__CPROVER_ensures(IT.dueTime_ == __CPROVER_old(IT.dueTime_) && W0.dueTime_ == __CPROVER_old(W0.dueTime_)) /* keys are not modified */
/*@BODY insert*/

/* ================= remove ================= */
#define IT_AT_HEAD (H.head_ == &IT && IT.timerPrev_ == NULL)
#define IT_AFTER_P (P.timerNext_ == &IT && IT.timerPrev_ == &P && H.head_ != &IT && H.head_ != NULL)
#define IT_SUCC_OK (IT.timerNext_ == NULL || (IT.timerNext_ == &S && S.timerPrev_ == &IT))
void intrusive_heap_remove(struct intrusive_heap* self, item_t* item)
__CPROVER_requires((IT_AT_HEAD || IT_AFTER_P) && IT_SUCC_OK) /*P*/ /* remove() is given an item that is linked into this heap */
__CPROVER_requires(self == &H && item == &IT)
__CPROVER_assigns(H.head_, IT.timerNext_, IT.timerPrev_, P.timerNext_, P.timerPrev_, S.timerNext_, S.timerPrev_)
__CPROVER_ensures(__CPROVER_old(IT.timerPrev_) == NULL ? H.head_ == __CPROVER_old(IT.timerNext_) : (H.head_ == __CPROVER_old(H.head_) && P.timerNext_ == __CPROVER_old(IT.timerNext_))) /* the link that pointed at the item (head_ or the predecessor's next) now points at its successor */
__CPROVER_ensures(__CPROVER_old(IT.timerNext_) != NULL ==> S.timerPrev_ == __CPROVER_old(IT.timerPrev_)) /* the successor points back at the predecessor (NULL for a new head) */
__CPROVER_ensures(H.head_ != &IT && P.timerNext_ != &IT && S.timerPrev_ != &IT) /* the heap keeps no reference to the removed item */
__CPROVER_ensures(P.timerPrev_ == __CPROVER_old(P.timerPrev_) && S.timerNext_ == __CPROVER_old(S.timerNext_)) /* the rest of the list is untouched */
__CPROVER_ensures(IT.timerNext_ == __CPROVER_old(IT.timerNext_) && IT.timerPrev_ == __CPROVER_old(IT.timerPrev_)) /* the removed item's own links are left as they were */
/*@BODY remove*/

/* ================= harnesses ================= */
static void h_init(void) {
  G.cur = NULL; G.cur_next0 = NULL;
  H.head_ = /*@EXPR head_init*/;
  item_t f;   /* a freshly constructed operation: schedule_at_operation declares its links without initialisers */
  IT.timerNext_ = f.timerNext_; IT.timerPrev_ = f.timerPrev_; IT.dueTime_ = VF_nondet_i64();
  W0.timerNext_ = NULL; W0.timerPrev_ = NULL; W1.timerNext_ = NULL; W1.timerPrev_ = NULL; C.timerNext_ = NULL; C.timerPrev_ = NULL; N.timerNext_ = NULL; N.timerPrev_ = NULL;
  P.timerNext_ = NULL; P.timerPrev_ = NULL; S.timerNext_ = NULL; S.timerPrev_ = NULL;
  W0.dueTime_ = VF_nondet_i64(); W1.dueTime_ = VF_nondet_i64(); C.dueTime_ = VF_nondet_i64(); N.dueTime_ = VF_nondet_i64(); P.dueTime_ = VF_nondet_i64(); S.dueTime_ = VF_nondet_i64();
}
/* every shape of a well-formed list seen from its head: empty | [W0] | [W0, W1, ...] */
static void head_window_build(void) {
  if (VF_nondet_bool()) { H.head_ = NULL; return; }
  H.head_ = &W0; W0.timerPrev_ = NULL;
  if (VF_nondet_bool()) { W0.timerNext_ = NULL; }
  else { W0.timerNext_ = &W1; W1.timerPrev_ = &W0; W1.timerNext_ = VF_nondet_bool() ? OPAQUE : NULL; __CPROVER_assume(W0.dueTime_ <= W1.dueTime_); }
}
/* every shape of a well-formed list around a member IT: at the head or behind P (itself the head or deeper); with or without successor S */
static void member_window_build(void) {
  if (VF_nondet_bool()) { IT.timerNext_ = &S; S.timerPrev_ = &IT; S.timerNext_ = VF_nondet_bool() ? OPAQUE : NULL; } else { IT.timerNext_ = NULL; }
  if (VF_nondet_bool()) { H.head_ = &IT; IT.timerPrev_ = NULL; }
  else { P.timerNext_ = &IT; IT.timerPrev_ = &P; if (VF_nondet_bool()) { H.head_ = &P; P.timerPrev_ = NULL; } else { H.head_ = OPAQUE; P.timerPrev_ = OPAQUE; } }
  __CPROVER_assume(P.dueTime_ <= IT.dueTime_ && IT.dueTime_ <= S.dueTime_);
}
void h_empty(void) { h_init(); head_window_build(); _Bool r = intrusive_heap_empty(&H); if (r) { VF_CANARY("empty can be true"); } else { VF_CANARY("empty can be false"); } }
void h_top(void) { h_init(); head_window_build(); item_t* r = intrusive_heap_top(&H); VF_CANARY("after top"); }
void h_pop(void) { h_init(); head_window_build(); item_t* r = intrusive_heap_pop(&H); VF_CANARY("after pop"); if (H.head_ == NULL) { VF_CANARY("pop can empty the heap"); } else { VF_CANARY("pop can leave a successor"); } }
void h_insert(void) { h_init(); head_window_build(); if (H.head_ == &W0 && W0.timerNext_ == &W1) { W0.timerNext_ = VF_nondet_bool() ? &W1 : OPAQUE; }
  intrusive_heap_insert(&H, &IT); VF_CANARY("after insert");
  if (H.head_ == &IT && IT.timerNext_ == NULL) { VF_CANARY("insert into an empty heap"); } else if (H.head_ == &IT) { VF_CANARY("insert at the head"); } else { VF_CANARY("insert after a member"); if (G.cur == &C) { VF_CANARY("insert after a member beyond the head"); } if (IT.timerNext_ != NULL) { VF_CANARY("insert between two members"); } } }
void h_insert_loop0_body(void) { h_init(); item_t* cur = &C; C.timerPrev_ = OPAQUE;
  if (VF_nondet_bool()) { C.timerNext_ = &N; N.timerPrev_ = &C; N.timerNext_ = VF_nondet_bool() ? OPAQUE : NULL; __CPROVER_assume(C.dueTime_ <= N.dueTime_); } else { C.timerNext_ = NULL; }
  insert__loop0_body(&H, &IT, &cur); VF_CANARY("after walk step"); }
void h_remove(void) { h_init(); member_window_build(); _Bool at_head = (H.head_ == &IT); _Bool has_succ = (IT.timerNext_ != NULL);
  intrusive_heap_remove(&H, &IT); VF_CANARY("after remove");
  /* local shape and order of the pair that has become adjacent */
  VF_P((!at_head && has_succ) ==> (P.timerNext_ == &S && S.timerPrev_ == &P && P.dueTime_ <= S.dueTime_), "after remove the predecessor and the successor are adjacent, linked both ways and in order");
  VF_P((at_head && has_succ) ==> (H.head_ == &S && S.timerPrev_ == NULL), "after removing the head its successor is the head and has no predecessor");
  if (at_head) { VF_CANARY("remove the head"); } else { VF_CANARY("remove an inner item"); } if (!has_succ) { VF_CANARY("remove the last item"); } }

/* ================= M4 lemma ================= */
#define F_ITEM /*@EXPR inst_item*/
#define F_NEXT /*@EXPR inst_next*/
#define F_PREV /*@EXPR inst_prev*/
#define F_KEY /*@EXPR inst_key*/
void lemma_heap(void) {
  h_init();
  VF_CANARY("lemma reachable");
  VF_P(H.head_ == NULL, "lemma: a fresh heap is empty (and trivially well formed)");
  /* the verified instantiation is the one io_epoll_context declares */
  VF_P(sizeof(struct F_ITEM) == sizeof(item_t) && offsetof(struct F_ITEM, F_NEXT) == offsetof(item_t, timerNext_) && offsetof(struct F_ITEM, F_PREV) == offsetof(item_t, timerPrev_) && offsetof(struct F_ITEM, F_KEY) == offsetof(item_t, dueTime_),
       "lemma: io_epoll_context::timer_heap = intrusive_heap<schedule_at_operation, timerNext_, timerPrev_, time_point, dueTime_>");
  /* the order facts the local invariants rely on (int64 stand-in; for time_point: monotonic_clock/lemma_order) */
  int64_t a = VF_nondet_i64(), b = VF_nondet_i64(), c = VF_nondet_i64();
  VF_P((a <= b && b <= c) ==> a <= c, "lemma: removing b from between a <= b <= c leaves a <= c (the list stays sorted)");
  VF_P((a <= b && b < c) ==> a < c && ((a <= b) == !(b < a)), "lemma: a <= x < b around the inserted item keeps the list sorted with x behind every equal key");
}

#ifdef VF_BOUNDED
/* ================= M3 bounded global cross-checks (lists of at most NB items; labelled bounded) ================= */
void intrusive_heap_insert_full(struct intrusive_heap* self, item_t* item)
/*@BODY insert_full*/

#define NB 6
static item_t Q[NB];
/* a well-formed sorted list Q[0..n-1] */
static unsigned list_build(void) {
  unsigned n = VF_nondet_u32(); __CPROVER_assume(n <= NB);
  H.head_ = n ? &Q[0] : NULL;
  for (unsigned i = 0; i < NB; i++) {
    if (i < n) { Q[i].id = (int)i; Q[i].dueTime_ = VF_nondet_i64(); Q[i].timerNext_ = (i + 1 < n) ? &Q[i + 1] : NULL; Q[i].timerPrev_ = i ? &Q[i - 1] : NULL; if (i) __CPROVER_assume(Q[i - 1].dueTime_ <= Q[i].dueTime_); }
  }
  return n;
}
void h_insert_bounded(void) {
  h_init();
  unsigned n = list_build();
  intrusive_heap_insert_full(&H, &IT);
  /* global postcondition, stated position-wise: the item sits at position pos of the new list (pos = number of old items in
   * front of it); every old item keeps its place relative to the others (permutation: old list + the item exactly once); every
   * forward and backward link is the one that sequence demands; the keys around the item are  <= item < : sorted, and the item
   * is behind every old item with an equal due time (FIFO among ties) */
  unsigned pos = NB + 1;
  if (H.head_ == &IT) pos = 0;
  for (unsigned i = 0; i < NB; i++) { if (i < n && Q[i].timerNext_ == &IT) pos = i + 1; }
  _Bool ok = pos <= n;
  ok = ok && H.head_ == (pos == 0 ? &IT : &Q[0]);
  for (unsigned i = 0; i < NB; i++) {
    if (i < n) {
      item_t* en = (i + 1 == pos) ? &IT : ((i + 1 < n) ? &Q[i + 1] : NULL);
      item_t* ep = (i == pos) ? &IT : (i ? &Q[i - 1] : NULL);
      ok = ok && Q[i].timerNext_ == en && Q[i].timerPrev_ == ep;
      ok = ok && (i < pos ? Q[i].dueTime_ <= IT.dueTime_ : IT.dueTime_ < Q[i].dueTime_);
    }
  }
  ok = ok && IT.timerNext_ == ((pos < n) ? &Q[pos < NB ? pos : 0] : NULL) && IT.timerPrev_ == (pos ? &Q[pos - 1 < NB ? pos - 1 : 0] : NULL);
  VF_P(ok, "bounded global check: after insert the list is the old list plus the item exactly once, sorted, the item behind all equal due times, every back link consistent");
  VF_CANARY("after bounded insert");
  if (n == NB) { VF_CANARY("longest list reachable"); }
}
void h_remove_pop_bounded(void) {
  h_init();
  unsigned n = list_build();
  __CPROVER_assume(n >= 1);
  unsigned r = VF_nondet_u32(); __CPROVER_assume(r < n);
  _Bool do_pop = VF_nondet_bool();
  if (do_pop) { r = 0; item_t* p = intrusive_heap_pop(&H); VF_P(p == &Q[0], "bounded: pop returns the first item of the list"); }
  else { intrusive_heap_remove(&H, &Q[r]); }
  /* the list is the old list without Q[r], order and back links intact */
  item_t* it = H.head_; item_t* prev = NULL; unsigned k = 0, idx = 0; _Bool ok = 1;
  while (it != NULL && k <= NB) {
    if (idx == r) idx++;
    ok = ok && (it->timerPrev_ == prev) && idx < n && it == &Q[idx] && (prev == NULL || prev->dueTime_ <= it->dueTime_);
    idx++; prev = it; it = it->timerNext_; k++;
  }
  if (idx == r) idx++;
  VF_P(ok && it == NULL && k == n - 1 && idx == n, "bounded global check: after remove / pop the list is the old list without that item, still sorted, every back link consistent");
  VF_CANARY("after bounded remove / pop");
  if (!do_pop && r > 0 && r + 1 < n) { VF_CANARY("inner item removed"); }
}
/* head is a minimum: consequence of the local order invariant along the list */
void h_head_min_bounded(void) {
  h_init();
  unsigned n = list_build();
  __CPROVER_assume(n >= 1);
  unsigned j = VF_nondet_u32(); __CPROVER_assume(j < n);
  VF_P(H.head_->dueTime_ <= Q[j].dueTime_, "bounded lemma: in a locally sorted list the head has the earliest due time (top() / pop() return a minimum)");
  VF_P(j == 0 || Q[j - 1].dueTime_ <= Q[j].dueTime_, "bounded lemma: ... and items follow in non-decreasing due-time order");
  VF_CANARY("head-min lemma reachable");
}
#endif
