H = 'include/unifex/linux/monotonic_clock.hpp'
CPP = 'source/linux/monotonic_clock.cpp'
TP = r'class time_point \{'
# C++14 digit separators (1'000'000'000) are not C: general rule missing from the rewrite table
DIGITS = [(r"(?<=\d)'(?=\d)", '')]
# std::chrono::duration_cast written out as the integer expressions [time.duration.cast] prescribes for
# duration<int64, ratio<1,10^7>> -> seconds / nanoseconds (trusted, see assumptions); a duration is its tick count
CHRONO = [(r'std::chrono::duration_cast<std::chrono::seconds>\(d\)', 'VF_DURATION_CAST_SECONDS(d)'),
          (r'std::chrono::duration_cast<std::chrono::nanoseconds>\(d - wholeSeconds\)', 'VF_DURATION_CAST_NANOSECONDS(VF_DURATION_MINUS_SECONDS(d, wholeSeconds))'),
          (r'\b(\w+)\.count\(\)', r'(\1)'),
          (r'return \*this;', 'return this;')]
LOCAL = [(r'\btime_point tp = a;', 'struct time_point tp = a;')]
ctx = dict(
    cls='time_point',
    members=['seconds_', 'nanoseconds_'],
    methods=['normalize'],
    obj_methods={'normalize': 'time_point_normalize'},
    raii={'time_point': ('TP_CTOR', 'TP_DTOR')},
    pre=DIGITS + CHRONO + LOCAL + [
        (r'std::numeric_limits<std::int64_t>::max\(\)', 'INT64_MAX'),
        (r'std::numeric_limits<std::int64_t>::min\(\)', 'INT64_MIN'),
        (r'return duration\(', 'return VF_DURATION('),
        (r'\btp \+= d;', 'time_point_plus_eq(&tp, d);'),
        (r'\btp -= d;', 'time_point_minus_eq(&tp, d);'),
    ],
)
# the derived comparison operators are written in terms of == and < on time_points
cmp_ctx = dict(pre=[(r'\b([ab]) == ([ab])\b', r'time_point_eq(\1, \2)'), (r'\b([ab]) < ([ab])\b', r'time_point_lt(\1, \2)')])
now_ctx = dict(members=[], raii={},
               pre=[(r'\btimespec ts;', 'struct vf_timespec ts;'),
                    (r'\bclock_gettime\(', 'EV_clock_gettime('),
                    (r'time_point::from_seconds_and_nanoseconds\(', 'time_point_from_seconds_and_nanoseconds(')])
FRIEND_D = r'\(\s*const time_point& a, std::chrono::duration<Rep, Ratio> d\) noexcept'
FRIEND_AB = r'\(const time_point& a, const time_point& b\) noexcept'
SPEC = dict(
    properties=['C07'],
    ctx=ctx,
    extracts={
        'ctor_seconds': dict(file=H, kind='expr', sig=r'constexpr time_point\(\) noexcept : seconds_\(([^()]*)\), nanoseconds_\([^()]*\) \{\}'),
        'ctor_nanoseconds': dict(file=H, kind='expr', sig=r'constexpr time_point\(\) noexcept : seconds_\([^()]*\), nanoseconds_\(([^()]*)\) \{\}'),
        'nanoseconds_per_second': dict(file=H, kind='expr', sig=r'constexpr std::int64_t nanoseconds_per_second = ([^;]*);'),
        'max': dict(file=H, sig=r'static constexpr time_point max\(\) noexcept', within=TP),
        'min': dict(file=H, sig=r'static constexpr time_point min\(\) noexcept', within=TP),
        'seconds_part': dict(file=H, sig=r'constexpr std::int64_t seconds_part\(\) const noexcept', within=TP),
        'nanoseconds_part': dict(file=H, sig=r'constexpr long long nanoseconds_part\(\) const noexcept', within=TP),
        'normalize': dict(file=H, sig=r'inline void monotonic_clock::time_point::normalize\(\) noexcept'),
        'from_seconds_and_nanoseconds': dict(file=H, sig=r'monotonic_clock::time_point::from_seconds_and_nanoseconds\(\s*std::int64_t seconds, long long nanoseconds\) noexcept'),
        'plus_eq': dict(file=H, sig=r'monotonic_clock::time_point::operator\+=\(\s*const std::chrono::duration<Rep, Ratio>& d\) noexcept'),
        'minus_eq': dict(file=H, sig=r'monotonic_clock::time_point::operator-=\(\s*const std::chrono::duration<Rep, Ratio>& d\) noexcept'),
        'plus_d': dict(file=H, sig=r'friend time_point operator\+' + FRIEND_D, within=TP),
        'minus_d': dict(file=H, sig=r'friend time_point operator-' + FRIEND_D, within=TP),
        'minus': dict(file=H, sig=r'operator-' + FRIEND_AB, within=TP),
        'eq': dict(file=H, sig=r'friend bool operator==' + FRIEND_AB, within=TP),
        'ne': dict(file=H, sig=r'friend bool operator!=' + FRIEND_AB, within=TP, ctx=cmp_ctx),
        'lt': dict(file=H, sig=r'friend bool operator<' + FRIEND_AB, within=TP),
        'gt': dict(file=H, sig=r'friend bool operator>' + FRIEND_AB, within=TP, ctx=cmp_ctx),
        'le': dict(file=H, sig=r'friend bool operator<=' + FRIEND_AB, within=TP, ctx=cmp_ctx),
        'ge': dict(file=H, sig=r'friend bool operator>=' + FRIEND_AB, within=TP, ctx=cmp_ctx),
        'now': dict(file=CPP, sig=r'monotonic_clock::time_point monotonic_clock::now\(\) noexcept', ctx=now_ctx),
    },
    # the representation (seconds_, nanoseconds_) is private: every function that reads or writes it is under contract,
    # so "every time_point is canonical" is a class invariant (constructors / mutators establish CANON)
    closed_world=[dict(file=H, members=['seconds_', 'nanoseconds_'],
                       allow=[r'constexpr time_point\(\) noexcept : seconds_\([^()]*\), nanoseconds_\([^()]*\) \{\}',
                              r'std::int64_t seconds_;', r'long long nanoseconds_;'])],
    units=[
        dict(name='normalize', harness='h_normalize', enforce='time_point_normalize'),
        dict(name='from_seconds_and_nanoseconds', harness='h_from_seconds_and_nanoseconds', enforce='time_point_from_seconds_and_nanoseconds', replace=['time_point_normalize']),
        dict(name='now', harness='h_now', enforce='monotonic_clock_now', replace=['time_point_from_seconds_and_nanoseconds']),
        dict(name='max', harness='h_max', enforce='time_point_max'),
        dict(name='min', harness='h_min', enforce='time_point_min'),
        dict(name='seconds_part', harness='h_seconds_part', enforce='time_point_seconds_part'),
        dict(name='nanoseconds_part', harness='h_nanoseconds_part', enforce='time_point_nanoseconds_part'),
        dict(name='plus_eq', harness='h_plus_eq', enforce='time_point_plus_eq', replace=['time_point_normalize'], solver='cadical', timeout=300),
        dict(name='minus_eq', harness='h_minus_eq', enforce='time_point_minus_eq', replace=['time_point_normalize'], solver='cadical', timeout=300),
        dict(name='plus_d', harness='h_plus_d', enforce='time_point_plus_d', replace=['time_point_plus_eq']),
        dict(name='minus_d', harness='h_minus_d', enforce='time_point_minus_d', replace=['time_point_minus_eq']),
        dict(name='minus', harness='h_minus', enforce='time_point_minus', solver='cadical', timeout=300),
        dict(name='eq', harness='h_eq', enforce='time_point_eq'),
        dict(name='lt', harness='h_lt', enforce='time_point_lt'),
        dict(name='ne', harness='h_ne', enforce='time_point_ne', replace=['time_point_eq']),
        dict(name='gt', harness='h_gt', enforce='time_point_gt', replace=['time_point_lt']),
        dict(name='le', harness='h_le', enforce='time_point_le', replace=['time_point_lt']),
        dict(name='ge', harness='h_ge', enforce='time_point_ge', replace=['time_point_lt']),
        dict(name='lemma_order', harness='lemma_order', mode='lemma'),
        dict(name='lemma_order_value', harness='lemma_order_value', mode='lemma'),
        dict(name='lemma_canon_unique', harness='lemma_canon_unique', mode='lemma'),
        dict(name='lemma_normalize_idempotent', harness='lemma_normalize_idempotent', mode='lemma'),
        dict(name='lemma_extremes', harness='lemma_extremes', mode='lemma'),
        dict(name='lemma_div_axiom', harness='lemma_div_axiom', mode='lemma'),
        dict(name='lemma_add_sub_roundtrip', harness='lemma_add_sub_roundtrip', mode='lemma', enforce='lemma_add_sub_roundtrip_fn', replace=['time_point_plus_eq', 'time_point_minus_eq'], timeout=300),
        dict(name='lemma_diff_of_sum', harness='lemma_diff_of_sum', mode='lemma', enforce='lemma_diff_of_sum_fn', replace=['time_point_plus_d', 'time_point_minus'], solver='cadical', timeout=300),
        dict(name='lemma_ring', harness='lemma_ring', mode='lemma', flags=['--z3'], no_second_backend=True, timeout=300),
    ],
    assumptions=[
        'operand ranges: time_point seconds within +-2^61 for += / -= / + / - (normalize and from_seconds_and_nanoseconds: +-2^62), durations within +-2^62 ticks '
        '(about 14 600 years; an obligation inside the cast); operator-(tp,tp): |seconds| < 2^38 each, so that the tick count fits 64 bits with margin',
        'normalize / from_seconds_and_nanoseconds are proved for |nanoseconds| < 4*10^9 only: every internal call site satisfies this (operands of += / -= are a canonical '
        'pair plus a remainder below 10^9 -- checked as the precondition of the replaced contract -- and now() passes tv_nsec in [0, 10^9)); from_seconds_and_nanoseconds '
        'with arbitrary 64-bit nanoseconds is UNPROVED (solver limit: 64-bit division by 10^9 with a large quotient is decided by none of MiniSat, CaDiCaL, z3, cvc5)',
        'std::chrono::duration_cast is written out as the integer expressions [time.duration.cast] prescribes for duration<int64, ratio<1,10^7>> (trusted): '
        'seconds = count / 10^7, d - seconds = count - s * 10^7 (common type 100 ns), nanoseconds = ticks * 100; std::chrono::seconds / nanoseconds have 64-bit reps',
        'the one division in that written-out text (count / 10^7, quotient up to 40 bits) is represented by its defining property (DC_AXIOM: d == q*10^7 + r, |r| < 10^7, r has the '
        'sign of d: C++ [expr.mul]/4 truncation); it is cross-checked against CBMC\'s own `/`, including uniqueness of the solution, for |d| < 2^32 ticks only (lemma_div_axiom); '
        'the products dc_q*10^7 and sub_ds*10^7 are named by ghosts where they are evaluated and not evaluated a second time in postconditions',
        'the comparison lemmas are on the full 64-bit domain; agreement of the order with the value s*10^9 + ns is proved on the value difference (b.s-a.s)*10^9 + (b.ns-a.ns) for '
        'canonical pairs with |s| < 2^32 (the two-product form a.s*10^9 + a.ns < b.s*10^9 + b.ns needs monotonicity across two 64-bit multipliers, which the SAT back ends do not decide)',
        'lemma_ring (distributivity of *10^7 over the carry, and ticks -> ns conversion of operator-\'s result) is discharged by z3 (flags --z3; the evidence row still says MiniSat2 because the '
        'runner labels by --sat-solver); lemma_diff_of_sum assumes one instance of it and the definition of the ghost dc_m; both lemmas are limited to the ranges in their premises',
        'operator-(tp,tp): the caller of the contract names the value difference as sub_ds seconds + sub_t ticks + sub_rem ns (|sub_rem| < 100, sign of the nanosecond difference); that every '
        'pair of operands has exactly one such decomposition (Euclidean division by 100) is arithmetic, not re-proved; the result is exact iff sub_rem == 0 (operands on the 100 ns grain)',
        'every time_point is canonical: class invariant, established by every constructor / mutator under contract (default, max, min, from_seconds_and_nanoseconds, +=, -=) and justified by the '
        'closed-world scan of seconds_ / nanoseconds_ (private members; copy construction / assignment are defaulted)',
        'clock_gettime(CLOCK_MONOTONIC) succeeds and returns tv_sec >= 0, 0 <= tv_nsec < 10^9 (POSIX); its return value is ignored by the code; monotonicity of successive readings is the kernel\'s',
    ],
    drops=['C++14 digit separators', 'constexpr / noexcept / friend / const&: operands passed by value', 'std::chrono::duration<Rep, Ratio> -> int64 tick count (the instantiation for monotonic_clock::duration); '
           'duration_cast / duration subtraction -> written-out integer expressions (VF_DURATION_*)', 'template genericity of += / -= / + / - over other duration types (other instantiations are not verified)',
           'time_point tp; -> struct + extracted default-constructor initialisers', 'std::numeric_limits<std::int64_t>::max/min -> INT64_MAX / INT64_MIN', 'timespec -> struct vf_timespec, clock_gettime -> event stub EV_clock_gettime'],
)
