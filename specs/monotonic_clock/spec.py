H = 'include/unifex/linux/monotonic_clock.hpp'
CPP = 'source/linux/monotonic_clock.cpp'
TP = r'class time_point \{'
# C++14 digit separators (1'000'000'000) are not C: general rule missing from the rewrite table
DIGITS = [(r"(?<=\d)'(?=\d)", '')]
# std::chrono::duration_cast written out as the integer expressions [time.duration.cast] prescribes for
# duration<int64, ratio<1,10^7>> -> seconds / nanoseconds (trusted, see assumptions); a duration is its tick count
CHRONO = [(r'std::chrono::duration_cast<std::chrono::seconds>\(d\)', 'VF_DURATION_CAST_SECONDS(d)'),
          (r'std::chrono::duration_cast<std::chrono::nanoseconds>\(d - wholeSeconds\)', 'VF_DURATION_CAST_NANOSECONDS(VF_DURATION_MINUS_SECONDS(d, wholeSeconds))'),
          (r'\b(\w+)\.count\(\)', r'(\1)'),
          (r'return \*this;', 'return this;')]
LOCAL = [(r'\btime_point tp = a;', 'struct time_point tp = a;')]
ctx = dict(
    cls='time_point',
    members=['seconds_', 'nanoseconds_'],
    methods=['normalize'],
    obj_methods={'normalize': 'time_point_normalize'},
    raii={'time_point': ('TP_CTOR', 'TP_DTOR')},
    pre=DIGITS + CHRONO + LOCAL + [
        (r'std::numeric_limits<std::int64_t>::max\(\)', 'INT64_MAX'),
        (r'std::numeric_limits<std::int64_t>::min\(\)', 'INT64_MIN'),
        (r'return duration\(', 'return VF_DURATION('),
        (r'\btp \+= d;', 'time_point_plus_eq(&tp, d);'),
        (r'\btp -= d;', 'time_point_minus_eq(&tp, d);'),
    ],
)
# the derived comparison operators are written in terms of == and < on time_points
cmp_ctx = dict(pre=[(r'\b([ab]) == ([ab])\b', r'time_point_eq(\1, \2)'), (r'\b([ab]) < ([ab])\b', r'time_point_lt(\1, \2)')])
now_ctx = dict(members=[], raii={},
               pre=[(r'\btimespec ts;', 'struct vf_timespec ts;'),
                    (r'\bclock_gettime\(', 'EV_clock_gettime('),
                    (r'time_point::from_seconds_and_nanoseconds\(', 'time_point_from_seconds_and_nanoseconds(')])
FRIEND_D = r'\(\s*const time_point& a, std::chrono::duration<Rep, Ratio> d\) noexcept'
FRIEND_AB = r'\(const time_point& a, const time_point& b\) noexcept'
SPEC = dict(
    properties=['C07'],
    ctx=ctx,
    extracts={
        'ctor_seconds': dict(file=H, kind='expr', sig=r'constexpr time_point\(\) noexcept : seconds_\(([^()]*)\), nanoseconds_\([^()]*\) \{\}'),
        'ctor_nanoseconds': dict(file=H, kind='expr', sig=r'constexpr time_point\(\) noexcept : seconds_\([^()]*\), nanoseconds_\(([^()]*)\) \{\}'),
        'nanoseconds_per_second': dict(file=H, kind='expr', sig=r'constexpr std::int64_t nanoseconds_per_second = ([^;]*);'),
        'max': dict(file=H, sig=r'static constexpr time_point max\(\) noexcept', within=TP),
        'min': dict(file=H, sig=r'static constexpr time_point min\(\) noexcept', within=TP),
        'seconds_part': dict(file=H, sig=r'constexpr std::int64_t seconds_part\(\) const noexcept', within=TP),
        'nanoseconds_part': dict(file=H, sig=r'constexpr long long nanoseconds_part\(\) const noexcept', within=TP),
        'normalize': dict(file=H, sig=r'inline void monotonic_clock::time_point::normalize\(\) noexcept', must_contain=[r'extraSeconds']),
        'from_seconds_and_nanoseconds': dict(file=H, sig=r'monotonic_clock::time_point::from_seconds_and_nanoseconds\(\s*std::int64_t seconds, long long nanoseconds\) noexcept',
                                             must_contain=[r'normalize']),
        'plus_eq': dict(file=H, sig=r'monotonic_clock::time_point::operator\+=\(\s*const std::chrono::duration<Rep, Ratio>& d\) noexcept', must_contain=[r'seconds_ \+=']),
        'minus_eq': dict(file=H, sig=r'monotonic_clock::time_point::operator-=\(\s*const std::chrono::duration<Rep, Ratio>& d\) noexcept', must_contain=[r'seconds_ -=']),
        'plus_d': dict(file=H, sig=r'friend time_point operator\+' + FRIEND_D, within=TP),
        'minus_d': dict(file=H, sig=r'friend time_point operator-' + FRIEND_D, within=TP),
        'minus': dict(file=H, sig=r'operator-' + FRIEND_AB, within=TP, must_contain=[r'return duration']),
        'eq': dict(file=H, sig=r'friend bool operator==' + FRIEND_AB, within=TP),
        'ne': dict(file=H, sig=r'friend bool operator!=' + FRIEND_AB, within=TP, ctx=cmp_ctx),
        'lt': dict(file=H, sig=r'friend bool operator<' + FRIEND_AB, within=TP),
        'gt': dict(file=H, sig=r'friend bool operator>' + FRIEND_AB, within=TP, ctx=cmp_ctx),
        'le': dict(file=H, sig=r'friend bool operator<=' + FRIEND_AB, within=TP, ctx=cmp_ctx),
        'ge': dict(file=H, sig=r'friend bool operator>=' + FRIEND_AB, within=TP, ctx=cmp_ctx),
        'now': dict(file=CPP, sig=r'monotonic_clock::time_point monotonic_clock::now\(\) noexcept', ctx=now_ctx),
    },
    # the representation (seconds_, nanoseconds_) is private: every function that reads or writes it is under contract,
    # so "every time_point is canonical" is a class invariant (constructors / mutators establish CANON)
    closed_world=[dict(file=H, members=['seconds_', 'nanoseconds_'],
                       allow=[r'constexpr time_point\(\) noexcept : seconds_\([^()]*\), nanoseconds_\([^()]*\) \{\}',
                              r'std::int64_t seconds_;', r'long long nanoseconds_;'])],
    units=[
        dict(name='normalize', harness='h_normalize', enforce='time_point_normalize'),
        dict(name='from_seconds_and_nanoseconds', harness='h_from_seconds_and_nanoseconds', enforce='time_point_from_seconds_and_nanoseconds', replace=['time_point_normalize']),
        dict(name='now', harness='h_now', enforce='monotonic_clock_now', replace=['time_point_from_seconds_and_nanoseconds']),
        dict(name='max', harness='h_max', enforce='time_point_max'),
        dict(name='min', harness='h_min', enforce='time_point_min'),
        dict(name='seconds_part', harness='h_seconds_part', enforce='time_point_seconds_part'),
        dict(name='nanoseconds_part', harness='h_nanoseconds_part', enforce='time_point_nanoseconds_part'),
        dict(name='plus_eq', harness='h_plus_eq', enforce='time_point_plus_eq', replace=['time_point_normalize'], solver='cadical', timeout=150),
        dict(name='minus_eq', harness='h_minus_eq', enforce='time_point_minus_eq', replace=['time_point_normalize'], solver='cadical', timeout=150),
        dict(name='plus_d', harness='h_plus_d', enforce='time_point_plus_d', replace=['time_point_plus_eq']),
        dict(name='minus_d', harness='h_minus_d', enforce='time_point_minus_d', replace=['time_point_minus_eq']),
        dict(name='minus', harness='h_minus', enforce='time_point_minus', solver='cadical', timeout=150),
        dict(name='eq', harness='h_eq', enforce='time_point_eq'),
        dict(name='lt', harness='h_lt', enforce='time_point_lt'),
        dict(name='ne', harness='h_ne', enforce='time_point_ne', replace=['time_point_eq']),
        dict(name='gt', harness='h_gt', enforce='time_point_gt', replace=['time_point_lt']),
        dict(name='le', harness='h_le', enforce='time_point_le', replace=['time_point_lt']),
        dict(name='ge', harness='h_ge', enforce='time_point_ge', replace=['time_point_lt']),
        dict(name='lemma_order', harness='lemma_order', mode='lemma'),
        dict(name='lemma_order_value', harness='lemma_order_value', mode='lemma', timeout=150),
        dict(name='lemma_canon_unique', harness='lemma_canon_unique', mode='lemma'),
        dict(name='lemma_normalize_idempotent', harness='lemma_normalize_idempotent', mode='lemma'),
        dict(name='lemma_extremes', harness='lemma_extremes', mode='lemma'),
        dict(name='lemma_div_axiom', harness='lemma_div_axiom', mode='lemma', timeout=150),
        dict(name='lemma_add_sub_roundtrip', harness='lemma_add_sub_roundtrip', mode='lemma', solver='cadical', timeout=150),
    ],
    assumptions=[],
    drops=[],
)
