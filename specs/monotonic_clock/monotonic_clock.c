/* C07 (clock half): linuxos::monotonic_clock::time_point, include/unifex/linux/monotonic_clock.hpp and
 * source/linux/monotonic_clock.cpp.  "time_point arithmetic is exact and totally ordered".
 *
 * A time_point is the pair (seconds_, nanoseconds_) standing for seconds_ * 10^9 + nanoseconds_ ns.
 * CANONICAL: |nanoseconds_| < 10^9 and the two parts never have opposite signs; every value has exactly
 * one canonical pair (lemma_canon_unique), and the comparison operators are the lexicographic order on
 * pairs, which on canonical pairs is the order of the values (lemma_order_value).
 * A duration is an int64 count of 100 ns ticks (monotonic_clock::duration).
 * Bodies marked @BODY / @EXPR are extracted from /repo on every run; everything else is specification. */
#include <stddef.h>
#include <stdint.h>
struct time_point { int64_t seconds_; long long nanoseconds_; };
struct vf_timespec { int64_t tv_sec; long tv_nsec; };
typedef int64_t duration_t;
struct vf_ghost {
  /* duration_cast<seconds>(d): the split d = dc_q * 10^7 + dc_r the cast produced (trusted truncating division) */
  unsigned dc_calls; duration_t dc_d; int64_t dc_q, dc_r;
  int64_t dc_m, dc_rn;   /* dc_m names the product dc_q * 10^7 (whole seconds in ticks), dc_rn the remainder dc_r in nanoseconds */
  /* operator-(a, b): decomposition of the value difference supplied by the caller of the contract:
   * a - b = sub_ds seconds + sub_t ticks + sub_rem ns, |sub_rem| < 100 (sub-grain part, truncated toward zero) */
  int64_t sub_ds, sub_t, sub_rem, sub_m;   /* sub_m names the product sub_ds * 10^7 */
  /* now(): the reading clock_gettime produced */
  unsigned clock_reads; int64_t ts_sec; long ts_nsec;
};
static struct vf_ghost G;
#include "vf.h"
static void vf_interfere(void) {}

/* physical units (specification, not taken from the code) */
#define NPS 1000000000LL          /* nanoseconds per second */
#define TPS 10000000LL            /* 100 ns ticks per second: monotonic_clock::ratio = 1 / 10'000'000 */
#define NPT 100LL                 /* nanoseconds per tick */
static const int64_t code_nanoseconds_per_second = /*@EXPR nanoseconds_per_second*/;

#define CANON(t) ((t).nanoseconds_ > -NPS && (t).nanoseconds_ < NPS \
                  && !((t).seconds_ > 0 && (t).nanoseconds_ < 0) && !((t).seconds_ < 0 && (t).nanoseconds_ > 0))
#define TP_EQ(a, b) ((a).seconds_ == (b).seconds_ && (a).nanoseconds_ == (b).nanoseconds_)
/* the order of the values, on canonical pairs: earlier second, or same second and earlier nanosecond */
#define TP_LT(a, b) ((a).seconds_ < (b).seconds_ || ((a).seconds_ == (b).seconds_ && (a).nanoseconds_ < (b).nanoseconds_))

/* operand ranges (see assumptions): seconds within +-2^61, durations within +-2^62 ticks */
#define S_MAX ((int64_t)1 << 61)
#define D_MAX ((int64_t)1 << 62)
#define DC_Q_MAX 461168601842LL   /* 2^62 / 10^7 */

/* default constructor (member initialisers extracted) */
#define TP_CTOR(p) ((p)->seconds_ = /*@EXPR ctor_seconds*/, (p)->nanoseconds_ = /*@EXPR ctor_nanoseconds*/)
#define TP_DTOR(p) ((void)0)

/* ---- std::chrono, written out for duration<int64, ratio<1,10^7>> (trusted, [time.duration.cast]) ----
 * duration_cast<seconds>(d)          = d.count() / 10^7   (CF = 1/10^7: num == 1, den != 1)
 * d - wholeSeconds                   = d.count() - wholeSeconds.count() * 10^7   (common type: 100 ns ticks)
 * duration_cast<nanoseconds>(ticks)  = ticks.count() * 100   (CF = 100/1)
 * The one division has a 64-bit dividend and a quotient of up to 40 bits, which no SAT / SMT back end
 * decides; it is therefore represented by its defining property ([expr.mul]/4: the quotient truncated toward
 * zero, (a/b)*b + a%b == a) -- DC_AXIOM -- and cross-checked against CBMC's own `/` for |d| < 2^32 ticks
 * in lemma_div_axiom. */
#define DC_AXIOM(d, q, r) ((d) >= -D_MAX && (d) <= D_MAX && (q) >= -DC_Q_MAX && (q) <= DC_Q_MAX && (r) == (d) - (q) * TPS \
                           && (r) > -TPS && (r) < TPS && ((d) >= 0 ? (r) >= 0 : (r) <= 0))
/* what the contracts below say about the recorded split: everything except the product itself, which is named by the
 * ghost dc_m where the cast evaluates it (dc_m == dc_q * 10^7 by construction; not evaluated a second time) */
#define DC_SPLIT_OF(d) ((d) >= -D_MAX && (d) <= D_MAX && G.dc_d == (d) && G.dc_q >= -DC_Q_MAX && G.dc_q <= DC_Q_MAX \
                        && G.dc_r > -TPS && G.dc_r < TPS && ((d) >= 0 ? G.dc_r >= 0 : G.dc_r <= 0) && (d) - G.dc_r == G.dc_m && G.dc_rn == G.dc_r * NPT)
/* the cast is a function: asked again for the same duration it gives the same split */
#define DC_SAME_AS_BEFORE(d, calls0, d0, q0, m0, r0, rn0) (((calls0) > 0 && (d0) == (d)) ==> (G.dc_q == (q0) && G.dc_m == (m0) && G.dc_r == (r0) && G.dc_rn == (rn0)))
#define DC_CALLED_ONCE (G.dc_calls == __CPROVER_old(G.dc_calls) + 1)
static int64_t VF_DURATION_CAST_SECONDS(duration_t d) {
  VF_P(d >= -D_MAX && d <= D_MAX, "duration operand within +-2^62 ticks (operand range)");
  if (G.dc_calls > 0 && G.dc_d == d) { G.dc_calls++; return G.dc_q; }   /* the cast is a function of its argument */
  int64_t q = VF_nondet_i64();
  __CPROVER_assume(q >= -DC_Q_MAX && q <= DC_Q_MAX);
  int64_t m = q * TPS;
  int64_t r = d - m;
  __CPROVER_assume(DC_AXIOM(d, q, r));
  G.dc_calls++; G.dc_d = d; G.dc_q = q; G.dc_m = m; G.dc_r = r; G.dc_rn = 0;
  return q;
}
/* The next two are plain integer expressions.  d - seconds(q) for the recorded split was evaluated when the split was
 * made (dc_r is defined as d - q * 10^7): the value is reused instead of being evaluated a second time (memoised; the
 * solver then meets one copy of the multiplier).  The nanosecond cast carries a CUT (an obligation, then the same fact
 * as an assumption): a remainder below one second is below 10^9 ns. */
static duration_t VF_DURATION_MINUS_SECONDS(duration_t d, int64_t s) {
  if (G.dc_calls > 0 && d == G.dc_d && s == G.dc_q) return G.dc_r;   /* == d - G.dc_m, evaluated in the cast */
  return d - s * TPS;
}
static int64_t VF_DURATION_CAST_NANOSECONDS(duration_t t) {
  int64_t n = t * NPT;
  if (t > -TPS && t < TPS) { VF_A(n > -NPS && n < NPS && (t >= 0 ? n >= 0 : n <= 0), "cut: fewer than 10^7 ticks are fewer than 10^9 ns, same sign"); __CPROVER_assume(n > -NPS && n < NPS && (t >= 0 ? n >= 0 : n <= 0)); }
  if (G.dc_calls > 0 && t == G.dc_r) G.dc_rn = n;
  return n;
}
#define VF_DURATION(x) ((duration_t)(x))

/* ================= functions under contract ================= */

/* normalize: canonical result, value preserved.  Value preservation is stated linearly: the result is the
 * argument with c whole seconds carried between the two parts, for one of the carries possible in the range. */
#define NORM_CARRY(t, s0, n0, c) ((t).seconds_ == (s0) + (c) && (t).nanoseconds_ == (n0) - (c) * NPS)   /* (__CPROVER_old is written out in the clauses: native replay snapshots it textually) */
void time_point_normalize(struct time_point* self)
__CPROVER_requires(self->seconds_ > -2 * S_MAX && self->seconds_ < 2 * S_MAX && self->nanoseconds_ > -4 * NPS && self->nanoseconds_ < 4 * NPS)
__CPROVER_assigns(self->seconds_, self->nanoseconds_)
__CPROVER_ensures(CANON(*self)) /* canonical form: |ns| < 10^9, sign(ns) agrees with sign(s) */
__CPROVER_ensures(NORM_CARRY(*self, __CPROVER_old(self->seconds_), __CPROVER_old(self->nanoseconds_), -4) || NORM_CARRY(*self, __CPROVER_old(self->seconds_), __CPROVER_old(self->nanoseconds_), -3) || NORM_CARRY(*self, __CPROVER_old(self->seconds_), __CPROVER_old(self->nanoseconds_), -2) || NORM_CARRY(*self, __CPROVER_old(self->seconds_), __CPROVER_old(self->nanoseconds_), -1) || NORM_CARRY(*self, __CPROVER_old(self->seconds_), __CPROVER_old(self->nanoseconds_), 0) || NORM_CARRY(*self, __CPROVER_old(self->seconds_), __CPROVER_old(self->nanoseconds_), 1) || NORM_CARRY(*self, __CPROVER_old(self->seconds_), __CPROVER_old(self->nanoseconds_), 2) || NORM_CARRY(*self, __CPROVER_old(self->seconds_), __CPROVER_old(self->nanoseconds_), 3) || NORM_CARRY(*self, __CPROVER_old(self->seconds_), __CPROVER_old(self->nanoseconds_), 4)) /* value s*10^9 + ns preserved */
/*@BODY normalize*/

#define FSN_CARRY(rv, s, ns, c) ((rv).seconds_ == (s) + (c) && (rv).nanoseconds_ == (ns) - (c) * NPS)
struct time_point time_point_from_seconds_and_nanoseconds(int64_t seconds, long long nanoseconds)
__CPROVER_requires(seconds > -2 * S_MAX && seconds < 2 * S_MAX && nanoseconds > -4 * NPS && nanoseconds < 4 * NPS)
__CPROVER_assigns()
__CPROVER_ensures(CANON(__CPROVER_return_value))
__CPROVER_ensures(FSN_CARRY(__CPROVER_return_value, seconds, nanoseconds, -4) || FSN_CARRY(__CPROVER_return_value, seconds, nanoseconds, -3) || FSN_CARRY(__CPROVER_return_value, seconds, nanoseconds, -2) || FSN_CARRY(__CPROVER_return_value, seconds, nanoseconds, -1) || FSN_CARRY(__CPROVER_return_value, seconds, nanoseconds, 0) || FSN_CARRY(__CPROVER_return_value, seconds, nanoseconds, 1) || FSN_CARRY(__CPROVER_return_value, seconds, nanoseconds, 2) || FSN_CARRY(__CPROVER_return_value, seconds, nanoseconds, 3) || FSN_CARRY(__CPROVER_return_value, seconds, nanoseconds, 4)) /* the canonical pair of seconds*10^9 + nanoseconds */
/*@BODY from_seconds_and_nanoseconds*/

/* now(): one reading of CLOCK_MONOTONIC, returned unchanged */
enum { CLOCK_REALTIME = 0, CLOCK_MONOTONIC = 1 };
static int EV_clock_gettime(int clock_id, struct vf_timespec* ts) {
  VF_CANARY("clock_gettime reachable");
  VF_P(clock_id == CLOCK_MONOTONIC, "now() reads the monotonic clock (timers are compared against a clock that never goes back)");
  int64_t s = VF_nondet_i64(); long ns = (long)VF_nondet_i64();
  __CPROVER_assume(s >= 0 && s < S_MAX && ns >= 0 && ns < NPS);   /* POSIX: tv_nsec in [0, 10^9); time since boot */
  ts->tv_sec = s; ts->tv_nsec = ns;
  G.clock_reads++; G.ts_sec = s; G.ts_nsec = ns;
  return 0;
}
struct time_point monotonic_clock_now(void)
__CPROVER_requires(G.clock_reads == 0)
__CPROVER_assigns(G.clock_reads, G.ts_sec, G.ts_nsec)
__CPROVER_ensures(G.clock_reads == 1)
__CPROVER_ensures(__CPROVER_return_value.seconds_ == G.ts_sec && __CPROVER_return_value.nanoseconds_ == G.ts_nsec) /* exactly the kernel's reading */
__CPROVER_ensures(CANON(__CPROVER_return_value))
/*@BODY now*/

struct time_point time_point_max(void)
__CPROVER_assigns()
__CPROVER_ensures(CANON(__CPROVER_return_value) && __CPROVER_return_value.seconds_ == INT64_MAX && __CPROVER_return_value.nanoseconds_ == NPS - 1) /* the largest canonical pair */
/*@BODY max*/

struct time_point time_point_min(void)
__CPROVER_assigns()
__CPROVER_ensures(CANON(__CPROVER_return_value) && __CPROVER_return_value.seconds_ == INT64_MIN && __CPROVER_return_value.nanoseconds_ == -(NPS - 1)) /* the smallest canonical pair */
/*@BODY min*/

int64_t time_point_seconds_part(const struct time_point* self)
__CPROVER_assigns()
__CPROVER_ensures(__CPROVER_return_value == self->seconds_)
/*@BODY seconds_part*/

long long time_point_nanoseconds_part(const struct time_point* self)
__CPROVER_assigns()
__CPROVER_ensures(__CPROVER_return_value == self->nanoseconds_)
/*@BODY nanoseconds_part*/

/* tp += d / tp -= d: the value moves by exactly d.  With the cast's split d = q * 10^7 + r (q seconds and r
 * ticks, |r| < 10^7, no rounding: DC_AXIOM) that is: the result is the canonical pair of
 * (s +- q) seconds and (ns +- r * 100) nanoseconds, i.e. those two sums up to a carry of c whole seconds. */
#define ADV(t, s0, n0, sign, c) ((t).seconds_ == (s0) sign G.dc_q + (c) && (t).nanoseconds_ == (n0) sign G.dc_rn - (c) * NPS)
#define PM_REQ(self, d) (CANON(*(self)) && (self)->seconds_ > -S_MAX && (self)->seconds_ < S_MAX && (d) >= -D_MAX && (d) <= D_MAX && G.dc_calls < 1000 && (G.dc_calls > 0 ==> DC_SPLIT_OF(G.dc_d)))
struct time_point* time_point_plus_eq(struct time_point* self, duration_t d)
__CPROVER_requires(PM_REQ(self, d))
__CPROVER_assigns(self->seconds_, self->nanoseconds_, G.dc_calls, G.dc_d, G.dc_q, G.dc_m, G.dc_r, G.dc_rn)
__CPROVER_ensures(__CPROVER_return_value == self)
__CPROVER_ensures(DC_CALLED_ONCE && DC_SPLIT_OF(d) && DC_SAME_AS_BEFORE(d, __CPROVER_old(G.dc_calls), __CPROVER_old(G.dc_d), __CPROVER_old(G.dc_q), __CPROVER_old(G.dc_m), __CPROVER_old(G.dc_r), __CPROVER_old(G.dc_rn))) /* the operand itself was split, once */
__CPROVER_ensures(CANON(*self)) /* the class invariant is kept */
__CPROVER_ensures(ADV(*self, __CPROVER_old(self->seconds_), __CPROVER_old(self->nanoseconds_), +, -2) || ADV(*self, __CPROVER_old(self->seconds_), __CPROVER_old(self->nanoseconds_), +, -1) || ADV(*self, __CPROVER_old(self->seconds_), __CPROVER_old(self->nanoseconds_), +, 0) || ADV(*self, __CPROVER_old(self->seconds_), __CPROVER_old(self->nanoseconds_), +, 1) || ADV(*self, __CPROVER_old(self->seconds_), __CPROVER_old(self->nanoseconds_), +, 2)) /* advanced by exactly q s + r ticks = d */
/*@BODY plus_eq*/

struct time_point* time_point_minus_eq(struct time_point* self, duration_t d)
__CPROVER_requires(PM_REQ(self, d))
__CPROVER_assigns(self->seconds_, self->nanoseconds_, G.dc_calls, G.dc_d, G.dc_q, G.dc_m, G.dc_r, G.dc_rn)
__CPROVER_ensures(__CPROVER_return_value == self)
__CPROVER_ensures(DC_CALLED_ONCE && DC_SPLIT_OF(d) && DC_SAME_AS_BEFORE(d, __CPROVER_old(G.dc_calls), __CPROVER_old(G.dc_d), __CPROVER_old(G.dc_q), __CPROVER_old(G.dc_m), __CPROVER_old(G.dc_r), __CPROVER_old(G.dc_rn)))
__CPROVER_ensures(CANON(*self))
__CPROVER_ensures(ADV(*self, __CPROVER_old(self->seconds_), __CPROVER_old(self->nanoseconds_), -, -2) || ADV(*self, __CPROVER_old(self->seconds_), __CPROVER_old(self->nanoseconds_), -, -1) || ADV(*self, __CPROVER_old(self->seconds_), __CPROVER_old(self->nanoseconds_), -, 0) || ADV(*self, __CPROVER_old(self->seconds_), __CPROVER_old(self->nanoseconds_), -, 1) || ADV(*self, __CPROVER_old(self->seconds_), __CPROVER_old(self->nanoseconds_), -, 2)) /* moved back by exactly q s + r ticks = d */
/*@BODY minus_eq*/

#define ADV_V(rv, a, sign, c) ((rv).seconds_ == (a).seconds_ sign G.dc_q + (c) && (rv).nanoseconds_ == (a).nanoseconds_ sign G.dc_rn - (c) * NPS)
#define PMV_REQ(a, d) (CANON(a) && (a).seconds_ > -S_MAX && (a).seconds_ < S_MAX && (d) >= -D_MAX && (d) <= D_MAX && G.dc_calls < 1000 && (G.dc_calls > 0 ==> DC_SPLIT_OF(G.dc_d)))
struct time_point time_point_plus_d(struct time_point a, duration_t d)
__CPROVER_requires(PMV_REQ(a, d))
__CPROVER_assigns(G.dc_calls, G.dc_d, G.dc_q, G.dc_m, G.dc_r, G.dc_rn)
__CPROVER_ensures(DC_CALLED_ONCE && DC_SPLIT_OF(d) && DC_SAME_AS_BEFORE(d, __CPROVER_old(G.dc_calls), __CPROVER_old(G.dc_d), __CPROVER_old(G.dc_q), __CPROVER_old(G.dc_m), __CPROVER_old(G.dc_r), __CPROVER_old(G.dc_rn)))
__CPROVER_ensures(CANON(__CPROVER_return_value))
__CPROVER_ensures(ADV_V(__CPROVER_return_value, a, +, -2) || ADV_V(__CPROVER_return_value, a, +, -1) || ADV_V(__CPROVER_return_value, a, +, 0) || ADV_V(__CPROVER_return_value, a, +, 1) || ADV_V(__CPROVER_return_value, a, +, 2)) /* a + d: a advanced by exactly d */
/*@BODY plus_d*/

struct time_point time_point_minus_d(struct time_point a, duration_t d)
__CPROVER_requires(PMV_REQ(a, d))
__CPROVER_assigns(G.dc_calls, G.dc_d, G.dc_q, G.dc_m, G.dc_r, G.dc_rn)
__CPROVER_ensures(DC_CALLED_ONCE && DC_SPLIT_OF(d) && DC_SAME_AS_BEFORE(d, __CPROVER_old(G.dc_calls), __CPROVER_old(G.dc_d), __CPROVER_old(G.dc_q), __CPROVER_old(G.dc_m), __CPROVER_old(G.dc_r), __CPROVER_old(G.dc_rn)))
__CPROVER_ensures(CANON(__CPROVER_return_value))
__CPROVER_ensures(ADV_V(__CPROVER_return_value, a, -, -2) || ADV_V(__CPROVER_return_value, a, -, -1) || ADV_V(__CPROVER_return_value, a, -, 0) || ADV_V(__CPROVER_return_value, a, -, 1) || ADV_V(__CPROVER_return_value, a, -, 2)) /* a - d: a moved back by exactly d */
/*@BODY minus_d*/

/* a - b: the value difference in ticks, truncated toward zero.  The caller names the difference:
 * sub_ds seconds + (sub_t ticks + sub_rem ns), |sub_rem| < 100 with the sign of the nanosecond difference
 * (every pair of operands has exactly one such decomposition); the result is sub_ds * 10^7 + sub_t ticks (the
 * product is named by the ghost sub_m, fixed in the precondition), and it is EXACT (no truncation: sub_rem == 0)
 * when the operands' nanoseconds differ by a multiple of the 100 ns grain; in nanoseconds: lemma_ring (R2). */
#define SUB_S_MAX ((int64_t)1 << 38)
#define SUB_REQ(a, b) (CANON(a) && CANON(b) && (a).seconds_ > -SUB_S_MAX && (a).seconds_ < SUB_S_MAX && (b).seconds_ > -SUB_S_MAX && (b).seconds_ < SUB_S_MAX \
   && (a).seconds_ - (b).seconds_ == G.sub_ds && G.sub_m == G.sub_ds * TPS && G.sub_t > -2 * TPS && G.sub_t < 2 * TPS && G.sub_rem > -NPT && G.sub_rem < NPT \
   && (a).nanoseconds_ - (b).nanoseconds_ == G.sub_t * NPT + G.sub_rem && (G.sub_t > 0 ? G.sub_rem >= 0 : 1) && (G.sub_t < 0 ? G.sub_rem <= 0 : 1))
duration_t time_point_minus(struct time_point a, struct time_point b)
__CPROVER_requires(SUB_REQ(a, b))
__CPROVER_assigns()
__CPROVER_ensures(__CPROVER_return_value == G.sub_m + G.sub_t) /* (a.s - b.s) seconds and (a.ns - b.ns) / 100 ticks, as one tick count */
/*@BODY minus*/

/* comparisons: == is equality of pairs, < the lexicographic order, the other four are defined by them */
_Bool time_point_eq(struct time_point a, struct time_point b)
__CPROVER_assigns()
__CPROVER_ensures(__CPROVER_return_value == TP_EQ(a, b))
/*@BODY eq*/

_Bool time_point_lt(struct time_point a, struct time_point b)
__CPROVER_assigns()
__CPROVER_ensures(__CPROVER_return_value == TP_LT(a, b))
/*@BODY lt*/

_Bool time_point_ne(struct time_point a, struct time_point b)
__CPROVER_assigns()
__CPROVER_ensures(__CPROVER_return_value == !TP_EQ(a, b))
/*@BODY ne*/

_Bool time_point_gt(struct time_point a, struct time_point b)
__CPROVER_assigns()
__CPROVER_ensures(__CPROVER_return_value == TP_LT(b, a))
/*@BODY gt*/

_Bool time_point_le(struct time_point a, struct time_point b)
__CPROVER_assigns()
__CPROVER_ensures(__CPROVER_return_value == (TP_LT(a, b) || TP_EQ(a, b)))
/*@BODY le*/

_Bool time_point_ge(struct time_point a, struct time_point b)
__CPROVER_assigns()
__CPROVER_ensures(__CPROVER_return_value == (TP_LT(b, a) || TP_EQ(a, b)))
/*@BODY ge*/

/* ================= harnesses ================= */
static struct time_point TPA, TPB;
static struct time_point any_tp(void) { struct time_point t; t.seconds_ = VF_nondet_i64(); t.nanoseconds_ = VF_nondet_i64(); return t; }
static void h_prior_split(void) { if (VF_nondet_bool()) { duration_t d0 = VF_nondet_i64(); __CPROVER_assume(d0 >= -D_MAX && d0 <= D_MAX); VF_DURATION_CAST_NANOSECONDS(VF_DURATION_MINUS_SECONDS(d0, VF_DURATION_CAST_SECONDS(d0))); } }
static void h_init(void) { G.dc_calls = 0; G.dc_d = 0; G.dc_q = 0; G.dc_m = 0; G.dc_r = 0; G.dc_rn = 0; G.clock_reads = 0; G.sub_ds = VF_nondet_i64(); G.sub_t = VF_nondet_i64(); G.sub_rem = VF_nondet_i64(); G.sub_m = VF_nondet_i64(); }
void h_normalize(void) { h_init(); TPA = any_tp(); time_point_normalize(&TPA); VF_CANARY("after normalize");
  if (TPA.seconds_ < 0) { VF_CANARY("normalize can yield a negative time"); } if (TPA.nanoseconds_ > 0) { VF_CANARY("normalize can yield positive nanoseconds"); } }
void h_from_seconds_and_nanoseconds(void) { h_init(); struct time_point r = time_point_from_seconds_and_nanoseconds(VF_nondet_i64(), VF_nondet_i64()); VF_CANARY("after from_seconds_and_nanoseconds"); }
void h_now(void) { h_init(); struct time_point r = monotonic_clock_now(); VF_CANARY("after now"); }
void h_max(void) { h_init(); struct time_point r = time_point_max(); VF_CANARY("after max"); }
void h_min(void) { h_init(); struct time_point r = time_point_min(); VF_CANARY("after min"); }
void h_seconds_part(void) { h_init(); TPA = any_tp(); time_point_seconds_part(&TPA); VF_CANARY("after seconds_part"); }
void h_nanoseconds_part(void) { h_init(); TPA = any_tp(); time_point_nanoseconds_part(&TPA); VF_CANARY("after nanoseconds_part"); }
void h_plus_eq(void) { h_init(); h_prior_split(); TPA = any_tp(); struct time_point o = TPA; time_point_plus_eq(&TPA, VF_nondet_i64()); VF_CANARY("after +=");
  if (TPA.seconds_ == o.seconds_ + G.dc_q + 1) { VF_CANARY("+= can carry a second up"); } if (TPA.seconds_ == o.seconds_ + G.dc_q - 1) { VF_CANARY("+= can borrow a second"); } }
void h_minus_eq(void) { h_init(); h_prior_split(); TPA = any_tp(); struct time_point o = TPA; time_point_minus_eq(&TPA, VF_nondet_i64()); VF_CANARY("after -=");
  if (TPA.seconds_ == o.seconds_ - G.dc_q + 1) { VF_CANARY("-= can carry a second up"); } if (TPA.seconds_ == o.seconds_ - G.dc_q - 1) { VF_CANARY("-= can borrow a second"); } }
void h_plus_d(void) { h_init(); h_prior_split(); struct time_point r = time_point_plus_d(any_tp(), VF_nondet_i64()); VF_CANARY("after tp + d"); }
void h_minus_d(void) { h_init(); h_prior_split(); struct time_point r = time_point_minus_d(any_tp(), VF_nondet_i64()); VF_CANARY("after tp - d"); }
void h_minus(void) { h_init(); duration_t r = time_point_minus(any_tp(), any_tp()); VF_CANARY("after tp - tp");
  if (G.sub_rem != 0) { VF_CANARY("operands off the 100 ns grain"); } if (r < 0) { VF_CANARY("negative difference"); } }
void h_eq(void) { h_init(); _Bool r = time_point_eq(any_tp(), any_tp()); if (r) { VF_CANARY("== can hold"); } else { VF_CANARY("== can fail"); } }
void h_lt(void) { h_init(); _Bool r = time_point_lt(any_tp(), any_tp()); if (r) { VF_CANARY("< can hold"); } else { VF_CANARY("< can fail"); } }
void h_ne(void) { h_init(); _Bool r = time_point_ne(any_tp(), any_tp()); if (r) { VF_CANARY("!= can hold"); } else { VF_CANARY("!= can fail"); } }
void h_gt(void) { h_init(); _Bool r = time_point_gt(any_tp(), any_tp()); if (r) { VF_CANARY("> can hold"); } else { VF_CANARY("> can fail"); } }
void h_le(void) { h_init(); _Bool r = time_point_le(any_tp(), any_tp()); if (r) { VF_CANARY("<= can hold"); } else { VF_CANARY("<= can fail"); } }
void h_ge(void) { h_init(); _Bool r = time_point_ge(any_tp(), any_tp()); if (r) { VF_CANARY(">= can hold"); } else { VF_CANARY(">= can fail"); } }

/* ================= M4 lemmas ================= */
/* the six operators of the code form a strict total order with its derived relations, on ALL pairs (full 64-bit domain) */
void lemma_order(void) {
  struct time_point a = any_tp(), b = any_tp(), c = any_tp();
  _Bool ab = time_point_lt(a, b), ba = time_point_lt(b, a), bc = time_point_lt(b, c), ac = time_point_lt(a, c), e = time_point_eq(a, b);
  VF_CANARY("lemma_order reachable");
  VF_P(!time_point_lt(a, a), "lemma: < is irreflexive");
  VF_P(time_point_eq(a, a), "lemma: == is reflexive");
  VF_P(e == time_point_eq(b, a), "lemma: == is symmetric");
  VF_P((e && time_point_eq(b, c)) ==> time_point_eq(a, c), "lemma: == is transitive");
  VF_P((ab && bc) ==> ac, "lemma: < is transitive");
  VF_P((int)ab + (int)e + (int)ba == 1, "lemma: < is total: exactly one of a < b, a == b, b < a");
  VF_P(e == (a.seconds_ == b.seconds_ && a.nanoseconds_ == b.nanoseconds_), "lemma: == is equality of the pairs");
  VF_P(ab == (a.seconds_ < b.seconds_ || (a.seconds_ == b.seconds_ && a.nanoseconds_ < b.nanoseconds_)), "lemma: < is the lexicographic order on (seconds, nanoseconds)");
  VF_P(time_point_ne(a, b) == !e, "lemma: != is the negation of ==");
  VF_P(time_point_gt(a, b) == ba, "lemma: a > b iff b < a");
  VF_P(time_point_le(a, b) == (ab || e), "lemma: a <= b iff a < b or a == b");
  VF_P(time_point_ge(a, b) == (ba || e), "lemma: a >= b iff b < a or a == b");
  VF_P((e && bc) ==> ac, "lemma: < respects ==");
}
/* on canonical pairs the order of the pairs is the order of the values s*10^9 + ns.  Stated on the value DIFFERENCE
 * value(b) - value(a) = (b.s - a.s)*10^9 + (b.ns - a.ns) (one product; |s| < 2^32 so that it fits 64 bits): the
 * two-product form a.s*10^9 + a.ns < b.s*10^9 + b.ns is not decided by the SAT back ends (see assumptions). */
#define VAL_S_MAX ((int64_t)1 << 32)
void lemma_order_value(void) {
  struct time_point a = any_tp(), b = any_tp();
  __CPROVER_assume(CANON(a) && CANON(b) && a.seconds_ > -VAL_S_MAX && a.seconds_ < VAL_S_MAX && b.seconds_ > -VAL_S_MAX && b.seconds_ < VAL_S_MAX);
  VF_CANARY("lemma premises satisfiable");
  int64_t diff = (b.seconds_ - a.seconds_) * NPS + (b.nanoseconds_ - a.nanoseconds_);   /* value(b) - value(a) */
  VF_P(time_point_lt(a, b) == (diff > 0), "lemma: on canonical pairs a < b iff value(a) < value(b)");
  VF_P(time_point_eq(a, b) == (diff == 0), "lemma: on canonical pairs a == b iff the values are equal (one pair per value)");
  VF_P(time_point_gt(a, b) == (diff < 0) && time_point_le(a, b) == (diff >= 0) && time_point_ge(a, b) == (diff <= 0) && time_point_ne(a, b) == (diff != 0), "lemma: >, <=, >=, != agree with the values as well");
}
/* a value has exactly one canonical pair: shifting k whole seconds between the parts of a canonical pair never
 * gives another canonical pair -- so "canonical and value preserved" determines the result of normalize, += and -= */
void lemma_canon_unique(void) {
  struct time_point a = any_tp(), b; int64_t k = VF_nondet_i64();
  __CPROVER_assume(k >= -8 && k <= 8 && a.seconds_ > -2 * S_MAX && a.seconds_ < 2 * S_MAX && CANON(a));
  b.seconds_ = a.seconds_ + k; b.nanoseconds_ = a.nanoseconds_ - k * NPS;
  VF_CANARY("lemma premises satisfiable");
  VF_P(CANON(b) ==> k == 0, "lemma: the canonical pair of a value is unique");
}
void lemma_normalize_idempotent(void) {
  struct time_point a = any_tp();
  __CPROVER_assume(CANON(a));
  struct time_point b = a;
  time_point_normalize(&b);
  VF_CANARY("lemma premises satisfiable");
  VF_P(TP_EQ(a, b), "lemma: normalize leaves a canonical pair unchanged (idempotent)");
  VF_P(code_nanoseconds_per_second == NPS, "lemma: the code's nanoseconds_per_second is 10^9");
}
void lemma_extremes(void) {
  struct time_point a = any_tp(), z;
  __CPROVER_assume(CANON(a));
  TP_CTOR(&z);
  VF_CANARY("lemma premises satisfiable");
  VF_P(!time_point_lt(time_point_max(), a) && !time_point_lt(a, time_point_min()), "lemma: max() / min() bound every canonical time_point");
  VF_P(CANON(z) && z.seconds_ == 0 && z.nanoseconds_ == 0, "lemma: a default-constructed time_point is the canonical zero");
}

/* the axiom that stands for duration_cast<seconds>'s division, against CBMC's own `/` (bounded: |d| < 2^32 ticks) */
void lemma_div_axiom(void) {
  duration_t d = VF_nondet_i64();
  __CPROVER_assume(d > -((int64_t)1 << 32) && d < ((int64_t)1 << 32));
  int64_t q = d / 10000000;   /* static_cast<CR>(d.count()) / static_cast<CR>(CF::den), [time.duration.cast] */
  int64_t r = d - q * TPS;
  VF_CANARY("lemma premises satisfiable");
  VF_P(DC_AXIOM(d, q, r), "lemma (|d| < 2^32): the truncating quotient d / 10^7 and its remainder satisfy DC_AXIOM");
  int64_t q2 = VF_nondet_i64();
  __CPROVER_assume(q2 >= -DC_Q_MAX && q2 <= DC_Q_MAX);
  int64_t r2 = d - q2 * TPS;
  __CPROVER_assume(DC_AXIOM(d, q2, r2));
  VF_P(q2 == q && r2 == r, "lemma (|d| < 2^32): DC_AXIOM has no other solution than the truncating quotient");
}
/* ---- lemmas over the contracts of += / -= / + / - (callees replaced by their contracts) ---- */
/* a + d - d == a and a - d + d == a */
void lemma_add_sub_roundtrip_fn(struct time_point* t, duration_t d, _Bool add_first)
__CPROVER_requires(t == &TPA && PM_REQ(t, d) && G.dc_calls == 0 && TPA.seconds_ > -S_MAX / 2 && TPA.seconds_ < S_MAX / 2)
__CPROVER_assigns(TPA.seconds_, TPA.nanoseconds_, G.dc_calls, G.dc_d, G.dc_q, G.dc_m, G.dc_r, G.dc_rn)
__CPROVER_ensures(TPA.seconds_ == __CPROVER_old(TPA.seconds_) && TPA.nanoseconds_ == __CPROVER_old(TPA.nanoseconds_)) /* lemma: adding a duration and subtracting it again (in either order) returns the same time_point */
{
  if (add_first) { time_point_plus_eq(t, d); time_point_minus_eq(t, d); } else { time_point_minus_eq(t, d); time_point_plus_eq(t, d); }
}
void lemma_add_sub_roundtrip(void) { h_init(); TPA = any_tp(); lemma_add_sub_roundtrip_fn(&TPA, VF_nondet_i64(), VF_nondet_bool()); VF_CANARY("lemma premises satisfiable"); }

/* (a + d) - a == d.  The carry c moves c * 10^7 ticks between the two terms of operator-'s result; that
 * (q + c) * 10^7 == q * 10^7 + c * 10^7 is the ring identity proved in lemma_ring (no SAT back end proves it on
 * 64-bit words), instantiated here for the product the cast named dc_m. */
#define DOS_S_MAX ((int64_t)1 << 37)
#define DOS_D_MAX ((int64_t)1 << 60)
duration_t lemma_diff_of_sum_fn(struct time_point a, duration_t d)
__CPROVER_requires(PMV_REQ(a, d) && G.dc_calls == 0 && a.seconds_ > -DOS_S_MAX && a.seconds_ < DOS_S_MAX && d >= -DOS_D_MAX && d <= DOS_D_MAX)
__CPROVER_assigns(G.dc_calls, G.dc_d, G.dc_q, G.dc_m, G.dc_r, G.dc_rn, G.sub_ds, G.sub_t, G.sub_rem, G.sub_m)
__CPROVER_ensures(__CPROVER_return_value == d) /* lemma: (a + d) - a == d, exactly */
{
  struct time_point t = time_point_plus_d(a, d);
  /* the difference is ds = dc_q + c seconds (c: the carry chosen by normalize) and dc_r - c * 10^7 ticks, nothing below the grain */
  G.sub_ds = t.seconds_ - a.seconds_;
  int64_t c = G.sub_ds - G.dc_q;
  G.sub_m = G.sub_ds * TPS;
  G.sub_t = G.dc_r - c * TPS; G.sub_rem = 0;
  /* instance of lemma_ring (R1) for ds = dc_q + c, with dc_m == dc_q * 10^7 (definition of the ghost dc_m, set where the cast evaluates the product) */
  __CPROVER_assume(G.sub_m == G.dc_m + c * TPS);
  return time_point_minus(t, a);
}
void lemma_diff_of_sum(void) { h_init(); duration_t r = lemma_diff_of_sum_fn(any_tp(), VF_nondet_i64()); VF_CANARY("lemma premises satisfiable"); if (r < 0) { VF_CANARY("negative durations covered"); } }

/* ring identities of two's-complement arithmetic used above and in the reading of operator-'s contract; proved by
 * z3 (polynomial normalisation), see spec.py: (R1) the carry distributes; (R2) the tick count of operator-'s contract,
 * ds * 10^7 + t, is the value difference ds * 10^9 + t * 100 ns exactly: a - b is exact for operands on the 100 ns grain */
void lemma_ring(void) {
  int64_t q = VF_nondet_i64(), c = VF_nondet_i64(), ds = VF_nondet_i64(), t = VF_nondet_i64();
  __CPROVER_assume(q >= -DC_Q_MAX && q <= DC_Q_MAX && c >= -4 && c <= 4 && ds > -((int64_t)1 << 33) && ds < ((int64_t)1 << 33) && t > -2 * TPS && t < 2 * TPS);
  VF_CANARY("lemma premises satisfiable");
  VF_P((q + c) * TPS == q * TPS + c * TPS, "lemma (R1): (q + c) * 10^7 == q * 10^7 + c * 10^7");
  VF_P((ds * TPS + t) * NPT == ds * NPS + t * NPT, "lemma (R2): (ds * 10^7 + t) ticks are exactly ds * 10^9 + t * 100 ns: a - b is exact on the 100 ns grain");
}
