H = 'include/unifex/cancellable.hpp'
NS = r'namespace _cancellable \{'
STOP_T = r'struct stop_type : non_stop_type \{'
NONSTOP_T = r'struct non_stop_type \{'
TYPE_T = r'struct _op<NestedOp>::type : _op<NestedOp>::stop_type \{'
CB_T = r'struct stop_callback \{'

# call abstractions (C++-only callees -> event stubs) and name mapping shared by every extract
PRE = [
    # enum _op::state: enumerators get the C prefix ST_ (try_complete has a local called non_stop)
    (r'\bop::(stopped|started|completed|non_stop)\b', r'ST_\1'),
    (r'(?<![\w:.>])(stopped|started|completed)\b(?!\s*[=(])', r'ST_\1'),
    (r'using op = _op<NestedOp>;', ''),
    # the nested operation's hooks (user code)
    (r'unifex::start\((?:this->)?nested_op\(\)\)', 'EV_nested_start(this)'),
    (r'this->nested_op\(\)\.stop\(\)', 'EV_nested_stop(this)'),
    (r'op_->nested_op\(\)\.stop\(\)', 'EV_nested_stop(op_)'),
    # cleanup_ is a function pointer with two possible targets: the default no-op lambda and the lambda that
    # destroys the stop callback; calling through it is the event stub EV_cleanup
    (r'\(\*(\w+)->cleanup_\)\((\w+)\)', r'EV_cleanup(\2)'),
    (r'\[\]\(stop_type\*\) noexcept \{\s*\}', 'VF_CLEANUP_NOOP'),
    (r'\[\]\(stop_type\* self\) noexcept \{\s*static_cast<type\*>\(self\)->stop_\.template destruct<stop_callback_t>\(\);\s*\}', 'VF_CLEANUP_DESTRUCT_CB'),
    # the start frame's stack flag
    (r'std::atomic<bool> sync_complete\{false\};', '_Bool sync_complete = false;'),
    # manual_lifetime_union<StopToken, stop_callback_t> stop_: token copied out, destroyed, callback constructed in the same storage
    (r'auto token\{stop_\.template get<StopToken>\(\)\};', 'EV_token_get(this);'),
    (r'stop_\.template destruct<StopToken>\(\);', 'EV_token_destruct(this);'),
    (r'stop_\.template construct<stop_callback_t>\(token, op::stop_callback\{this\}\);', 'EV_cb_construct(this);'),
    (r'op::stop_type::start\(\)', 'stop_type_start(this)'),
]
# instrumentation of accesses (no statement is changed): every access to the operation through `self->` except the
# read-modify-write of state_ (checked by the guarantee) asserts that the operation has not been destroyed;
# loads of the stack flag are counted
POST = [
    (r'VF_FETCH_OR\(&\(self->state_\)', 'VF_FETCH_OR(&(VF_SELF_RMW(self)->state_)'),
    (r'\bself->', 'VF_ALIVE(self)->'),
    (r'\bstop_self->', 'VF_STOP_SELF(stop_self)->'),
    (r'VF_LOAD\(&\(sync_complete\)', 'VF_LOAD_FLAG(&(sync_complete)'),
]
TYPEMAP = [(r'typename op::(?:non_)?stop_type\s*\*', 'struct cop*')]

ctx = dict(cls='stop_type', members=['sync_complete_'], methods=[], pre=PRE, post=POST, typemap=TYPEMAP)
cb_ctx = dict(cls='stop_callback', members=['op_'])

SPIN_INV = ('__CPROVER_assigns(sync_complete, OP.state_, OP.cleanup_, OP.sync_complete_, G.k_phase, G.cb_state, G.pending, G.flag, G.dead, G.snap, '
            'G.s_phase, G.nstarted, G.early, G.s_stop, G.k_stop, G.flag_checks, G.flag_last)\n'
            '__CPROVER_loop_invariant(G.s_phase == S_SPIN && G.nstarted && !G.early && G.flagp == &sync_complete && G.flag == sync_complete '
            '&& (G.pending || G.flag) && INV_NOW_OR_DEAD && (!G.dead || OP_EQ_SNAP) && G.s_stop == 0 && G.flag_checks >= 1)')

SPEC = dict(
    properties=['C19', 'C02'],
    ctx=ctx,
    extracts={
        'ST_stopped': dict(file=H, kind='expr', sig=r'enum state : uint8_t \{\s*stopped = (\d+),'),
        'ST_started': dict(file=H, kind='expr', sig=r'enum state : uint8_t \{[^}]*\bstarted = (\d+),'),
        'ST_completed': dict(file=H, kind='expr', sig=r'enum state : uint8_t \{[^}]*\bcompleted = (\d+),'),
        'ST_non_stop': dict(file=H, kind='expr', sig=r'enum state : uint8_t \{[^}]*\bnon_stop = (\d+)\s*\}'),
        'state_init_nonstop': dict(file=H, kind='expr', sig=r'uint8_t state =\s*(\w+)\) noexcept\(is_nothrow_connectable_v<Sender, Receiver>\)',
                                   ctx=dict(pre=[(r'^non_stop$', 'ST_non_stop')])),
        'state_init_stop': dict(file=H, kind='expr', sig=r'std::forward<Receiver>\(receiver\),\s*(\w+)\) \{\s*stop_\.template construct<StopToken>'),
        'cleanup_init': dict(file=H, kind='expr', sig=r'void \(\*cleanup_\)\(stop_type\*\) noexcept = (\[\]\(stop_type\*\) noexcept \{\s*\});'),
        'sync_complete_init': dict(file=H, kind='expr', sig=r'std::atomic<bool>\* sync_complete_\{([^}]*)\}'),
        'try_complete': dict(file=H, sig=r'bool try_complete\(NestedOp\* self\) noexcept', must_contain=[r'cleanup_']),
        'stop_type_start': dict(file=H, sig=r'void start\(\) noexcept', within=[NS, STOP_T], loops={0: SPIN_INV},
                                must_contain=[r'unifex::start\(this->nested_op\(\)\)']),
        'stop_type_dtor': dict(file=H, sig=r'~stop_type\(\)', within=[NS, STOP_T]),
        'non_stop_start': dict(file=H, sig=r'void start\(\) noexcept', within=[NS, NONSTOP_T]),
        'stop_callback_call': dict(file=H, sig=r'void operator\(\)\(\) noexcept', within=[NS, CB_T], ctx=cb_ctx),
        'type_start': dict(file=H, sig=r'void start\(\) noexcept', within=[NS, TYPE_T], must_contain=[r'StopsEarly']),
    },
    closed_world=[dict(file=H, members=['state_', 'sync_complete_', 'cleanup_'], within=NS, allow=[
        r': state_\(state\) \{',                                   # constructor: initial value (extracted: state_init_*)
        r'std::atomic<uint8_t> state_;',
        r'void \(\*cleanup_\)\(stop_type\*\) noexcept = \[\]\(stop_type\*\) noexcept \{\s*\};',
        r'std::atomic<bool>\* sync_complete_\{nullptr\};',
    ])],
    units=[
        dict(name='try_complete', harness='h_try_complete', enforce='try_complete', props=['C19', 'C02']),
        dict(name='stop_type_start', harness='h_stop_type_start', enforce='stop_type_start', expect_loop_obligations=True, props=['C19']),
        dict(name='stop_callback', harness='h_stop_callback', enforce='stop_callback_call', props=['C19']),
        dict(name='type_start', harness='h_type_start', enforce='type_start', defines=['VF_STUB_STOP_TYPE_START'], props=['C19', 'C02']),
        dict(name='stop_type_dtor', harness='h_stop_type_dtor', enforce='stop_type_dtor', props=['C19', 'C02']),
        dict(name='non_stop_start', harness='h_non_stop_start', enforce='non_stop_start', props=['C19']),
        dict(name='lemma_cancellable_protocol', harness='lemma_cancellable_protocol', mode='lemma', props=['C19']),
        dict(name='lemma_cancellable_rely', harness='lemma_cancellable_rely', mode='lemma', props=['C19']),
        dict(name='lemma_cancellable_init', harness='lemma_cancellable_init', mode='lemma', props=['C19']),
    ],
    assumptions=[
        'every completion of the nested operation is preceded by try_complete(this) and only the caller that got true completes the receiver (documented contract of cancellable, doc/api_reference.md)',
        'the caller of try_complete keeps the operation alive until try_complete returns (true for the natural completer by the nested operation\'s contract and for a stop() hook run from the stop callback, which the winner\'s cleanup_ waits for; NOT true for the stop() hook run from the start frame: known finding C19-cancellable-start-frame-stop)',
        'NOT assumed: that the operation is still alive when the start frame executes fetch_or(started); the model lets a completer that saw `started` clear finish and the receiver destroy the op first, which is the known finding C19-cancellable-start-frame-fetch-or (native repro next to this file)',
        'the stop callback runs at most once, only while registered, and its destructor waits for a run in progress on another thread (C03, specs/stop_token)',
        'the receiver may destroy the operation as soon as the winner of try_complete has completed it (P2300 / unifex operation-state lifetime rule)',
        'the nested stop() hook calls try_complete(this) before anything else and touches the operation only if it won',
        'atomics sequentially consistent',
    ],
    drops=['memory orders', 'template genericity (NestedOp, StopToken, StopsEarly: both values of StopsEarly verified)',
           'inheritance stop_type : non_stop_type and type : stop_type flattened into one struct (the reinterpret_cast/static_cast in try_complete become one pointer cast)',
           'nested_op().start()/stop() (user code) -> event stubs EV_nested_start / EV_nested_stop; (*cleanup_)(p) -> EV_cleanup(p); the two lambdas assigned to cleanup_ -> constants',
           'manual_lifetime_union get/destruct/construct -> EV_token_get / EV_token_destruct / EV_cb_construct',
           '#pragma GCC diagnostic', 'constructors (state_ initial values are extracted as expressions), ~non_stop_type (destroys the nested op), the cancellable sender class (connect: type-level choice between non_stop_type and type)'],
)
