/* C19 (and the C02 facts "callback destroyed once / operation not touched after completion"):
 * include/unifex/cancellable.hpp -- try_complete, _op::stop_type::start, _op::stop_callback::operator(),
 * _op::type::start, ~stop_type, non_stop_type::start.  Bodies marked @BODY/@EXPR are extracted from /repo on
 * every run; everything else here is specification.
 *
 * M1: rely/guarantee on the state_ bits between three parties
 *     S  the start frame  (type::start -> stop_type::start)       owns bit `started`
 *     K  the stop callback (runs at most once, C03)                owns bit `stopped`
 *     C  completers = callers of try_complete                      own  bit `completed`
 * plus the ghosts that say what each party may still do (struct proto).  M4: lemma units over the step relations
 * used by the guarantee / event stubs and over the relies used by vf_interfere. */
#include <stddef.h>
#include <stdint.h>

struct cop {                    /* _op<NestedOp>::stop_type flattened onto its base non_stop_type (nested_op_storage_ dropped) */
  uint8_t state_;
  int cleanup_;                 /* function pointer with two possible targets */
  _Bool* sync_complete_;
};
struct stop_callback { struct cop* op_; };
#define VF_CLEANUP_NOOP 0
#define VF_CLEANUP_DESTRUCT_CB 1

enum { S_PRE, S_IN, S_SPIN, S_OUT };     /* start frame: before nested start / after it, undecided / saw `completed`, spinning on the stack flag / will not touch the op or the flag again */
enum { K_IDLE, K_RUNNING, K_DONE };      /* stop callback: not fired / between its fetch_or and the point after which it no longer touches the op / finished */
enum { CB_NONE, CB_LIVE, CB_DESTROYED }; /* the stop callback object in stop_ */
enum { P_S, P_C, P_K, P_D };             /* which party the verified code belongs to */
enum { TOK_LIVE, TOK_COPIED, TOK_DESTROYED };

/* protocol state: the shared word and the auxiliary variables the relies talk about */
struct proto {
  uint8_t w;                    /* state_ */
  uint8_t s_phase, k_phase, cb;
  _Bool nstarted;               /* nested start() has been called: completers exist from here on */
  _Bool early;                  /* stops-early mode: nested stop() was called instead of start() */
  _Bool pending;                /* the winner of try_complete saw !started and has not yet written the start frame's stack flag */
  _Bool flag;                   /* the stack flag */
  _Bool dead;                   /* the receiver has been completed and has destroyed the operation */
  _Bool s_stop, k_stop;         /* the start frame / the callback decided to call nested stop() */
};

struct vf_ghost {
  int me;
  _Bool k_is_me;                /* the verified code runs inside the stop callback (on its thread) */
  _Bool nonstop;                /* the operation is a non_stop_type (state_ == non_stop): no stop_type members exist */
  uint8_t lin_old, lin_new; unsigned lin_count;   /* the verified call's own write to state_ */
  uint8_t s_phase, k_phase, cb_state;
  _Bool nstarted, early, pending, flag, dead, s_stop, k_stop;
  struct cop snap;              /* the operation's fields when it died */
  _Bool* flagp;                 /* address of the start frame's stack flag, captured at nested start() */
  unsigned start_calls, stop_calls, cleanup_calls, flag_stores, cb_constructs;
  unsigned flag_checks; _Bool flag_last;          /* loads of the stack flag by the start frame, and the last value seen */
  int tok;
  _Bool won;                    /* this try_complete call won */
  _Bool hook_won;               /* the stop() hook called by this code won try_complete */
};
static struct vf_ghost G;
static struct cop OP;
static struct stop_callback CBK;
static _Bool SFLAG;             /* the start frame's stack flag as seen by a completer */
static _Bool StopsEarly;        /* template parameter: both values verified */

static const uint8_t ST_stopped = /*@EXPR ST_stopped*/;
static const uint8_t ST_started = /*@EXPR ST_started*/;
static const uint8_t ST_completed = /*@EXPR ST_completed*/;
static const uint8_t ST_non_stop = /*@EXPR ST_non_stop*/;
#define STATE_INIT_NONSTOP (/*@EXPR state_init_nonstop*/)
#define STATE_INIT_STOP (/*@EXPR state_init_stop*/)
#define CLEANUP_INIT (/*@EXPR cleanup_init*/)
#define SYNC_COMPLETE_INIT (/*@EXPR sync_complete_init*/)

static void vf_guar(void* p, uint64_t o, uint64_t n);
#define VF_G(p, o, n) vf_guar((void*)(p), (uint64_t)(o), (uint64_t)(n))
#include "vf.h"

/* ------------------------------------------------------------------------------------------------
 * protocol predicates (specification).  b(x) = bit x of the word.
 * ---------------------------------------------------------------------------------------------- */
#define HAS(w, bit) (((w) & (bit)) != 0)
#define IMP(a, b) (!(a) || (b))
/* invariant of a stoppable operation (stop_type); every party's requires, every rely and the lemmas use it */
#define INVV(w, sp, kp, cb, ns, ea, pe, fl, de, ss, ks) ( (w) <= (ST_stopped | ST_started | ST_completed) \
  && (sp) <= S_OUT && (kp) <= K_DONE && (cb) <= CB_DESTROYED \
  && (HAS(w, ST_stopped) == ((kp) != K_IDLE)) \
  && IMP(HAS(w, ST_started), (sp) == S_SPIN || (sp) == S_OUT) \
  && IMP((sp) == S_PRE || (sp) == S_IN, !HAS(w, ST_started)) \
  && IMP((sp) == S_SPIN, HAS(w, ST_started) && HAS(w, ST_completed) && ((pe) || (fl))) \
  && IMP((sp) == S_OUT && !HAS(w, ST_started), (fl)) \
  && (((sp) != S_PRE) == (ns)) \
  && !((ns) && (ea)) \
  && IMP(HAS(w, ST_completed), (ns) || (ea)) \
  && IMP((pe), HAS(w, ST_completed) && !(fl) && ((sp) == S_IN || (sp) == S_SPIN) && (cb) != CB_DESTROYED && !(de)) \
  && IMP((fl), HAS(w, ST_completed) && (ns)) \
  && IMP(HAS(w, ST_completed) && (sp) == S_IN, (pe) || (fl)) \
  && IMP((de), HAS(w, ST_completed) && (cb) == CB_DESTROYED) \
  && IMP((cb) == CB_DESTROYED, HAS(w, ST_completed)) \
  && IMP((kp) == K_RUNNING, (cb) == CB_LIVE)      /* a running callback keeps its own destructor waiting (C03) */ \
  && IMP((kp) != K_IDLE, (cb) != CB_NONE) \
  && IMP((ns) || (ea), (cb) != CB_NONE) \
  && IMP((ss), HAS(w, ST_started) && HAS(w, ST_stopped)) \
  && IMP((ks), HAS(w, ST_started) && HAS(w, ST_stopped)) \
  && !((ss) && (ks)) )
#define INV(p) INVV((p).w, (p).s_phase, (p).k_phase, (p).cb, (p).nstarted, (p).early, (p).pending, (p).flag, (p).dead, (p).s_stop, (p).k_stop)

#define NEWLY(a, b, bit) (!HAS((a).w, bit) && HAS((b).w, bit))
/* common to every rely: bits are only added, phases only advance, history flags only rise, a promised flag write is
 * not forgotten, the flag is written only by the winner that promised it, the callback is destroyed only by the
 * winner's cleanup_ after it wrote the flag, the op dies only after that */
#define MONO(a, b) ( ((a).w & (b).w) == (a).w \
  && (b).s_phase >= (a).s_phase && (b).k_phase >= (a).k_phase && (b).cb >= (a).cb \
  && IMP((a).nstarted, (b).nstarted) && IMP((a).early, (b).early) && IMP((a).flag, (b).flag) && IMP((a).dead, (b).dead) \
  && IMP((a).s_stop, (b).s_stop) && IMP((a).k_stop, (b).k_stop) \
  && IMP((a).pending, (b).pending || (b).flag) \
  && IMP((b).pending, (a).pending || NEWLY(a, b, ST_completed)) \
  && IMP((b).flag && !(a).flag, (a).pending || NEWLY(a, b, ST_completed)) \
  && IMP(NEWLY(a, b, ST_stopped), (a).cb == CB_LIVE)            /* the callback fires only while registered */ \
  && IMP(NEWLY(a, b, ST_completed), !(a).dead) )
/* the environment never constructs the callback (only type::start does) */
#define ENV_MONO(a, b) (MONO(a, b) && IMP((a).cb == CB_NONE, (b).cb == CB_NONE))

/* what the environment of the START FRAME may do (K and the completers).  `started`, s_phase, nstarted, early, s_stop are mine.
 * A completer that wins while `started` is clear owes me the flag; one that wins afterwards never writes it.
 * The winner's cleanup_ (callback destructor) waits for a running callback, and only then can the op die (C03). */
#define RELY_S(a, b) ( ENV_MONO(a, b) && INV(b) \
  && ((b).w & ST_started) == ((a).w & ST_started) && (b).s_phase == (a).s_phase && (b).nstarted == (a).nstarted && (b).early == (a).early && (b).s_stop == (a).s_stop \
  && IMP(NEWLY(a, b, ST_completed), (a).nstarted) \
  && IMP(NEWLY(a, b, ST_completed) && HAS((a).w, ST_started), !(b).pending && (b).flag == (a).flag) \
  && IMP(NEWLY(a, b, ST_completed) && !HAS((a).w, ST_started) && (a).nstarted, (b).pending || (b).flag) \
  && IMP((b).k_stop && !(a).k_stop, NEWLY(a, b, ST_stopped) && HAS((a).w, ST_started) && !HAS((a).w, ST_completed)) \
  && IMP((b).cb == CB_DESTROYED && (a).cb != CB_DESTROYED, (b).k_phase != K_RUNNING) \
  && IMP((b).dead && !(a).dead, (b).k_phase != K_RUNNING) )

/* environment of the STOP CALLBACK while it runs: the start frame and the completers.  A completer may win, but its
 * cleanup_ (destructor of this very callback) blocks until I return, so the callback object and the op stay alive (C03). */
#define RELY_K(a, b) ( ENV_MONO(a, b) && INV(b) \
  && ((b).w & ST_stopped) == ((a).w & ST_stopped) && (b).k_phase == (a).k_phase && (b).k_stop == (a).k_stop \
  && (b).cb == (a).cb && (b).dead == (a).dead \
  && IMP((b).s_stop && !(a).s_stop, NEWLY(a, b, ST_started) && HAS((a).w, ST_stopped) && !HAS((a).w, ST_completed)) )

/* environment of a try_complete CALL: start frame, callback, other try_complete callers.  The caller keeps the op
 * alive (assumption).  Once I have won, nobody else writes the flag or destroys the callback. */
#define RELY_C(a, b) ( ENV_MONO(a, b) && INV(b) && (b).dead == (a).dead && (b).early == (a).early \
  && IMP(G.won, (b).pending == (a).pending && (b).flag == (a).flag && (b).cb == (a).cb) \
  && IMP(G.k_is_me, (b).cb == (a).cb && (b).k_phase == (a).k_phase) )

/* environment of the DESTRUCTOR: the owner destroys the op when no start frame and no completer is active; only the
 * stop callback can still fire (and the destructor's cleanup_ waits for it). */
#define RELY_D(a, b) ( ENV_MONO(a, b) && INV(b) \
  && ((b).w & (ST_started | ST_completed)) == ((a).w & (ST_started | ST_completed)) && (b).s_phase == (a).s_phase \
  && (b).nstarted == (a).nstarted && (b).early == (a).early && (b).pending == (a).pending && (b).flag == (a).flag \
  && (b).dead == (a).dead && (b).cb == (a).cb && (b).s_stop == (a).s_stop )

/* a non_stop_type: the only step anybody takes is completed |= 1 */
#define RELY_NONSTOP(ow, nw) ((nw) == (ow) || (nw) == ((ow) | ST_completed))

/* guarantee: the step each party takes on the word */
#define STEP_S(o, n) ((n) == ((o) | ST_started))
#define STEP_K(o, n) ((n) == ((o) | ST_stopped))
#define STEP_C(o, n) ((n) == ((o) | ST_completed))

#define PROTO_NOW(p) do { (p).w = OP.state_; (p).s_phase = G.s_phase; (p).k_phase = G.k_phase; (p).cb = G.cb_state; (p).nstarted = G.nstarted; \
  (p).early = G.early; (p).pending = G.pending; (p).flag = G.flag; (p).dead = G.dead; (p).s_stop = G.s_stop; (p).k_stop = G.k_stop; } while (0)
/* the invariant on the live objects; once the op is dead its word is gone and only the frozen ghosts remain */
#define INV_NOW INVV(OP.state_, G.s_phase, G.k_phase, G.cb_state, G.nstarted, G.early, G.pending, G.flag, G.dead, G.s_stop, G.k_stop)
#define INV_NOW_OR_DEAD (G.dead ? (!G.pending && G.cb_state == CB_DESTROYED && G.s_phase <= S_OUT) : INV_NOW)
#define OP_EQ_SNAP (OP.state_ == G.snap.state_ && OP.cleanup_ == G.snap.cleanup_ && OP.sync_complete_ == G.snap.sync_complete_)

/* the operation dies: its memory is gone; whatever is there now must never be looked at or written again */
static void vf_op_dies(void) {
  struct cop f;
  OP.state_ = f.state_; OP.cleanup_ = f.cleanup_; OP.sync_complete_ = f.sync_complete_;
  G.snap = OP;
  G.dead = 1;
}

/* environment step: havoc the protocol state subject to the rely of the party under verification */
static void vf_interfere(void) {
  if (G.dead) return;                       /* nothing is left to interfere with */
  if (G.nonstop) {
    uint8_t n = VF_nondet_u8();
    __CPROVER_assume(RELY_NONSTOP(OP.state_, n));
    OP.state_ = n;
    return;
  }
  struct proto a, b;
  PROTO_NOW(a);
  b.w = VF_nondet_u8(); b.s_phase = VF_nondet_u8(); b.k_phase = VF_nondet_u8(); b.cb = VF_nondet_u8();
  b.nstarted = VF_nondet_bool(); b.early = VF_nondet_bool(); b.pending = VF_nondet_bool(); b.flag = VF_nondet_bool();
  b.dead = VF_nondet_bool(); b.s_stop = VF_nondet_bool(); b.k_stop = VF_nondet_bool();
  if (G.me == P_S) __CPROVER_assume(RELY_S(a, b));
  else if (G.me == P_K) __CPROVER_assume(RELY_K(a, b));
  else if (G.me == P_C) __CPROVER_assume(RELY_C(a, b));
  else __CPROVER_assume(RELY_D(a, b));
  OP.state_ = b.w; G.s_phase = b.s_phase; G.k_phase = b.k_phase; G.cb_state = b.cb; G.nstarted = b.nstarted; G.early = b.early;
  G.pending = b.pending; G.s_stop = b.s_stop; G.k_stop = b.k_stop;
  if (b.flag && !a.flag) {                  /* a completer wrote the start frame's stack flag */
    G.flag = 1;
    if (G.me == P_S) { if (G.flagp != NULL) *G.flagp = 1; } else SFLAG = 1;
  }
  if (b.dead && !a.dead) vf_op_dies();
}

/* guarantee of the verified code, checked at each of its atomic writes */
static void vf_guar(void* p, uint64_t o, uint64_t n) {
  if (p == (void*)&OP.state_) {
    VF_P(G.lin_count == 0, "guarantee: each party writes state_ at most once per call");
    if (G.me == P_S) {
      VF_P(STEP_S(o, n), "guarantee: the start frame only sets `started` (one atomic read-modify-write)");
      VF_P(G.nstarted && G.s_phase == S_IN, "the start frame sets `started` only after nested start(), once");
      VF_P(G.flag_checks >= 1 && !G.flag_last, "the start frame touches state_ only after it checked the stack flag and found it clear");
      VF_P(!G.dead, "start frame's fetch_or(started) not enabled after a completer that saw !started may have destroyed the operation");
      if (G.dead) G.snap.state_ = (uint8_t)n;   /* reported here, once; later obligations look for FURTHER accesses */
      G.s_stop = (o == ST_stopped);
      G.s_phase = HAS(o, ST_completed) ? S_SPIN : S_OUT;
    } else if (G.me == P_K) {
      VF_P(STEP_K(o, n), "guarantee: the stop callback only sets `stopped` (one atomic read-modify-write)");
      VF_P(!G.dead, "the stop callback never writes to a destroyed operation");
      G.k_stop = (o == ST_started);
      G.k_phase = K_RUNNING;
    } else if (G.me == P_C) {
      VF_P(STEP_C(o, n), "guarantee: try_complete only sets `completed` (one atomic read-modify-write)");
      VF_P(!G.dead, "try_complete never writes to a destroyed operation");
      if (!HAS(o, ST_completed)) {
        G.won = 1;
        if (!G.nonstop && !HAS(o, ST_started) && G.nstarted) G.pending = 1;   /* I owe the start frame its flag */
      }
    } else {
      VF_P(0, "guarantee: the destructor does not write state_");
    }
    G.lin_old = (uint8_t)o; G.lin_new = (uint8_t)n; G.lin_count++;
  } else if (p == (void*)&SFLAG) {
    VF_P(G.me == P_C && G.won && G.pending, "the stack flag is written only by the try_complete winner that saw `started` clear, once");
    VF_P(G.s_phase == S_IN || G.s_phase == S_SPIN, "the stack flag is written only while the start frame is still inside start()");
    VF_P(n == 1, "the stack flag only goes to true");
    G.flag = 1; G.pending = 0; G.flag_stores++;
  } else {
    VF_P(0, "atomic write to an unexpected location");
  }
}

/* access instrumentation (spec.py POST) */
#define VF_ALIVE(p) ({ VF_P(!G.dead, "no access to the operation state after a completer may have destroyed it"); (p); })
#define VF_SELF_RMW(p) (p)
#define VF_STOP_SELF(p) ({ VF_P(!G.nonstop, "stop_type members are accessed only when non_stop is clear"); (p); })
#define VF_LOAD_FLAG(p, ...) ({ vf_interfere(); G.flag_checks = 1; G.flag_last = *(p); *(p); })

/* ------------------------------------------------------------------------------------------------
 * event stubs
 * ---------------------------------------------------------------------------------------------- */
/* nested_op().start(): from here on completers exist; one may run to completion inline (same thread) */
static void EV_nested_start(struct cop* self) {
  VF_CANARY("nested start() reachable");
  VF_P(self == &OP && !G.dead, "nested start() on the live operation");
  VF_P(G.start_calls == 0 && !G.nstarted, "nested start() is called at most once");
  VF_P(!G.early && G.stop_calls == 0, "nested start() is never called after the stops-early stop()");
  G.start_calls++;
  if (G.nonstop) { vf_interfere(); return; }
  VF_P(G.s_phase == S_PRE && G.cb_state == CB_LIVE && OP.cleanup_ == VF_CLEANUP_DESTRUCT_CB, "the stop callback is registered and cleanup_ installed before completion becomes possible");
  VF_P(OP.sync_complete_ != NULL, "the stack flag is published in sync_complete_ before nested start() (a completer that sees `started` clear notifies through it)");
  G.flagp = OP.sync_complete_;
  VF_P(G.flagp == NULL || *G.flagp == 0, "the stack flag starts out false");
  G.nstarted = 1; G.s_phase = S_IN;
  vf_interfere();
}

/* (*cleanup_)(op): no-op, or the destructor of the stop callback, which waits for a run in progress on another thread */
static void EV_cleanup(struct cop* self) {
  VF_CANARY("cleanup_ reachable");
  VF_P(self == &OP && !G.dead, "cleanup_ on the live operation");
  VF_P(!G.nonstop, "cleanup_ is never invoked on a non_stop_type");
  VF_P(G.cleanup_calls == 0, "cleanup_ runs at most once per call");
  G.cleanup_calls++;
  if (OP.cleanup_ == VF_CLEANUP_DESTRUCT_CB) {
    VF_P(G.cb_state == CB_LIVE, "the stop callback is destroyed exactly once (constructed, not yet destroyed)");
    VF_P(!G.pending, "the stack flag is written before the winner blocks in the callback destructor");
    vf_interfere();                          /* the destructor may block while the callback runs elsewhere */
    if (G.k_phase == K_RUNNING) G.k_phase = K_DONE;   /* another thread's run has finished; a run on this thread touches the op no more */
    G.cb_state = CB_DESTROYED;
  } else {
    VF_P(G.cb_state == CB_NONE, "a registered stop callback is never left behind by a no-op cleanup_");
  }
}

/* nested_op().stop(): user hook; its first action is try_complete(this); if it wins it completes the receiver,
 * which may destroy the operation */
static void EV_nested_stop(struct cop* self) {
  VF_CANARY("nested stop() reachable");
  VF_P(self == &OP, "nested stop() on this operation");
  VF_P(G.stop_calls == 0, "nested stop() is called at most once");
  G.stop_calls++;
  if (!G.nstarted) {
    VF_P(G.cb_state == CB_LIVE && OP.cleanup_ == VF_CLEANUP_DESTRUCT_CB, "stops-early stop() only with the stop callback registered and cleanup_ installed (the hook's try_complete destroys it)");
    VF_P(StopsEarly && G.me == P_S && G.start_calls == 0, "stop() instead of start() only in the stops-early mode, from the start frame");
    VF_P(HAS(OP.state_, ST_stopped), "stops-early stop() only after a stop request");
    G.early = 1;
  } else {
    VF_P(G.lin_count == 1 && G.lin_new == (ST_started | ST_stopped), "nested stop() only with started and stopped set and completed clear at the caller's linearisation");
    VF_P(G.me == P_S ? G.lin_old == ST_stopped : (G.me == P_K && G.lin_old == ST_started), "nested stop() is called by the party whose read-modify-write found exactly the other one's bit");
  }
  vf_interfere();                            /* the hook starts running; other threads move */
  VF_P(!G.dead, "nested stop() not enabled concurrently with a completer that can destroy the operation (the op must still be alive when the hook calls try_complete)");
  if (!G.dead && !HAS(OP.state_, ST_completed) && VF_nondet_bool()) {
    /* the hook wins try_complete (contract of try_complete: `started` set or no start frame => no flag; cleanup_ once) */
    OP.state_ |= ST_completed;
    G.hook_won = 1;
    if (G.k_phase == K_RUNNING) G.k_phase = K_DONE;
    G.cb_state = CB_DESTROYED;
    if (VF_nondet_bool()) vf_op_dies();      /* ... completes the receiver, which may destroy the operation */
  }
}

static void EV_token_get(struct cop* self) {
  VF_P(G.tok == TOK_LIVE, "the stop token is copied out while it is alive");
  G.tok = TOK_COPIED;
}
static void EV_token_destruct(struct cop* self) {
  VF_P(G.tok == TOK_COPIED, "the stop token in stop_ is destroyed exactly once, after it was copied");
  G.tok = TOK_DESTROYED;
}
static void EV_cb_construct(struct cop* self) {
  VF_CANARY("callback construction reachable");
  VF_P(self == &OP && G.tok == TOK_DESTROYED, "the callback is constructed in stop_ only after the token that shared the storage was destroyed");
  VF_P(G.cb_state == CB_NONE && G.cb_constructs == 0, "the stop callback is constructed exactly once");
  G.cb_constructs++;
  G.cb_state = CB_LIVE;
  vf_interfere();                            /* from here on the callback may fire (inline if stop was already requested) */
}

/* ------------------------------------------------------------------------------------------------
 * functions under contract
 * ---------------------------------------------------------------------------------------------- */
#define COUNTERS_ZERO (G.lin_count == 0 && G.start_calls == 0 && G.stop_calls == 0 && G.cleanup_calls == 0 && G.flag_stores == 0 && G.cb_constructs == 0 && G.flag_checks == 0 && !G.won && !G.hook_won)

/* C: try_complete.  Top-level: true for exactly the caller whose fetch_or found `completed` clear; the winner of a
 * stoppable op notifies a start frame that has not set `started` yet, then runs cleanup_ once; a loser touches nothing. */
_Bool try_complete(struct cop* self)
__CPROVER_requires(self == &OP && G.me == P_C && COUNTERS_ZERO && !G.dead)
__CPROVER_requires(G.nonstop ? (OP.state_ == ST_non_stop || OP.state_ == (ST_non_stop | ST_completed))
                             : (INV_NOW && (G.nstarted || G.early) && G.cb_state != CB_NONE && OP.cleanup_ == VF_CLEANUP_DESTRUCT_CB
                                && OP.sync_complete_ == (G.nstarted ? &SFLAG : SYNC_COMPLETE_INIT) && SFLAG == G.flag && IMP(G.k_is_me, G.k_phase == K_RUNNING)))
__CPROVER_assigns(OP, G, SFLAG)
__CPROVER_ensures(G.lin_count == 1 && G.lin_new == (G.lin_old | ST_completed))                       /* one RMW that sets exactly `completed` */
__CPROVER_ensures(__CPROVER_return_value == !HAS(G.lin_old, ST_completed))                            /* true for exactly the first fetch_or(completed) */
__CPROVER_ensures(!__CPROVER_return_value ==> (G.cleanup_calls == 0 && G.flag_stores == 0))           /* a loser does nothing else */
__CPROVER_ensures((__CPROVER_return_value && !G.nonstop) ==> (G.cleanup_calls == 1 && G.cb_state == CB_DESTROYED)) /* the winner destroys the stop callback, once */
__CPROVER_ensures((__CPROVER_return_value && !G.nonstop) ==> G.k_phase != K_RUNNING)                /* ... and returns only when no callback run is in progress elsewhere */
__CPROVER_ensures((__CPROVER_return_value && !G.nonstop && !HAS(G.lin_old, ST_started) && G.nstarted) ==> (G.flag_stores == 1 && SFLAG == 1)) /* start frame notified */
__CPROVER_ensures((__CPROVER_return_value && HAS(G.lin_old, ST_started)) ==> G.flag_stores == 0)      /* never writes a flag whose frame may be gone */
__CPROVER_ensures(__CPROVER_return_value ==> !G.pending)                                              /* the winner leaves no flag write owing */
__CPROVER_ensures(G.nonstop ==> (G.cleanup_calls == 0 && G.flag_stores == 0))
__CPROVER_ensures(!G.dead)
/*@BODY try_complete*/

/* S: stop_type::start */
#define S_START_REQ(self) ((self) == &OP && G.me == P_S && !G.nonstop && !G.dead && INV_NOW && G.s_phase == S_PRE && !G.early \
   && G.cb_state == CB_LIVE && OP.cleanup_ == VF_CLEANUP_DESTRUCT_CB && !G.flag && !G.pending && G.flagp == NULL \
   && G.lin_count == 0 && G.start_calls == 0 && G.stop_calls == 0 && G.cleanup_calls == 0 && G.flag_stores == 0 && G.flag_checks == 0 && !G.hook_won)
#ifndef VF_STUB_STOP_TYPE_START
void stop_type_start(struct cop* self)
__CPROVER_requires(S_START_REQ(self))
__CPROVER_assigns(OP, G, SFLAG)
__CPROVER_ensures(G.start_calls == 1)                                                                 /* nested start() exactly once */
__CPROVER_ensures(G.lin_count <= 1 && (G.lin_count == 1 ==> G.lin_new == (G.lin_old | ST_started)))
__CPROVER_ensures(G.lin_count == 0 ==> G.flag)                                                        /* left without touching state_ only because the flag was set */
__CPROVER_ensures((G.lin_count == 1 && HAS(G.lin_old, ST_completed)) ==> G.flag)                      /* saw `completed`: waited for the flag before returning */
__CPROVER_ensures(!G.pending)                                                                        /* nobody still owes a write to the (now gone) stack flag */
__CPROVER_ensures(G.stop_calls == ((G.lin_count == 1 && G.lin_old == ST_stopped) ? 1 : 0))            /* stop() iff stop was requested before `started` was set and nothing completed */
__CPROVER_ensures(!G.dead || OP_EQ_SNAP)                                                              /* nothing written to the operation after it died */
__CPROVER_ensures(G.cleanup_calls == 0 && G.flag_stores == 0)
/*@BODY stop_type_start*/
#else
/* contract stub for callers (type::start): asserts the requires, performs the contract's effects */
static void stop_type_start(struct cop* self) {
  VF_P(self == &OP && G.cb_state == CB_LIVE && OP.cleanup_ == VF_CLEANUP_DESTRUCT_CB && G.stop_calls == 0, "stop_type::start() is entered with the stop callback registered, cleanup_ installed and no stop() call made");
  VF_A(S_START_REQ(self), "precondition of stop_type::start at the call site");
  G.start_calls++; G.nstarted = 1; G.s_phase = S_OUT;
  if (VF_nondet_bool()) { OP.state_ |= ST_completed; G.cb_state = CB_DESTROYED; G.flag = VF_nondet_bool(); if (!HAS(OP.state_, ST_started)) G.flag = 1; vf_op_dies(); }
  else { OP.state_ |= ST_started; }
}
#endif

/* K: stop_callback::operator() */
void stop_callback_call(struct stop_callback* self)
__CPROVER_requires(self == &CBK && CBK.op_ == &OP && G.me == P_K && G.k_is_me && !G.nonstop && !G.dead && INV_NOW && COUNTERS_ZERO)
__CPROVER_requires(G.k_phase == K_IDLE && G.cb_state == CB_LIVE && OP.cleanup_ == VF_CLEANUP_DESTRUCT_CB)
__CPROVER_assigns(OP, G, CBK, SFLAG)
__CPROVER_ensures(G.lin_count == 1 && G.lin_new == (G.lin_old | ST_stopped))
__CPROVER_ensures(G.stop_calls == ((G.lin_old == ST_started) ? 1 : 0))                                /* stop() iff the op was started and neither stopped nor completed */
__CPROVER_ensures(G.start_calls == 0 && G.cleanup_calls == 0 && G.flag_stores == 0)
__CPROVER_ensures(!G.dead || (OP_EQ_SNAP && G.hook_won))                                              /* the op can die under the callback only by the callback's own stop() hook, and is not touched afterwards */
__CPROVER_ensures(CBK.op_ == &OP)
/*@BODY stop_callback_call*/

/* T: _op::type::start */
void type_start(struct cop* self)
__CPROVER_requires(self == &OP && G.me == P_S && !G.nonstop && !G.dead && INV_NOW && COUNTERS_ZERO && G.flagp == NULL)
__CPROVER_requires(OP.state_ == STATE_INIT_STOP && G.s_phase == S_PRE && !G.early && G.cb_state == CB_NONE && G.tok == TOK_LIVE && !G.flag && !G.pending)
__CPROVER_requires(OP.cleanup_ == CLEANUP_INIT && OP.sync_complete_ == SYNC_COMPLETE_INIT)
__CPROVER_assigns(OP, G, SFLAG)
__CPROVER_ensures(G.cb_constructs == 1 && G.tok == TOK_DESTROYED)                                     /* token destroyed, callback constructed, once each */
__CPROVER_ensures(G.start_calls + G.stop_calls >= 1 && G.start_calls <= 1)
__CPROVER_ensures(G.early ==> (StopsEarly && G.start_calls == 0 && G.stop_calls == 1))                /* stops-early: stop() INSTEAD of start() */
__CPROVER_ensures(!G.early ==> G.start_calls == 1)
__CPROVER_ensures(!StopsEarly ==> !G.early)
__CPROVER_ensures(!G.dead || OP_EQ_SNAP)
/*@BODY type_start*/

/* D: ~stop_type */
void stop_type_dtor(struct cop* self)
__CPROVER_requires(self == &OP && G.me == P_D && !G.nonstop && !G.dead && INV_NOW && COUNTERS_ZERO)
__CPROVER_requires((G.s_phase == S_PRE || G.s_phase == S_OUT) && !G.pending && IMP(HAS(OP.state_, ST_completed), G.cb_state == CB_DESTROYED))   /* no start frame, no completer active */
__CPROVER_requires(OP.cleanup_ == (G.cb_state == CB_NONE ? CLEANUP_INIT : VF_CLEANUP_DESTRUCT_CB))
__CPROVER_assigns(OP, G, SFLAG)
__CPROVER_ensures(G.lin_count == 0)
__CPROVER_ensures(G.cleanup_calls == ((HAS(OP.state_, ST_started) && !HAS(OP.state_, ST_completed)) ? 1 : 0))  /* cleanup_ iff started and never completed */
__CPROVER_ensures(G.nstarted ==> G.cb_state == CB_DESTROYED)                                          /* a started op never dies with its callback still registered */
__CPROVER_ensures(G.cb_state == CB_DESTROYED ==> (G.k_phase != K_RUNNING))                            /* ... nor while that callback is running */
__CPROVER_ensures(G.start_calls == 0 && G.stop_calls == 0 && G.flag_stores == 0)
/*@BODY stop_type_dtor*/

/* non_stop_type::start */
void non_stop_start(struct cop* self)
__CPROVER_requires(self == &OP && G.nonstop && G.me == P_S && !G.dead && COUNTERS_ZERO && OP.state_ == STATE_INIT_NONSTOP && !G.nstarted && !G.early)
__CPROVER_assigns(OP, G, SFLAG)
__CPROVER_ensures(G.start_calls == 1 && G.stop_calls == 0 && G.lin_count == 0 && G.cleanup_calls == 0)
/*@BODY non_stop_start*/

/* ------------------------------------------------------------------------------------------------
 * harnesses
 * ---------------------------------------------------------------------------------------------- */
static void h_zero(int me) {
  G.me = me; G.k_is_me = 0; G.nonstop = 0;
  G.lin_count = 0; G.start_calls = 0; G.stop_calls = 0; G.cleanup_calls = 0; G.flag_stores = 0; G.cb_constructs = 0; G.flag_checks = 0; G.flag_last = 0;
  G.won = 0; G.hook_won = 0; G.flagp = NULL; G.dead = 0; G.tok = TOK_LIVE;
  StopsEarly = VF_nondet_bool();
}
/* an arbitrary protocol state satisfying the invariant */
static void h_any_state(void) {
  OP.state_ = VF_nondet_u8(); G.s_phase = VF_nondet_u8(); G.k_phase = VF_nondet_u8(); G.cb_state = VF_nondet_u8();
  G.nstarted = VF_nondet_bool(); G.early = VF_nondet_bool(); G.pending = VF_nondet_bool(); G.flag = VF_nondet_bool();
  G.s_stop = VF_nondet_bool(); G.k_stop = VF_nondet_bool();
  __CPROVER_assume(INV_NOW);
}
void h_try_complete(void) {
  h_zero(P_C);
  G.nonstop = VF_nondet_bool();
  if (G.nonstop) {
    OP.state_ = VF_nondet_bool() ? ST_non_stop : (uint8_t)(ST_non_stop | ST_completed);
    G.nstarted = 1; G.early = 0; G.pending = 0; G.flag = 0; G.cb_state = CB_NONE; G.s_phase = S_OUT; G.k_phase = K_IDLE; G.s_stop = 0; G.k_stop = 0;
  } else {
    h_any_state();
    __CPROVER_assume((G.nstarted || G.early) && G.cb_state != CB_NONE);
    G.k_is_me = VF_nondet_bool();
    if (G.k_is_me) __CPROVER_assume(G.k_phase == K_RUNNING);
    OP.cleanup_ = VF_CLEANUP_DESTRUCT_CB;
    OP.sync_complete_ = G.nstarted ? &SFLAG : SYNC_COMPLETE_INIT;
    SFLAG = G.flag;
  }
  _Bool r = try_complete(&OP);
  VF_CANARY("after try_complete");
  if (r) { VF_CANARY("try_complete can win"); if (G.flag_stores) { VF_CANARY("winner notifies the start frame"); } } else { VF_CANARY("try_complete can lose"); }
  if (G.nonstop) { VF_CANARY("try_complete on a non_stop_type"); }
}
void h_stop_type_start(void) {
  h_zero(P_S);
  OP.state_ = VF_nondet_u8(); G.k_phase = VF_nondet_u8(); G.k_stop = 0; G.s_stop = 0;
  G.s_phase = S_PRE; G.nstarted = 0; G.early = 0; G.pending = 0; G.flag = 0; G.cb_state = CB_LIVE;
  __CPROVER_assume(INV_NOW);
  OP.cleanup_ = VF_CLEANUP_DESTRUCT_CB; OP.sync_complete_ = SYNC_COMPLETE_INIT;
  stop_type_start(&OP);
  VF_CANARY("after stop_type::start");
  if (G.lin_count == 0) { VF_CANARY("start frame can leave through the synchronous-completion check"); }
  if (G.stop_calls) { VF_CANARY("start frame can call stop()"); }
  if (G.lin_count == 1 && HAS(G.lin_old, ST_completed)) { VF_CANARY("start frame can see completed and spin"); }
  if (G.dead) { VF_CANARY("operation can be destroyed during start()"); }
}
void h_stop_callback(void) {
  h_zero(P_K);
  h_any_state();
  __CPROVER_assume(G.k_phase == K_IDLE && G.cb_state == CB_LIVE);
  G.k_is_me = 1;
  OP.cleanup_ = VF_CLEANUP_DESTRUCT_CB; OP.sync_complete_ = G.nstarted ? &SFLAG : SYNC_COMPLETE_INIT;
  CBK.op_ = &OP;
  /* the callback starts running: from its fetch_or on it is `running` (C03) */
  G.k_phase = K_IDLE;
  stop_callback_call(&CBK);
  VF_CANARY("after stop_callback::operator()");
  if (G.stop_calls) { VF_CANARY("callback can call stop()"); } else { VF_CANARY("callback can skip stop()"); }
  if (G.dead) { VF_CANARY("the callback's own stop() hook can complete and destroy the op"); }
}
void h_type_start(void) {
  h_zero(P_S);
  OP.state_ = STATE_INIT_STOP; OP.cleanup_ = CLEANUP_INIT; OP.sync_complete_ = SYNC_COMPLETE_INIT;
  G.s_phase = S_PRE; G.k_phase = K_IDLE; G.cb_state = CB_NONE; G.nstarted = 0; G.early = 0; G.pending = 0; G.flag = 0; G.s_stop = 0; G.k_stop = 0;
  type_start(&OP);
  VF_CANARY("after type::start");
  if (G.early) { VF_CANARY("stops-early path reachable"); } else { VF_CANARY("normal start path reachable"); }
}
void h_stop_type_dtor(void) {
  h_zero(P_D);
  h_any_state();
  __CPROVER_assume((G.s_phase == S_PRE || G.s_phase == S_OUT) && !G.pending && IMP(HAS(OP.state_, ST_completed), G.cb_state == CB_DESTROYED));
  OP.cleanup_ = (G.cb_state == CB_NONE) ? CLEANUP_INIT : VF_CLEANUP_DESTRUCT_CB; OP.sync_complete_ = SYNC_COMPLETE_INIT;
  stop_type_dtor(&OP);
  VF_CANARY("after ~stop_type");
  if (G.cleanup_calls) { VF_CANARY("~stop_type can run cleanup_"); } else { VF_CANARY("~stop_type can skip cleanup_"); }
}
void h_non_stop_start(void) {
  h_zero(P_S);
  G.nonstop = 1; OP.state_ = STATE_INIT_NONSTOP; G.nstarted = 0; G.early = 0; G.pending = 0; G.flag = 0; G.cb_state = CB_NONE; G.s_phase = S_PRE; G.k_phase = K_IDLE; G.s_stop = 0; G.k_stop = 0;
  non_stop_start(&OP);
  VF_CANARY("after non_stop_type::start");
}

/* ------------------------------------------------------------------------------------------------
 * M4 lemmas over the contracts
 * ---------------------------------------------------------------------------------------------- */
static struct proto any_proto(void) {
  struct proto p;
  p.w = VF_nondet_u8(); p.s_phase = VF_nondet_u8(); p.k_phase = VF_nondet_u8(); p.cb = VF_nondet_u8();
  p.nstarted = VF_nondet_bool(); p.early = VF_nondet_bool(); p.pending = VF_nondet_bool(); p.flag = VF_nondet_bool();
  p.dead = VF_nondet_bool(); p.s_stop = VF_nondet_bool(); p.k_stop = VF_nondet_bool();
  return p;
}
/* the steps of the three parties as their contracts / guarantee / event stubs describe them */
enum { ST_S_CONSTRUCT, ST_S_NSTART, ST_S_RET_FLAG, ST_S_OR, ST_S_SPIN_EXIT, ST_S_EARLY, ST_K_ENTER, ST_K_EXIT, ST_C_WIN, ST_C_FLAG, ST_C_CLEANUP, ST_C_DIE, ST_NKINDS };
static _Bool step(int kind, struct proto a, struct proto* out) {
  struct proto b = a;
  _Bool en = 0;
  switch (kind) {
  case ST_S_CONSTRUCT: en = a.s_phase == S_PRE && !a.early && a.cb == CB_NONE; b.cb = CB_LIVE; break;                                     /* EV_cb_construct */
  case ST_S_NSTART:   en = a.s_phase == S_PRE && !a.early && a.cb == CB_LIVE && !a.dead; b.s_phase = S_IN; b.nstarted = 1; break;        /* EV_nested_start */
  case ST_S_EARLY:    en = a.s_phase == S_PRE && !a.early && a.cb == CB_LIVE && HAS(a.w, ST_stopped) && !HAS(a.w, ST_completed); b.early = 1; break; /* EV_nested_stop, stops-early */
  case ST_S_RET_FLAG: en = a.s_phase == S_IN && a.flag; b.s_phase = S_OUT; break;                                                   /* first flag check */
  case ST_S_OR:       en = a.s_phase == S_IN && !a.dead; b.w = a.w | ST_started; b.s_stop = (a.w == ST_stopped);                       /* STEP_S + guarantee bookkeeping */
                      b.s_phase = HAS(a.w, ST_completed) ? S_SPIN : S_OUT; break;
  case ST_S_SPIN_EXIT: en = a.s_phase == S_SPIN && a.flag; b.s_phase = S_OUT; break;
  case ST_K_ENTER:    en = a.k_phase == K_IDLE && a.cb == CB_LIVE && !a.dead; b.w = a.w | ST_stopped; b.k_phase = K_RUNNING; b.k_stop = (a.w == ST_started); break; /* STEP_K */
  case ST_K_EXIT:     en = a.k_phase == K_RUNNING; b.k_phase = K_DONE; break;
  case ST_C_WIN:      en = !HAS(a.w, ST_completed) && (a.nstarted || a.early) && !a.dead; b.w = a.w | ST_completed;                   /* STEP_C, try_complete returns true */
                      b.pending = !HAS(a.w, ST_started) && a.nstarted; break;
  case ST_C_FLAG:     en = a.pending; b.flag = 1; b.pending = 0; break;
  case ST_C_CLEANUP:  en = HAS(a.w, ST_completed) && !a.pending && a.cb == CB_LIVE && a.k_phase != K_RUNNING; b.cb = CB_DESTROYED; break; /* EV_cleanup by the winner (callback of another thread finished) */
  case ST_C_DIE:      en = HAS(a.w, ST_completed) && a.cb == CB_DESTROYED && !a.dead; b.dead = 1; break;
  default: en = 0;
  }
  *out = b;
  return en;
}
#define PARTY_OF(kind) ((kind) <= ST_S_EARLY ? P_S : ((kind) <= ST_K_EXIT ? P_K : P_C))

/* (i) Inv is inductive for every step; (ii) every step of a party is allowed by the rely of each other party
 * (with the ownership side conditions under which that rely is used); (iii) the property as consequences of Inv */
void lemma_cancellable_protocol(void) {
  struct proto a = any_proto(), b;
  int kind = VF_nondet_int();
  __CPROVER_assume(kind >= 0 && kind < ST_NKINDS);
  __CPROVER_assume(INV(a));
  _Bool en = step(kind, a, &b);
  __CPROVER_assume(en);
  VF_CANARY("lemma premises satisfiable");
  if (kind == ST_C_DIE) { VF_CANARY("lemma: the op can die"); }
  if (kind == ST_S_OR && b.s_stop) { VF_CANARY("lemma: start frame can decide to stop"); }
  VF_P(INV(b), "lemma: every step of every party preserves the protocol invariant");
  VF_P(MONO(a, b), "lemma: every step only adds bits / advances phases (the common part of every rely)");
  /* guarantee of X  =>  rely of Y (Y != X) */
  if (PARTY_OF(kind) != P_S && !(a.early && PARTY_OF(kind) == P_C)) /* stops-early mode: the only caller of try_complete is the start frame's own stop() hook */
    VF_P(RELY_S(a, b), "lemma: every step of the callback and of a completer is allowed by the start frame's rely");
  if (PARTY_OF(kind) != P_K && a.k_phase == K_RUNNING) VF_P(RELY_K(a, b), "lemma: while the callback runs, every step of the start frame and of a completer is allowed by the callback's rely (the op cannot die, the callback cannot be destroyed: C03)");
  G.won = VF_nondet_bool(); G.k_is_me = VF_nondet_bool();
  if ((a.nstarted || a.early) && kind != ST_C_DIE && IMP(G.won, PARTY_OF(kind) != P_C && HAS(a.w, ST_completed) && !a.pending) && IMP(G.k_is_me, PARTY_OF(kind) != P_K && a.k_phase == K_RUNNING))
    VF_P(RELY_C(a, b), "lemma: every step of the start frame, of the callback and of other try_complete callers (except the death of the op: caller's obligation) is allowed by try_complete's rely");
  if (PARTY_OF(kind) == P_K && (a.s_phase == S_PRE || a.s_phase == S_OUT) && !a.pending) VF_P(RELY_D(a, b), "lemma: the callback's steps are allowed by the destructor's rely");
  /* the winner's own later steps are allowed by try_complete's rely only as its own steps: nobody ELSE writes the flag / destroys the callback */
  /* (iii) consequences */
  VF_P(IMP(kind == ST_C_WIN, !HAS(a.w, ST_completed) && HAS(b.w, ST_completed)), "lemma: try_complete returns true only for the fetch_or that sets `completed`; the bit is never cleared, so for exactly one caller");
  VF_P(!(b.s_stop && b.k_stop), "lemma: nested stop() is called at most once (start frame and callback never both decide to stop)");
  VF_P(IMP((b.s_stop && !a.s_stop) || (b.k_stop && !a.k_stop), b.w == (ST_started | ST_stopped) && b.nstarted), "lemma: at the linearisation of the stop decision the op is started and not completed");
  VF_P(IMP(kind == ST_C_FLAG, a.s_phase == S_IN || a.s_phase == S_SPIN), "lemma: the stack flag is written only while the start frame is inside start()");
  VF_P(IMP(b.s_phase == S_OUT && a.s_phase != S_OUT, !b.pending), "lemma: the start frame leaves start() only when no flag write is owed");
  VF_P(IMP(kind == ST_C_CLEANUP, a.cb == CB_LIVE && b.cb == CB_DESTROYED), "lemma: the callback is destroyed once");
  VF_P(IMP(kind == ST_C_DIE, a.k_phase != K_RUNNING), "lemma: the op never dies while a stop callback of it is running (C03 through cleanup_)");
}

/* the relies are reflexive and transitive: one havoc per access stands for any number of environment steps */
void lemma_cancellable_rely(void) {
  struct proto a = any_proto(), b = any_proto(), c = any_proto();
  __CPROVER_assume(INV(a));
  int who = VF_nondet_int();
  __CPROVER_assume(who >= P_S && who <= P_D);
  G.won = VF_nondet_bool(); G.k_is_me = VF_nondet_bool();
  if (who == P_S) {
    VF_P(RELY_S(a, a), "lemma: RELY_S reflexive");
    __CPROVER_assume(RELY_S(a, b) && RELY_S(b, c));
    VF_CANARY("RELY_S premises satisfiable");
    VF_P(RELY_S(a, c), "lemma: RELY_S transitive");
    /* C03 in the start frame's rely: the op does not die while a callback is between its fetch_or and its return */
    VF_P(IMP(b.dead && !a.dead, b.k_phase != K_RUNNING), "lemma: the op never dies under a running stop callback of another thread");
  } else if (who == P_K) {
    VF_P(RELY_K(a, a), "lemma: RELY_K reflexive");
    __CPROVER_assume(RELY_K(a, b) && RELY_K(b, c));
    VF_CANARY("RELY_K premises satisfiable");
    VF_P(RELY_K(a, c), "lemma: RELY_K transitive");
  } else if (who == P_C) {
    VF_P(RELY_C(a, a), "lemma: RELY_C reflexive");
    __CPROVER_assume(RELY_C(a, b) && RELY_C(b, c));
    VF_CANARY("RELY_C premises satisfiable");
    VF_P(RELY_C(a, c), "lemma: RELY_C transitive");
  } else {
    VF_P(RELY_D(a, a), "lemma: RELY_D reflexive");
    __CPROVER_assume(RELY_D(a, b) && RELY_D(b, c));
    VF_CANARY("RELY_D premises satisfiable");
    VF_P(RELY_D(a, c), "lemma: RELY_D transitive");
  }
}

void lemma_cancellable_init(void) {
  VF_P(ST_stopped == 1 && ST_started == 2 && ST_completed == 4 && ST_non_stop == 8, "lemma: the four state bits are distinct single bits");
  VF_P(STATE_INIT_STOP == 0, "lemma: a stoppable operation starts with no bit set");
  VF_P(STATE_INIT_NONSTOP == ST_non_stop, "lemma: a non_stop_type starts with exactly non_stop set");
  VF_P(CLEANUP_INIT == VF_CLEANUP_NOOP && SYNC_COMPLETE_INIT == NULL, "lemma: cleanup_ starts as the no-op, sync_complete_ as null");
  struct proto p;
  p.w = STATE_INIT_STOP; p.s_phase = S_PRE; p.k_phase = K_IDLE; p.cb = CB_NONE; p.nstarted = 0; p.early = 0; p.pending = 0; p.flag = 0; p.dead = 0; p.s_stop = 0; p.k_stop = 0;
  VF_P(INV(p), "lemma: a freshly constructed stoppable operation satisfies the protocol invariant");
  VF_CANARY("lemma_cancellable_init reachable");
}
