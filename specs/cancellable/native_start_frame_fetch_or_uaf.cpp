// Native reproducer for the known finding C19-cancellable-start-frame-fetch-or, obligation
//   [cancellable/stop_type_start] "start frame's fetch_or(started) not enabled after a completer that saw !started may have destroyed the operation"
//
// Build and run (scratch copy of the headers with a test-only delay point after the start frame's flag check; the
// delay point changes no logic, it only widens the few-instruction window; /repo is not touched):
//   mkdir -p /tmp/d2 && rm -rf /tmp/d2/include && cp -r /repo/include /tmp/d2/include
//   python3 - <<'PY'
//   p='/tmp/d2/include/unifex/cancellable.hpp'; s=open(p).read()
//   old="      if (sync_complete.load(std::memory_order_acquire)) {\n        return;\n      }\n"
//   assert old in s
//   open(p,'w').write(s.replace(old, old+"#ifdef D2_WINDOW_HOOK\n      D2_WINDOW_HOOK();\n#endif\n"))
//   PY
//   g++ -std=c++17 -g -DNDEBUG -fsanitize=address -I/tmp/d2/include -I/repo/_build/include \
//       /verif/specs/cancellable/native_start_frame_fetch_or_uaf.cpp /repo/_build/source/libunifex.a -lpthread -o /tmp/d2/d2
//   timeout 60 /tmp/d2/d2
// ASan headline (2026-09-23, g++ 12):
//   ==ERROR: AddressSanitizer: heap-use-after-free ... WRITE of size 1 ... thread T0
//     #0 std::__atomic_base<unsigned char>::fetch_or   #1 unifex::_cancellable::_op<nested_op<rcvr>>::stop_type::start() cancellable.hpp:98 (= line 95 of /repo's file)
//     #2 ..::type<unifex::inplace_stop_token,false>::start()   #4 main
//   freed by thread T1: operator delete <- rcvr::set_value(int)&& <- nested_op<rcvr>::complete_from_other_thread()
//
// Forced schedule for cancellable's stop_type::start(): natural completion on another thread lands between the
// start frame's check of the stack flag and its fetch_or(started); the receiver frees the operation.
// No stop request is involved at all.
#include <atomic>
#include <cstdio>
std::atomic<int> phase{0};   // 0 idle, 1 start frame is between the flag check and fetch_or(started), 2 helper finished
static void d2_window() { phase.store(1); while (phase.load() != 2) {} }
#define D2_WINDOW_HOOK d2_window
#include <unifex/cancellable.hpp>
#include <unifex/inplace_stop_token.hpp>
#include <unifex/sender_concepts.hpp>
#include <unifex/receiver_concepts.hpp>
#include <thread>
#include <memory>
using namespace unifex;

template <typename Receiver>
struct nested_op {
  explicit nested_op(Receiver&& r) : receiver_(std::move(r)) {}
  void start() noexcept { self_global.store(this); }          // "launches" the async work and returns
  void stop() noexcept { if (try_complete(this)) { set_done(std::move(receiver_)); } }
  void complete_from_other_thread() noexcept { if (try_complete(this)) { set_value(std::move(receiver_), 42); } }
  Receiver receiver_;
  static inline std::atomic<nested_op*> self_global{nullptr};
};
struct heap_holder;
struct rcvr {
  inplace_stop_source* ss; heap_holder* holder;
  void set_value(int) && noexcept;
  void set_done() && noexcept;
  void set_error(std::exception_ptr) && noexcept;
  friend inplace_stop_token tag_invoke(tag_t<get_stop_token>, const rcvr& r) noexcept { return r.ss->get_token(); }
};
struct nested_sender {
  template <template <typename...> class V, template <typename...> class T> using value_types = V<T<int>>;
  template <template <typename...> class V> using error_types = V<std::exception_ptr>;
  static constexpr bool sends_done = true;
  template <typename R>
  friend auto tag_invoke(tag_t<connect>, nested_sender&&, R&& r) noexcept { return nested_op<remove_cvref_t<R>>{std::forward<R>(r)}; }
};
using op_t = decltype(connect(cancellable<nested_sender>{nested_sender{}}, std::declval<rcvr>()));
struct heap_holder { op_t op; heap_holder(inplace_stop_source* ss) : op(connect(cancellable<nested_sender>{nested_sender{}}, rcvr{ss, this})) {} };
void rcvr::set_value(int) && noexcept { printf("completed with value; freeing operation\n"); delete holder; }
void rcvr::set_done() && noexcept { printf("completed with done; freeing operation\n"); delete holder; }
void rcvr::set_error(std::exception_ptr) && noexcept { delete holder; }

int main() {
  inplace_stop_source ss;                  // never stopped
  auto* h = new heap_holder(&ss);
  using nop = nested_op<rcvr>;
  std::thread helper([&] {
    while (phase.load() != 1) {}
    nop::self_global.load()->complete_from_other_thread();   // try_complete wins with `started` clear, sets the flag, receiver frees the op
    phase.store(2);
  });
  start(h->op);                            // start frame: nested start, flag clear, [window], fetch_or(started) on freed memory
  helper.join();
  printf("done\n");
}
