SI = 'include/unifex/stop_if_requested.hpp'
NV = 'include/unifex/never.hpp'
US = 'include/unifex/unstoppable.hpp'
UT = 'include/unifex/unstoppable_token.hpp'
WQ = 'include/unifex/with_query_value.hpp'

TRY_CATCH = [(r'UNIFEX_TRY\s*\{', '{'),
             (r'\}\s*UNIFEX_CATCH\s*\(\.\.\.\)\s*\{', '} if (0) { vf_catch: ;')]

si_ctx = dict(cls='si_op', members=[], methods=[],
              pre=TRY_CATCH + [
                  (r'get_stop_token\(std::as_const\(rec_\)\)\.stop_requested\(\)', 'EV_stop_requested(self)'),
                  (r'unifex::set_done\(\(Receiver&&\)rec_\);', 'EV_set_done(self);'),
                  (r'unifex::set_value\(\(Receiver&&\)rec_\);', 'if (EV_set_value_may_throw(self)) goto vf_catch;'),
                  (r'unifex::set_error\(\(Receiver&&\)rec_, std::current_exception\(\)\)', 'EV_set_error_exception(self)'),
              ])
nv_ctx = dict(cls='never_op', members=['isVoid_'], methods=[],
              pre=[
                  (r'\bCanSendVoid\b', 'VF_CFG_CanSendVoid'),
                  (r'unifex::set_value\(\(Receiver&&\)receiver_\)', 'EV_set_value(self)'),
                  (r'UNIFEX_ASSERT\(get_stop_token\(receiver_\)\.stop_possible\(\)\)', 'VF_ASSERT(EV_stop_possible(self))'),
                  (r'stopCallback_\.construct\(get_stop_token\(receiver_\), cancel_callback\{\*this\}\)', 'EV_cb_construct(self)'),
              ])
nvcb_ctx = dict(cls='never_cancel_callback', members=['op_'], methods=[],
                pre=[
                    (r'op_\.stopCallback_\.destruct\(\)', 'EV_cb_destruct(op_)'),
                    (r'unifex::set_done\(static_cast<Receiver&&>\(op_\.receiver_\)\)', 'EV_set_done(op_)'),
                ])
wq_ctx = dict(cls='wq_receiver', members=['val_'], methods=[],
              pre=TRY_CATCH + [
                  (r'unifex::set_value\(std::move\(receiver_\), std::forward<T>\(ts\)\.\.\.\);', 'if (EV_set_value_may_throw(self)) goto vf_catch;'),
                  (r'unifex::set_error\(std::move\(receiver_\), std::current_exception\(\)\)', 'EV_set_error_exception(self)'),
                  (r'unifex::set_error\(std::move\(receiver_\), std::forward<E>\(e\)\)', 'EV_set_error(self)'),
                  (r'unifex::set_done\(std::move\(receiver_\)\)', 'EV_set_done(self)'),
                  (r'unifex::set_value\(std::move\(receiver_\)\)', 'EV_set_value(self)'),
                  (r'\*r\.val_', '*r->val_'),
              ])
wqop_ctx = dict(cls='wq_op', members=[], methods=[], pre=[(r'unifex::start\(innerOp_\)', 'EV_start_inner(self)')])
us_ctx = dict(pre=[(r'^get_stop_token$', 'CPO_get_stop_token'), (r'^unstoppable_token\{\}$', 'TOK_UNSTOPPABLE'), (r'^\w+\{\}$', 'TOK_PARENT'), (r'^get_\w+$', 'CPO_other')])
ut_ctx = dict(cls='unstoppable_token', members=[], methods=[])

SPEC = dict(
    properties=['C04'],
    ctx={},
    extracts={
        'si_start': dict(file=SI, sig=r'void start\(\) & noexcept', ctx=si_ctx),
        'nv_start': dict(file=NV, sig=r'void start\(\) & noexcept', within=r'struct _op<Receiver, CanSendVoid>::type \{', ctx=nv_ctx),
        'nv_cancel': dict(file=NV, sig=r'void operator\(\)\(\) noexcept', within=r'struct cancel_callback \{', ctx=nvcb_ctx),
        # unstoppable(s) = with_query_value(s, get_stop_token, unstoppable_token{})
        'us_cpo': dict(file=US, kind='expr', sig=r'(?s)with_query_value\(\s*static_cast<Self&&>\(self\)\.sender_,\s*(\w+),\s*\w+\{\}\)', ctx=us_ctx),
        'us_value': dict(file=US, kind='expr', sig=r'(?s)with_query_value\(\s*static_cast<Self&&>\(self\)\.sender_,\s*\w+,\s*(\w+\{\})\)', ctx=us_ctx),
        'ut_stop_requested': dict(file=UT, sig=r'static constexpr bool stop_requested\(\) noexcept', ctx=ut_ctx),
        'ut_stop_possible': dict(file=UT, sig=r'static constexpr bool stop_possible\(\) noexcept', ctx=ut_ctx),
        'ut_callback_ctor': dict(file=UT, sig=r'explicit callback_type\(unstoppable_token, F&&\) noexcept', ctx=ut_ctx),
        # with_query_value's receiver wrapper: answers the overridden query with the stored value, forwards completions unchanged
        'wq_set_value': dict(file=WQ, sig=r'void set_value\(T&&\.\.\. ts\) noexcept', within=r'class _receiver_wrapper<CPO, Value, Receiver>::type \{', ctx=wq_ctx),
        'wq_set_error': dict(file=WQ, sig=r'void set_error\(E&& e\) noexcept', within=r'class _receiver_wrapper<CPO, Value, Receiver>::type \{', ctx=wq_ctx),
        'wq_set_done': dict(file=WQ, sig=r'void set_done\(\) noexcept', within=r'class _receiver_wrapper<CPO, Value, Receiver>::type \{', ctx=wq_ctx),
        'wq_query': dict(file=WQ, sig=r'friend const Value& tag_invoke\(CPO, const type& r\) noexcept', within=r'class _receiver_wrapper<CPO, Value, Receiver>::type \{', ctx=wq_ctx),
        'wq_start': dict(file=WQ, sig=r'void start\(\) & noexcept', within=r'class _op<CPO, Value, Sender, Receiver>::type \{', ctx=wqop_ctx),
    },
    closed_world=[
        dict(file=NV, members=['stopCallback_'], within=r'struct _op<Receiver, CanSendVoid>::type \{',
             allow=[r'(?s)manual_lifetime<\s*typename stop_token_type::template callback_type<cancel_callback>>\s*stopCallback_;']),
    ],
    units=[
        dict(name='stop_if_requested_start', harness='h_si_start', enforce='si_op_start'),
        dict(name='never_cancel_callback', harness='h_nv_cancel', enforce='never_cancel_callback_call'),
        dict(name='never_start', harness='h_nv_start', enforce='never_op_start', replace=['never_cancel_callback_call']),
        dict(name='unstoppable_token_stop_requested', harness='h_ut_stop_requested', enforce='unstoppable_token_stop_requested'),
        dict(name='unstoppable_token_stop_possible', harness='h_ut_stop_possible', enforce='unstoppable_token_stop_possible'),
        dict(name='unstoppable_token_callback', harness='h_ut_callback', enforce='unstoppable_token_callback_ctor'),
        dict(name='with_query_value_set_value', harness='h_wq_set_value', enforce='wq_receiver_set_value'),
        dict(name='with_query_value_set_error', harness='h_wq_set_error', enforce='wq_receiver_set_error'),
        dict(name='with_query_value_set_done', harness='h_wq_set_done', enforce='wq_receiver_set_done'),
        dict(name='with_query_value_query', harness='h_wq_query', enforce='wq_receiver_query'),
        dict(name='with_query_value_start', harness='h_wq_start', enforce='wq_op_start',
             replace=['wq_receiver_set_value', 'wq_receiver_set_error', 'wq_receiver_set_done']),
        dict(name='lemma_unstoppable', harness='lemma_unstoppable', mode='lemma'),
        dict(name='lemma_never', harness='lemma_never', mode='lemma'),
    ],
    assumptions=[
        'stop_if_requested: the receiver\'s set_done/set_error do not throw (noexcept by the receiver concept); set_value may throw and then leaves the receiver un-completed',
        'never: the stop callback is invoked at most once per registration and only after it was registered (C03, group stop_token); if the token is already stopped the callback runs inline inside stopCallback_.construct; after the registration the callback may run on another thread at any time, complete the receiver and let it destroy the operation',
        'never: stopCallback_.destruct() from inside the running callback is the same-thread removal of inplace_stop_callback (C03: it does not wait for itself)',
        'never: the (CanSendVoid && isVoid_) value path calls set_value inside a noexcept start(): a throwing set_value terminates (not modelled)',
        'unstoppable: with_query_value(sender, get_stop_token, unstoppable_token{}) -- the wrapper answers exactly the overridden query with the stored value (tag_invoke overload resolution is type-level); connect / the inner operation are event stubs',
    ],
    drops=['template genericity (Receiver, CanSendVoid symbolic, CPO/Value)', 'payload arguments of the forwarded completion signals',
           'UNIFEX_TRY/UNIFEX_CATCH -> goto vf_catch at the may-throw stub EV_set_value_may_throw',
           'stopCallback_.construct(...) -> EV_cb_construct (may run the callback inline), stopCallback_.destruct() -> EV_cb_destruct',
           'the coroutine awaiter of stop_if_requested (compiled out of the C++17 build)'],
)
