/* C04 (small cancellation-aware leaves and adaptors):
 *   stop_if_requested  (include/unifex/stop_if_requested.hpp): done iff the receiver's token is stopped when started, else value
 *   never_sender / just_void_or_never (include/unifex/never.hpp): a never-completing sender completes with done promptly
 *       on stop: start registers a callback; the callback destroys its own registration, then delivers done, exactly once;
 *       nothing is touched after the registration (the callback may already have completed the operation)
 *   unstoppable (include/unifex/unstoppable.hpp = with_query_value(s, get_stop_token, unstoppable_token{})): the child sees a
 *       token that is never stopped; completions are forwarded unchanged
 * Bodies marked @BODY / @EXPR are extracted from /repo on every run; everything else is specification. */
#include <stddef.h>
#include <stdint.h>

enum { K_NONE, K_value, K_error, K_error_exception, K_done };
enum { CB_NONE, CB_REGISTERED, CB_EXEC_ME, CB_DESTRUCTED };
enum { CPO_none, CPO_get_stop_token, CPO_other };
enum { TOK_NONE, TOK_PARENT, TOK_UNSTOPPABLE };

struct si_op { int unused_; };
struct never_op { _Bool isVoid_; _Bool cb_alive; /* stopCallback_ is constructed */ };
struct never_cancel_callback { struct never_op* op_; };
struct unstoppable_token { int unused_; };
struct wq_receiver { const int* val_; };
struct wq_op { int value_; };

struct vf_ghost {
  _Bool stop_seen; unsigned stop_polls; _Bool stop_possible;
  unsigned completed; int channel, signal_in; _Bool threw;
  int cb_state; unsigned cb_constructs, cb_destructs; _Bool inline_cb;
  unsigned inner_starts; _Bool inner_started, sync_completion;
  _Bool dead; struct never_op snap;
};
static struct vf_ghost G;
static struct si_op SI;
static struct never_op NV;
static struct never_cancel_callback NCB;
static struct unstoppable_token UT;
static struct wq_op WQ;
static struct wq_receiver WR;
static _Bool VF_CFG_CanSendVoid;

#include "vf.h"
static void vf_interfere(void) {}
static _Bool vf_nb(void) { return VF_nondet_bool() ? 1 : 0; }
#define B_IFF(a, b) (((a) != 0) == ((b) != 0))
#define DEAD_MSG "no access to the operation after the receiver was completed (it may have destroyed the operation)"
static void vf_die(void) {
  struct never_op f; f.isVoid_ = vf_nb(); f.cb_alive = vf_nb();
  NV = f; G.snap = f; G.dead = 1;
}
#define UNTOUCHED (!G.dead || (NV.isVoid_ == G.snap.isVoid_ && NV.cb_alive == G.snap.cb_alive))

void never_cancel_callback_call(struct never_cancel_callback* self);
void wq_receiver_set_value(struct wq_receiver* self);
void wq_receiver_set_error(struct wq_receiver* self);
void wq_receiver_set_done(struct wq_receiver* self);

/* ---------------- event stubs ---------------- */
static _Bool EV_stop_requested(void* self) {
  VF_P(G.completed == 0 && !G.dead, "the receiver's stop token is used only before the receiver is completed");
  _Bool r = vf_nb(); G.stop_seen = r; G.stop_polls++; return r;
}
static _Bool EV_stop_possible(void* self) { VF_P(G.completed == 0 && !G.dead, "the receiver's stop token is used only before the receiver is completed"); return G.stop_possible; }
static void vf_complete(int ch) {
  VF_P(G.completed == 0, "C01: at most one completion signal");
  VF_P(!G.dead, "completion signal: " DEAD_MSG);
  VF_P(G.cb_state != CB_REGISTERED && G.cb_state != CB_EXEC_ME, "C04: the stop callback is deregistered before the receiver is completed");
  G.completed++; G.channel = ch;
  vf_die();
}
static void EV_set_value(void* self) { vf_complete(K_value); }
static void EV_set_error(void* self) { vf_complete(K_error); }
static void EV_set_error_exception(void* self) { VF_P(G.threw, "set_error(current_exception) only after an exception"); vf_complete(K_error_exception); }
static void EV_set_done(void* self) { vf_complete(K_done); }
/* may throw: a throwing set_value leaves the receiver un-completed */
static _Bool EV_set_value_may_throw(void* self) {
  if (VF_nondet_bool()) {
    VF_P(G.completed == 0 && !G.dead, "C01: set_value attempted once, on a live receiver");
    G.threw = 1; return 1;
  }
  vf_complete(K_value); return 0;
}
/* stopCallback_.construct(get_stop_token(receiver_), cancel_callback{*this}) */
static void EV_cb_construct(struct never_op* self) {
  VF_P(!G.dead, "stopCallback_.construct: " DEAD_MSG);
  VF_P(G.cb_state == CB_NONE && !self->cb_alive, "the stop callback is constructed at most once");
  VF_P(G.completed == 0, "no registration on the receiver's token after the receiver was completed");
  G.cb_constructs++; G.cb_state = CB_REGISTERED; self->cb_alive = 1;
  if (VF_nondet_bool()) {
    /* the token is already stopped: the callback runs inline inside the constructor */
    G.inline_cb = 1; G.cb_state = CB_EXEC_ME;
    never_cancel_callback_call(&NCB);
  } else if (VF_nondet_bool()) {
    /* registered; a stop request on another thread ran the callback before construct() even returned: the operation is gone */
    vf_die();
  }
}
static void EV_cb_destruct(struct never_op* self) {
  VF_P(!G.dead, "stopCallback_.destruct(): " DEAD_MSG);
  VF_P(G.completed == 0, "C04: the stop callback is destroyed BEFORE the receiver is completed");
  VF_P(G.cb_state == CB_EXEC_ME && self->cb_alive, "the stop callback is destroyed exactly once, from inside its own execution");
  G.cb_state = CB_DESTRUCTED; G.cb_destructs++; self->cb_alive = 0;
}
/* with_query_value: unifex::start(innerOp_) -- the wrapped operation completes through the receiver wrapper */
static void EV_start_inner(struct wq_op* self) {
  VF_P(!G.inner_started && G.completed == 0, "the wrapped operation is started once");
  G.inner_started = 1; G.inner_starts++;
  if (VF_nondet_bool()) {
    G.sync_completion = 1;
    if (G.signal_in == K_value) wq_receiver_set_value(&WR); else if (G.signal_in == K_error) wq_receiver_set_error(&WR); else wq_receiver_set_done(&WR);
  }
}

/* ---------------- contracts ---------------- */
#define A_COMPLETE NV, G.completed, G.channel, G.dead, G.snap
/* stop_if_requested */
void si_op_start(struct si_op* self)
__CPROVER_requires(self == &SI && G.completed == 0 && !G.dead && G.stop_polls == 0 && !G.threw && G.cb_state == CB_NONE)
__CPROVER_assigns(A_COMPLETE, G.stop_seen, G.stop_polls, G.threw)
__CPROVER_ensures(G.completed == 1 && G.stop_polls == 1) /* C01: exactly one signal, from start(); the token is polled once */
__CPROVER_ensures(G.channel == (G.stop_seen ? K_done : G.threw ? K_error_exception : K_value)) /* C04: done iff stop was requested when the operation was started; a throwing set_value -> set_error */
/*@BODY si_start*/

/* never: the callback */
void never_cancel_callback_call(struct never_cancel_callback* self)
__CPROVER_requires(self == &NCB && NCB.op_ == &NV && G.cb_state == CB_EXEC_ME && NV.cb_alive && G.completed == 0 && !G.dead && G.cb_destructs == 0)
__CPROVER_assigns(A_COMPLETE, G.cb_state, G.cb_destructs)
__CPROVER_ensures(G.completed == 1 && G.channel == K_done) /* C04: a stop request completes the never-completing sender with done, at once, exactly once */
__CPROVER_ensures(G.cb_state == CB_DESTRUCTED && G.cb_destructs == 1 && G.dead && UNTOUCHED) /* registration destroyed first; nothing touched after the completion */
/*@BODY nv_cancel*/

/* never: start */
void never_op_start(struct never_op* self)
__CPROVER_requires(self == &NV && NCB.op_ == &NV && G.completed == 0 && !G.dead && G.cb_state == CB_NONE && G.cb_constructs == 0 && G.cb_destructs == 0 && !NV.cb_alive && !G.inline_cb)
__CPROVER_requires((VF_CFG_CanSendVoid && NV.isVoid_) || G.stop_possible) /* caller obligation (UNIFEX_ASSERT / static_assert): never is not used with a token that can never be stopped */
__CPROVER_assigns(A_COMPLETE, G.cb_state, G.cb_constructs, G.cb_destructs, G.inline_cb)
__CPROVER_ensures((VF_CFG_CanSendVoid && __CPROVER_old(NV.isVoid_)) ==> (G.completed == 1 && G.channel == K_value && G.cb_constructs == 0)) /* just_void_or_never(true): value, no registration */
__CPROVER_ensures(!(VF_CFG_CanSendVoid && __CPROVER_old(NV.isVoid_)) ==> (G.cb_constructs == 1 && G.completed == (G.inline_cb ? 1u : 0u))) /* otherwise: registered; completed (with done) only if the token was already stopped */
__CPROVER_ensures((G.completed == 1 && G.cb_constructs == 1) ==> (G.channel == K_done && G.cb_state == CB_DESTRUCTED && G.cb_destructs == 1))
__CPROVER_ensures((G.completed == 0 && !G.dead) ==> (G.cb_state == CB_REGISTERED && NV.cb_alive)) /* C04: it stays registered until stop is requested */
__CPROVER_ensures(UNTOUCHED) /* race between the registration and the callback: nothing is touched once the callback may have run */
/*@BODY nv_start*/

/* unstoppable_token */
_Bool unstoppable_token_stop_requested(void)
__CPROVER_assigns()
__CPROVER_ensures(__CPROVER_return_value == 0) /* C04: the child of unstoppable() never observes a stop request */
/*@BODY ut_stop_requested*/

_Bool unstoppable_token_stop_possible(void)
__CPROVER_assigns()
__CPROVER_ensures(__CPROVER_return_value == 0)
/*@BODY ut_stop_possible*/

void unstoppable_token_callback_ctor(void)
__CPROVER_assigns()
__CPROVER_ensures(G.cb_constructs == __CPROVER_old(G.cb_constructs)) /* a callback on an unstoppable token registers nothing and is never invoked */
/*@BODY ut_callback_ctor*/

/* with_query_value's receiver wrapper */
#define WQ_PRE (self == &WR && WR.val_ == &WQ.value_ && G.completed == 0 && !G.dead && !G.threw && G.cb_state == CB_NONE)
void wq_receiver_set_value(struct wq_receiver* self)
__CPROVER_requires(WQ_PRE)
__CPROVER_assigns(A_COMPLETE, G.threw)
__CPROVER_ensures(G.completed == 1 && G.channel == (G.threw ? K_error_exception : K_value)) /* forwarded unchanged; a throwing set_value -> set_error(current_exception) */
/*@BODY wq_set_value*/

void wq_receiver_set_error(struct wq_receiver* self)
__CPROVER_requires(WQ_PRE)
__CPROVER_assigns(A_COMPLETE)
__CPROVER_ensures(G.completed == 1 && G.channel == K_error)
/*@BODY wq_set_error*/

void wq_receiver_set_done(struct wq_receiver* self)
__CPROVER_requires(WQ_PRE)
__CPROVER_assigns(A_COMPLETE)
__CPROVER_ensures(G.completed == 1 && G.channel == K_done)
/*@BODY wq_set_done*/

int wq_receiver_query(const struct wq_receiver* r)
__CPROVER_requires(r == &WR && WR.val_ == &WQ.value_)
__CPROVER_assigns()
__CPROVER_ensures(__CPROVER_return_value == WQ.value_) /* the overridden query answers with the value stored in the operation */
/*@BODY wq_query*/

void wq_op_start(struct wq_op* self)
__CPROVER_requires(self == &WQ && WR.val_ == &WQ.value_ && G.completed == 0 && !G.dead && !G.threw && G.cb_state == CB_NONE && !G.inner_started && G.inner_starts == 0 && !G.sync_completion)
__CPROVER_requires(G.signal_in == K_value || G.signal_in == K_error || G.signal_in == K_done)
__CPROVER_assigns(A_COMPLETE, G.threw, G.inner_starts, G.inner_started, G.sync_completion)
__CPROVER_ensures(G.inner_starts == 1 && G.completed <= 1 && (G.completed == 1 ==> G.sync_completion)) /* C01: start() itself delivers nothing */
__CPROVER_ensures(G.completed == 1 ==> G.channel == (G.signal_in == K_value ? (G.threw ? K_error_exception : K_value) : G.signal_in)) /* C05: the wrapped operation's signal, unchanged */
/*@BODY wq_start*/

/* ---------------- harnesses ---------------- */
static void h_havoc(void) {
  G.stop_seen = 0; G.stop_polls = VF_nondet_u32(); G.stop_possible = vf_nb();
  G.completed = VF_nondet_u32(); G.channel = K_NONE; G.signal_in = VF_nondet_int(); G.threw = vf_nb();
  G.cb_state = VF_nondet_int(); G.cb_constructs = VF_nondet_u32(); G.cb_destructs = VF_nondet_u32(); G.inline_cb = vf_nb();
  G.inner_starts = VF_nondet_u32(); G.inner_started = vf_nb(); G.sync_completion = vf_nb();
  G.dead = vf_nb(); NV.isVoid_ = vf_nb(); NV.cb_alive = vf_nb(); G.snap = NV;
  VF_CFG_CanSendVoid = vf_nb();
  NCB.op_ = &NV; WR.val_ = &WQ.value_; WQ.value_ = VF_nondet_int();
}
void h_si_start(void) {
  h_havoc(); si_op_start(&SI);
  VF_CANARY("after stop_if_requested start");
  if (G.channel == K_done) { VF_CANARY("stop_if_requested: done"); } if (G.channel == K_value) { VF_CANARY("stop_if_requested: value"); } if (G.channel == K_error_exception) { VF_CANARY("stop_if_requested: set_value threw"); }
}
void h_nv_cancel(void) { h_havoc(); never_cancel_callback_call(&NCB); VF_CANARY("after never's stop callback"); }
void h_nv_start(void) {
  h_havoc(); never_op_start(&NV);
  VF_CANARY("after never start");
  if (G.completed && G.channel == K_value) { VF_CANARY("just_void_or_never(true)"); }
  if (G.completed && G.channel == K_done) { VF_CANARY("never started with a stopped token"); }
  if (!G.completed && !G.dead) { VF_CANARY("never stays pending"); }
  if (!G.completed && G.dead) { VF_CANARY("never completed concurrently during start"); }
}
void h_ut_stop_requested(void) { h_havoc(); _Bool r = unstoppable_token_stop_requested(); VF_CANARY("after unstoppable_token::stop_requested"); }
void h_ut_stop_possible(void) { h_havoc(); _Bool r = unstoppable_token_stop_possible(); VF_CANARY("after unstoppable_token::stop_possible"); }
void h_ut_callback(void) { h_havoc(); unstoppable_token_callback_ctor(); VF_CANARY("after unstoppable_token::callback_type ctor"); }
void h_wq_set_value(void) { h_havoc(); wq_receiver_set_value(&WR); VF_CANARY("after wrapper set_value"); if (G.threw) { VF_CANARY("wrapper set_value threw"); } }
void h_wq_set_error(void) { h_havoc(); wq_receiver_set_error(&WR); VF_CANARY("after wrapper set_error"); }
void h_wq_set_done(void) { h_havoc(); wq_receiver_set_done(&WR); VF_CANARY("after wrapper set_done"); }
void h_wq_query(void) { h_havoc(); int v = wq_receiver_query(&WR); VF_CANARY("after wrapper query"); }
void h_wq_start(void) { h_havoc(); wq_op_start(&WQ); VF_CANARY("after with_query_value start"); if (G.completed) { VF_CANARY("wrapped operation can complete synchronously"); } }

/* ---------------- lemmas ---------------- */
/* unstoppable(s): the query that is overridden is get_stop_token and the value is unstoppable_token{}; that token is never stopped */
void lemma_unstoppable(void) {
  VF_CANARY("lemma_unstoppable reachable");
  VF_P((/*@EXPR us_cpo*/) == CPO_get_stop_token, "lemma (C04): unstoppable() overrides the get_stop_token query of the child's receiver");
  VF_P((/*@EXPR us_value*/) == TOK_UNSTOPPABLE, "lemma (C04): ... with an unstoppable_token");
  VF_P(!unstoppable_token_stop_requested() && !unstoppable_token_stop_possible(), "lemma (C04): the child of unstoppable() sees a token on which stop is never requested and never possible");
}
/* never's event automaton: (cb, completed) */
struct ast { int cb; unsigned completed; };
#define A_INV(s) ((s).completed <= 1 && ((s).completed == 1 ==> ((s).cb == CB_DESTRUCTED || (s).cb == CB_NONE)) && ((s).cb == CB_DESTRUCTED ==> (s).completed == 1))
#define A_STEP_START_VOID(o, n) ((o).cb == CB_NONE && (o).completed == 0 && (n).cb == CB_NONE && (n).completed == 1)
#define A_STEP_START(o, n) ((o).cb == CB_NONE && (o).completed == 0 && (n).cb == CB_REGISTERED && (n).completed == 0)
#define A_STEP_CB(o, n) ((o).cb == CB_REGISTERED && (o).completed == 0 && (n).cb == CB_DESTRUCTED && (n).completed == 1)
void lemma_never(void) {
  struct ast o, n; int step = VF_nondet_int();
  o.cb = VF_nondet_int(); o.completed = VF_nondet_u32(); n.cb = VF_nondet_int(); n.completed = VF_nondet_u32();
  __CPROVER_assume(step >= 0 && step <= 2 && A_INV(o));
  __CPROVER_assume(step == 0 ? A_STEP_START_VOID(o, n) : step == 1 ? A_STEP_START(o, n) : A_STEP_CB(o, n));
  VF_CANARY("lemma_never premises satisfiable");
  VF_P(A_INV(n), "lemma: the order invariant of never is inductive (start / start(void) / stop callback)");
  VF_P(o.completed == 0, "lemma (C01): no step after the completion");
  VF_P((o.cb == CB_REGISTERED) ==> (step == 2 && n.completed == 1), "lemma (C04): once registered the only step is the stop callback, and it completes the operation");
}
