/* C20, second half: "with tracing enabled, every async stack frame that an operation activates is deactivated again and
 * stack roots are restored by the time the operation completes".
 * include/unifex/tracing/async_stack-inl.hpp, include/unifex/tracing/async_stack.hpp (ScopedAsyncStackRoot inline members),
 * source/async_stack.cpp.  Bodies marked @BODY / @EXPR are extracted from /repo on every run; everything else is specification.
 *
 * The bookkeeping is thread-local: the current-root holder is thread_local and a thread writes topFrame only of its own
 * current root (checked as the guarantee at every atomic store); other threads only read -> vf_interfere is empty.
 * M2 window: frames F0 / F1, roots R0 / R1 (R1 is the root_ inside the ScopedAsyncStackRoot SR), opaque far ends.
 * M4 pair lemmas: the two extracted bodies in sequence restore the window. */
#include <stddef.h>
#include <stdint.h>
#include <stdlib.h>
typedef uintptr_t instruction_ptr;   /* wrapper of one void* */
typedef uintptr_t frame_ptr;         /* wrapper of one void* */
struct AsyncStackRoot;
struct AsyncStackFrame { struct AsyncStackFrame* parentFrame; instruction_ptr instructionPointer; struct AsyncStackRoot* stackRoot; };
struct AsyncStackRoot { struct AsyncStackFrame* topFrame; struct AsyncStackRoot* nextRoot; frame_ptr stackFramePtr; instruction_ptr returnAddress; };
struct AsyncStackRootHolder { struct AsyncStackRoot* value; };
struct ScopedAsyncStackRoot { struct AsyncStackRoot root_; };
/* call sites, second batch: objects that may die (snapshots live in the ghost) */
struct expected { int state_; int value_; int exception_; };     /* _util::_expected<Value>: tag + which union member is constructed */
struct rec { struct expected* result_; int continuation_; };      /* _awaitable_base<Promise, Value, With>::type::_rec */
struct cleanup_promise { struct AsyncStackFrame* parentFrame_; _Bool isUnhandledDone_; int continuation_; int sched_; };  /* _cleanup_promise_base (its frame_ is F1) */

struct vf_ghost {
  unsigned top_stores;                 /* atomic stores to some root's topFrame */
  unsigned cur_stores;                 /* atomic stores to the thread's current-root holder */
  struct AsyncStackRoot* pub_root;     /* at the last store of a non-null frame into topFrame: the root, ... */
  struct AsyncStackFrame* pub_frame;   /* ... the frame that was published, ... */
  struct AsyncStackFrame* pub_parent;  /* ... and its parent link at that moment */
  struct AsyncStackRoot* local_root;   /* resumeCoroutineWithNewAsyncStackRoot: the function's local ScopedAsyncStackRoot */
  struct AsyncStackRoot* local_prev;   /* ... and the thread's current root when it was constructed */
  unsigned ctor, dtor, resumes;
  /* call sites */
  unsigned cs_top0;                    /* top_stores when the call-site function was entered */
  struct AsyncStackRoot* cs_root;      /* the root the frame was active on when the call-site function was entered */
  int resumer_id; unsigned resumers_made, resumer_destroys, suspend_calls; _Bool suspended;
  _Bool cs_dead; struct AsyncStackFrame snap_f0; int snap_coro;   /* the frame / promise / awaiter may be gone: dead-object snapshot */
  unsigned completions, starts, rf_ctor, rf_dtor, connects, runs; int last_sig;
  struct AsyncStackFrame* arg_frame; struct AsyncStackFrame* arg_parent; instruction_ptr arg_ip;
  /* call sites, second batch */
  struct AsyncStackRoot* cs_prev;      /* the thread's current root when the call-site function was entered */
  int expect_state, emplaced; _Bool resumed_done, threw;
  _Bool rec_dead; struct rec snap_rec; struct expected snap_result;
  unsigned nexts, dummy_ctor, dummy_dtor, next_reads, destroys, transforms, exchanges; int next_handle;
  _Bool cp_dead; struct cleanup_promise snap_cp; struct AsyncStackFrame snap_f1;
};
static struct vf_ghost G;
static void vf_guar(void* p, void* n);
#define VF_G(p, o, n) vf_guar((void*)(p), (void*)(n))
#include "vf.h"
/* other threads (profilers, debuggers) only read the links */
static void vf_interfere(void) {}

#define TOPFRAME_INIT ((struct AsyncStackFrame*)/*@EXPR topFrame_init*/)
#define NEXTROOT_INIT ((struct AsyncStackRoot*)/*@EXPR nextRoot_init*/)
#define PARENTFRAME_INIT ((struct AsyncStackFrame*)/*@EXPR parentFrame_init*/)
#define STACKROOT_INIT ((struct AsyncStackRoot*)/*@EXPR stackRoot_init*/)

/* static thread_local AsyncStackRootHolder currentThreadAsyncStackRoot */
static struct AsyncStackRootHolder currentThreadAsyncStackRoot = { /*@EXPR holder_value_init*/ };
#define CUR currentThreadAsyncStackRoot

/* ---------------- the window ---------------- */
static struct AsyncStackFrame F0, F1;
static struct AsyncStackRoot R0;
static struct ScopedAsyncStackRoot SR;
#define R1 (SR.root_)
static struct AsyncStackFrame WSELF;   /* one-frame window of the chain walk */
static char vf_opaque_f, vf_opaque_r;
#define OPQ_F ((struct AsyncStackFrame*)&vf_opaque_f)
#define OPQ_R ((struct AsyncStackRoot*)&vf_opaque_r)

#define IS_FRAME(p) ((p) == &F0 || (p) == &F1)
#define IS_ROOT(p)  ((p) == &R0 || (p) == &R1)
/* what checkAsyncStackFrameIsActive asserts */
/* the top frame of a window root, by comparison with the concrete objects: a link that a replaced contract has havocked is
 * compared, never dereferenced (SPEC_GUIDE performance pitfall 1) */
#define TOP_OF(r) ((r) == &R0 ? R0.topFrame : (r) == &R1 ? R1.topFrame : OPQ_F)
#define ACTIVE(f) ((f)->stackRoot != NULL && IS_ROOT((f)->stackRoot) && CUR.value == (f)->stackRoot && TOP_OF((f)->stackRoot) == (f))
/* local shape invariant: a root's top frame points back at the root; a frame that points at a root is that root's top frame
 * (every other frame is detached) */
#define TOP_OK(R) ((R).topFrame == NULL || (R).topFrame == OPQ_F || ((R).topFrame == &F0 ? F0.stackRoot == &(R) : ((R).topFrame == &F1 && F1.stackRoot == &(R))))
#define SR_OK(F)  ((F).stackRoot == NULL || (F).stackRoot == OPQ_R || ((F).stackRoot == &R0 ? R0.topFrame == &(F) : ((F).stackRoot == &R1 && R1.topFrame == &(F))))
#define WF (TOP_OK(R0) && TOP_OK(R1) && SR_OK(F0) && SR_OK(F1))
#define G_PUB G.top_stores, G.pub_root, G.pub_frame, G.pub_parent

/* guarantee, checked at every atomic store the verified code performs */
static void vf_guar(void* p, void* n) {
  if (p == (void*)&CUR.value) { G.cur_stores++; return; }
  struct AsyncStackRoot* r = (p == (void*)&R0.topFrame) ? &R0 : (p == (void*)&R1.topFrame) ? &R1
      : (G.local_root != NULL && p == (void*)&G.local_root->topFrame) ? G.local_root : NULL;
  VF_P(r != NULL, "atomic write to an unexpected location");
  VF_P(CUR.value == r, "guarantee: a thread writes topFrame only of its own current root (the bookkeeping is thread-local)");
  G.top_stores++;
  struct AsyncStackFrame* f = (struct AsyncStackFrame*)n;
  if (f != NULL) {
    VF_P(f == &F0 || f == &F1, "only a live frame of the window is published as top frame");
    struct AsyncStackFrame* fr = (f == &F0) ? &F0 : &F1;
    VF_P(fr->stackRoot == r, "a frame is attached to the root (stackRoot set) before it is published as the root's top frame (concurrent readers see a consistent frame)");
    G.pub_root = r; G.pub_frame = fr; G.pub_parent = fr->parentFrame;
  }
}

/* ---------------- the thread-local holder and the free accessors (source/async_stack.cpp) ---------------- */
struct AsyncStackRoot* AsyncStackRootHolder_get(const struct AsyncStackRootHolder* self)
__CPROVER_requires(self == &CUR)
__CPROVER_assigns()
__CPROVER_ensures(__CPROVER_return_value == CUR.value)
/*@BODY holder_get*/

void AsyncStackRootHolder_set(struct AsyncStackRootHolder* self, struct AsyncStackRoot* root)
__CPROVER_requires(self == &CUR)
__CPROVER_assigns(CUR.value, G.cur_stores)
__CPROVER_ensures(CUR.value == root && G.cur_stores == __CPROVER_old(G.cur_stores) + 1)
/*@BODY holder_set*/

void AsyncStackRootHolder_set_relaxed(struct AsyncStackRootHolder* self, struct AsyncStackRoot* root)
__CPROVER_requires(self == &CUR)
__CPROVER_assigns(CUR.value, G.cur_stores)
__CPROVER_ensures(CUR.value == root && G.cur_stores == __CPROVER_old(G.cur_stores) + 1)
/*@BODY holder_set_relaxed*/

struct AsyncStackRoot* tryGetCurrentAsyncStackRoot(void)
__CPROVER_assigns()
__CPROVER_ensures(__CPROVER_return_value == CUR.value)
/*@BODY tryGetCurrent*/

/* AsyncStackRoot& getCurrentAsyncStackRoot(): the reference is returned as a pointer */
struct AsyncStackRoot* getCurrentAsyncStackRoot(void)
__CPROVER_requires(CUR.value != NULL) /* the function's own assert */
__CPROVER_assigns()
__CPROVER_ensures(__CPROVER_return_value == CUR.value && __CPROVER_return_value != NULL)
/*@BODY getCurrent*/

struct AsyncStackRoot* exchangeCurrentAsyncStackRoot(struct AsyncStackRoot* newRoot)
__CPROVER_assigns(CUR.value, G.cur_stores)
__CPROVER_ensures(__CPROVER_return_value == __CPROVER_old(CUR.value) && CUR.value == newRoot) /* swaps: the old root is handed back so that the caller can restore it */
__CPROVER_ensures(G.cur_stores == __CPROVER_old(G.cur_stores) + 1)
/*@BODY exchangeCurrent*/

/* ---------------- AsyncStackFrame accessors ---------------- */
struct AsyncStackFrame* AsyncStackFrame_getParentFrame(struct AsyncStackFrame* self)
__CPROVER_requires(IS_FRAME(self) || self == &WSELF)
__CPROVER_assigns()
__CPROVER_ensures(__CPROVER_return_value == self->parentFrame)
/*@BODY frame_getParentFrame*/

const struct AsyncStackFrame* AsyncStackFrame_getParentFrame_const(const struct AsyncStackFrame* self)
__CPROVER_requires(IS_FRAME(self))
__CPROVER_assigns()
__CPROVER_ensures(__CPROVER_return_value == self->parentFrame)
/*@BODY frame_getParentFrame_const*/

void AsyncStackFrame_setParentFrame(struct AsyncStackFrame* self, struct AsyncStackFrame* frame)
__CPROVER_requires(IS_FRAME(self))
__CPROVER_assigns(self->parentFrame)
__CPROVER_ensures(self->parentFrame == frame) /* stackRoot, return address and every other object: frame condition */
/*@BODY frame_setParentFrame*/

struct AsyncStackRoot* AsyncStackFrame_getStackRoot(struct AsyncStackFrame* self)
__CPROVER_requires(IS_FRAME(self))
__CPROVER_assigns()
__CPROVER_ensures(__CPROVER_return_value == self->stackRoot)
/*@BODY frame_getStackRoot*/

void AsyncStackFrame_setReturnAddress(struct AsyncStackFrame* self, instruction_ptr p)
__CPROVER_requires(IS_FRAME(self))
__CPROVER_assigns(self->instructionPointer)
__CPROVER_ensures(self->instructionPointer == p)
/*@BODY frame_setReturnAddress*/

instruction_ptr AsyncStackFrame_getReturnAddress(const struct AsyncStackFrame* self)
__CPROVER_requires(IS_FRAME(self) || self == &WSELF)
__CPROVER_assigns()
__CPROVER_ensures(__CPROVER_return_value == self->instructionPointer)
/*@BODY frame_getReturnAddress*/

/* ---------------- AsyncStackRoot members ---------------- */
/* the two asserts inside are the call-site facts (activateAsyncStackFrame is the only caller) */
#define ACTIVATE_REQ(root, frame) (IS_ROOT(root) && IS_FRAME(frame) && WF && CUR.value == (root) && (root)->topFrame == NULL && (frame)->stackRoot == NULL)
void AsyncStackRoot_setTopFrame(struct AsyncStackRoot* self, struct AsyncStackFrame* frame)
__CPROVER_requires(ACTIVATE_REQ(self, frame))
__CPROVER_assigns(self->topFrame, frame->stackRoot, G_PUB)
__CPROVER_ensures(self->topFrame == frame && frame->stackRoot == self) /* the two links, both directions */
__CPROVER_ensures(WF && ACTIVE(frame))
__CPROVER_ensures(G.top_stores == __CPROVER_old(G.top_stores) + 1 && G.pub_frame == frame && G.pub_root == self)
/*@BODY root_setTopFrame*/

struct AsyncStackFrame* AsyncStackRoot_getTopFrame(const struct AsyncStackRoot* self)
__CPROVER_requires(IS_ROOT(self))
__CPROVER_assigns()
__CPROVER_ensures(__CPROVER_return_value == self->topFrame)
/*@BODY root_getTopFrame*/

void AsyncStackRoot_setStackFrameContext(struct AsyncStackRoot* self, frame_ptr framePtr, instruction_ptr ip)
__CPROVER_requires(IS_ROOT(self))
__CPROVER_assigns(self->stackFramePtr, self->returnAddress)
__CPROVER_ensures(self->stackFramePtr == framePtr && self->returnAddress == ip) /* topFrame / nextRoot untouched: frame condition */
/*@BODY root_setStackFrameContext*/

frame_ptr AsyncStackRoot_getStackFramePointer(const struct AsyncStackRoot* self)
__CPROVER_requires(IS_ROOT(self))
__CPROVER_assigns()
__CPROVER_ensures(__CPROVER_return_value == self->stackFramePtr)
/*@BODY root_getStackFramePointer*/

instruction_ptr AsyncStackRoot_getReturnAddress(const struct AsyncStackRoot* self)
__CPROVER_requires(IS_ROOT(self))
__CPROVER_assigns()
__CPROVER_ensures(__CPROVER_return_value == self->returnAddress)
/*@BODY root_getReturnAddress*/

const struct AsyncStackRoot* AsyncStackRoot_getNextRoot(const struct AsyncStackRoot* self)
__CPROVER_requires(IS_ROOT(self))
__CPROVER_assigns()
__CPROVER_ensures(__CPROVER_return_value == self->nextRoot)
/*@BODY root_getNextRoot*/

void AsyncStackRoot_setNextRoot(struct AsyncStackRoot* self, struct AsyncStackRoot* next)
__CPROVER_requires(IS_ROOT(self))
__CPROVER_assigns(self->nextRoot)
__CPROVER_ensures(self->nextRoot == next)
/*@BODY root_setNextRoot*/

/* ---------------- the primitives (async_stack-inl.hpp) ---------------- */
void checkAsyncStackFrameIsActive(const struct AsyncStackFrame* frame)
__CPROVER_requires(IS_FRAME(frame) && ACTIVE(frame))
__CPROVER_assigns()
__CPROVER_ensures(ACTIVE(frame))
/*@BODY check_active*/

void activateAsyncStackFrame(struct AsyncStackRoot* root, struct AsyncStackFrame* frame)
__CPROVER_requires(ACTIVATE_REQ(root, frame)) /*P*/
__CPROVER_assigns(root->topFrame, frame->stackRoot, G_PUB)
__CPROVER_ensures(root->topFrame == frame && frame->stackRoot == root) /* exactly the two links change (everything else: frame condition) */
__CPROVER_ensures(WF && ACTIVE(frame))
__CPROVER_ensures(G.top_stores == __CPROVER_old(G.top_stores) + 1 && G.pub_frame == frame && G.pub_root == root)
/*@BODY activate*/

void deactivateAsyncStackFrame(struct AsyncStackFrame* frame)
__CPROVER_requires(IS_FRAME(frame) && WF && ACTIVE(frame)) /*P*/
__CPROVER_assigns(frame->stackRoot, frame->stackRoot->topFrame, G_PUB)
__CPROVER_ensures(frame->stackRoot == NULL) /* the frame is detached ... */
__CPROVER_ensures(TOP_OF(__CPROVER_old(frame->stackRoot)) == NULL) /* ... and its root has no top frame any more */
__CPROVER_ensures(WF && G.top_stores == __CPROVER_old(G.top_stores) + 1)
/*@BODY deactivate*/

#define PUSH_REQ(caller, callee) (IS_FRAME(caller) && IS_FRAME(callee) && (caller) != (callee) && WF && ACTIVE(caller) && (callee)->stackRoot == NULL)
void pushAsyncStackFrameCallerCallee(struct AsyncStackFrame* callerFrame, struct AsyncStackFrame* calleeFrame)
__CPROVER_requires(PUSH_REQ(callerFrame, calleeFrame)) /*P*/
__CPROVER_assigns(calleeFrame->stackRoot, calleeFrame->parentFrame, callerFrame->stackRoot, callerFrame->stackRoot->topFrame, G_PUB)
__CPROVER_ensures(calleeFrame->stackRoot == __CPROVER_old(callerFrame->stackRoot)) /* the callee takes over the caller's root ... */
__CPROVER_ensures(__CPROVER_old(callerFrame->stackRoot)->topFrame == calleeFrame)   /* ... as its top frame, ... */
__CPROVER_ensures(calleeFrame->parentFrame == callerFrame)                          /* ... linked to the caller, ... */
__CPROVER_ensures(callerFrame->stackRoot == NULL)                                   /* ... which is detached */
__CPROVER_ensures(WF && ACTIVE(calleeFrame))
__CPROVER_ensures(G.top_stores == __CPROVER_old(G.top_stores) + 1 && G.pub_frame == calleeFrame && G.pub_parent == callerFrame) /* published with its parent link already in place */
/*@BODY push*/

/* the parent of the frame being popped: none, or a live frame of the window that is currently detached */
#define PARENT_OK(c) ((c)->parentFrame == NULL || (IS_FRAME((c)->parentFrame) && (c)->parentFrame != (c) && (c)->parentFrame->stackRoot == NULL))
void popAsyncStackFrameCallee(struct AsyncStackFrame* calleeFrame)
__CPROVER_requires(IS_FRAME(calleeFrame) && WF && ACTIVE(calleeFrame) && PARENT_OK(calleeFrame)) /*P*/
__CPROVER_assigns(calleeFrame->stackRoot, calleeFrame->stackRoot->topFrame, G_PUB; calleeFrame->parentFrame != NULL: calleeFrame->parentFrame->stackRoot)
__CPROVER_ensures(calleeFrame->stackRoot == NULL) /* the callee is detached */
__CPROVER_ensures(__CPROVER_old(calleeFrame->stackRoot)->topFrame == calleeFrame->parentFrame) /* the caller (or nothing) is the top frame again */
__CPROVER_ensures(calleeFrame->parentFrame != NULL ==> calleeFrame->parentFrame->stackRoot == __CPROVER_old(calleeFrame->stackRoot)) /* with its stackRoot re-attached */
__CPROVER_ensures(WF && (calleeFrame->parentFrame != NULL ==> ACTIVE(calleeFrame->parentFrame)))
__CPROVER_ensures(G.top_stores == __CPROVER_old(G.top_stores) + 1)
/*@BODY pop_callee*/

#define TOPF (CUR.value->topFrame)
void popAsyncStackFrameFromCaller(struct AsyncStackFrame* callerFrame)
__CPROVER_requires(IS_FRAME(callerFrame) && WF && CUR.value != NULL && IS_ROOT(CUR.value))
__CPROVER_requires(TOPF != NULL && IS_FRAME(TOPF) && TOPF != callerFrame && TOPF->parentFrame == callerFrame && callerFrame->stackRoot == NULL)
__CPROVER_assigns(CUR.value->topFrame, CUR.value->topFrame->stackRoot, callerFrame->stackRoot, G_PUB)
__CPROVER_ensures(TOPF == callerFrame && callerFrame->stackRoot == CUR.value) /* the caller is the top frame of the current root again */
__CPROVER_ensures(__CPROVER_old(CUR.value->topFrame)->stackRoot == NULL)      /* the former top frame (its callee) is detached */
__CPROVER_ensures(WF && ACTIVE(callerFrame))
__CPROVER_ensures(G.top_stores == __CPROVER_old(G.top_stores) + 1)
/*@BODY pop_from_caller*/

/* ---------------- ScopedAsyncStackRoot ---------------- */
#define FRESH_ROOT(r) ((r).topFrame == TOPFRAME_INIT && (r).nextRoot == NEXTROOT_INIT)
void ScopedAsyncStackRoot_ctor(struct ScopedAsyncStackRoot* self, frame_ptr framePointer, instruction_ptr returnAddress)
__CPROVER_requires(self == &SR && FRESH_ROOT(self->root_) && CUR.value != &self->root_) /*P*/ /* WF is outside the footprint (topFrame / stackRoot links): kept by the frame condition */
__CPROVER_assigns(self->root_.nextRoot, self->root_.stackFramePtr, self->root_.returnAddress, CUR.value, G.cur_stores)
__CPROVER_ensures(CUR.value == &self->root_)                           /* the new root is the thread's current root */
__CPROVER_ensures(self->root_.nextRoot == __CPROVER_old(CUR.value))    /* and remembers the previous one */
__CPROVER_ensures(self->root_.stackFramePtr == framePointer && self->root_.returnAddress == returnAddress && self->root_.topFrame == NULL)
__CPROVER_ensures(G.cur_stores == __CPROVER_old(G.cur_stores) + 1)
/*@BODY scoped_ctor*/

/* the two asserts of the destructor are its precondition: still the current root, and every frame activated on it was deactivated */
#define DTOR_REQ(self) (CUR.value == &(self)->root_ && (self)->root_.topFrame == NULL)
void ScopedAsyncStackRoot_dtor(struct ScopedAsyncStackRoot* self)
__CPROVER_requires(self == &SR && DTOR_REQ(self)) /*P*/
__CPROVER_assigns(CUR.value, G.cur_stores)
__CPROVER_ensures(CUR.value == self->root_.nextRoot) /* the previous root is the current root again (root_ itself untouched: frame condition) */
__CPROVER_ensures(G.cur_stores == __CPROVER_old(G.cur_stores) + 1)
/*@BODY scoped_dtor*/

void ScopedAsyncStackRoot_activateFrame(struct ScopedAsyncStackRoot* self, struct AsyncStackFrame* frame)
__CPROVER_requires(self == &SR && ACTIVATE_REQ(&self->root_, frame)) /*P*/
__CPROVER_assigns(self->root_.topFrame, frame->stackRoot, G_PUB)
__CPROVER_ensures(self->root_.topFrame == frame && frame->stackRoot == &self->root_)
__CPROVER_ensures(WF && ACTIVE(frame) && G.top_stores == __CPROVER_old(G.top_stores) + 1)
/*@BODY scoped_activateFrame*/

/* possiblyDeadFrame may be a dangling pointer: it is compared, never dereferenced (no assigns target, pointer checks) */
void ScopedAsyncStackRoot_ensureFrameDeactivated(struct ScopedAsyncStackRoot* self, struct AsyncStackFrame* possiblyDeadFrame)
__CPROVER_requires(self == &SR && CUR.value == &self->root_ && (self->root_.topFrame == NULL || self->root_.topFrame == possiblyDeadFrame)) /*P*/
__CPROVER_assigns(self->root_.topFrame, G_PUB)
__CPROVER_ensures(self->root_.topFrame == NULL) /* the root has no top frame: the destructor's precondition */
__CPROVER_ensures(DTOR_REQ(self))
__CPROVER_ensures(G.top_stores == __CPROVER_old(G.top_stores) + 1)
/*@BODY scoped_ensureFrameDeactivated*/

/* ---------------- resumeCoroutineWithNewAsyncStackRoot: local RAII root made explicit ---------------- */
#define VF_SCOPED_CTOR(p) do { (p)->root_.topFrame = TOPFRAME_INIT; (p)->root_.nextRoot = NEXTROOT_INIT; G.local_root = &(p)->root_; G.local_prev = CUR.value; \
    ScopedAsyncStackRoot_ctor((p), VF_nondet_uptr(), VF_nondet_uptr()); G.ctor++; } while (0)
#define VF_SCOPED_DTOR(p) do { VF_P(G.resumes == 1, "the root lives until the coroutine has returned"); ScopedAsyncStackRoot_dtor(p); G.dtor++; } while (0)
/* h.resume(): the coroutine runs on the new root with its frame active; by the time it suspends or finishes it has
 * deactivated its frame (await_transform / final_suspend: assumption) */
static void EV_resume(struct AsyncStackFrame* frame) {
  VF_CANARY("coroutine resume reachable");
  VF_P(G.resumes == 0, "the coroutine is resumed exactly once");
  VF_P(G.local_root != NULL && CUR.value == G.local_root, "the coroutine is resumed with the new root as the thread's current root");
  VF_P(G.local_root->topFrame == frame && frame->stackRoot == G.local_root, "the coroutine is resumed with its frame active on the new root");
  VF_P(G.local_root->nextRoot == G.local_prev, "the new root remembers the root it shadows");
  G.resumes++;
  G.local_root->topFrame = NULL; frame->stackRoot = NULL;
}
void resumeCoroutineWithNewAsyncStackRoot(int h, struct AsyncStackFrame* frame)
__CPROVER_requires(IS_FRAME(frame) && frame->stackRoot == NULL && WF && G.resumes == 0 && G.ctor == 0 && G.dtor == 0 && G.local_root == NULL)
__CPROVER_assigns(CUR.value, frame->stackRoot, G)
__CPROVER_ensures(CUR.value == __CPROVER_old(CUR.value)) /* the thread's current root is restored */
__CPROVER_ensures(frame->stackRoot == NULL && WF)        /* and the frame is detached again */
__CPROVER_ensures(G.resumes == 1 && G.ctor == 1 && G.dtor == 1)
/*@BODY resume_with_new_root*/

/* ---------------- the stack-trace walk ---------------- */
size_t getAsyncStackTraceFromInitialFrame(struct AsyncStackFrame* initialFrame, uintptr_t* addresses, size_t maxAddresses)
/*@BODY trace*/

/* same text with the loop contract spliced in: for chains of ANY length (WSELF: a chain member whose parent is again a
 * chain member or the end) at most maxAddresses entries are written, all inside the caller's buffer */
#define TRACE_BUF 16
static uintptr_t ADDR[TRACE_BUF];
size_t getAsyncStackTraceFromInitialFrame_lc(struct AsyncStackFrame* initialFrame, uintptr_t* addresses, size_t maxAddresses)
__CPROVER_requires((initialFrame == NULL || initialFrame == &WSELF) && (WSELF.parentFrame == NULL || WSELF.parentFrame == &WSELF))
__CPROVER_requires(addresses == ADDR && maxAddresses <= TRACE_BUF)
__CPROVER_assigns(__CPROVER_object_whole(addresses))
__CPROVER_ensures(__CPROVER_return_value <= maxAddresses) /* never more than maxAddresses entries (pointer checks: all of them inside the buffer) */
__CPROVER_ensures(initialFrame == NULL ==> __CPROVER_return_value == 0)
__CPROVER_ensures((WSELF.parentFrame == &WSELF && initialFrame != NULL) ==> __CPROVER_return_value == maxAddresses) /* a chain longer than the buffer fills it */
/*@BODY trace_lc*/

/* =====================================================================================================================
 * CALL SITES of the primitives (plain function bodies); the primitives are represented by their contracts (replace=[...]).
 * Window roles: F0 = the frame of the coroutine / operation, F1 = the copy frame inside a _root_and_frame, SR (R1) = the
 * ScopedAsyncStackRoot of a local RAII object (a local RAII object is laid out on these window objects), R0 = the
 * enclosing root.
 * ===================================================================================================================== */
struct awaitable_wrapper { int awaiter_; int coro_; };          /* _awaitable_wrapper<Awaitable>::type */
struct sender_awaitable { int op_; };                            /* _awaitable<Promise, Sender, With>::type */
struct resumer_awaiter { int h; };                               /* _coro_resumer<Promise>::type::promise_type::awaiter */
struct rcvr_wrapper { int op_; };                                /* _inject::_rcvr_wrapper<Receiver>::type */
struct op_wrapper { int op_; int receiver_; };                   /* _inject::_op_wrapper<Op, R>::type (its frame_ is F0) */
struct _root_and_frame { int placeholder; };                     /* members laid out on F1 / SR */
struct _root_and_frame_ref { int placeholder; };                 /* members laid out on RFR_FRAMEP / SR */
struct initial_stack_root { struct AsyncStackFrame frame; };     /* members laid out on F0 / SR */
static struct awaitable_wrapper AW;
static struct sender_awaitable SAW;
static struct resumer_awaiter RAW;
static struct rcvr_wrapper RW;
static struct op_wrapper OPW;
static _Bool WithAsyncStackSupport;
static _Bool VF_CFG_bool_overload;                             /* which await_suspend_impl overload: the wrapped await_suspend returns bool (may decline) / void or a handle */
#define IMP_(a, b) (!(a) || (b))                              /* template parameter: both values verified */
#define RF_FRAME F1
#define RF_ROOT SR
#define ISR_FRAME F0
#define VF_OPW_FRAME(op) (&F0)
static struct AsyncStackFrame* RFR_FRAMEP;                       /* _root_and_frame_ref::frame_ */
static struct AsyncStackFrame* vf_rf_arg;                        /* constructor arguments of the local RAII objects */
static struct AsyncStackFrame* vf_rfr_frame; static struct AsyncStackFrame* vf_rfr_parent;
static frame_ptr vf_isr_fp; static instruction_ptr vf_isr_ip;
enum { SIG_value, SIG_error, SIG_done };
/* the same facts as ACTIVE(), stated on the concrete window objects only: after a replaced contract has havocked a link,
 * the link is compared, never dereferenced (SPEC_GUIDE performance pitfall 1: spurious failures otherwise) */
#define ACTIVE_ON(f, r) ((f).stackRoot == (r) && ((r) == &R0 || (r) == &R1) && CUR.value == (r) && TOP_OF(r) == &(f))

/* the frame F0 / the awaiter / the operation may be gone (resumed and finished elsewhere, destroyed by its receiver) */
static void vf_cs_dies(void) {
  struct AsyncStackFrame f; F0.parentFrame = f.parentFrame; F0.instructionPointer = f.instructionPointer;   /* stackRoot: kept (the window invariant stays meaningful); any later write is caught by the snapshot */
  int c; AW.coro_ = c;
  G.snap_f0 = F0; G.snap_coro = AW.coro_; G.cs_dead = 1;
}
#define CS_UNTOUCHED_IF_DEAD (!G.cs_dead || (FRAME_EQ(F0, G.snap_f0) && AW.coro_ == G.snap_coro))
#define FRAME_EQ(a, b) ((a).parentFrame == (b).parentFrame && (a).instructionPointer == (b).instructionPointer && (a).stackRoot == (b).stackRoot)
#define CS_ZERO (G.resumers_made == 0 && G.resumer_destroys == 0 && G.suspend_calls == 0 && !G.cs_dead && G.completions == 0 && G.starts == 0 && G.rf_ctor == 0 && G.rf_dtor == 0 && G.connects == 0 && G.runs == 0 && G.resumes == 0)

/* ---- await_transform.hpp: _awaitable_wrapper::await_suspend_impl ---- */
static int EV_make_resumer(struct awaitable_wrapper* self) {
  VF_P(self == &AW && G.resumers_made == 0, "one resumer coroutine per suspension");
  G.resumers_made++; G.resumer_id = 1 + (int)(VF_nondet_u8() & 0x7f);
  return G.resumer_id;
}
/* the wrapped awaiter's await_suspend: may hand the resumer to another thread, which may resume the coroutine at once
 * (activating its frame on ANOTHER root), run it to completion and destroy promise, frame and this awaiter */
static _Bool vf_wrapped_await_suspend(struct awaitable_wrapper* self, int resumer, _Bool may_decline) {
  VF_CANARY("wrapped await_suspend reachable");
  VF_P(self == &AW && G.suspend_calls == 0, "the wrapped await_suspend is called once");
  VF_P(resumer == G.resumer_id && AW.coro_ == resumer, "the resumer is saved in coro_ (for later destruction) before it is handed to the awaiter");
  VF_P(F0.stackRoot == NULL && G.cs_root != NULL && TOP_OF(G.cs_root) == NULL, "the coroutine's frame is deactivated before the wrapped await_suspend runs (the resumer may activate it on another root at once)");
  G.suspend_calls++;
  G.suspended = may_decline ? VF_nondet_bool() : 1;
  if (G.suspended) { if (VF_nondet_bool()) F0.stackRoot = OPQ_R;   /* re-activated on another thread's root */
    vf_cs_dies(); }
  return G.suspended;
}
static _Bool EV_await_suspend(struct awaitable_wrapper* self, int resumer) { return vf_wrapped_await_suspend(self, resumer, VF_CFG_bool_overload); }
static void EV_resumer_destroy(struct awaitable_wrapper* self, int h) {
  VF_P(self == &AW && !G.cs_dead, "the unneeded resumer is destroyed only when the coroutine was not suspended");
  VF_P(h == G.resumer_id && G.resumer_destroys == 0 && AW.coro_ == 0, "the unneeded resumer is destroyed exactly once and coro_ is cleared (no second destroy in the destructor)");
  G.resumer_destroys++;
}
#define AW_REQ (self == &AW && frame == &F0 && WF && ACTIVE(frame) && CS_ZERO && G.cs_root == F0.stackRoot)
_Bool awaitable_wrapper_await_suspend_impl_bool(struct awaitable_wrapper* self, int h, struct AsyncStackFrame* frame)
__CPROVER_requires(AW_REQ && VF_CFG_bool_overload)
__CPROVER_assigns(AW, F0, R0.topFrame, R1.topFrame, G)
__CPROVER_ensures(G.resumers_made == 1 && G.suspend_calls == 1 && __CPROVER_return_value == G.suspended)
__CPROVER_ensures(__CPROVER_return_value ==> (G.top_stores == __CPROVER_old(G.top_stores) + 1 && G.resumer_destroys == 0 && CS_UNTOUCHED_IF_DEAD && G.cs_dead)) /* really suspended: deactivated once, nothing of frame / promise / awaiter touched afterwards */
__CPROVER_ensures(!__CPROVER_return_value ==> ACTIVE_ON(F0, G.cs_root)) /* not suspended: the SAME frame is active again on the SAME root it was taken off ... */
__CPROVER_ensures(!__CPROVER_return_value ==> WF)
__CPROVER_ensures(!__CPROVER_return_value ==> G.top_stores == __CPROVER_old(G.top_stores) + 2) /* ... by exactly one re-activation */
__CPROVER_ensures(!__CPROVER_return_value ==> (G.resumer_destroys == 1 && !G.cs_dead))
__CPROVER_ensures(CUR.value == __CPROVER_old(CUR.value))
/*@BODY aw_suspend_bool*/

int awaitable_wrapper_await_suspend_impl_other(struct awaitable_wrapper* self, int h, struct AsyncStackFrame* frame)
__CPROVER_requires(AW_REQ && !VF_CFG_bool_overload)
__CPROVER_assigns(AW, F0, R0.topFrame, R1.topFrame, G)
__CPROVER_ensures(G.resumers_made == 1 && G.suspend_calls == 1 && G.resumer_destroys == 0)
__CPROVER_ensures(G.top_stores == __CPROVER_old(G.top_stores) + 1 && TOP_OF(G.cs_root) == NULL) /* deactivated once, never re-activated here */
__CPROVER_ensures(G.cs_dead && CS_UNTOUCHED_IF_DEAD && CUR.value == __CPROVER_old(CUR.value))
/*@BODY aw_suspend_other*/

/* ---- await_transform.hpp: _awaitable<Promise, Sender>::await_suspend (a sender is awaited) ---- */
static struct AsyncStackFrame* EV_promise_frame(void* self) { return G.arg_frame; }
static void EV_start_awaited_op(struct sender_awaitable* self) {
  VF_CANARY("start of the awaited operation reachable");
  VF_P(self == &SAW && G.starts == 0, "the awaited operation is started once");
  VF_P(IMP_(WithAsyncStackSupport && G.arg_frame != NULL, F0.stackRoot == NULL && TOP_OF(G.cs_root) == NULL), "the coroutine's frame is deactivated before the operation that may resume it elsewhere is started");
  G.starts++;
  vf_cs_dies();
}
void sender_awaitable_await_suspend(struct sender_awaitable* self, int handle)
__CPROVER_requires(self == &SAW && CS_ZERO && WF && (G.arg_frame == NULL || (G.arg_frame == &F0 && ACTIVE(&F0) && G.cs_root == F0.stackRoot)))
__CPROVER_assigns(AW, F0, R0.topFrame, R1.topFrame, G)
__CPROVER_ensures(G.starts == 1 && CS_UNTOUCHED_IF_DEAD)
__CPROVER_ensures(G.top_stores == __CPROVER_old(G.top_stores) + ((WithAsyncStackSupport && G.arg_frame != NULL) ? 1 : 0))
/*@BODY sender_awaitable_suspend*/

/* ---- await_transform.hpp: the resumer coroutine's awaiter: resumes the suspended coroutine on a NEW root ---- */
#define VF_SR_CTOR(p) do { (void)(p); R1.topFrame = TOPFRAME_INIT; R1.nextRoot = NEXTROOT_INIT; ScopedAsyncStackRoot_ctor(&SR, VF_nondet_uptr(), VF_nondet_uptr()); G.ctor++; } while (0)
#define VF_SR_DTOR(p) do { (void)(p); ScopedAsyncStackRoot_dtor(&SR); G.dtor++; } while (0)
/* h.resume(): the coroutine runs until it suspends again (await_suspend_impl above: its frame is deactivated, and may be
 * re-activated elsewhere and die) or finishes / is destroyed (frame dead, possibly still recorded as top frame) */
static void EV_resume_awaiting(struct resumer_awaiter* self, struct AsyncStackFrame* frame) {
  VF_CANARY("resume of the awaiting coroutine reachable");
  VF_P(self == &RAW && G.resumes == 0, "the awaiting coroutine is resumed exactly once");
  VF_P(frame == G.arg_frame, "the frame that is activated is the awaiting coroutine's own frame");
  if (frame != NULL) {
    VF_P(G.ctor == 1 && G.dtor == 0 && ACTIVE_ON(F0, &R1), "a coroutine with a frame is resumed with that frame active on a new root");
    if (VF_nondet_bool()) { R1.topFrame = NULL; F0.stackRoot = NULL; }      /* suspended again after deactivating its frame */
    if (VF_nondet_bool()) vf_cs_dies();                                     /* ... and gone (or: finished with the frame still recorded as top) */
  } else {
    VF_P(G.ctor == 0, "no root is created for a coroutine without a frame");
  }
  G.resumes++;
}
void resumer_awaiter_await_suspend(struct resumer_awaiter* self)
__CPROVER_requires(self == &RAW && CS_ZERO && G.ctor == 0 && G.dtor == 0 && WF && CUR.value != &R1 && FRESH_ROOT(R1) && (G.arg_frame == NULL || (G.arg_frame == &F0 && F0.stackRoot == NULL)))
__CPROVER_assigns(AW, F0, SR, CUR.value, G)
__CPROVER_ensures(G.resumes == 1 && CUR.value == __CPROVER_old(CUR.value)) /* the thread's root is restored */
__CPROVER_ensures(G.arg_frame != NULL ==> (G.ctor == 1 && G.dtor == 1 && R1.topFrame == NULL)) /* the new root ends without top frame, whatever became of the coroutine */
__CPROVER_ensures(G.arg_frame == NULL ==> (G.ctor == 0 && G.dtor == 0))
__CPROVER_ensures(CS_UNTOUCHED_IF_DEAD)                                      /* a possibly-dead frame is never touched */
/*@BODY resumer_awaiter_suspend*/

/* ---- inject_async_stack.hpp: _root_and_frame / _root_and_frame_ref (constructor / destructor bodies) ---- */
void root_and_frame_ctor_body(struct AsyncStackFrame* frame)
/*@BODY rf_ctor*/
void root_and_frame_dtor_body(void)
/*@BODY rf_dtor*/
void root_and_frame_ref_ctor_body(struct AsyncStackFrame* parentFrame)
/*@BODY rfr_ctor*/
void root_and_frame_ref_dtor_body(void)
/*@BODY rfr_dtor*/
/* member construction / destruction order made explicit: frame_ (default member initialisers), root_ (ScopedAsyncStackRoot()),
 * constructor body;  destructor body, ~root_, ~frame_ */
#define VF_FRESH_SR() do { R1.topFrame = TOPFRAME_INIT; R1.nextRoot = NEXTROOT_INIT; } while (0)
#define VF_RF_CTOR(p) do { (void)(p); F1.parentFrame = PARENTFRAME_INIT; F1.stackRoot = STACKROOT_INIT; F1.instructionPointer = 0; VF_FRESH_SR(); \
    ScopedAsyncStackRoot_ctor(&SR, VF_nondet_uptr(), VF_nondet_uptr()); root_and_frame_ctor_body(vf_rf_arg); G.rf_ctor++; } while (0)
#define VF_RF_DTOR(p) do { (void)(p); root_and_frame_dtor_body(); ScopedAsyncStackRoot_dtor(&SR); G.rf_dtor++; } while (0)
#define VF_RFR_CTOR(p) do { (void)(p); { struct AsyncStackFrame* frame = vf_rfr_frame; RFR_FRAMEP = (/*@EXPR rfr_frame_init*/); } VF_FRESH_SR(); \
    ScopedAsyncStackRoot_ctor(&SR, VF_nondet_uptr(), VF_nondet_uptr()); root_and_frame_ref_ctor_body(vf_rfr_parent); G.rf_ctor++; } while (0)
#define VF_RFR_DTOR(p) do { (void)(p); root_and_frame_ref_dtor_body(); ScopedAsyncStackRoot_dtor(&SR); G.rf_dtor++; } while (0)

/* get_async_stack_frame(receiver()): the downstream receiver's frame (F0) or none */
static struct AsyncStackFrame* EV_get_async_stack_frame(struct rcvr_wrapper* self) {
  G.arg_frame = VF_nondet_bool() ? &F0 : NULL;
  if (G.arg_frame) { G.arg_parent = F0.parentFrame; G.arg_ip = F0.instructionPointer; }
  return G.arg_frame;
}
/* unifex::set_value / set_error / set_done on the wrapped receiver: arbitrary downstream code, balanced on the current
 * root (assumption); it may destroy the operation (and with it the receiver's frame F0) */
static _Bool EV_complete(struct rcvr_wrapper* self, int sig) {
  VF_CANARY("completion of the wrapped receiver reachable");
  VF_P(self == &RW && G.completions == 0, "the wrapped receiver is completed exactly once");
  VF_P(G.rf_ctor == 1 && G.rf_dtor == 0 && ACTIVE_ON(F1, &R1), "the wrapped receiver is completed with the copy frame active on a fresh root");
  VF_P(G.arg_frame == NULL || (F1.parentFrame == G.arg_parent && F1.instructionPointer == G.arg_ip), "the copy frame carries the receiver frame's parent link and return address (the trace continues from leaf to root)");
  VF_P(G.arg_frame != NULL || (F1.parentFrame == NULL), "without a receiver frame the copy frame is a chain end");
  if (sig == SIG_value && VF_nondet_bool()) return 1;     /* set_value throws: nothing was delivered */
  G.completions++; G.last_sig = sig;
  vf_cs_dies();
  return 0;
}
#define RCVW_REQ (self == &RW && CS_ZERO && WF && CUR.value != &R1 && FRESH_ROOT(R1) && F1.stackRoot == NULL && F0.stackRoot != &R1 && R0.topFrame != &F1)
#define RCVW_ENS (G.completions == 1 && G.rf_ctor == 1 && G.rf_dtor == 1 && G.top_stores == G.cs_top0 + 2 && F1.stackRoot == NULL && R1.topFrame == NULL && CS_UNTOUCHED_IF_DEAD)
void rcvr_wrapper_set_value(struct rcvr_wrapper* self)
__CPROVER_requires(RCVW_REQ)
__CPROVER_assigns(AW, F0, F1, SR, CUR.value, G, vf_rf_arg)
__CPROVER_ensures(RCVW_ENS)                                   /* one completion, inside a balanced root scope + activate/deactivate pair of the COPY frame; the operation is never touched afterwards */
__CPROVER_ensures(CUR.value == __CPROVER_old(CUR.value) && R0.topFrame == __CPROVER_old(R0.topFrame)) /* stack roots restored */
__CPROVER_ensures(G.last_sig == SIG_value || G.last_sig == SIG_error)
/*@BODY rcvw_set_value*/
void rcvr_wrapper_set_error(struct rcvr_wrapper* self)
__CPROVER_requires(RCVW_REQ)
__CPROVER_assigns(AW, F0, F1, SR, CUR.value, G, vf_rf_arg)
__CPROVER_ensures(RCVW_ENS && G.last_sig == SIG_error)
__CPROVER_ensures(CUR.value == __CPROVER_old(CUR.value) && R0.topFrame == __CPROVER_old(R0.topFrame))
/*@BODY rcvw_set_error*/
void rcvr_wrapper_set_done(struct rcvr_wrapper* self)
__CPROVER_requires(RCVW_REQ)
__CPROVER_assigns(AW, F0, F1, SR, CUR.value, G, vf_rf_arg)
__CPROVER_ensures(RCVW_ENS && G.last_sig == SIG_done)
__CPROVER_ensures(CUR.value == __CPROVER_old(CUR.value) && R0.topFrame == __CPROVER_old(R0.topFrame))
/*@BODY rcvw_set_done*/

/* _op_wrapper::start */
static struct AsyncStackFrame* EV_get_parent_frame(struct op_wrapper* self) { G.arg_parent = VF_nondet_bool() ? OPQ_F : NULL; return G.arg_parent; }
/* unifex::start(op_): may complete inline (the receiver may then destroy the whole wrapper, frame F0 included) or stay pending */
static void EV_start_wrapped_op(struct op_wrapper* self) {
  VF_CANARY("start of the wrapped operation reachable");
  VF_P(self == &OPW && G.starts == 0, "the wrapped operation is started exactly once");
  VF_P(G.rf_ctor == 1 && G.rf_dtor == 0 && ACTIVE_ON(F0, &R1), "the wrapped operation is started with the operation's frame active on a fresh root");
  VF_P(G.arg_parent == NULL || F0.parentFrame == G.arg_parent, "the operation's frame is linked to the receiver's frame before it is activated");
  G.starts++;
  if (VF_nondet_bool()) vf_cs_dies();
}
void op_wrapper_start(struct op_wrapper* self)
__CPROVER_requires(self == &OPW && CS_ZERO && WF && CUR.value != &R1 && FRESH_ROOT(R1) && F0.stackRoot == NULL && F1.stackRoot != &R1)
__CPROVER_assigns(AW, F0, SR, CUR.value, G, RFR_FRAMEP, vf_rfr_frame, vf_rfr_parent)
__CPROVER_ensures(G.starts == 1 && G.rf_ctor == 1 && G.rf_dtor == 1)
__CPROVER_ensures(CUR.value == __CPROVER_old(CUR.value) && R1.topFrame == NULL && R0.topFrame == __CPROVER_old(R0.topFrame)) /* stack roots restored; the scoped root ends without top frame */
__CPROVER_ensures(CS_UNTOUCHED_IF_DEAD)                      /* an operation that completed (and may be gone) is not touched */
/*@BODY opw_start*/

/* ---- sync_wait.hpp: initial_stack_root and the scope inside _impl that owns it ---- */
void initial_stack_root_ctor_body(frame_ptr frameAddress, instruction_ptr returnAddress)
/*@BODY isr_ctor*/
void initial_stack_root_dtor_body(void)
/*@BODY isr_dtor*/
static void vf_isr_construct(frame_ptr frameAddress, instruction_ptr returnAddress) {
  F0.parentFrame = PARENTFRAME_INIT; F0.stackRoot = STACKROOT_INIT; F0.instructionPointer = 0; VF_FRESH_SR();
  ScopedAsyncStackRoot_ctor(&SR, /*@EXPR isr_root_init*/);
  initial_stack_root_ctor_body(frameAddress, returnAddress);
}
#define VF_ISR_CTOR(p) do { (void)(p); vf_isr_construct(vf_isr_fp, vf_isr_ip); G.rf_ctor++; } while (0)
#define VF_ISR_DTOR(p) do { (void)(p); initial_stack_root_dtor_body(); ScopedAsyncStackRoot_dtor(&SR); G.rf_dtor++; } while (0)
#define SW_INSIDE (G.rf_ctor == 1 && G.rf_dtor == 0 && ACTIVE_ON(F0, &R1))
static _Bool EV_sw_connect(struct AsyncStackFrame* f) { VF_P(SW_INSIDE && G.connects == 0, "the operation is connected inside the root scope, with sync_wait's frame active"); if (VF_nondet_bool()) return 1; G.connects++; return 0; }
static void EV_sw_start(void) { VF_CANARY("sync_wait start reachable"); VF_P(SW_INSIDE && G.connects == 1 && G.starts == 0, "the operation is started inside the root scope, with sync_wait's frame active"); G.starts++; }
static void EV_sw_run(void) { VF_P(SW_INSIDE && G.starts == 1 && G.runs == 0, "the event loop runs inside the root scope, with sync_wait's frame active"); VF_P(R1.returnAddress == vf_isr_ip && R1.stackFramePtr == vf_isr_fp && F0.instructionPointer == vf_isr_ip, "root and frame carry sync_wait's caller context"); G.runs++; }
void sync_wait_impl_scope(frame_ptr frameAddress, instruction_ptr returnAddress)
__CPROVER_requires(CS_ZERO && WF && CUR.value != &R1 && FRESH_ROOT(R1) && F0.stackRoot == NULL && F1.stackRoot != &R1 && R0.topFrame != &F0)
__CPROVER_assigns(F0, SR, CUR.value, G, vf_isr_fp, vf_isr_ip)
__CPROVER_ensures(G.rf_ctor == 1 && G.rf_dtor == 1 && G.top_stores == G.cs_top0 + 2) /* one activation, one deactivation, also when connect() throws */
__CPROVER_ensures(CUR.value == __CPROVER_old(CUR.value) && F0.stackRoot == NULL && R1.topFrame == NULL && R0.topFrame == __CPROVER_old(R0.topFrame)) /* the frame is deactivated and the roots are restored when sync_wait's scope ends */
__CPROVER_ensures(G.connects == 1 ==> (G.starts == 1 && G.runs == 1))
/*@BODY sw_scope*/


/* =====================================================================================================================
 * CALL SITES, second batch: _rec (await_transform.hpp), _rcvr_wrapper::set_next (inject_async_stack.hpp), the plain member
 * functions of connect_awaitable.hpp and at_coroutine_exit.hpp.  Window roles as above; additionally F1 = the dummy frame
 * of _rec::set_done resp. the cleanup coroutine's frame_ (its caller, the exiting coroutine's frame, is F0).
 * ===================================================================================================================== */
enum { /*@EXPR state_enum*/ };
static struct expected RESULT;
static struct rec REC;
static struct cleanup_promise CP;
struct sender_task_promise { int receiver_; };                  /* _await::_sender_task<Receiver, With>::type::promise_type (its frame_ is F0) */
struct st_awaiter { int func_; };                               /* ... ::promise_type::awaiter<Func> */
struct sender_task { int coro_; };                              /* _await::_sender_task<Receiver, With>::type */
struct cleanup_awaiter { int continuation_; };                  /* _cleanup_task<...>::awaiter */
static struct sender_task_promise STP; static struct st_awaiter STA; static struct sender_task ST; static struct cleanup_awaiter CAW;
#define PROMISE_FRAME F0
#define CLEANUP_FRAME F1
#define VF_TASK_FRAME(t) (&F0)
#define CS2_ZERO (G.emplaced == 0 && !G.rec_dead && !G.threw && G.nexts == 0 && G.dummy_ctor == 0 && G.dummy_dtor == 0 && G.next_reads == 0 && G.destroys == 0 && G.transforms == 0 && G.exchanges == 0 && !G.cp_dead)
#define CS_ENTRY (G.cs_top0 == G.top_stores && G.cs_prev == CUR.value)

/* ---- await_transform.hpp: _awaitable_base<...>::type::_rec ---- */
/* the awaitable (result slot, operation state and with it this receiver) lives in the awaiting coroutine's frame: once the
 * continuation runs all of it may be gone */
static void vf_rec_dies(void) {
  struct rec r; struct expected e; REC.continuation_ = r.continuation_; RESULT = e;   /* result_ (a pointer): kept; any later write is caught by the snapshot */
  G.snap_rec = REC; G.snap_result = RESULT; G.rec_dead = 1;
}
#define REC_UNTOUCHED_IF_DEAD (!G.rec_dead || (REC.result_ == G.snap_rec.result_ && REC.continuation_ == G.snap_rec.continuation_ && RESULT.state_ == G.snap_result.state_ && RESULT.value_ == G.snap_result.value_ && RESULT.exception_ == G.snap_result.exception_))
#define REC_TRACED (WithAsyncStackSupport && G.arg_frame != NULL)
/* activate_union_member(result_->value_ / exception_, ...): Value's constructor may throw (set_value is conditionally noexcept) */
static _Bool EV_activate_member(struct rec* self, int which) {
  VF_P(self == &REC && REC.result_ == &RESULT, "the result is stored in the awaitable's result slot");
  VF_P(G.resumes == 0 && !G.rec_dead, "the result is stored before the continuation is resumed");
  VF_P(RESULT.state_ == STATE_empty && G.emplaced == 0, "the result slot is filled once, while it is empty");
  if (which == STATE_value && VF_nondet_bool()) { G.threw = 1; return 1; }
  G.emplaced = which;
  if (which == STATE_value) RESULT.value_ = 1; else RESULT.exception_ = 1;
  return 0;
}
/* continuation_.resume() / continuation_.resume_done(): the awaiting coroutine (or its done handler) runs on this thread
 * until it suspends again or finishes; it uses the async stack in a balanced way (assumption): by the time it returns it has
 * deactivated its frame (which may since have been re-activated elsewhere) and may be gone, and with it the awaitable */
static void EV_resume_continuation(struct rec* self, _Bool done) {
  VF_CANARY("resume of the awaiting coroutine from _rec reachable");
  VF_P(self == &REC && G.resumes == 0 && !G.rec_dead, "the continuation is resumed (or its done handler taken) exactly once");
  VF_P(G.expect_state < 0 || (RESULT.state_ == G.expect_state && G.emplaced == (G.expect_state == STATE_done ? 0 : G.expect_state)), "the result (constructed member and state tag) is in place before the continuation runs");
  VF_P(G.expect_state < 0 || done == (G.expect_state == STATE_done), "value and error resume the continuation, done takes its done handler");
  if (REC_TRACED) {
    VF_P(G.ctor == 1 && G.dtor == 0 && CUR.value == &R1 && R1.nextRoot == G.cs_prev, "the continuation runs on a fresh root that is the thread's current root and shadows the previous one");
    VF_P(G.top_stores == G.cs_top0 + 1, "exactly one frame activation before the continuation runs");
    if (!done) {
      VF_P(ACTIVE_ON(F0, &R1), "the awaiting coroutine's OWN frame is re-activated on the new root before it is resumed");
      R1.topFrame = NULL; F0.stackRoot = VF_nondet_bool() ? OPQ_R : NULL;
    } else {
      VF_P(G.dummy_ctor == 1 && G.dummy_dtor == 0 && ACTIVE_ON(F1, &R1) && F1.parentFrame == &F0 && F0.stackRoot == NULL,
           "done: a dummy frame whose parent is the awaiting coroutine's frame is the active frame, the coroutine's own frame stays detached (its unhandled_done() pops the dummy frame)");
      /* unhandled_done() of the waiting coroutine: popAsyncStackFrameFromCaller(frame_); deactivateAsyncStackFrame(frame_);
       * (connect_awaitable.hpp: unit sender_task_unhandled_done, lemma_done_handoff) */
      F1.stackRoot = NULL; R1.topFrame = NULL; F0.stackRoot = NULL;
    }
    if (VF_nondet_bool()) vf_cs_dies();
  } else {
    VF_P(G.ctor == 0 && G.top_stores == G.cs_top0 && CUR.value == G.cs_prev, "without a frame (or without async stack support) no root is created and nothing is activated");
  }
  G.resumes++; G.resumed_done = done;
  vf_rec_dies();
}
/* the dummy frame of set_done (a local AsyncStackFrame) is laid out on F1 */
#define VF_DUMMY_CTOR(p) do { (void)(p); F1.parentFrame = PARENTFRAME_INIT; F1.stackRoot = STACKROOT_INIT; F1.instructionPointer = 0; G.dummy_ctor++; } while (0)
#define VF_DUMMY_DTOR(p) do { (void)(p); VF_P(F1.stackRoot == NULL && R1.topFrame != &F1 && R0.topFrame != &F1, "the dummy frame is detached when it goes out of scope"); G.dummy_dtor++; } while (0)
#define REC_REQ (self == &REC && REC.result_ == &RESULT && CS_ZERO && CS2_ZERO && G.ctor == 0 && G.dtor == 0 && WF && CUR.value != &R1 && FRESH_ROOT(R1) \
    && (G.arg_frame == NULL || (G.arg_frame == &F0 && F0.stackRoot == NULL)) && F1.stackRoot == NULL && CS_ENTRY)
/* resumed exactly once; traced: inside a balanced root scope with exactly one activation (of the frame the stub checks);
 * neither the coroutine's frame nor the awaitable is written after the resume */
#define REC_ENS (G.resumes == 1 && (REC_TRACED ? (G.ctor == 1 && G.dtor == 1 && R1.topFrame == NULL) : (G.ctor == 0 && G.dtor == 0)) \
    && G.top_stores == G.cs_top0 + (REC_TRACED ? 1 : 0) && CS_UNTOUCHED_IF_DEAD && REC_UNTOUCHED_IF_DEAD)
#define REC_ASSIGNS AW, F0, F1, SR, CUR.value, G, REC, RESULT
void rec_complete(struct rec* self)
__CPROVER_requires(REC_REQ)
__CPROVER_assigns(REC_ASSIGNS)
__CPROVER_ensures(REC_ENS && !G.resumed_done && G.dummy_ctor == 0)
__CPROVER_ensures(CUR.value == __CPROVER_old(CUR.value))       /* the thread's root is restored */
/*@BODY rec_complete*/
void rec_set_value(struct rec* self)
__CPROVER_requires(REC_REQ && RESULT.state_ == STATE_empty && G.expect_state == STATE_value)
__CPROVER_assigns(REC_ASSIGNS)
__CPROVER_ensures(!G.threw ==> (REC_ENS && !G.resumed_done))
__CPROVER_ensures(G.threw ==> (G.resumes == 0 && RESULT.state_ == STATE_empty && G.ctor == 0 && G.top_stores == G.cs_top0)) /* Value's constructor threw: nothing delivered, the caller reports the error */
__CPROVER_ensures(CUR.value == __CPROVER_old(CUR.value))
/*@BODY rec_set_value*/
void rec_set_error(struct rec* self)
__CPROVER_requires(REC_REQ && RESULT.state_ == STATE_empty && G.expect_state == STATE_exception)
__CPROVER_assigns(REC_ASSIGNS)
__CPROVER_ensures(REC_ENS && !G.resumed_done && !G.threw)
__CPROVER_ensures(CUR.value == __CPROVER_old(CUR.value))
/*@BODY rec_set_error*/
void rec_set_error_code(struct rec* self)
__CPROVER_requires(REC_REQ && RESULT.state_ == STATE_empty && G.expect_state == STATE_exception)
__CPROVER_assigns(REC_ASSIGNS)
__CPROVER_ensures(REC_ENS && !G.resumed_done && !G.threw)
__CPROVER_ensures(CUR.value == __CPROVER_old(CUR.value))
/*@BODY rec_set_error_code*/
void rec_set_done(struct rec* self)
__CPROVER_requires(REC_REQ && RESULT.state_ == STATE_empty && G.expect_state == STATE_done)
__CPROVER_assigns(REC_ASSIGNS)
__CPROVER_ensures(REC_ENS && G.resumed_done)
__CPROVER_ensures(REC_TRACED ? (G.dummy_ctor == 1 && G.dummy_dtor == 1 && F1.stackRoot == NULL) : (G.dummy_ctor == 0 && G.dummy_dtor == 0)) /* the dummy frame is gone, detached */
__CPROVER_ensures(CUR.value == __CPROVER_old(CUR.value))
/*@BODY rec_set_done*/

/* ---- inject_async_stack.hpp: _rcvr_wrapper::set_next (conditionally noexcept) ---- */
/* unifex::set_next(receiver(), ...): not a completion (the operation stays alive); balanced on the current root (assumption);
 * MAY THROW: the exception leaves set_next through the _root_and_frame object */
static _Bool EV_wrapped_set_next(struct rcvr_wrapper* self) {
  VF_CANARY("wrapped set_next reachable");
  VF_P(self == &RW && G.nexts == 0 && G.completions == 0, "the wrapped receiver's set_next is called once per call");
  VF_P(G.rf_ctor == 1 && G.rf_dtor == 0 && ACTIVE_ON(F1, &R1), "set_next is delivered with the copy frame active on a fresh root");
  VF_P(G.arg_frame == NULL || (F1.parentFrame == G.arg_parent && F1.instructionPointer == G.arg_ip), "the copy frame carries the receiver frame's parent link and return address");
  VF_P(G.arg_frame != NULL || (F1.parentFrame == NULL), "without a receiver frame the copy frame is a chain end");
  G.nexts++;
  G.threw = VF_nondet_bool();
  return G.threw;
}
void rcvr_wrapper_set_next(struct rcvr_wrapper* self)
__CPROVER_requires(RCVW_REQ && CS2_ZERO)
__CPROVER_assigns(F1, SR, CUR.value, G, vf_rf_arg)
__CPROVER_ensures(G.nexts == 1 && G.completions == 0)
__CPROVER_ensures(G.rf_ctor == 1 && G.rf_dtor == 1 && G.top_stores == G.cs_top0 + 2 && F1.stackRoot == NULL && R1.topFrame == NULL) /* balanced on BOTH paths: normal return and unwinding (G.threw) */
__CPROVER_ensures(CUR.value == __CPROVER_old(CUR.value) && R0.topFrame == __CPROVER_old(R0.topFrame))                              /* stack roots restored on both paths */
/*@BODY rcvw_set_next*/

/* ---- connect_awaitable.hpp: _sender_task<Receiver, With>::type and its promise_type (frame_ = F0) ---- */
void sender_task_promise_ctor(struct sender_task_promise* self, instruction_ptr returnAddress)
__CPROVER_requires(self == &STP && F0.parentFrame == PARENTFRAME_INIT && F0.stackRoot == STACKROOT_INIT)
__CPROVER_assigns(F0.instructionPointer)
__CPROVER_ensures(WithAsyncStackSupport ==> F0.instructionPointer == returnAddress)
__CPROVER_ensures(F0.parentFrame == NULL && F0.stackRoot == NULL)   /* the frame of a new promise is detached (frame condition) */
/*@BODY stp_ctor*/
/* std::forward<Func>(func_)(): the lambda handed to co_yield completes the receiver, which may destroy the coroutine */
static void EV_yield_func(struct st_awaiter* self) {
  VF_CANARY("completion function of the sender_task reachable");
  VF_P(self == &STA && G.completions == 0, "the completion function runs once");
  VF_P(IMP_(WithAsyncStackSupport, F0.stackRoot == NULL && G.cs_root != NULL && TOP_OF(G.cs_root) == NULL), "the coroutine's frame is deactivated before the receiver is completed (it may destroy the coroutine)");
  G.completions++;
  vf_cs_dies();
}
void sender_task_awaiter_await_suspend(struct st_awaiter* self, int h)
__CPROVER_requires(self == &STA && CS_ZERO && CS2_ZERO && WF && IMP_(WithAsyncStackSupport, ACTIVE(&F0) && G.cs_root == F0.stackRoot))
__CPROVER_assigns(AW, F0, R0.topFrame, R1.topFrame, G)
__CPROVER_ensures(G.completions == 1 && CS_UNTOUCHED_IF_DEAD && CUR.value == __CPROVER_old(CUR.value))
__CPROVER_ensures(G.top_stores == __CPROVER_old(G.top_stores) + (WithAsyncStackSupport ? 1 : 0))
/*@BODY stp_await_suspend*/
/* the lambda behind doneCoro_ (run by unhandled_done()): entered from _rec::set_done with the dummy frame F1 active */
static void EV_promise_set_done(struct sender_task_promise* self) {
  VF_CANARY("set_done of the sender_task's receiver reachable");
  VF_P(self == &STP && G.completions == 0, "set_done is delivered once");
  VF_P(IMP_(WithAsyncStackSupport, F0.stackRoot == NULL && F1.stackRoot == NULL && G.cs_root != NULL && TOP_OF(G.cs_root) == NULL),
       "the dummy frame is popped and the coroutine's own frame deactivated before the receiver is completed with done (it may destroy the coroutine)");
  G.completions++; G.last_sig = SIG_done;
  vf_cs_dies();
}
#define STP_DONE_REQ (WF && CUR.value != NULL && IS_ROOT(CUR.value) && G.cs_root == CUR.value && TOPF == &F1 && F1.stackRoot == CUR.value && F1.parentFrame == &F0 && F0.stackRoot == NULL)
void sender_task_promise_unhandled_done(struct sender_task_promise* self)
__CPROVER_requires(self == &STP && CS_ZERO && CS2_ZERO && IMP_(WithAsyncStackSupport, STP_DONE_REQ))
__CPROVER_assigns(AW, F0, F1.stackRoot, R0.topFrame, R1.topFrame, G)
__CPROVER_ensures(G.completions == 1 && G.last_sig == SIG_done && CS_UNTOUCHED_IF_DEAD && CUR.value == __CPROVER_old(CUR.value))
__CPROVER_ensures(WithAsyncStackSupport ==> (F0.stackRoot == NULL && F1.stackRoot == NULL && TOP_OF(CUR.value) == NULL)) /* both frames detached, the root without top frame: what _rec::set_done's root scope needs to end */
__CPROVER_ensures(G.top_stores == __CPROVER_old(G.top_stores) + (WithAsyncStackSupport ? 2 : 0))
/*@BODY stp_done*/
/* start(): the first resume of the coroutine, on a new root */
static struct AsyncStackFrame* EV_task_parent_frame(struct sender_task* self) { G.arg_parent = VF_nondet_bool() ? OPQ_F : NULL; return G.arg_parent; }
/* coro_.resume(): the coroutine runs until it suspends (every await / yield path deactivates its frame first: units
 * sender_awaitable_await_suspend, await_suspend_impl_*, sender_task_awaiter_await_suspend) or until its receiver has destroyed it */
static void EV_task_resume(struct sender_task* self) {
  VF_CANARY("first resume of the sender_task reachable");
  VF_P(self == &ST && G.resumes == 0, "start() resumes the coroutine exactly once");
  if (WithAsyncStackSupport) {
    VF_P(G.ctor == 1 && G.dtor == 0 && ACTIVE_ON(F0, &R1) && R1.nextRoot == G.cs_prev, "the coroutine is resumed with its promise's frame active on a fresh root");
    VF_P(F0.parentFrame == G.arg_parent, "the frame is linked to the receiver's frame (or is a chain end) before it is activated");
    _Bool deactivated = VF_nondet_bool();
    if (deactivated) { R1.topFrame = NULL; F0.stackRoot = NULL; }
    if (!deactivated || VF_nondet_bool()) vf_cs_dies();      /* gone, possibly still recorded as top frame */
  } else {
    VF_P(G.ctor == 0 && G.top_stores == G.cs_top0, "no root without async stack support");
  }
  G.resumes++;
}
void sender_task_start(struct sender_task* self)
__CPROVER_requires(self == &ST && CS_ZERO && CS2_ZERO && G.ctor == 0 && G.dtor == 0 && WF && CUR.value != &R1 && FRESH_ROOT(R1) && F0.stackRoot == NULL && F0.parentFrame == PARENTFRAME_INIT && CS_ENTRY)
__CPROVER_assigns(AW, F0, SR, CUR.value, G)
__CPROVER_ensures(G.resumes == 1 && CUR.value == __CPROVER_old(CUR.value))                                       /* the thread's root is restored */
__CPROVER_ensures(WithAsyncStackSupport ? (G.ctor == 1 && G.dtor == 1 && R1.topFrame == NULL) : (G.ctor == 0 && G.dtor == 0))
__CPROVER_ensures(CS_UNTOUCHED_IF_DEAD && (!G.cs_dead ==> F0.stackRoot == NULL))                                   /* a dead frame is not written, a live one is detached */
/*@BODY st_start*/

/* ---- at_coroutine_exit.hpp: the cleanup coroutine's promise (frame_ = F1, parentFrame_ -> F0) ---- */
static void vf_cp_dies(void) {
  struct cleanup_promise c; CP.isUnhandledDone_ = c.isUnhandledDone_; CP.continuation_ = c.continuation_; CP.sched_ = c.sched_;
  struct AsyncStackFrame f; F1.parentFrame = f.parentFrame; F1.instructionPointer = f.instructionPointer;
  G.snap_cp = CP; G.snap_f1 = F1; G.cp_dead = 1;
}
#define CP_UNTOUCHED_IF_DEAD (!G.cp_dead || (FRAME_EQ(F1, G.snap_f1) && CP.parentFrame_ == G.snap_cp.parentFrame_ && CP.isUnhandledDone_ == G.snap_cp.isUnhandledDone_ && CP.continuation_ == G.snap_cp.continuation_ && CP.sched_ == G.snap_cp.sched_))
#define CP_TRACED (WithAsyncStackSupport && CP.parentFrame_ != NULL)
static int EV_cleanup_next(int h) {
  VF_P(!G.cp_dead && G.next_reads == 0, "the continuation is read once, before the promise is destroyed");
  G.next_reads++; G.next_handle = 1 + (int)(VF_nondet_u8() & 0x7f);
  return G.next_handle;
}
static void EV_cleanup_destroy(int h) {
  VF_CANARY("destroy of the finished cleanup coroutine reachable");
  VF_P(G.destroys == 0 && G.next_reads == 1, "the cleanup coroutine is destroyed once, after its continuation was fetched");
  VF_P(IMP_(CP_TRACED, F1.stackRoot == NULL && G.cs_root != NULL && ACTIVE_ON(F0, G.cs_root)), "the cleanup frame lives in the promise: it is popped (detached, its caller the active top frame again) before the promise is destroyed");
  VF_P(IMP_(!CP_TRACED, G.top_stores == G.cs_top0), "nothing is popped when nothing was pushed");
  G.destroys++;
  vf_cp_dies();
}
int cleanup_final_await_suspend_impl(int h)
__CPROVER_requires(CS_ZERO && CS2_ZERO && WF && (CP.parentFrame_ == NULL || CP.parentFrame_ == &F0) && CS_ENTRY)
__CPROVER_requires(IMP_(CP_TRACED, ACTIVE(&F1) && G.cs_root == F1.stackRoot && F1.parentFrame == &F0 && F0.stackRoot == NULL))
__CPROVER_assigns(CP, F0.stackRoot, F1, R0.topFrame, R1.topFrame, G)
__CPROVER_ensures(G.destroys == 1 && G.next_reads == 1 && __CPROVER_return_value == G.next_handle) /* the continuation fetched BEFORE the destroy is what is handed on */
__CPROVER_ensures(G.cp_dead && CP_UNTOUCHED_IF_DEAD)                                                /* nothing of the destroyed coroutine is written */
__CPROVER_ensures(G.top_stores == G.cs_top0 + ((WithAsyncStackSupport && __CPROVER_old(CP.parentFrame_) != NULL) ? 1 : 0))
__CPROVER_ensures((WithAsyncStackSupport && __CPROVER_old(CP.parentFrame_) != NULL) ==> (F1.stackRoot == NULL && ACTIVE_ON(F0, G.cs_root) && WF))
__CPROVER_ensures(CUR.value == __CPROVER_old(CUR.value))
/*@BODY cp_final_suspend*/
static int EV_cleanup_await_transform(struct cleanup_promise* self) {
  VF_CANARY("await_transform of the cleanup action's awaitable reachable");
  VF_P(self == &CP && G.transforms == 0, "the awaitable is transformed once");
  VF_P(IMP_(CP_TRACED, G.cs_root != NULL && ACTIVE_ON(F1, G.cs_root) && F1.parentFrame == &F0 && F0.stackRoot == NULL), "the cleanup frame is pushed as callee of the exiting coroutine's frame before the awaitable is built");
  VF_P(IMP_(!CP_TRACED, G.top_stores == G.cs_top0), "nothing is pushed without a parent frame");
  G.transforms++;
  return (int)VF_nondet_u8();
}
int cleanup_promise_await_transform(struct cleanup_promise* self)
__CPROVER_requires(self == &CP && CS_ZERO && CS2_ZERO && WF && (CP.parentFrame_ == NULL || CP.parentFrame_ == &F0) && CS_ENTRY)
__CPROVER_requires(IMP_(CP_TRACED, PUSH_REQ(&F0, &F1) && G.cs_root == F0.stackRoot))
__CPROVER_assigns(F0.stackRoot, F1.stackRoot, F1.parentFrame, R0.topFrame, R1.topFrame, G)
__CPROVER_ensures(G.transforms == 1 && G.top_stores == G.cs_top0 + (CP_TRACED ? 1 : 0))
__CPROVER_ensures(CP_TRACED ==> (ACTIVE_ON(F1, G.cs_root) && F1.parentFrame == &F0 && F0.stackRoot == NULL && WF))
__CPROVER_ensures(CUR.value == __CPROVER_old(CUR.value))
/*@BODY cp_await_transform*/
static int EV_exchange_continuation(struct cleanup_awaiter* self) { VF_P(self == &CAW && G.exchanges == 0, "the parent's continuation is exchanged once"); G.exchanges++; return (int)VF_nondet_u8(); }
static int EV_get_scheduler(struct cleanup_awaiter* self) { return (int)VF_nondet_u8(); }
_Bool cleanup_awaiter_await_suspend_impl_(struct cleanup_awaiter* self, int parent, instruction_ptr returnAddress)
__CPROVER_requires(self == &CAW && CS_ZERO && CS2_ZERO)
__CPROVER_assigns(CP, F1.instructionPointer, G)
__CPROVER_ensures(__CPROVER_return_value == 0)                 /* never suspends: the cleanup coroutine runs when the parent exits */
__CPROVER_ensures(WithAsyncStackSupport ==> (CP.parentFrame_ == G.arg_frame && F1.instructionPointer == returnAddress)) /* the frame that push / pop will use as caller is the parent's own */
__CPROVER_ensures(G.exchanges == 1 && G.top_stores == __CPROVER_old(G.top_stores)) /* no link is touched (frame condition) */
/*@BODY cp_awaiter_suspend*/

/* ---------------- harnesses ---------------- */
static struct AsyncStackFrame* any_frame(void) { int k = VF_nondet_int(); return k == 0 ? NULL : k == 1 ? &F0 : k == 2 ? &F1 : OPQ_F; }
static struct AsyncStackRoot* any_root(void) { int k = VF_nondet_int(); return k == 0 ? NULL : k == 1 ? &R0 : k == 2 ? &R1 : OPQ_R; }
static struct AsyncStackFrame* a_frame(void) { return VF_nondet_bool() ? &F0 : &F1; }
static struct AsyncStackRoot* a_root(void) { return VF_nondet_bool() ? &R0 : &R1; }
/* every shape of the window: links chosen among the concrete objects, null and the opaque far ends */
static void window_any(void) {
  F0.parentFrame = any_frame(); F0.instructionPointer = VF_nondet_uptr(); F0.stackRoot = any_root();
  F1.parentFrame = any_frame(); F1.instructionPointer = VF_nondet_uptr(); F1.stackRoot = any_root();
  R0.topFrame = any_frame(); R0.nextRoot = any_root(); R0.stackFramePtr = VF_nondet_uptr(); R0.returnAddress = VF_nondet_uptr();
  R1.topFrame = any_frame(); R1.nextRoot = any_root(); R1.stackFramePtr = VF_nondet_uptr(); R1.returnAddress = VF_nondet_uptr();
  CUR.value = any_root();
  G.top_stores = VF_nondet_u32() & 0xffff; G.cur_stores = VF_nondet_u32() & 0xffff; G.pub_root = NULL; G.pub_frame = NULL; G.pub_parent = NULL;
  G.local_root = NULL; G.local_prev = NULL; G.ctor = 0; G.dtor = 0; G.resumes = 0;
  G.cs_root = NULL; G.resumer_id = 0; G.resumers_made = 0; G.resumer_destroys = 0; G.suspend_calls = 0; G.suspended = 0; G.cs_dead = 0; G.snap_coro = 0;
  G.completions = 0; G.starts = 0; G.rf_ctor = 0; G.rf_dtor = 0; G.connects = 0; G.runs = 0; G.last_sig = -1; G.arg_frame = NULL; G.arg_parent = NULL; G.arg_ip = 0;
  G.cs_prev = NULL; G.expect_state = -1; G.emplaced = 0; G.resumed_done = 0; G.threw = 0; G.rec_dead = 0; G.nexts = 0; G.dummy_ctor = 0; G.dummy_dtor = 0;
  G.next_reads = 0; G.destroys = 0; G.transforms = 0; G.exchanges = 0; G.next_handle = 0; G.cp_dead = 0;
}
static void fresh_scoped(void) { R1.topFrame = TOPFRAME_INIT; R1.nextRoot = NEXTROOT_INIT; R1.stackFramePtr = VF_nondet_uptr(); R1.returnAddress = VF_nondet_uptr(); }

void h_holder_get(void) { window_any(); AsyncStackRootHolder_get(&CUR); VF_CANARY("after holder get"); }
void h_holder_set(void) { window_any(); AsyncStackRootHolder_set(&CUR, any_root()); VF_CANARY("after holder set"); }
void h_holder_set_relaxed(void) { window_any(); AsyncStackRootHolder_set_relaxed(&CUR, any_root()); VF_CANARY("after holder set_relaxed"); }
void h_tryGetCurrent(void) { window_any(); tryGetCurrentAsyncStackRoot(); VF_CANARY("after tryGetCurrentAsyncStackRoot"); }
void h_getCurrent(void) { window_any(); getCurrentAsyncStackRoot(); VF_CANARY("after getCurrentAsyncStackRoot"); }
void h_exchangeCurrent(void) { window_any(); exchangeCurrentAsyncStackRoot(any_root()); VF_CANARY("after exchangeCurrentAsyncStackRoot"); }
void h_getParentFrame(void) { window_any(); AsyncStackFrame_getParentFrame(a_frame()); VF_CANARY("after getParentFrame"); }
void h_getParentFrame_const(void) { window_any(); AsyncStackFrame_getParentFrame_const(a_frame()); VF_CANARY("after getParentFrame const"); }
void h_setParentFrame(void) { window_any(); AsyncStackFrame_setParentFrame(a_frame(), a_frame()); VF_CANARY("after setParentFrame"); }
void h_getStackRoot(void) { window_any(); AsyncStackFrame_getStackRoot(a_frame()); VF_CANARY("after getStackRoot"); }
void h_setReturnAddress(void) { window_any(); AsyncStackFrame_setReturnAddress(a_frame(), VF_nondet_uptr()); VF_CANARY("after setReturnAddress"); }
void h_frame_getReturnAddress(void) { window_any(); AsyncStackFrame_getReturnAddress(a_frame()); VF_CANARY("after frame getReturnAddress"); }
void h_setTopFrame(void) { window_any(); AsyncStackRoot_setTopFrame(a_root(), a_frame()); VF_CANARY("after setTopFrame"); }
void h_getTopFrame(void) { window_any(); AsyncStackRoot_getTopFrame(a_root()); VF_CANARY("after getTopFrame"); }
void h_setStackFrameContext(void) { window_any(); AsyncStackRoot_setStackFrameContext(a_root(), VF_nondet_uptr(), VF_nondet_uptr()); VF_CANARY("after setStackFrameContext"); }
void h_getStackFramePointer(void) { window_any(); AsyncStackRoot_getStackFramePointer(a_root()); VF_CANARY("after getStackFramePointer"); }
void h_root_getReturnAddress(void) { window_any(); AsyncStackRoot_getReturnAddress(a_root()); VF_CANARY("after root getReturnAddress"); }
void h_getNextRoot(void) { window_any(); AsyncStackRoot_getNextRoot(a_root()); VF_CANARY("after getNextRoot"); }
void h_setNextRoot(void) { window_any(); AsyncStackRoot_setNextRoot(a_root(), any_root()); VF_CANARY("after setNextRoot"); }

void h_check_active(void) { window_any(); checkAsyncStackFrameIsActive(a_frame()); VF_CANARY("after checkAsyncStackFrameIsActive"); }
void h_activate(void) { window_any(); struct AsyncStackRoot* r = a_root(); activateAsyncStackFrame(r, a_frame()); VF_CANARY("after activateAsyncStackFrame"); if (r == &R1) { VF_CANARY("activate on the scoped root"); } }
void h_deactivate(void) { window_any(); deactivateAsyncStackFrame(a_frame()); VF_CANARY("after deactivateAsyncStackFrame"); }
void h_push(void) { window_any(); pushAsyncStackFrameCallerCallee(a_frame(), a_frame()); VF_CANARY("after pushAsyncStackFrameCallerCallee"); }
void h_pop_callee(void) { window_any(); struct AsyncStackFrame* c = a_frame(); popAsyncStackFrameCallee(c); VF_CANARY("after popAsyncStackFrameCallee");
  if (c->parentFrame != NULL) { VF_CANARY("pop with a caller frame"); } else { VF_CANARY("pop of a frame without caller"); } }
void h_pop_from_caller(void) { window_any(); popAsyncStackFrameFromCaller(a_frame()); VF_CANARY("after popAsyncStackFrameFromCaller"); }

void h_scoped_ctor(void) { window_any(); fresh_scoped(); struct AsyncStackRoot* prev = CUR.value; ScopedAsyncStackRoot_ctor(&SR, VF_nondet_uptr(), VF_nondet_uptr()); VF_CANARY("after ScopedAsyncStackRoot()");
  if (prev == &R0) { VF_CANARY("a root nested inside another root of the window"); } if (prev == NULL) { VF_CANARY("first root of the thread"); } }
void h_scoped_dtor(void) { window_any(); ScopedAsyncStackRoot_dtor(&SR); VF_CANARY("after ~ScopedAsyncStackRoot()"); }
void h_scoped_activateFrame(void) { window_any(); ScopedAsyncStackRoot_activateFrame(&SR, a_frame()); VF_CANARY("after activateFrame"); }
void h_scoped_ensureFrameDeactivated(void) {
  window_any();
  struct AsyncStackFrame* p;
  _Bool dead = VF_nondet_bool();
  if (dead) { struct AsyncStackFrame* d = malloc(sizeof(struct AsyncStackFrame)); __CPROVER_assume(d != NULL); p = d; R1.topFrame = VF_nondet_bool() ? d : NULL; free(d); }
  else { p = VF_nondet_bool() ? &F0 : NULL; }
  struct AsyncStackFrame s0 = F0, s1 = F1;
  ScopedAsyncStackRoot_ensureFrameDeactivated(&SR, p);
  VF_P(F0.stackRoot == s0.stackRoot && F0.parentFrame == s0.parentFrame && F1.stackRoot == s1.stackRoot, "ensureFrameDeactivated never writes to a frame");
  VF_CANARY("after ensureFrameDeactivated");
  if (dead) { VF_CANARY("ensureFrameDeactivated with a dead frame"); }
}
/* the frame is ALIVE and still the top frame when the root scope ends (inject_async_stack.hpp _op_wrapper::start() for every
 * operation that does not complete inside start()): C20 asks for every activated frame to be deactivated again.  Fails on the
 * unchanged tree (the frame's stackRoot is left pointing at the root that is about to be destroyed):
 * probes/native/async_stack_op_frame_left_attached.cpp */
void h_scoped_ensureFrameDeactivated_live(void) {
  window_any();
  __CPROVER_assume(WF && CUR.value == &R1 && R1.topFrame == &F0);
  ScopedAsyncStackRoot_ensureFrameDeactivated(&SR, &F0);
  VF_P(F0.stackRoot == NULL, "a live frame that is still active when its root scope ends is detached (every frame an operation activates is deactivated again)");
  VF_CANARY("after ensureFrameDeactivated on a live top frame");
}
void h_resume_with_new_root(void) { window_any(); resumeCoroutineWithNewAsyncStackRoot(0, a_frame()); VF_CANARY("after resumeCoroutineWithNewAsyncStackRoot"); }

void h_trace_lc(void) {
  WSELF.parentFrame = VF_nondet_bool() ? &WSELF : NULL; WSELF.instructionPointer = VF_nondet_uptr(); WSELF.stackRoot = any_root();
  size_t r = getAsyncStackTraceFromInitialFrame_lc(VF_nondet_bool() ? &WSELF : NULL, ADDR, VF_nondet_size_t());
  VF_CANARY("after getAsyncStackTraceFromInitialFrame (loop contract)");
  if (r > 1) { VF_CANARY("more than one entry written"); }
}

/* bounded: chains of <= NCHAIN frames, buffers of <= TRACE_BUF entries: the exact result */
#define NCHAIN 6
static struct AsyncStackFrame CH[NCHAIN];
void h_trace_bounded(void) {
  size_t n = VF_nondet_size_t(), max = VF_nondet_size_t();
  __CPROVER_assume(n <= NCHAIN && max <= 8);
  uintptr_t snap[8];
  for (size_t i = 0; i < NCHAIN; i++) { CH[i].instructionPointer = VF_nondet_uptr(); CH[i].parentFrame = (i + 1 < n) ? &CH[i + 1] : NULL; CH[i].stackRoot = any_root(); }
  for (size_t i = 0; i < 8; i++) { ADDR[i] = VF_nondet_uptr(); snap[i] = ADDR[i]; }
  struct AsyncStackFrame c0 = CH[0], c5 = CH[NCHAIN - 1];
  size_t r = getAsyncStackTraceFromInitialFrame(n ? &CH[0] : NULL, ADDR, max);
  VF_P(r <= max, "the trace never has more than maxAddresses entries");
  VF_P(r == (n < max ? n : max), "the trace has min(chain length, maxAddresses) entries");
  for (size_t i = 0; i < 8; i++) {
    if (i < r) VF_P(ADDR[i] == CH[i].instructionPointer, "entry i is the return address of the i-th frame along parentFrame, leaf first");
    else VF_P(ADDR[i] == snap[i], "nothing is written beyond the entries reported");
  }
  VF_P(CH[0].parentFrame == c0.parentFrame && CH[0].stackRoot == c0.stackRoot && CH[NCHAIN - 1].parentFrame == c5.parentFrame, "the walk does not modify the frames");
  VF_CANARY("after getAsyncStackTraceFromInitialFrame (bounded)");
  if (r == NCHAIN) { VF_CANARY("a full chain of 6 frames is walked"); }
  if (r < n) { VF_CANARY("a chain longer than the buffer is cut"); }
}

/* ---------------- M4 pair lemmas: two extracted bodies in sequence on the window ---------------- */
struct snap { struct AsyncStackFrame f0, f1; struct AsyncStackRoot r0, r1; struct AsyncStackRoot* cur; };
static struct snap take(void) { struct snap s; s.f0 = F0; s.f1 = F1; s.r0 = R0; s.r1 = R1; s.cur = CUR.value; return s; }
#define FRAME_EQ(a, b) ((a).parentFrame == (b).parentFrame && (a).instructionPointer == (b).instructionPointer && (a).stackRoot == (b).stackRoot)
#define ROOT_EQ(a, b) ((a).topFrame == (b).topFrame && (a).nextRoot == (b).nextRoot && (a).stackFramePtr == (b).stackFramePtr && (a).returnAddress == (b).returnAddress)

void pair_ctor_dtor(void) {
  window_any(); fresh_scoped();
  __CPROVER_assume(WF && CUR.value != &R1);
  struct snap s = take();
  frame_ptr fp = VF_nondet_uptr(); instruction_ptr ip = VF_nondet_uptr();
  ScopedAsyncStackRoot_ctor(&SR, fp, ip);
  VF_P(CUR.value == &R1 && R1.nextRoot == s.cur, "inside the scope the new root is current and remembers the previous one");
  VF_P(DTOR_REQ(&SR), "a scope in which nothing is left active satisfies the destructor's asserts");
  ScopedAsyncStackRoot_dtor(&SR);
  VF_P(CUR.value == s.cur, "ctor;dtor restores the thread's current root");
  VF_P(FRAME_EQ(F0, s.f0) && FRAME_EQ(F1, s.f1) && ROOT_EQ(R0, s.r0), "ctor;dtor touches no frame and no other root");
  VF_P(R1.topFrame == NULL, "the scoped root ends without a top frame");
  VF_CANARY("pair ctor;dtor reachable");
}
void pair_activate_deactivate(void) {
  window_any();
  struct AsyncStackRoot* root = a_root(); struct AsyncStackFrame* frame = a_frame();
  __CPROVER_assume(ACTIVATE_REQ(root, frame));
  struct snap s = take();
  activateAsyncStackFrame(root, frame);
  VF_P(ACTIVE(frame) && WF, "between the two the frame is the active top frame of the current root");
  deactivateAsyncStackFrame(frame);
  VF_P(root->topFrame == NULL && frame->stackRoot == NULL, "activate;deactivate restores (root.topFrame, frame.stackRoot)");
  VF_P(FRAME_EQ(F0, s.f0) && FRAME_EQ(F1, s.f1) && ROOT_EQ(R0, s.r0) && ROOT_EQ(R1, s.r1) && CUR.value == s.cur, "activate;deactivate restores the whole window");
  VF_CANARY("pair activate;deactivate reachable");
}
static void pair_push_pop_common(_Bool from_caller) {
  window_any();
  struct AsyncStackFrame* caller = a_frame(); struct AsyncStackFrame* callee = (caller == &F0) ? &F1 : &F0;
  __CPROVER_assume(PUSH_REQ(caller, callee));
  struct snap s = take();
  struct AsyncStackRoot* root = caller->stackRoot;
  pushAsyncStackFrameCallerCallee(caller, callee);
  VF_P(ACTIVE(callee) && callee->parentFrame == caller && caller->stackRoot == NULL && WF, "between the two the callee is the active top frame, linked to its detached caller");
  if (from_caller) popAsyncStackFrameFromCaller(caller); else popAsyncStackFrameCallee(callee);
  VF_P(root->topFrame == caller && caller->stackRoot == root, "push;pop restores the caller frame as top frame with its stackRoot re-attached");
  VF_P(callee->stackRoot == NULL, "push;pop detaches the callee");
  VF_P(ACTIVE(caller) && WF, "after push;pop the caller is active again");
  /* everything except the callee's parent link (left pointing at the caller) is as before */
  VF_P(callee->parentFrame == caller && callee->instructionPointer == (callee == &F0 ? s.f0 : s.f1).instructionPointer, "push;pop leaves the callee's parent link at the caller and its return address alone");
  VF_P(FRAME_EQ(*caller, (caller == &F0 ? s.f0 : s.f1)) && ROOT_EQ(R0, s.r0) && ROOT_EQ(R1, s.r1) && CUR.value == s.cur, "push;pop restores caller, roots and the current root");
  VF_CANARY("pair push;pop reachable");
}
void pair_push_pop(void) { pair_push_pop_common(0); }
void pair_push_pop_from_caller(void) { pair_push_pop_common(1); }
void pair_exchange_exchange(void) {
  window_any();
  struct snap s = take();
  struct AsyncStackRoot* n = any_root();
  struct AsyncStackRoot* old = exchangeCurrentAsyncStackRoot(n);
  VF_P(old == s.cur && CUR.value == n, "exchange installs the new root and hands back the old one");
  struct AsyncStackRoot* back = exchangeCurrentAsyncStackRoot(old);
  VF_P(back == n && CUR.value == s.cur, "exchanging back restores the thread's current root");
  VF_P(FRAME_EQ(F0, s.f0) && FRAME_EQ(F1, s.f1) && ROOT_EQ(R0, s.r0) && ROOT_EQ(R1, s.r1), "exchange touches no frame and no root");
  VF_CANARY("pair exchange;exchange reachable");
}

/* over the CONTRACTS only (every call below is replaced by its contract): an operation that opens a root scope,
 * activates its frame, runs a nested callee and unwinds in the reverse order leaves everything as it found it */
void lemma_operation_balanced(void) {
  window_any(); fresh_scoped();
  F0.stackRoot = STACKROOT_INIT; F1.stackRoot = STACKROOT_INIT; F0.parentFrame = PARENTFRAME_INIT; F1.parentFrame = PARENTFRAME_INIT;
  __CPROVER_assume(WF && CUR.value != &R1);
  struct snap s = take();
  ScopedAsyncStackRoot_ctor(&SR, VF_nondet_uptr(), VF_nondet_uptr());
  ScopedAsyncStackRoot_activateFrame(&SR, &F0);
  pushAsyncStackFrameCallerCallee(&F0, &F1);
  if (VF_nondet_bool()) popAsyncStackFrameCallee(&F1); else popAsyncStackFrameFromCaller(&F0);
  deactivateAsyncStackFrame(&F0);
  ScopedAsyncStackRoot_dtor(&SR);
  VF_P(CUR.value == s.cur, "balanced operation: the thread's current root is restored");
  VF_P(F0.stackRoot == NULL && F1.stackRoot == NULL, "balanced operation: every frame it activated is detached again");
  VF_P(R1.topFrame == NULL && ROOT_EQ(R0, s.r0), "balanced operation: its root ends without top frame, the enclosing root is untouched");
  VF_P(WF, "balanced operation: the window is well-formed again");
  VF_CANARY("balanced operation reachable");
}
/* an operation that forgets the deactivate cannot pass the destructor's asserts: the unbalanced use is what they catch */
void lemma_unbalanced_is_caught(void) {
  window_any(); fresh_scoped();
  struct AsyncStackFrame* frame = a_frame();
  __CPROVER_assume(WF && CUR.value != &R1 && frame->stackRoot == NULL);
  ScopedAsyncStackRoot_ctor(&SR, VF_nondet_uptr(), VF_nondet_uptr());
  ScopedAsyncStackRoot_activateFrame(&SR, frame);
  VF_P(!DTOR_REQ(&SR), "lemma: with a frame still active the destructor's asserts do not hold (destruction requires topFrame == NULL)");
  VF_CANARY("unbalanced scenario reachable");
}
void lemma_async_stack_init(void) {
  VF_P(TOPFRAME_INIT == NULL && NEXTROOT_INIT == NULL && PARENTFRAME_INIT == NULL && STACKROOT_INIT == NULL, "lemma: fresh frames and roots have no links");
  VF_P(CUR.value == NULL, "lemma: a thread starts without a current root");
  F0.stackRoot = STACKROOT_INIT; F1.stackRoot = STACKROOT_INIT; R0.topFrame = TOPFRAME_INIT; R1.topFrame = TOPFRAME_INIT;
  VF_P(WF, "lemma: the initial state is well-formed");
  VF_CANARY("lemma_async_stack_init reachable");
}

/* ---------------- call-site harnesses ---------------- */
static void cs_init(void) { window_any(); G.cs_top0 = G.top_stores; WithAsyncStackSupport = VF_nondet_bool(); }
void h_aw_suspend_bool(void) { cs_init(); VF_CFG_bool_overload = 1; G.cs_root = F0.stackRoot; _Bool r = awaitable_wrapper_await_suspend_impl_bool(&AW, 0, &F0); VF_CANARY("after await_suspend_impl (bool)");
  if (r) { VF_CANARY("really suspended"); } else { VF_CANARY("not suspended: frame re-activated"); } if (G.cs_root == &R1) { VF_CANARY("on the scoped root"); } }
void h_aw_suspend_other(void) { cs_init(); VF_CFG_bool_overload = 0; G.cs_root = F0.stackRoot; awaitable_wrapper_await_suspend_impl_other(&AW, 0, &F0); VF_CANARY("after await_suspend_impl (void / handle)"); }
void h_sender_awaitable_suspend(void) { cs_init(); G.arg_frame = VF_nondet_bool() ? &F0 : NULL; G.cs_root = F0.stackRoot; sender_awaitable_await_suspend(&SAW, 0); VF_CANARY("after _awaitable::await_suspend");
  if (G.top_stores != G.cs_top0) { VF_CANARY("frame deactivated before start"); } else { VF_CANARY("no frame / no async stack support"); } }
void h_resumer_awaiter_suspend(void) { cs_init(); fresh_scoped(); G.arg_frame = VF_nondet_bool() ? &F0 : NULL; resumer_awaiter_await_suspend(&RAW); VF_CANARY("after resumer awaiter::await_suspend");
  if (G.cs_dead) { VF_CANARY("resumed coroutine can be gone"); } if (G.arg_frame && !G.cs_dead && F0.stackRoot == NULL) { VF_CANARY("resumed coroutine suspended again"); } }
void h_rcvw_set_value(void) { cs_init(); fresh_scoped(); rcvr_wrapper_set_value(&RW); VF_CANARY("after _rcvr_wrapper::set_value"); if (G.last_sig == SIG_error) { VF_CANARY("set_value threw: error delivered instead"); } }
void h_rcvw_set_error(void) { cs_init(); fresh_scoped(); rcvr_wrapper_set_error(&RW); VF_CANARY("after _rcvr_wrapper::set_error"); }
void h_rcvw_set_done(void) { cs_init(); fresh_scoped(); rcvr_wrapper_set_done(&RW); VF_CANARY("after _rcvr_wrapper::set_done"); if (G.arg_frame) { VF_CANARY("receiver with a frame"); } else { VF_CANARY("receiver without a frame"); } }
void h_opw_start(void) { cs_init(); fresh_scoped(); op_wrapper_start(&OPW); VF_CANARY("after _op_wrapper::start"); if (G.cs_dead) { VF_CANARY("operation completed inline and may be gone"); } else { VF_CANARY("operation still pending"); } }
void h_sw_scope(void) { cs_init(); fresh_scoped(); sync_wait_impl_scope(VF_nondet_uptr(), VF_nondet_uptr()); VF_CANARY("after sync_wait scope"); if (G.connects == 0) { VF_CANARY("connect can throw"); } }
/* TEXTUAL check of a type-level fact (see assumptions): the noexcept-specification of _op_wrapper's constructor */
void lemma_op_wrapper_noexcept(void) {
  VF_P(/*@EXPR nx_has_nothrow_invocable*/ == 1, "lemma (textual): _op_wrapper's constructor is noexcept only if the wrapped connect is: its noexcept-specification names is_nothrow_invocable_v<Fn, S, receiver_t<R>>");
  VF_P(/*@EXPR nx_has_nothrow_constructible*/ == 1, "lemma (textual): ... and is_nothrow_constructible_v<remove_cvref_t<R>, R> for the stored receiver");
  VF_P(/*@EXPR nx_is_conjunction*/ == 1, "lemma (textual): the noexcept-specification is exactly the conjunction of the two (nothing weaker such as is_invocable_v, no disjunction)");
  VF_CANARY("lemma_op_wrapper_noexcept reachable");
}

/* ---------------- call-site harnesses, second batch ---------------- */
static void cs2_init(void) {
  cs_init(); G.cs_prev = CUR.value;
  REC.result_ = &RESULT; REC.continuation_ = VF_nondet_int(); RESULT.state_ = STATE_empty; RESULT.value_ = 0; RESULT.exception_ = 0;
  CP.parentFrame_ = NULL; CP.isUnhandledDone_ = VF_nondet_bool(); CP.continuation_ = VF_nondet_int(); CP.sched_ = VF_nondet_int();
}
static void rec_canaries(void) {
  if (REC_TRACED) { VF_CANARY("continuation resumed on a new root"); } else { VF_CANARY("continuation resumed without a frame / without async stack support"); }
  if (G.cs_dead) { VF_CANARY("the awaiting coroutine can be gone"); }
}
void h_rec_complete(void) { cs2_init(); fresh_scoped(); G.arg_frame = VF_nondet_bool() ? &F0 : NULL; RESULT.state_ = VF_nondet_int(); rec_complete(&REC); VF_CANARY("after _rec::complete"); rec_canaries(); }
void h_rec_set_value(void) { cs2_init(); fresh_scoped(); G.arg_frame = VF_nondet_bool() ? &F0 : NULL; G.expect_state = STATE_value; rec_set_value(&REC); VF_CANARY("after _rec::set_value");
  if (G.threw) { VF_CANARY("Value's constructor threw"); } else { rec_canaries(); } }
void h_rec_set_error(void) { cs2_init(); fresh_scoped(); G.arg_frame = VF_nondet_bool() ? &F0 : NULL; G.expect_state = STATE_exception; rec_set_error(&REC); VF_CANARY("after _rec::set_error(exception_ptr)"); rec_canaries(); }
void h_rec_set_error_code(void) { cs2_init(); fresh_scoped(); G.arg_frame = VF_nondet_bool() ? &F0 : NULL; G.expect_state = STATE_exception; rec_set_error_code(&REC); VF_CANARY("after _rec::set_error(error_code)"); rec_canaries(); }
void h_rec_set_done(void) { cs2_init(); fresh_scoped(); G.arg_frame = VF_nondet_bool() ? &F0 : NULL; G.expect_state = STATE_done; rec_set_done(&REC); VF_CANARY("after _rec::set_done"); rec_canaries(); }
void h_rcvw_set_next(void) { cs2_init(); fresh_scoped(); rcvr_wrapper_set_next(&RW); VF_CANARY("after _rcvr_wrapper::set_next");
  if (G.threw) { VF_CANARY("wrapped set_next threw: unwinding path"); } else { VF_CANARY("wrapped set_next returned"); } if (G.arg_frame) { VF_CANARY("set_next: receiver with a frame"); } }
void h_stp_ctor(void) { cs2_init(); F0.parentFrame = PARENTFRAME_INIT; F0.stackRoot = STACKROOT_INIT; sender_task_promise_ctor(&STP, VF_nondet_uptr()); VF_CANARY("after sender_task promise_type()"); }
void h_stp_await_suspend(void) { cs2_init(); G.cs_root = F0.stackRoot; sender_task_awaiter_await_suspend(&STA, 0); VF_CANARY("after sender_task awaiter::await_suspend");
  if (WithAsyncStackSupport) { VF_CANARY("yield: frame deactivated first"); } else { VF_CANARY("yield without async stack support"); } }
/* the hand-over state of _rec::set_done, built from the concrete objects: the dummy frame F1 is the top frame of the current root r, its parent F0 is detached.
 * One harness per configuration (root / template parameter fixed): with a symbolic choice the replaced popAsyncStackFrameFromCaller contract made the path infeasible (canary) */
static void stp_done_case(struct AsyncStackRoot* r, struct AsyncStackRoot* o, _Bool with) {
  cs2_init(); WithAsyncStackSupport = with;
  if (with) { CUR.value = r; r->topFrame = &F1; F1.stackRoot = r; F1.parentFrame = &F0; F0.stackRoot = NULL; o->topFrame = NULL; }
  G.cs_root = CUR.value;
  sender_task_promise_unhandled_done(&STP);
  VF_CANARY("after the sender_task's unhandled_done handler");
}
void h_stp_done_r0(void) { stp_done_case(&R0, &R1, 1); VF_CANARY("done handler on an enclosing root: dummy frame popped, own frame deactivated"); }
void h_stp_done_r1(void) { stp_done_case(&R1, &R0, 1); VF_CANARY("done handler on the scoped root: dummy frame popped, own frame deactivated"); }
void h_stp_done_off(void) { stp_done_case(&R0, &R1, 0); VF_CANARY("done without async stack support"); }
void h_st_start(void) { cs2_init(); fresh_scoped(); sender_task_start(&ST); VF_CANARY("after sender_task::start");
  if (G.cs_dead) { VF_CANARY("sender_task completed inline and may be gone"); } else { VF_CANARY("sender_task suspended"); } if (G.arg_parent) { VF_CANARY("receiver with a frame: linked as parent"); } }
void h_cp_final_suspend(void) { cs2_init(); CP.parentFrame_ = VF_nondet_bool() ? &F0 : NULL; G.cs_root = F1.stackRoot; int r = cleanup_final_await_suspend_impl(0); VF_CANARY("after final_awaitable::await_suspend_impl");
  if (G.top_stores != G.cs_top0) { VF_CANARY("cleanup frame popped"); } else { VF_CANARY("no parent frame / no async stack support: nothing popped"); } }
void h_cp_await_transform(void) { cs2_init(); CP.parentFrame_ = VF_nondet_bool() ? &F0 : NULL; G.cs_root = F0.stackRoot; cleanup_promise_await_transform(&CP); VF_CANARY("after _cleanup_promise::await_transform");
  if (G.top_stores != G.cs_top0) { VF_CANARY("cleanup frame pushed"); } else { VF_CANARY("no parent frame / no async stack support: nothing pushed"); } }
void h_cp_awaiter_suspend(void) { cs2_init(); int k = VF_nondet_int(); G.arg_frame = k == 0 ? NULL : k == 1 ? &F0 : OPQ_F; _Bool r = cleanup_awaiter_await_suspend_impl_(&CAW, 0, VF_nondet_uptr()); VF_CANARY("after _cleanup_task::awaiter::await_suspend_impl_");
  if (CP.parentFrame_ != NULL) { VF_CANARY("parent frame recorded"); } }
/* lemma over the CONTRACT of the sender_task's done handler: the state in which _rec::set_done hands over (what
 * EV_resume_continuation(done) asserts) satisfies the handler's precondition, and the handler's postcondition is what the
 * stub assumes when it returns (dummy frame popped, own frame deactivated, root without top frame) */
void lemma_done_handoff(void) {
  cs2_init(); WithAsyncStackSupport = 1;
  __CPROVER_assume(WF && CS_ZERO && CS2_ZERO);
  /* the facts asserted by EV_resume_continuation(done) */
  __CPROVER_assume(CUR.value == &R1 && ACTIVE_ON(F1, &R1) && F1.parentFrame == &F0 && F0.stackRoot == NULL);
  G.cs_root = CUR.value;
  sender_task_promise_unhandled_done(&STP);
  VF_P(F1.stackRoot == NULL && R1.topFrame == NULL && F0.stackRoot == NULL, "lemma: the done handler leaves exactly the state the _rec::set_done stub assumes (the root scope can end, the dummy frame can go)");
  VF_CANARY("lemma_done_handoff reachable");
}



