INL = 'include/unifex/tracing/async_stack-inl.hpp'
H = 'include/unifex/tracing/async_stack.hpp'
CPP = 'source/async_stack.cpp'
SCOPED = r'class ScopedAsyncStackRoot \{'
HOLDER = r'struct AsyncStackRootHolder \{'
FRAME_T = r'struct AsyncStackFrame \{'
ROOT_T = r'struct AsyncStackRoot \{'


def refs(*names):
    """C++ reference parameters become C pointer parameters of the same name (general rule missing from the
    global table, which only knows `auto& r = E;` locals):  &r -> r (only where & is unary: after ( , = ),
    r.m -> r->m ; a bare r passed on to another reference parameter stays r."""
    out = []
    for n in names:
        out.append((r'([(,=]\s*)&' + n + r'\b(?!\s*(?:\.|->|\[))', r'\1' + n))
        out.append((r'(?<![\w.>])' + n + r'\.(?=\w)', n + '->'))
    return out


OBJ = {
    # AsyncStackRoot / AsyncStackFrame member functions called through an object
    'setTopFrame': 'AsyncStackRoot_setTopFrame', 'getTopFrame': 'AsyncStackRoot_getTopFrame',
    'setStackFrameContext': 'AsyncStackRoot_setStackFrameContext',
    'getParentFrame': 'AsyncStackFrame_getParentFrame', 'getReturnAddress': 'AsyncStackFrame_getReturnAddress',
    # the thread-local holder
    'get': 'AsyncStackRootHolder_get', 'set': 'AsyncStackRootHolder_set', 'set_relaxed': 'AsyncStackRootHolder_set_relaxed',
    # ScopedAsyncStackRoot
    'activateFrame': 'ScopedAsyncStackRoot_activateFrame',
}
COMMON_PRE = [(r'\bunifex::', ''), (r'\bdetail::', '')]

ctx = dict(cls='', members=[], methods=[], obj_methods=OBJ, pre=COMMON_PRE)


def free(*r):
    return dict(pre=refs(*r))


root_ctx = dict(cls='AsyncStackRoot', members=['topFrame', 'nextRoot', 'stackFramePtr', 'returnAddress'])
frame_ctx = dict(cls='AsyncStackFrame', members=['parentFrame', 'instructionPointer', 'stackRoot'])
holder_ctx = dict(cls='AsyncStackRootHolder', members=['value'])
scoped_ctx = dict(cls='ScopedAsyncStackRoot', members=['root_'])


def with_refs(c, *r):
    d = dict(c)
    d['pre'] = refs(*r)
    return d



# ---------------------------------------------------------------------------------------------------------------------
# call sites of the primitives that are plain function bodies (the primitives' contracts are used via replace=[...])
# ---------------------------------------------------------------------------------------------------------------------
AT = 'include/unifex/await_transform.hpp'
INJ = 'include/unifex/tracing/inject_async_stack.hpp'
SW = 'include/unifex/sync_wait.hpp'
AT_NS = r'namespace _await_tfx \{'
AW_T = r'class _awaitable_wrapper<Awaitable>::type final \{'
RCVW_T = r'struct _rcvr_wrapper<Receiver>::type final : _rcvr_base \{'
OPW_T = r'struct _op_wrapper<Op, R>::type final'
TRY_CATCH = [(r'UNIFEX_TRY\s*\{', '{'), (r'\}\s*UNIFEX_CATCH\s*\(\.\.\.\)\s*\{', '} if (0) { vf_catch: ;')]


def _deref_args(m):
    """activateAsyncStackFrame(*root, *frame) / deactivateAsyncStackFrame((*frame)): a reference parameter bound to *p is the
    pointer p (same reference -> pointer rule as for the primitives themselves)"""
    import re as _re
    return m.group(1) + '(' + _re.sub(r'(^|[,(]\s*)\*\s*', r'\1', m.group(2)) + ');'


CALLS = [(r'\b(activateAsyncStackFrame|deactivateAsyncStackFrame)\(([^;]*)\);', _deref_args)]

aw_ctx = dict(cls='awaitable_wrapper', members=['coro_', 'awaiter_'], pre=[
    (r'resume_with_stack_root\(h\)\.handle\(\)', 'EV_make_resumer(this)'),
    (r'awaiter_\.await_suspend\(resumer\)', 'EV_await_suspend(this, resumer)'),
    (r'std::exchange\(coro_, \{\}\)\.destroy\(\);', 'EV_resumer_destroy(this, VF_EXCHANGE(coro_, 0));'),
] + CALLS, obj_methods={'getStackRoot': 'AsyncStackFrame_getStackRoot'})
sa_ctx = dict(cls='sender_awaitable', members=['op_'], pre=[
    (r'get_async_stack_frame\(handle\.promise\(\)\)', 'EV_promise_frame(this)'),
    (r'unifex::start\(op_\);', 'EV_start_awaited_op(this);'),
] + CALLS)
# local ScopedAsyncStackRoot of the resumer coroutine's awaiter: laid out on the window's scoped root SR
ra_ctx = dict(cls='resumer_awaiter', members=[], raii={'ScopedAsyncStackRoot': ('VF_SR_CTOR', 'VF_SR_DTOR')}, pre=[
    (r'get_async_stack_frame\(h\.promise\(\)\)', 'EV_promise_frame(this)'),
    (r'root\.activateFrame\(\*frame\);', 'root.activateFrame(frame);'),
    (r'\bh\.resume\(\);', 'EV_resume_awaiting(this, frame);'),
], obj_methods={'ensureFrameDeactivated': 'ScopedAsyncStackRoot_ensureFrameDeactivated'}, post=[(r'&root\b', '&SR')])

# _root_and_frame / _root_and_frame_ref / initial_stack_root: RAII objects whose members are laid out on window objects
rf_ctx = dict(cls='root_and_frame', members=[], pre=[
    (r'setParentFrame\(\*(\w+)\)', r'setParentFrame(\1)'),
    (r'root_\.activateFrame\(frame_\);', 'root_.activateFrame(&frame_);'),
    (r'deactivateAsyncStackFrame\(frame_\);', 'deactivateAsyncStackFrame(&frame_);'),
], obj_methods={'setParentFrame': 'AsyncStackFrame_setParentFrame', 'setReturnAddress': 'AsyncStackFrame_setReturnAddress'},
    post=[(r'\bframe_\b', 'RF_FRAME'), (r'\broot_\b', 'RF_ROOT')])
rfr_ctx = dict(cls='root_and_frame_ref', members=[], pre=[
    (r'setParentFrame\(\*(\w+)\)', r'setParentFrame(\1)'),
    (r'root_\.activateFrame\(\*frame_\);', 'root_.activateFrame(frame_);'),
] + CALLS, obj_methods={'setParentFrame': 'AsyncStackFrame_setParentFrame', 'ensureFrameDeactivated': 'ScopedAsyncStackRoot_ensureFrameDeactivated'},
    post=[(r'\bframe_\b', 'RFR_FRAMEP'), (r'\broot_\b', 'RF_ROOT')])
isr_ctx = dict(cls='initial_stack_root', members=[], pre=[
    (r'root\.activateFrame\(frame\);', 'root.activateFrame(&frame);'),
    (r'deactivateAsyncStackFrame\(frame\);', 'deactivateAsyncStackFrame(&frame);'),
], obj_methods={'setReturnAddress': 'AsyncStackFrame_setReturnAddress'},
    post=[(r'(?<![\w.>])frame\b', 'ISR_FRAME'), (r'(?<![\w.>])root\b', 'RF_ROOT')])
RAII_RF = {'_root_and_frame': ('VF_RF_CTOR', 'VF_RF_DTOR'), '_root_and_frame_ref': ('VF_RFR_CTOR', 'VF_RFR_DTOR'),
           'initial_stack_root': ('VF_ISR_CTOR', 'VF_ISR_DTOR')}
rcvw_ctx = dict(cls='rcvr_wrapper', members=[], raii=RAII_RF, pre=[
    (r'_root_and_frame rf\(get_async_stack_frame\(receiver\(\)\)\);', 'vf_rf_arg = EV_get_async_stack_frame(this); _root_and_frame rf;'),
    (r'(?s)unifex::set_value\(std::move\(receiver\(\)\), std::forward<T>\(ts\)\.\.\.\);', 'if (EV_complete(this, SIG_value)) goto vf_catch;'),
    (r'unifex::set_error\(std::move\(receiver\(\)\), std::current_exception\(\)\);', 'EV_complete(this, SIG_error);'),
    (r'unifex::set_error\(std::move\(receiver\(\)\), std::forward<E>\(e\)\);', 'EV_complete(this, SIG_error);'),
    (r'unifex::set_done\(std::move\(receiver\(\)\)\);', 'EV_complete(this, SIG_done);'),
] + TRY_CATCH)
opw_ctx = dict(cls='op_wrapper', members=['op_'], raii=RAII_RF, pre=[
    (r'(?s)_root_and_frame_ref rf\{\s*this->frame_, get_async_stack_frame\(this->receiver_\)\};',
     'vf_rfr_frame = VF_OPW_FRAME(this); vf_rfr_parent = EV_get_parent_frame(this); _root_and_frame_ref rf;'),
    (r'unifex::start\(op_\);', 'EV_start_wrapped_op(this);'),
])
sw_ctx = dict(cls='', members=[], raii=RAII_RF, pre=[
    (r'initial_stack_root stackRoot\{frameAddress, returnAddress\};', 'vf_isr_fp = frameAddress; vf_isr_ip = returnAddress; initial_stack_root stackRoot;'),
    (r'(?s)auto operation = connect\(.*?stackRoot\.frame\}\);', 'if (EV_sw_connect(&stackRoot.frame)) return;'),
    (r'(?<![\w.>])start\(operation\);', 'EV_sw_start();'),
    (r'\bctx\.run\(\);', 'EV_sw_run();'),
])


# ---------------------------------------------------------------------------------------------------------------------
# second batch of call sites: _rec (await_transform.hpp), _rcvr_wrapper::set_next, connect_awaitable.hpp, at_coroutine_exit.hpp
# ---------------------------------------------------------------------------------------------------------------------
CA = 'include/unifex/connect_awaitable.hpp'
ACE = 'include/unifex/at_coroutine_exit.hpp'
REC_T = r'struct _rec \{'
CA_NS = r'namespace _await \{'
CPB_T = r'struct _cleanup_promise_base \{'
CPR_T = r'struct _cleanup_promise : _cleanup_promise_base<WithAsyncStackSupport> \{'
CT_T = r'struct \[\[nodiscard\]\] _cleanup_task \{'
# `return f();` with f returning void (general rule missing from the table: the RAII exit rule needs a value to save)
RET_VOID = [(r'return (continuation_\.resume(?:_done)?\(\));', r'{ \1; return; }')]
# local ScopedAsyncStackRoot -> the window's scoped root SR; local AsyncStackFrame (the dummy frame of _rec::set_done) -> F1.
# dict order = destruction order at scope exit (root first, then the frame: reverse order of declaration)
rec_ctx = dict(cls='rec', members=['result_', 'continuation_'], methods=['complete'], enums={'_state': 'STATE'},
               raii={'ScopedAsyncStackRoot': ('VF_SR_CTOR', 'VF_SR_DTOR'), 'AsyncStackFrame': ('VF_DUMMY_CTOR', 'VF_DUMMY_DTOR')},
               pre=RET_VOID + [
    (r'get_async_stack_frame\(continuation_\.promise\(\)\)', 'EV_promise_frame(this)'),
    (r'root\.activateFrame\(frame\);', 'root.activateFrame(&frame);'),
    (r'root\.activateFrame\(\*frame\);', 'root.activateFrame(frame);'),
    (r'setParentFrame\(\*(\w+)\)', r'setParentFrame(\1)'),
    (r'continuation_\.resume\(\)', 'EV_resume_continuation(this, 0)'),
    (r'continuation_\.resume_done\(\)', 'EV_resume_continuation(this, 1)'),
    (r'unifex::activate_union_member\(result_->value_, \(Us&&\)us\.\.\.\);', 'if (EV_activate_member(this, STATE_value)) return;'),
    (r'unifex::activate_union_member\(result_->exception_, std::move\(eptr\)\);', 'EV_activate_member(this, STATE_exception);'),
    (r'(?s)std::move\(\*this\)\.set_error\(\s*std::make_exception_ptr\(std::system_error\{code\}\)\);', 'rec_set_error(this);'),
], obj_methods={'setParentFrame': 'AsyncStackFrame_setParentFrame'}, post=[(r'&root\b', '&SR'), (r'&frame\b', '&F1')])
# the frame_ member of a promise (sender_task: F0; cleanup promise: F1) and the members reached through the coroutine handle
stp_ctx = dict(cls='sender_task_promise', members=[], pre=[
    (r'deactivateAsyncStackFrame\(h\.promise\(\)\.frame_\);', 'deactivateAsyncStackFrame(&frame_);'),
    (r'(popAsyncStackFrameFromCaller|deactivateAsyncStackFrame)\(frame_\);', r'\1(&frame_);'),
    (r'std::forward<Func>\(func_\)\(\);', 'EV_yield_func(this);'),
    (r'unifex::set_done\(std::move\(receiver_\)\);', 'EV_promise_set_done(this);'),
], obj_methods={'setReturnAddress': 'AsyncStackFrame_setReturnAddress'}, post=[(r'(?<![\w.>])frame_\b', 'PROMISE_FRAME')])
st_ctx = dict(cls='sender_task', members=[], raii={'ScopedAsyncStackRoot': ('VF_SR_CTOR', 'VF_SR_DTOR')}, pre=[
    (r'&coro_\.promise\(\)\.frame_', 'VF_TASK_FRAME(this)'),
    (r'get_async_stack_frame\(coro_\.promise\(\)\.receiver_\)', 'EV_task_parent_frame(this)'),
    (r'setParentFrame\(\*(\w+)\)', r'setParentFrame(\1)'),
    (r'root\.activateFrame\(\*frame\);', 'root.activateFrame(frame);'),
    (r'coro_\.resume\(\);', 'EV_task_resume(this);'),
], obj_methods={'setParentFrame': 'AsyncStackFrame_setParentFrame', 'ensureFrameDeactivated': 'ScopedAsyncStackRoot_ensureFrameDeactivated'},
    post=[(r'&root\b', '&SR')])
cp_ctx = dict(cls='cleanup_promise', members=[], pre=[
    (r'popAsyncStackFrameCallee\(h\.promise\(\)\.frame_\);', 'popAsyncStackFrameCallee(&CLEANUP_FRAME);'),
    (r'h\.promise\(\)\.next\(\)', 'EV_cleanup_next(h)'),
    (r'h\.promise\(\)\.', 'CP.'),
    (r'h\.destroy\(\);', 'EV_cleanup_destroy(h);'),
    (r'pushAsyncStackFrameCallerCallee\(\*this->parentFrame_, this->frame_\);', 'pushAsyncStackFrameCallerCallee(this->parentFrame_, &CLEANUP_FRAME);'),
    (r'return unifex::await_transform\(\*this, _die_on_done_fn\{\}\(\(Value&&\)value\)\);', 'return EV_cleanup_await_transform(this);'),
    (r'continuation_\.promise\(\)\.frame_', 'CLEANUP_FRAME'),
    (r'continuation_\.promise\(\)\.', 'CP.'),
    (r'exchange_continuation\(parent, continuation_\)', 'EV_exchange_continuation(this)'),
    (r'get_scheduler\(parent\)', 'EV_get_scheduler(this)'),
    (r'get_async_stack_frame\(parent\)', 'EV_promise_frame(this)'),
], obj_methods={'setReturnAddress': 'AsyncStackFrame_setReturnAddress'})


# type-level fact, checked TEXTUALLY: the noexcept-specification of _op_wrapper's constructor
def _norm(t):
    import re as _re
    return _re.sub(r'\s+', '', t)


NX_A = _norm('std::is_nothrow_invocable_v<Fn, S, receiver_t<R>>')
NX_B = _norm('std::is_nothrow_constructible_v<remove_cvref_t<R>, R>')
NX_SIG = r'(?s)explicit type\(S&& s, R&& r, Fn&& fn\) noexcept\((.*?)\)\s*:\s*_op_with_receiver<'


# identifiers this textual check understands; a specification written with anything else (a nested noexcept operator, other
# traits, ::value forms) is NOT judged: the extract then yields an undeclared identifier and the unit is UNDECIDED (exit 2)
NX_KNOWN = {'std', 'is_nothrow_invocable_v', 'is_nothrow_constructible_v', 'is_invocable_v', 'is_constructible_v',
            'remove_cvref_t', 'receiver_t', 'Fn', 'S', 'R', 'true', 'false'}


def _nx(pred):
    def f(m):
        import re as _re
        t = _norm(m.group(0))
        if set(_re.findall(r'[A-Za-z_]\w*', t)) - NX_KNOWN:
            return 'vf_unrecognised_noexcept_specification'
        return '1' if pred(t) else '0'
    return dict(file=INJ, kind='expr', sig=NX_SIG, within=OPW_T, ctx=dict(pre=[(r'(?s)^.*$', f)]))


# the chain walk of getAsyncStackTraceFromInitialFrame, native loop contract (index bound, unbounded in chain length):
# `frame` is a loop-carried POINTER; the invariant pins it to the one-frame window WSELF (a chain member whose parent is
# again a chain member or the end), see the template
TRACE_LOOP = ('__CPROVER_assigns(frame, numFrames, __CPROVER_object_whole(addresses))\n'
              '__CPROVER_loop_invariant(numFrames <= maxAddresses && (frame == NULL || frame == &WSELF)'
              ' && (!(WSELF.parentFrame == &WSELF && initialFrame != NULL) || frame == &WSELF))')

RF_REPLACE = ['ScopedAsyncStackRoot_ctor', 'ScopedAsyncStackRoot_activateFrame', 'deactivateAsyncStackFrame',
              'ScopedAsyncStackRoot_ensureFrameDeactivated', 'ScopedAsyncStackRoot_dtor']

SR_REPLACE = ['ScopedAsyncStackRoot_ctor', 'ScopedAsyncStackRoot_activateFrame', 'ScopedAsyncStackRoot_ensureFrameDeactivated', 'ScopedAsyncStackRoot_dtor']

SPEC = dict(
    properties=['C20'],
    ctx=ctx,
    extracts={
        # ---- member initialisers (initial values come from the code)
        'topFrame_init': dict(file=H, kind='expr', sig=r'std::atomic<AsyncStackFrame\*> topFrame\{([^}]*)\}'),
        'nextRoot_init': dict(file=H, kind='expr', sig=r'AsyncStackRoot\* nextRoot = ([^;]*);', within=ROOT_T),
        'parentFrame_init': dict(file=H, kind='expr', sig=r'AsyncStackFrame\* parentFrame = ([^;]*);', within=FRAME_T),
        'stackRoot_init': dict(file=H, kind='expr', sig=r'AsyncStackRoot\* stackRoot = ([^;]*);', within=FRAME_T),
        'holder_value_init': dict(file=CPP, kind='expr', sig=r'std::atomic<AsyncStackRoot\*> value\{([^}]*)\}'),
        # ---- async_stack-inl.hpp: free functions
        'check_active': dict(file=INL, sig=r'inline void checkAsyncStackFrameIsActive\b', ctx=free('frame')),
        'activate': dict(file=INL, sig=r'inline void activateAsyncStackFrame\b', ctx=free('root', 'frame')),
        'deactivate': dict(file=INL, sig=r'inline void deactivateAsyncStackFrame\b', ctx=free('frame')),
        'push': dict(file=INL, sig=r'inline void pushAsyncStackFrameCallerCallee\b', ctx=free('callerFrame', 'calleeFrame')),
        'pop_callee': dict(file=INL, sig=r'inline void\s+popAsyncStackFrameCallee\b', ctx=free('calleeFrame')),
        'pop_from_caller': dict(file=INL, sig=r'inline void popAsyncStackFrameFromCaller\b',
                                ctx=dict(pre=refs('callerFrame') + [(r'popAsyncStackFrameCallee\(\*topFrame\)', 'popAsyncStackFrameCallee(topFrame)')])),
        'trace': dict(file=INL, sig=r'inline std::size_t getAsyncStackTraceFromInitialFrame\b'),
        'trace_lc': dict(file=INL, sig=r'inline std::size_t getAsyncStackTraceFromInitialFrame\b', loops={0: TRACE_LOOP}),
        # ---- AsyncStackFrame accessors
        'frame_getParentFrame': dict(file=INL, sig=r'inline AsyncStackFrame\* AsyncStackFrame::getParentFrame\(\) noexcept', ctx=frame_ctx),
        'frame_getParentFrame_const': dict(file=INL, sig=r'inline const AsyncStackFrame\* AsyncStackFrame::getParentFrame\(\) const noexcept', ctx=frame_ctx),
        'frame_setParentFrame': dict(file=INL, sig=r'inline void AsyncStackFrame::setParentFrame\b', ctx=with_refs(frame_ctx, 'frame')),
        'frame_getStackRoot': dict(file=INL, sig=r'inline AsyncStackRoot\* AsyncStackFrame::getStackRoot\b', ctx=frame_ctx),
        'frame_setReturnAddress': dict(file=INL, sig=r'inline void AsyncStackFrame::setReturnAddress\b', ctx=frame_ctx),
        'frame_getReturnAddress': dict(file=INL, sig=r'inline instruction_ptr AsyncStackFrame::getReturnAddress\b', ctx=frame_ctx),
        # ---- AsyncStackRoot members
        'root_setTopFrame': dict(file=INL, sig=r'inline void AsyncStackRoot::setTopFrame\b', ctx=with_refs(root_ctx, 'frame')),
        'root_getTopFrame': dict(file=INL, sig=r'inline AsyncStackFrame\* AsyncStackRoot::getTopFrame\b', ctx=root_ctx),
        'root_setStackFrameContext': dict(file=INL, sig=r'inline void AsyncStackRoot::setStackFrameContext\b', ctx=root_ctx),
        'root_getStackFramePointer': dict(file=INL, sig=r'inline frame_ptr AsyncStackRoot::getStackFramePointer\b', ctx=root_ctx),
        'root_getReturnAddress': dict(file=INL, sig=r'inline instruction_ptr AsyncStackRoot::getReturnAddress\b', ctx=root_ctx),
        'root_getNextRoot': dict(file=INL, sig=r'inline const AsyncStackRoot\* AsyncStackRoot::getNextRoot\b', ctx=root_ctx),
        'root_setNextRoot': dict(file=INL, sig=r'inline void AsyncStackRoot::setNextRoot\b', ctx=root_ctx),
        # ---- async_stack.hpp: ScopedAsyncStackRoot inline members
        'scoped_activateFrame': dict(file=H, sig=r'void activateFrame\(AsyncStackFrame& frame\) noexcept', within=SCOPED,
                                     ctx=dict(cls='ScopedAsyncStackRoot', members=['root_'],
                                              pre=[(r'activateAsyncStackFrame\(root_,', 'activateAsyncStackFrame(&root_,')])),
        'scoped_ensureFrameDeactivated': dict(file=H, sig=r'void ensureFrameDeactivated\b', within=SCOPED, ctx=scoped_ctx),
        # ---- source/async_stack.cpp
        'holder_get': dict(file=CPP, sig=r'AsyncStackRoot\* get\(\) const noexcept', within=HOLDER, ctx=holder_ctx),
        'holder_set': dict(file=CPP, sig=r'void set\(AsyncStackRoot\* root\) noexcept', within=HOLDER, ctx=holder_ctx),
        'holder_set_relaxed': dict(file=CPP, sig=r'void set_relaxed\(AsyncStackRoot\* root\) noexcept', within=HOLDER, ctx=holder_ctx),
        'tryGetCurrent': dict(file=CPP, sig=r'AsyncStackRoot\* tryGetCurrentAsyncStackRoot\(\) noexcept'),
        'exchangeCurrent': dict(file=CPP, sig=r'exchangeCurrentAsyncStackRoot\(AsyncStackRoot\* newRoot\) noexcept'),
        'getCurrent': dict(file=CPP, sig=r'AsyncStackRoot& getCurrentAsyncStackRoot\(\) noexcept',
                           ctx=dict(pre=[(r'return \*root;', 'return root;')])),
        'scoped_ctor': dict(file=CPP, sig=r'ScopedAsyncStackRoot::ScopedAsyncStackRoot\b', ctx=scoped_ctx),
        'scoped_dtor': dict(file=CPP, sig=r'ScopedAsyncStackRoot::~ScopedAsyncStackRoot\b', ctx=scoped_ctx),
        'resume_with_new_root': dict(file=CPP, sig=r'void resumeCoroutineWithNewAsyncStackRoot\(\s*coro::coroutine_handle<> h, unifex::AsyncStackFrame& frame\) noexcept',
                                     ctx=dict(raii={'ScopedAsyncStackRoot': ('VF_SCOPED_CTOR', 'VF_SCOPED_DTOR')},
                                              pre=[(r'\bh\.resume\(\)', 'EV_resume(frame)')])),
        # ---- call sites: await_transform.hpp
        'aw_suspend_bool': dict(file=AT, sig=r'bool await_suspend_impl\b', within=[AT_NS, AW_T], ctx=aw_ctx, must_contain=[r'awaiter_\.await_suspend\(resumer\)']),
        'aw_suspend_other': dict(file=AT, sig=r'suspend_result_t<Promise> await_suspend_impl\b', within=[AT_NS, AW_T], ctx=aw_ctx, must_contain=[r'awaiter_\.await_suspend\(resumer\)']),
        'sender_awaitable_suspend': dict(file=AT, sig=r'void await_suspend\(coro::coroutine_handle<Promise> handle\) noexcept', within=AT_NS, ctx=sa_ctx),
        'resumer_awaiter_suspend': dict(file=AT, sig=r'void await_suspend\(coro::coroutine_handle<>\) noexcept', within=AT_NS, ctx=ra_ctx),
        # ---- call sites: inject_async_stack.hpp
        'rf_ctor': dict(file=INJ, sig=r'explicit _root_and_frame\(AsyncStackFrame\* frame\) noexcept', ctx=rf_ctx),
        'rf_dtor': dict(file=INJ, sig=r'~_root_and_frame\(\)', ctx=rf_ctx),
        'rfr_frame_init': dict(file=INJ, kind='expr', sig=r':\s*frame_\((&frame)\)', ctx=dict(pre=[(r'^&frame$', 'frame')])),
        'rfr_ctor': dict(file=INJ, sig=r'explicit _root_and_frame_ref\b', ctx=rfr_ctx),
        'rfr_dtor': dict(file=INJ, sig=r'~_root_and_frame_ref\(\)', ctx=rfr_ctx),
        'rcvw_set_value': dict(file=INJ, sig=r'void set_value\(T&&\.\.\. ts\) noexcept', within=RCVW_T, ctx=rcvw_ctx),
        'rcvw_set_error': dict(file=INJ, sig=r'void set_error\(E&& e\) noexcept', within=RCVW_T, ctx=rcvw_ctx),
        'rcvw_set_done': dict(file=INJ, sig=r'void set_done\(\) noexcept', within=RCVW_T, ctx=rcvw_ctx),
        'opw_start': dict(file=INJ, sig=r'void start\(\) & noexcept', within=OPW_T, ctx=opw_ctx),
        'nx_has_nothrow_invocable': _nx(lambda t: NX_A in t),
        'nx_has_nothrow_constructible': _nx(lambda t: NX_B in t),
        'nx_is_conjunction': _nx(lambda t: t in (NX_A + '&&' + NX_B, NX_B + '&&' + NX_A)),
        # ---- second batch: await_transform.hpp _rec
        'state_enum': dict(file=AT, kind='expr', sig=r'enum class _state \{([^}]*)\}', ctx=dict(pre=[(r'\b([a-z]\w*)\b', r'STATE_\1')])),
        'rec_complete': dict(file=AT, sig=r'void complete\(\) noexcept', within=[AT_NS, REC_T], ctx=rec_ctx),
        'rec_set_value': dict(file=AT, sig=r'(?s)void set_value\(Us&&\.\.\. us\) && noexcept\(.*?std::is_void_v<Value>\)\s*\{', within=[AT_NS, REC_T], ctx=rec_ctx),
        'rec_set_error': dict(file=AT, sig=r'void set_error\(std::exception_ptr eptr\) && noexcept', within=[AT_NS, REC_T], ctx=rec_ctx),
        'rec_set_error_code': dict(file=AT, sig=r'void set_error\(std::error_code code\) && noexcept', within=[AT_NS, REC_T], ctx=rec_ctx),
        'rec_set_done': dict(file=AT, sig=r'void set_done\(\) && noexcept', within=[AT_NS, REC_T], ctx=rec_ctx),
        # ---- second batch: inject_async_stack.hpp _rcvr_wrapper::set_next (may throw: the RAII exit rule runs the destructor on the unwinding path)
        'rcvw_set_next': dict(file=INJ, sig=r'(?s)set_next\(T&&\.\.\. ts\) noexcept\(is_nothrow_next_receiver_v<Receiver, T\.\.\.>\)\s*\{', within=RCVW_T,
                              ctx=dict(cls='rcvr_wrapper', members=[], raii=RAII_RF, pre=[
            (r'_root_and_frame rf\(get_async_stack_frame\(receiver\(\)\)\);', 'vf_rf_arg = EV_get_async_stack_frame(this); _root_and_frame rf;'),
            (r'unifex::set_next\(receiver\(\), std::forward<T>\(ts\)\.\.\.\);', 'if (EV_wrapped_set_next(this)) return;'),
        ])),
        # ---- second batch: connect_awaitable.hpp (plain member functions of the sender_task and its promise)
        'stp_ctor': dict(file=CA, sig=r'(?s)explicit promise_type\(.*?returnAddress\) noexcept\s*:\s*receiver_\(r\)\s*\{', within=CA_NS, ctx=stp_ctx),
        'stp_await_suspend': dict(file=CA, sig=r'(?s)void await_suspend\(coro::coroutine_handle<promise_type> h\) noexcept\(\s*std::is_nothrow_invocable_v<Func>\)\s*\{', within=CA_NS, ctx=stp_ctx),
        'stp_done': dict(file=CA, sig=r'done_coro doneCoro_ = unifex::unhandled_done\(\[this\]\(\) noexcept ', within=CA_NS, ctx=stp_ctx),
        'st_start': dict(file=CA, sig=r'void start\(\) & noexcept', within=CA_NS, ctx=st_ctx),
        # ---- second batch: at_coroutine_exit.hpp
        'cp_final_suspend': dict(file=ACE, sig=r'(?s)coro::coroutine_handle<> await_suspend_impl\(\s*coro::coroutine_handle<CleanupPromise> h\) const noexcept', within=CPB_T, ctx=cp_ctx),
        'cp_await_transform': dict(file=ACE, sig=r'(?s)decltype\(auto\) await_transform\(Value&& value\) noexcept\(noexcept\(.*?value\)\)\)\) \{', within=CPR_T, ctx=cp_ctx),
        'cp_awaiter_suspend': dict(file=ACE, sig=r'(?s)bool await_suspend_impl_\(.*?read_return_address\(\)\) noexcept', within=CT_T, ctx=cp_ctx),
        # ---- call sites: sync_wait.hpp
        'isr_root_init': dict(file=SW, kind='expr', sig=r':\s*root\{(frameAddress, returnAddress)\}'),
        'isr_ctor': dict(file=SW, sig=r'explicit initial_stack_root\b', ctx=isr_ctx),
        'isr_dtor': dict(file=SW, sig=r'~initial_stack_root\(\)', ctx=isr_ctx),
        'sw_scope': dict(file=SW, sig=r'manual_event_loop ctx;\s*', within=r'namespace _sync_wait \{', ctx=sw_ctx, must_contain=[r'initial_stack_root stackRoot']),
    },
    closed_world=[
        # the link fields are private; their friends are exactly the functions below (C++ access control closes the rest of the tree)
        dict(file=INL, members=['topFrame', 'nextRoot', 'stackRoot', 'parentFrame', 'instructionPointer', 'stackFramePtr']),
        dict(file=H, members=['topFrame', 'nextRoot', 'stackRoot', 'parentFrame', 'root_'],
             allow=[r'std::atomic<AsyncStackFrame\*> topFrame\{nullptr\};', r'AsyncStackRoot\* nextRoot = nullptr;',
                    r'AsyncStackFrame\* parentFrame = nullptr;', r'AsyncStackRoot\* stackRoot = nullptr;', r'AsyncStackRoot root_;']),
        dict(file=CPP, members=['currentThreadAsyncStackRoot', 'topFrame', 'nextRoot', 'root_'],
             allow=[r'static thread_local AsyncStackRootHolder currentThreadAsyncStackRoot;']),
        dict(file=CPP, members=['value'], within=HOLDER, allow=[r'std::atomic<AsyncStackRoot\*> value\{nullptr\};']),
    ],
    units=[
        # async_stack-inl.hpp
        dict(name='checkAsyncStackFrameIsActive', harness='h_check_active', enforce='checkAsyncStackFrameIsActive'),
        dict(name='activateAsyncStackFrame', harness='h_activate', enforce='activateAsyncStackFrame'),
        dict(name='deactivateAsyncStackFrame', harness='h_deactivate', enforce='deactivateAsyncStackFrame'),
        dict(name='pushAsyncStackFrameCallerCallee', harness='h_push', enforce='pushAsyncStackFrameCallerCallee'),
        dict(name='popAsyncStackFrameCallee', harness='h_pop_callee', enforce='popAsyncStackFrameCallee'),
        dict(name='popAsyncStackFrameFromCaller', harness='h_pop_from_caller', enforce='popAsyncStackFrameFromCaller',
             replace=['popAsyncStackFrameCallee']),
        dict(name='AsyncStackRoot_setTopFrame', harness='h_setTopFrame', enforce='AsyncStackRoot_setTopFrame'),
        dict(name='AsyncStackRoot_getTopFrame', harness='h_getTopFrame', enforce='AsyncStackRoot_getTopFrame'),
        dict(name='AsyncStackRoot_setStackFrameContext', harness='h_setStackFrameContext', enforce='AsyncStackRoot_setStackFrameContext'),
        dict(name='AsyncStackRoot_getStackFramePointer', harness='h_getStackFramePointer', enforce='AsyncStackRoot_getStackFramePointer'),
        dict(name='AsyncStackRoot_getReturnAddress', harness='h_root_getReturnAddress', enforce='AsyncStackRoot_getReturnAddress'),
        dict(name='AsyncStackRoot_getNextRoot', harness='h_getNextRoot', enforce='AsyncStackRoot_getNextRoot'),
        dict(name='AsyncStackRoot_setNextRoot', harness='h_setNextRoot', enforce='AsyncStackRoot_setNextRoot'),
        dict(name='AsyncStackFrame_getParentFrame', harness='h_getParentFrame', enforce='AsyncStackFrame_getParentFrame'),
        dict(name='AsyncStackFrame_getParentFrame_const', harness='h_getParentFrame_const', enforce='AsyncStackFrame_getParentFrame_const'),
        dict(name='AsyncStackFrame_setParentFrame', harness='h_setParentFrame', enforce='AsyncStackFrame_setParentFrame'),
        dict(name='AsyncStackFrame_getStackRoot', harness='h_getStackRoot', enforce='AsyncStackFrame_getStackRoot'),
        dict(name='AsyncStackFrame_setReturnAddress', harness='h_setReturnAddress', enforce='AsyncStackFrame_setReturnAddress'),
        dict(name='AsyncStackFrame_getReturnAddress', harness='h_frame_getReturnAddress', enforce='AsyncStackFrame_getReturnAddress'),
        # source/async_stack.cpp + ScopedAsyncStackRoot
        dict(name='AsyncStackRootHolder_get', harness='h_holder_get', enforce='AsyncStackRootHolder_get'),
        dict(name='AsyncStackRootHolder_set', harness='h_holder_set', enforce='AsyncStackRootHolder_set'),
        dict(name='AsyncStackRootHolder_set_relaxed', harness='h_holder_set_relaxed', enforce='AsyncStackRootHolder_set_relaxed'),
        dict(name='tryGetCurrentAsyncStackRoot', harness='h_tryGetCurrent', enforce='tryGetCurrentAsyncStackRoot'),
        dict(name='getCurrentAsyncStackRoot', harness='h_getCurrent', enforce='getCurrentAsyncStackRoot'),
        dict(name='exchangeCurrentAsyncStackRoot', harness='h_exchangeCurrent', enforce='exchangeCurrentAsyncStackRoot'),
        dict(name='ScopedAsyncStackRoot_ctor', harness='h_scoped_ctor', enforce='ScopedAsyncStackRoot_ctor'),
        dict(name='ScopedAsyncStackRoot_dtor', harness='h_scoped_dtor', enforce='ScopedAsyncStackRoot_dtor'),
        dict(name='ScopedAsyncStackRoot_activateFrame', harness='h_scoped_activateFrame', enforce='ScopedAsyncStackRoot_activateFrame',
             replace=['activateAsyncStackFrame']),
        dict(name='ScopedAsyncStackRoot_ensureFrameDeactivated', harness='h_scoped_ensureFrameDeactivated',
             enforce='ScopedAsyncStackRoot_ensureFrameDeactivated'),
        # a LIVE frame that is still the top frame: fails on the unchanged tree (see assumptions / report); thorough tier only
        # until the lead registers the finding
        dict(name='ScopedAsyncStackRoot_ensureFrameDeactivated_live_frame', harness='h_scoped_ensureFrameDeactivated_live',
             enforce='ScopedAsyncStackRoot_ensureFrameDeactivated'),
        dict(name='resumeCoroutineWithNewAsyncStackRoot', harness='h_resume_with_new_root', enforce='resumeCoroutineWithNewAsyncStackRoot'),
        # the stack-trace walk: unbounded index bound by loop contract over a one-frame window, global result bounded
        dict(name='getAsyncStackTraceFromInitialFrame_index_bound', harness='h_trace_lc', enforce='getAsyncStackTraceFromInitialFrame_lc',
             expect_loop_obligations=True),
        dict(name='getAsyncStackTraceFromInitialFrame_bounded6', harness='h_trace_bounded', mode='bounded', unwind=10),
        # pair lemmas: the two extracted bodies run in sequence on a symbolic well-formed window
        dict(name='pair_ctor_dtor', harness='pair_ctor_dtor', mode='lemma'),
        dict(name='pair_activate_deactivate', harness='pair_activate_deactivate', mode='lemma'),
        dict(name='pair_push_pop', harness='pair_push_pop', mode='lemma'),
        dict(name='pair_push_pop_from_caller', harness='pair_push_pop_from_caller', mode='lemma'),
        dict(name='pair_exchange_exchange', harness='pair_exchange_exchange', mode='lemma'),
        # lemma over the contracts only: a whole operation (root scope, activate, push, pop, deactivate, end of scope) is balanced
        dict(name='lemma_operation_balanced', harness='lemma_operation_balanced',
             replace=['ScopedAsyncStackRoot_ctor', 'ScopedAsyncStackRoot_activateFrame', 'pushAsyncStackFrameCallerCallee',
                      'popAsyncStackFrameCallee', 'popAsyncStackFrameFromCaller', 'deactivateAsyncStackFrame', 'ScopedAsyncStackRoot_dtor']),
        dict(name='lemma_unbalanced_is_caught', harness='lemma_unbalanced_is_caught', mode='lemma'),
        dict(name='lemma_async_stack_init', harness='lemma_async_stack_init', mode='lemma'),
        # ---- call sites (contracts of the primitives used through replace)
        dict(name='await_suspend_impl_bool', harness='h_aw_suspend_bool', enforce='awaitable_wrapper_await_suspend_impl_bool',
             replace=['activateAsyncStackFrame', 'deactivateAsyncStackFrame']),
        dict(name='await_suspend_impl_void_or_handle', harness='h_aw_suspend_other', enforce='awaitable_wrapper_await_suspend_impl_other',
             replace=['activateAsyncStackFrame', 'deactivateAsyncStackFrame']),
        dict(name='sender_awaitable_await_suspend', harness='h_sender_awaitable_suspend', enforce='sender_awaitable_await_suspend',
             replace=['deactivateAsyncStackFrame']),
        dict(name='resumer_awaiter_await_suspend', harness='h_resumer_awaiter_suspend', enforce='resumer_awaiter_await_suspend',
             replace=['ScopedAsyncStackRoot_ctor', 'ScopedAsyncStackRoot_activateFrame', 'ScopedAsyncStackRoot_ensureFrameDeactivated', 'ScopedAsyncStackRoot_dtor']),
        dict(name='rcvr_wrapper_set_value', harness='h_rcvw_set_value', enforce='rcvr_wrapper_set_value', replace=RF_REPLACE),
        dict(name='rcvr_wrapper_set_error', harness='h_rcvw_set_error', enforce='rcvr_wrapper_set_error', replace=RF_REPLACE),
        dict(name='rcvr_wrapper_set_done', harness='h_rcvw_set_done', enforce='rcvr_wrapper_set_done', replace=RF_REPLACE),
        dict(name='op_wrapper_start', harness='h_opw_start', enforce='op_wrapper_start', replace=RF_REPLACE),
        dict(name='sync_wait_impl_scope', harness='h_sw_scope', enforce='sync_wait_impl_scope', replace=RF_REPLACE),
        dict(name='lemma_op_wrapper_noexcept', harness='lemma_op_wrapper_noexcept', mode='lemma'),
        # ---- call sites, second batch
        dict(name='rec_complete', harness='h_rec_complete', enforce='rec_complete', replace=SR_REPLACE),
        dict(name='rec_set_value', harness='h_rec_set_value', enforce='rec_set_value', replace=SR_REPLACE),
        dict(name='rec_set_error', harness='h_rec_set_error', enforce='rec_set_error', replace=SR_REPLACE),
        dict(name='rec_set_error_code', harness='h_rec_set_error_code', enforce='rec_set_error_code', replace=SR_REPLACE),
        dict(name='rec_set_done', harness='h_rec_set_done', enforce='rec_set_done', replace=SR_REPLACE),
        dict(name='rcvr_wrapper_set_next', harness='h_rcvw_set_next', enforce='rcvr_wrapper_set_next', replace=RF_REPLACE),
        dict(name='sender_task_promise_ctor', harness='h_stp_ctor', enforce='sender_task_promise_ctor'),
        dict(name='sender_task_awaiter_await_suspend', harness='h_stp_await_suspend', enforce='sender_task_awaiter_await_suspend',
             replace=['deactivateAsyncStackFrame']),
        dict(name='sender_task_unhandled_done_r0', harness='h_stp_done_r0', enforce='sender_task_promise_unhandled_done',
             replace=['popAsyncStackFrameFromCaller', 'deactivateAsyncStackFrame']),
        dict(name='sender_task_unhandled_done_r1', harness='h_stp_done_r1', enforce='sender_task_promise_unhandled_done',
             replace=['popAsyncStackFrameFromCaller', 'deactivateAsyncStackFrame']),
        dict(name='sender_task_unhandled_done_off', harness='h_stp_done_off', enforce='sender_task_promise_unhandled_done',
             replace=['popAsyncStackFrameFromCaller', 'deactivateAsyncStackFrame']),
        dict(name='sender_task_start', harness='h_st_start', enforce='sender_task_start', replace=SR_REPLACE),
        dict(name='cleanup_final_suspend', harness='h_cp_final_suspend', enforce='cleanup_final_await_suspend_impl', replace=['popAsyncStackFrameCallee']),
        dict(name='cleanup_await_transform', harness='h_cp_await_transform', enforce='cleanup_promise_await_transform', replace=['pushAsyncStackFrameCallerCallee']),
        dict(name='cleanup_awaiter_await_suspend_impl', harness='h_cp_awaiter_suspend', enforce='cleanup_awaiter_await_suspend_impl_'),
        dict(name='lemma_done_handoff', harness='lemma_done_handoff', replace=['sender_task_promise_unhandled_done']),
    ],
    assumptions=[
        'NOT REACHED: the configuration-differential half of C20 (same observable behaviour under C++17/20 x NDEBUG/debug x continuation visitation on/off): needs several builds to be run and compared, a different technique',
        'call sites that are plain function bodies ARE reached, with the primitives represented by their contracts: await_transform.hpp _awaitable_wrapper::await_suspend_impl (both overloads), _awaitable::await_suspend, the resumer coroutine\'s awaiter::await_suspend, _awaitable_base::_rec::complete / set_value / set_error (both overloads) / set_done; inject_async_stack.hpp _rcvr_wrapper::set_value/set_error/set_done/set_next (set_next with a throwing wrapped set_next: the exception leaves through the RAII object, checked on both paths), _op_wrapper::start (with _root_and_frame / _root_and_frame_ref); sync_wait.hpp initial_stack_root and the scope in _impl that owns it; connect_awaitable.hpp _sender_task::promise_type constructor, promise_type::awaiter::await_suspend, the lambda behind doneCoro_ (unhandled_done handler), _sender_task::type::start; at_coroutine_exit.hpp _cleanup_promise_base::final_awaitable::await_suspend_impl, _cleanup_promise::await_transform, _cleanup_task::awaiter::await_suspend_impl_.  NOT REACHED (coroutine bodies, contain co_await / co_yield): connect_awaitable.hpp _await_cpo::_fn::connect_impl, at_coroutine_exit.hpp _at_coroutine_exit::_fn::at_coroutine_exit; task.hpp / stop_if_requested.hpp (not targeted); members that call no async-stack primitive (promise_type::unhandled_done() = return doneCoro_.handle(), the doneCoro_ lambda of _cleanup_promise, final_awaitable::await_suspend wrappers around await_suspend_impl, _cleanup_promise_base::next) are not extracted; the noexcept-specification of set_next (is_nothrow_next_receiver_v<Receiver, T...>) is not checked',
        '_rec: continuation_.resume() / resume_done() is a stub (EV_resume_continuation): the awaiting coroutine runs on this thread and uses the async stack in a balanced way -- by the time it returns it has deactivated its frame (assumption; _rec::complete has no ensureFrameDeactivated, the ScopedAsyncStackRoot destructor precondition topFrame == nullptr is then an obligation); the frame may have been re-activated on another root, the coroutine and with it the awaitable (result slot, operation state, this receiver) may be gone: dead-object snapshots of F0, REC and RESULT.  For resume_done() the stub assumes what the waiting coroutine\'s unhandled_done handler does (pop the dummy frame, deactivate the own frame): proved for connect_awaitable.hpp\'s handler (units sender_task_unhandled_done_*), tied together by lemma_done_handoff over its contract; task.hpp\'s handler is not reached.  Value\'s constructor in set_value may throw (nothing delivered)',
        'sender_task_unhandled_done is verified per configuration (current root = R0 / R1 fixed, WithAsyncStackSupport fixed; three units): with a symbolic choice of the root the path through the replaced popAsyncStackFrameFromCaller contract was infeasible (vacuity canary), cause not found; lemma_operation_balanced reaches that contract only on one of two nondeterministic branches',
        'connect_awaitable.hpp / at_coroutine_exit.hpp stubs: the completion function handed to co_yield and set_done on the receiver may destroy the coroutine (dead-object snapshot of F0); _sender_task::start: a coroutine that is still alive when resume() returns has deactivated its frame (every await / yield path does: units sender_awaitable_await_suspend, await_suspend_impl_*, sender_task_awaiter_await_suspend), a destroyed one may still be recorded as top frame; h.destroy() of the finished cleanup coroutine kills its promise and frame_ (snapshot of CP and F1); call-site preconditions of at_coroutine_exit.hpp (caller obligations of coroutine code that is not reached): when await_transform pushes, the parent frame is the active frame and the cleanup frame is detached; at final_suspend the cleanup frame is the active frame with the parent as its detached caller; parentFrame_ is null until await_suspend_impl_ has run (member initialiser parentFrame_{}, not extracted)',
        'call-site stubs: the wrapped awaiter\'s await_suspend, the downstream receiver\'s completion, the wrapped operation\'s start and sync_wait\'s connect/start/run use the async stack in a balanced way on the current root (they return with the frame that was active still active) -- assumption; they may resume the coroutine elsewhere (its frame re-activated on another root) or destroy operation / promise / awaiter: dead-object snapshot, writes afterwards are violations, reads of a dead object are not detected',
        'local RAII objects (_root_and_frame, _root_and_frame_ref, initial_stack_root, the ScopedAsyncStackRoot in the resumer awaiter) are laid out on the window objects (frame_ -> F1 resp. F0, root_ -> SR); member construction / destruction order is written out in the template (VF_*_CTOR / VF_*_DTOR), the constructor / destructor BODIES are extracted',
        '_op_wrapper::start with an operation that is still pending when start() returns: the frame stays attached (known finding C20-op-wrapper-frame-left-attached, unit ScopedAsyncStackRoot_ensureFrameDeactivated_live_frame); unit op_wrapper_start proves root restoration, the activation order and that a possibly-dead operation is not written',
        'TEXTUAL check of a type-level fact: lemma_op_wrapper_noexcept compares the whitespace-normalised noexcept-specification of _op_wrapper\'s constructor with the conjunction is_nothrow_invocable_v<Fn, S, receiver_t<R>> && is_nothrow_constructible_v<remove_cvref_t<R>, R> ("the wrapper\'s constructor is noexcept only if the wrapped connect is"); the traits are not evaluated and the rest of the noexcept chain (make_op_wrapper, the connect CPO in sender_concepts.hpp) is not checked',
        'call-site preconditions (caller obligations of template code): the callee frame handed to pushAsyncStackFrameCallerCallee is a different, not yet attached frame (stackRoot == nullptr); the parent of a frame handed to popAsyncStackFrameCallee is null or a live, currently detached frame; a frame handed to activate is detached and the root has no top frame',
        'thread-locality: the current-root holder is thread_local and a thread writes topFrame only of its own current root (checked as the guarantee at every atomic store); other threads / profilers / debuggers only read (header comment on topFrame): vf_interfere is empty',
        'the link fields are private; the closed-world scan covers the three files that contain every friend (async_stack.hpp, async_stack-inl.hpp, source/async_stack.cpp)',
        'ScopedAsyncStackRoot::ensureFrameDeactivated: a frame that is still the top frame when it is called is never accessed (it may be dead); if such a frame is in fact alive (inject_async_stack.hpp _op_wrapper::start() for every operation that is still pending when start() returns) its stackRoot link is left pointing at the root that is about to be destroyed: unit ScopedAsyncStackRoot_ensureFrameDeactivated_live_frame states the C20 obligation and FAILS (recorded as known finding C20-op-wrapper-frame-left-attached); native reproducer probes/native/async_stack_op_frame_left_attached.cpp',
        'the coroutine resumed by resumeCoroutineWithNewAsyncStackRoot deactivates its frame before it suspends or finishes (stub EV_resume; await_transform / final_suspend code, not reached)',
        'getAsyncStackTraceFromInitialFrame: the parentFrame chain is a null-terminated list of live frames; the index bound is proved for chains of any length over a one-frame window (the successor of a chain member is a chain member or null: M2 meta-argument), the exact result (first min(len,max) return addresses, in order, nothing else written) only for chains of <= 6 frames (bounded)',
        'the UNIFEX_ASYNC_STACK_ROOT_USE_VECTOR registry of holders and the pthread TLS key (debugger support) are not modelled',
        'atomics sequentially consistent',
    ],
    drops=['memory orders', 'noexcept / [[maybe_unused]] / inline / const', 'C++ references -> C pointers (parameters: spec-level pre rules)',
           'instruction_ptr / frame_ptr (wrappers of one void*) -> uintptr_t',
           'default arguments of the ScopedAsyncStackRoot constructor (__builtin_frame_address / __builtin_return_address) -> nondeterministic values',
           'namespace qualifiers unifex:: / detail::', 'coroutine_handle::resume() -> event stub EV_resume',
           'local ScopedAsyncStackRoot object: constructor / destructor made explicit (VF_SCOPED_CTOR / VF_SCOPED_DTOR at scope exit)',
           'call sites: coroutine handles -> int ids; resume_with_stack_root(h).handle(), awaiter_.await_suspend(resumer), std::exchange(coro_, {}).destroy(), h.resume(), unifex::start(op_), unifex::set_value/set_error/set_done(receiver()), get_async_stack_frame(...), connect/start/ctx.run() in sync_wait -> event stubs; a reference bound to *p at a call of activate/deactivate -> p (callable pre rule); constructor arguments of local RAII objects passed through template variables; UNIFEX_TRY / UNIFEX_CATCH -> goto vf_catch; if constexpr (WithAsyncStackSupport) -> both branches',
           'second batch of call sites: continuation_.resume() / resume_done(), activate_union_member(...), unifex::set_next(receiver(), ...) (may throw: modelled as an early exit, the RAII exit rule then runs the destructor = unwinding), std::forward<Func>(func_)(), unifex::set_done(std::move(receiver_)), coro_.resume(), h.promise().next(), h.destroy(), unifex::await_transform(*this, ...), exchange_continuation / get_scheduler / get_async_stack_frame(parent) -> event stubs; `return f();` with f returning void -> `{ f(); return; }` (spec-level pre rule); local AsyncStackFrame of _rec::set_done laid out on F1 (VF_DUMMY_CTOR / VF_DUMMY_DTOR), promise members reached through a coroutine handle (h.promise().frame_, continuation_.promise().x) -> the window objects F0 / F1 / CP; std::make_exception_ptr(std::system_error{code}) dropped (set_error(error_code) forwards to set_error(exception_ptr))',
           'getDetachedRootAsyncStackFrame / makeDetachedRootFrame / compiler_must_not_elide / pthread key set-up: not extracted (no link field is touched)'],
)
