INL = 'include/unifex/tracing/async_stack-inl.hpp'
H = 'include/unifex/tracing/async_stack.hpp'
CPP = 'source/async_stack.cpp'
SCOPED = r'class ScopedAsyncStackRoot \{'
HOLDER = r'struct AsyncStackRootHolder \{'
FRAME_T = r'struct AsyncStackFrame \{'
ROOT_T = r'struct AsyncStackRoot \{'


def refs(*names):
    """C++ reference parameters become C pointer parameters of the same name (general rule missing from the
    global table, which only knows `auto& r = E;` locals):  &r -> r (only where & is unary: after ( , = ),
    r.m -> r->m ; a bare r passed on to another reference parameter stays r."""
    out = []
    for n in names:
        out.append((r'([(,=]\s*)&' + n + r'\b(?!\s*(?:\.|->|\[))', r'\1' + n))
        out.append((r'(?<![\w.>])' + n + r'\.(?=\w)', n + '->'))
    return out


OBJ = {
    # AsyncStackRoot / AsyncStackFrame member functions called through an object
    'setTopFrame': 'AsyncStackRoot_setTopFrame', 'getTopFrame': 'AsyncStackRoot_getTopFrame',
    'setStackFrameContext': 'AsyncStackRoot_setStackFrameContext',
    'getParentFrame': 'AsyncStackFrame_getParentFrame', 'getReturnAddress': 'AsyncStackFrame_getReturnAddress',
    # the thread-local holder
    'get': 'AsyncStackRootHolder_get', 'set': 'AsyncStackRootHolder_set', 'set_relaxed': 'AsyncStackRootHolder_set_relaxed',
    # ScopedAsyncStackRoot
    'activateFrame': 'ScopedAsyncStackRoot_activateFrame',
}
COMMON_PRE = [(r'\bunifex::', ''), (r'\bdetail::', '')]

ctx = dict(cls='', members=[], methods=[], obj_methods=OBJ, pre=COMMON_PRE)


def free(*r):
    return dict(pre=refs(*r))


root_ctx = dict(cls='AsyncStackRoot', members=['topFrame', 'nextRoot', 'stackFramePtr', 'returnAddress'])
frame_ctx = dict(cls='AsyncStackFrame', members=['parentFrame', 'instructionPointer', 'stackRoot'])
holder_ctx = dict(cls='AsyncStackRootHolder', members=['value'])
scoped_ctx = dict(cls='ScopedAsyncStackRoot', members=['root_'])


def with_refs(c, *r):
    d = dict(c)
    d['pre'] = refs(*r)
    return d


# the chain walk of getAsyncStackTraceFromInitialFrame, native loop contract (index bound, unbounded in chain length):
# `frame` is a loop-carried POINTER; the invariant pins it to the one-frame window WSELF (a chain member whose parent is
# again a chain member or the end), see the template
TRACE_LOOP = ('__CPROVER_assigns(frame, numFrames, __CPROVER_object_whole(addresses))\n'
              '__CPROVER_loop_invariant(numFrames <= maxAddresses && (frame == NULL || frame == &WSELF)'
              ' && (!(WSELF.parentFrame == &WSELF && initialFrame != NULL) || frame == &WSELF))')

SPEC = dict(
    properties=['C20'],
    ctx=ctx,
    extracts={
        # ---- member initialisers (initial values come from the code)
        'topFrame_init': dict(file=H, kind='expr', sig=r'std::atomic<AsyncStackFrame\*> topFrame\{([^}]*)\}'),
        'nextRoot_init': dict(file=H, kind='expr', sig=r'AsyncStackRoot\* nextRoot = ([^;]*);', within=ROOT_T),
        'parentFrame_init': dict(file=H, kind='expr', sig=r'AsyncStackFrame\* parentFrame = ([^;]*);', within=FRAME_T),
        'stackRoot_init': dict(file=H, kind='expr', sig=r'AsyncStackRoot\* stackRoot = ([^;]*);', within=FRAME_T),
        'holder_value_init': dict(file=CPP, kind='expr', sig=r'std::atomic<AsyncStackRoot\*> value\{([^}]*)\}'),
        # ---- async_stack-inl.hpp: free functions
        'check_active': dict(file=INL, sig=r'inline void checkAsyncStackFrameIsActive\b', ctx=free('frame')),
        'activate': dict(file=INL, sig=r'inline void activateAsyncStackFrame\b', ctx=free('root', 'frame')),
        'deactivate': dict(file=INL, sig=r'inline void deactivateAsyncStackFrame\b', ctx=free('frame')),
        'push': dict(file=INL, sig=r'inline void pushAsyncStackFrameCallerCallee\b', ctx=free('callerFrame', 'calleeFrame')),
        'pop_callee': dict(file=INL, sig=r'inline void\s+popAsyncStackFrameCallee\b', ctx=free('calleeFrame')),
        'pop_from_caller': dict(file=INL, sig=r'inline void popAsyncStackFrameFromCaller\b',
                                ctx=dict(pre=refs('callerFrame') + [(r'popAsyncStackFrameCallee\(\*topFrame\)', 'popAsyncStackFrameCallee(topFrame)')])),
        'trace': dict(file=INL, sig=r'inline std::size_t getAsyncStackTraceFromInitialFrame\b'),
        'trace_lc': dict(file=INL, sig=r'inline std::size_t getAsyncStackTraceFromInitialFrame\b', loops={0: TRACE_LOOP}),
        # ---- AsyncStackFrame accessors
        'frame_getParentFrame': dict(file=INL, sig=r'inline AsyncStackFrame\* AsyncStackFrame::getParentFrame\(\) noexcept', ctx=frame_ctx),
        'frame_getParentFrame_const': dict(file=INL, sig=r'inline const AsyncStackFrame\* AsyncStackFrame::getParentFrame\(\) const noexcept', ctx=frame_ctx),
        'frame_setParentFrame': dict(file=INL, sig=r'inline void AsyncStackFrame::setParentFrame\b', ctx=with_refs(frame_ctx, 'frame')),
        'frame_getStackRoot': dict(file=INL, sig=r'inline AsyncStackRoot\* AsyncStackFrame::getStackRoot\b', ctx=frame_ctx),
        'frame_setReturnAddress': dict(file=INL, sig=r'inline void AsyncStackFrame::setReturnAddress\b', ctx=frame_ctx),
        'frame_getReturnAddress': dict(file=INL, sig=r'inline instruction_ptr AsyncStackFrame::getReturnAddress\b', ctx=frame_ctx),
        # ---- AsyncStackRoot members
        'root_setTopFrame': dict(file=INL, sig=r'inline void AsyncStackRoot::setTopFrame\b', ctx=with_refs(root_ctx, 'frame')),
        'root_getTopFrame': dict(file=INL, sig=r'inline AsyncStackFrame\* AsyncStackRoot::getTopFrame\b', ctx=root_ctx),
        'root_setStackFrameContext': dict(file=INL, sig=r'inline void AsyncStackRoot::setStackFrameContext\b', ctx=root_ctx),
        'root_getStackFramePointer': dict(file=INL, sig=r'inline frame_ptr AsyncStackRoot::getStackFramePointer\b', ctx=root_ctx),
        'root_getReturnAddress': dict(file=INL, sig=r'inline instruction_ptr AsyncStackRoot::getReturnAddress\b', ctx=root_ctx),
        'root_getNextRoot': dict(file=INL, sig=r'inline const AsyncStackRoot\* AsyncStackRoot::getNextRoot\b', ctx=root_ctx),
        'root_setNextRoot': dict(file=INL, sig=r'inline void AsyncStackRoot::setNextRoot\b', ctx=root_ctx),
        # ---- async_stack.hpp: ScopedAsyncStackRoot inline members
        'scoped_activateFrame': dict(file=H, sig=r'void activateFrame\(AsyncStackFrame& frame\) noexcept', within=SCOPED,
                                     ctx=dict(cls='ScopedAsyncStackRoot', members=['root_'],
                                              pre=[(r'activateAsyncStackFrame\(root_,', 'activateAsyncStackFrame(&root_,')])),
        'scoped_ensureFrameDeactivated': dict(file=H, sig=r'void ensureFrameDeactivated\b', within=SCOPED, ctx=scoped_ctx),
        # ---- source/async_stack.cpp
        'holder_get': dict(file=CPP, sig=r'AsyncStackRoot\* get\(\) const noexcept', within=HOLDER, ctx=holder_ctx),
        'holder_set': dict(file=CPP, sig=r'void set\(AsyncStackRoot\* root\) noexcept', within=HOLDER, ctx=holder_ctx),
        'holder_set_relaxed': dict(file=CPP, sig=r'void set_relaxed\(AsyncStackRoot\* root\) noexcept', within=HOLDER, ctx=holder_ctx),
        'tryGetCurrent': dict(file=CPP, sig=r'AsyncStackRoot\* tryGetCurrentAsyncStackRoot\(\) noexcept'),
        'exchangeCurrent': dict(file=CPP, sig=r'exchangeCurrentAsyncStackRoot\(AsyncStackRoot\* newRoot\) noexcept'),
        'getCurrent': dict(file=CPP, sig=r'AsyncStackRoot& getCurrentAsyncStackRoot\(\) noexcept',
                           ctx=dict(pre=[(r'return \*root;', 'return root;')])),
        'scoped_ctor': dict(file=CPP, sig=r'ScopedAsyncStackRoot::ScopedAsyncStackRoot\b', ctx=scoped_ctx),
        'scoped_dtor': dict(file=CPP, sig=r'ScopedAsyncStackRoot::~ScopedAsyncStackRoot\b', ctx=scoped_ctx),
        'resume_with_new_root': dict(file=CPP, sig=r'void resumeCoroutineWithNewAsyncStackRoot\(\s*coro::coroutine_handle<> h, unifex::AsyncStackFrame& frame\) noexcept',
                                     ctx=dict(raii={'ScopedAsyncStackRoot': ('VF_SCOPED_CTOR', 'VF_SCOPED_DTOR')},
                                              pre=[(r'\bh\.resume\(\)', 'EV_resume(frame)')])),
    },
    closed_world=[
        # the link fields are private; their friends are exactly the functions below (C++ access control closes the rest of the tree)
        dict(file=INL, members=['topFrame', 'nextRoot', 'stackRoot', 'parentFrame', 'instructionPointer', 'stackFramePtr']),
        dict(file=H, members=['topFrame', 'nextRoot', 'stackRoot', 'parentFrame', 'root_'],
             allow=[r'std::atomic<AsyncStackFrame\*> topFrame\{nullptr\};', r'AsyncStackRoot\* nextRoot = nullptr;',
                    r'AsyncStackFrame\* parentFrame = nullptr;', r'AsyncStackRoot\* stackRoot = nullptr;', r'AsyncStackRoot root_;']),
        dict(file=CPP, members=['currentThreadAsyncStackRoot', 'topFrame', 'nextRoot', 'root_'],
             allow=[r'static thread_local AsyncStackRootHolder currentThreadAsyncStackRoot;']),
        dict(file=CPP, members=['value'], within=HOLDER, allow=[r'std::atomic<AsyncStackRoot\*> value\{nullptr\};']),
    ],
    units=[
        # async_stack-inl.hpp
        dict(name='checkAsyncStackFrameIsActive', harness='h_check_active', enforce='checkAsyncStackFrameIsActive'),
        dict(name='activateAsyncStackFrame', harness='h_activate', enforce='activateAsyncStackFrame'),
        dict(name='deactivateAsyncStackFrame', harness='h_deactivate', enforce='deactivateAsyncStackFrame'),
        dict(name='pushAsyncStackFrameCallerCallee', harness='h_push', enforce='pushAsyncStackFrameCallerCallee'),
        dict(name='popAsyncStackFrameCallee', harness='h_pop_callee', enforce='popAsyncStackFrameCallee'),
        dict(name='popAsyncStackFrameFromCaller', harness='h_pop_from_caller', enforce='popAsyncStackFrameFromCaller',
             replace=['popAsyncStackFrameCallee']),
        dict(name='AsyncStackRoot_setTopFrame', harness='h_setTopFrame', enforce='AsyncStackRoot_setTopFrame'),
        dict(name='AsyncStackRoot_getTopFrame', harness='h_getTopFrame', enforce='AsyncStackRoot_getTopFrame'),
        dict(name='AsyncStackRoot_setStackFrameContext', harness='h_setStackFrameContext', enforce='AsyncStackRoot_setStackFrameContext'),
        dict(name='AsyncStackRoot_getStackFramePointer', harness='h_getStackFramePointer', enforce='AsyncStackRoot_getStackFramePointer'),
        dict(name='AsyncStackRoot_getReturnAddress', harness='h_root_getReturnAddress', enforce='AsyncStackRoot_getReturnAddress'),
        dict(name='AsyncStackRoot_getNextRoot', harness='h_getNextRoot', enforce='AsyncStackRoot_getNextRoot'),
        dict(name='AsyncStackRoot_setNextRoot', harness='h_setNextRoot', enforce='AsyncStackRoot_setNextRoot'),
        dict(name='AsyncStackFrame_getParentFrame', harness='h_getParentFrame', enforce='AsyncStackFrame_getParentFrame'),
        dict(name='AsyncStackFrame_getParentFrame_const', harness='h_getParentFrame_const', enforce='AsyncStackFrame_getParentFrame_const'),
        dict(name='AsyncStackFrame_setParentFrame', harness='h_setParentFrame', enforce='AsyncStackFrame_setParentFrame'),
        dict(name='AsyncStackFrame_getStackRoot', harness='h_getStackRoot', enforce='AsyncStackFrame_getStackRoot'),
        dict(name='AsyncStackFrame_setReturnAddress', harness='h_setReturnAddress', enforce='AsyncStackFrame_setReturnAddress'),
        dict(name='AsyncStackFrame_getReturnAddress', harness='h_frame_getReturnAddress', enforce='AsyncStackFrame_getReturnAddress'),
        # source/async_stack.cpp + ScopedAsyncStackRoot
        dict(name='AsyncStackRootHolder_get', harness='h_holder_get', enforce='AsyncStackRootHolder_get'),
        dict(name='AsyncStackRootHolder_set', harness='h_holder_set', enforce='AsyncStackRootHolder_set'),
        dict(name='AsyncStackRootHolder_set_relaxed', harness='h_holder_set_relaxed', enforce='AsyncStackRootHolder_set_relaxed'),
        dict(name='tryGetCurrentAsyncStackRoot', harness='h_tryGetCurrent', enforce='tryGetCurrentAsyncStackRoot'),
        dict(name='getCurrentAsyncStackRoot', harness='h_getCurrent', enforce='getCurrentAsyncStackRoot'),
        dict(name='exchangeCurrentAsyncStackRoot', harness='h_exchangeCurrent', enforce='exchangeCurrentAsyncStackRoot'),
        dict(name='ScopedAsyncStackRoot_ctor', harness='h_scoped_ctor', enforce='ScopedAsyncStackRoot_ctor'),
        dict(name='ScopedAsyncStackRoot_dtor', harness='h_scoped_dtor', enforce='ScopedAsyncStackRoot_dtor'),
        dict(name='ScopedAsyncStackRoot_activateFrame', harness='h_scoped_activateFrame', enforce='ScopedAsyncStackRoot_activateFrame',
             replace=['activateAsyncStackFrame']),
        dict(name='ScopedAsyncStackRoot_ensureFrameDeactivated', harness='h_scoped_ensureFrameDeactivated',
             enforce='ScopedAsyncStackRoot_ensureFrameDeactivated'),
        # a LIVE frame that is still the top frame: fails on the unchanged tree (see assumptions / report); thorough tier only
        # until the lead registers the finding
        dict(name='ScopedAsyncStackRoot_ensureFrameDeactivated_live_frame', harness='h_scoped_ensureFrameDeactivated_live',
             enforce='ScopedAsyncStackRoot_ensureFrameDeactivated'),
        dict(name='resumeCoroutineWithNewAsyncStackRoot', harness='h_resume_with_new_root', enforce='resumeCoroutineWithNewAsyncStackRoot'),
        # the stack-trace walk: unbounded index bound by loop contract over a one-frame window, global result bounded
        dict(name='getAsyncStackTraceFromInitialFrame_index_bound', harness='h_trace_lc', enforce='getAsyncStackTraceFromInitialFrame_lc',
             expect_loop_obligations=True),
        dict(name='getAsyncStackTraceFromInitialFrame_bounded6', harness='h_trace_bounded', mode='bounded', unwind=10),
        # pair lemmas: the two extracted bodies run in sequence on a symbolic well-formed window
        dict(name='pair_ctor_dtor', harness='pair_ctor_dtor', mode='lemma'),
        dict(name='pair_activate_deactivate', harness='pair_activate_deactivate', mode='lemma'),
        dict(name='pair_push_pop', harness='pair_push_pop', mode='lemma'),
        dict(name='pair_push_pop_from_caller', harness='pair_push_pop_from_caller', mode='lemma'),
        dict(name='pair_exchange_exchange', harness='pair_exchange_exchange', mode='lemma'),
        # lemma over the contracts only: a whole operation (root scope, activate, push, pop, deactivate, end of scope) is balanced
        dict(name='lemma_operation_balanced', harness='lemma_operation_balanced',
             replace=['ScopedAsyncStackRoot_ctor', 'ScopedAsyncStackRoot_activateFrame', 'pushAsyncStackFrameCallerCallee',
                      'popAsyncStackFrameCallee', 'popAsyncStackFrameFromCaller', 'deactivateAsyncStackFrame', 'ScopedAsyncStackRoot_dtor']),
        dict(name='lemma_unbalanced_is_caught', harness='lemma_unbalanced_is_caught', mode='lemma'),
        dict(name='lemma_async_stack_init', harness='lemma_async_stack_init', mode='lemma'),
    ],
    assumptions=[
        'NOT REACHED: the configuration-differential half of C20 (same observable behaviour under C++17/20 x NDEBUG/debug x continuation visitation on/off): needs several builds to be run and compared, a different technique',
        'NOT REACHED: that sync_wait / task / connect_awaitable / await_transform / spawn call the primitives in matched pairs (templates and coroutines); what is proved is that matched pairs restore the bookkeeping and that the code\'s own asserts hold at every use under the stated call-site preconditions',
        'call-site preconditions (caller obligations of template code): the callee frame handed to pushAsyncStackFrameCallerCallee is a different, not yet attached frame (stackRoot == nullptr); the parent of a frame handed to popAsyncStackFrameCallee is null or a live, currently detached frame; a frame handed to activate is detached and the root has no top frame',
        'thread-locality: the current-root holder is thread_local and a thread writes topFrame only of its own current root (checked as the guarantee at every atomic store); other threads / profilers / debuggers only read (header comment on topFrame): vf_interfere is empty',
        'the link fields are private; the closed-world scan covers the three files that contain every friend (async_stack.hpp, async_stack-inl.hpp, source/async_stack.cpp)',
        'ScopedAsyncStackRoot::ensureFrameDeactivated: a frame that is still the top frame when it is called is never accessed (it may be dead); if such a frame is in fact alive (inject_async_stack.hpp _op_wrapper::start() for every operation that is still pending when start() returns) its stackRoot link is left pointing at the root that is about to be destroyed: unit ScopedAsyncStackRoot_ensureFrameDeactivated_live_frame states the C20 obligation and FAILS (recorded as known finding C20-op-wrapper-frame-left-attached); native reproducer probes/native/async_stack_op_frame_left_attached.cpp',
        'the coroutine resumed by resumeCoroutineWithNewAsyncStackRoot deactivates its frame before it suspends or finishes (stub EV_resume; await_transform / final_suspend code, not reached)',
        'getAsyncStackTraceFromInitialFrame: the parentFrame chain is a null-terminated list of live frames; the index bound is proved for chains of any length over a one-frame window (the successor of a chain member is a chain member or null: M2 meta-argument), the exact result (first min(len,max) return addresses, in order, nothing else written) only for chains of <= 6 frames (bounded)',
        'the UNIFEX_ASYNC_STACK_ROOT_USE_VECTOR registry of holders and the pthread TLS key (debugger support) are not modelled',
        'atomics sequentially consistent',
    ],
    drops=['memory orders', 'noexcept / [[maybe_unused]] / inline / const', 'C++ references -> C pointers (parameters: spec-level pre rules)',
           'instruction_ptr / frame_ptr (wrappers of one void*) -> uintptr_t',
           'default arguments of the ScopedAsyncStackRoot constructor (__builtin_frame_address / __builtin_return_address) -> nondeterministic values',
           'namespace qualifiers unifex:: / detail::', 'coroutine_handle::resume() -> event stub EV_resume',
           'local ScopedAsyncStackRoot object: constructor / destructor made explicit (VF_SCOPED_CTOR / VF_SCOPED_DTOR at scope exit)',
           'getDetachedRootAsyncStackFrame / makeDetachedRootFrame / compiler_must_not_elide / pthread key set-up: not extracted (no link field is touched)'],
)
