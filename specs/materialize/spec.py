import re

HM = 'include/unifex/materialize.hpp'
HD = 'include/unifex/dematerialize.hpp'
M_NS = r'namespace _mat \{'
D_NS = r'namespace _demat \{'
M_RCV = r'class _receiver<Receiver>::type \{'
D_RCV = r'class _receiver<Receiver>::type \{'
M_SND = r'class _sender<Source>::type \{'
D_SND = r'class _sender<Source>::type \{'


# --------------------------------------------------------------------------------------------------------------------------
# call abstractions (spec-level `pre` rules; the general table has no rule for receiver CPO calls, for invoking a CPO object
# passed as a parameter, for UNIFEX_TRY/UNIFEX_CATCH, or for reading a function's noexcept-specification)
# --------------------------------------------------------------------------------------------------------------------------
def _close(s, i):
    """index of the ')' matching the '(' at s[i]"""
    d = 0
    for k in range(i, len(s)):
        if s[k] in '([{':
            d += 1
        elif s[k] in ')]}':
            d -= 1
            if d == 0:
                return k
    return -1


def _split(a):
    out, d, cur = [], 0, ''
    for ch in a:
        if ch in '([{<':
            d += 1
        elif ch in ')]}>':
            d -= 1
        if ch == ',' and d == 0:
            out.append(cur)
            cur = ''
        else:
            cur += ch
    if cur.strip():
        out.append(cur)
    return [x.strip() for x in out]


def _arg(a):
    """one argument as written -> token.  Perfect forwarding / moves are identity on the token; a CPO object written as an argument
    is its tag; std::current_exception() is the exception being handled (VF_current_exception checks that a handler is active)"""
    a = re.sub(r'\s+', ' ', a).strip()
    a = re.sub(r'\s*\.\.\.$', '', a)
    m = re.fullmatch(r'(?:unifex::)?set_(value|error|done)', a) or re.fullmatch(r'tag_t<\s*(?:unifex::)?set_(value|error|done)\s*>\{\}', a)
    if m:
        return 'TAG_set_' + m.group(1)
    m = (re.fullmatch(r'static_cast<\s*[\w:]+\s*&&\s*>\(\s*(\w+)\s*\)', a) or re.fullmatch(r'std::move\(\s*(\w+)\s*\)', a)
         or re.fullmatch(r'std::forward<\s*[\w:]+\s*>\(\s*(\w+)\s*\)', a) or re.fullmatch(r'\(\s*[\w:]+\s*&&\s*\)\s*(\w+)', a) or re.fullmatch(r'(\w+)', a))
    if m:
        return m.group(1)
    if re.fullmatch(r'std::current_exception\(\)', a):
        return 'VF_current_exception()'
    return a            # anything else stays C++: residual scan -> undecided


def _calls(m):
    """whole body: every downstream completion call becomes an event stub call (the receiver expression, the tag and the payload
    variable are the ones WRITTEN in the source); set_value / a CPO object invoked as a function may throw"""
    b = m.group(0)
    pat = re.compile(r'unifex::set_(value|error|done)\s*\(|(?:static_cast<\s*CPO&&\s*>\(\s*(\w+)\s*\)|std::move\(\s*(cpo)\s*\)|(?<![\w:.>])(cpo))\s*\(')
    out, pos = '', 0
    while True:
        mm = pat.search(b, pos)
        if not mm:
            return out + b[pos:]
        p = mm.end() - 1
        e = _close(b, p)
        args = [_arg(x) for x in _split(b[p + 1:e])]
        rcv = '&(%s)' % (args[0] if args else 'VF_NO_RECEIVER')
        rest = args[1:]
        if mm.group(1) is None:                                   # cpo(receiver, values...)
            cpo = mm.group(2) or mm.group(3) or mm.group(4)
            pay = rest + ['ARG_NONE'] * (1 - len(rest))
            call = 'VF_MAYTHROW(EV_invoke_cpo(%s, %s, %s))' % (rcv, cpo, ', '.join(pay))
        elif mm.group(1) == 'value':                              # set_value(receiver, [tag,] [payload])
            tags = [x for x in rest if x.startswith('TAG_')]
            pays = [x for x in rest if not x.startswith('TAG_')]
            tags = tags + ['TAG_NONE'] * (1 - len(tags))
            pays = pays + ['ARG_NONE'] * (1 - len(pays))
            call = 'VF_MAYTHROW(EV_set_value(%s, %s, %s))' % (rcv, ', '.join(tags), ', '.join(pays))
        elif mm.group(1) == 'error':                              # set_error(receiver, error): noexcept
            call = 'EV_set_error(%s, %s)' % (rcv, ', '.join(rest) if rest else 'ARG_NONE')
        else:                                                     # set_done(receiver): noexcept
            call = 'EV_set_done(%s)' % ', '.join([rcv] + rest)
        out += b[pos:mm.start()] + call
        pos = e + 1


def _try_catch(m):
    """UNIFEX_TRY { A } UNIFEX_CATCH(...) { B }  ->  { A' } if (0) { vf_catch_k: ; B' }   (DESIGN 3.1 last row).  A may-throw event inside A
    jumps to the handler; one outside any try block ESCAPES the function (VF_MAYTHROW_ESCAPES: std::terminate in a noexcept function, the
    exception goes back to the caller otherwise)"""
    b = m.group(0)
    k = 0
    while True:
        t = re.search(r'UNIFEX_TRY\s*\{', b)
        if not t:
            break
        o = t.end() - 1
        c = _close(b, o)
        h = re.match(r'\s*UNIFEX_CATCH\s*\(\s*\.\.\.\s*\)\s*\{', b[c + 1:])
        if c < 0 or not h:
            return b                                              # malformed: UNIFEX_TRY stays -> residual C++ -> undecided
        ho = c + 1 + h.end() - 1
        hc = _close(b, ho)
        A = b[o + 1:c].replace('VF_MAYTHROW(', 'VF_MAYTHROW_IN_TRY(vf_catch_%d, ' % k)
        B = b[ho + 1:hc]
        b = (b[:t.start()] + '{' + A + '} if (0) { vf_catch_%d: VF_HANDLER_ENTER();' % k + B + 'VF_HANDLER_LEAVE(); }' + b[hc + 1:])
        k += 1
    return b.replace('VF_MAYTHROW(', 'VF_MAYTHROW_ESCAPES(')


PRE = [
    # the configuration constants of the `if constexpr` / noexcept-specifications: symbolic, every combination verified
    (r'is_nothrow_receiver_of_v<\s*Receiver,\s*tag_t<\s*(?:unifex::)?set_(value|error|done)\s*>(?:\s*,\s*[\w:]+(?:\.\.\.)?)*\s*>', r'VF_NOTHROW_RECEIVER_OF(TAG_set_\1)'),
    # std::is_nothrow_invocable_v<CPO, Receiver, Values...>: the CPO type is the type of the parameter `cpo`
    (r'std::is_nothrow_invocable_v<\s*CPO,\s*Receiver(?:\s*,\s*[\w:]+(?:\.\.\.)?)*\s*>', 'VF_NOTHROW_INVOCABLE_CPO'),
    # the noexcept-specification as an expression (kind='expr' extracts `noexcept`, `noexcept(cond)` or nothing)
    (r'\bnoexcept\s*\(', 'VF_NOEXCEPT_IF('),
    (r'\bnoexcept\b', 'VF_NOEXCEPT_IF(1)'),
    (r'(?s)\A.*\Z', _calls),
    (r'(?s)\A.*\Z', _try_catch),
]

NOEXCEPT_SPEC = r'\s*((?:noexcept(?:\s*\((?:[^()]|\([^()]*\))*\))?)?)\s*\{'


def body(f, ns, cls, sig, cname, **kw):
    return dict(file=f, sig=sig, within=[ns, cls], ctx=dict(cls=cname), **kw)


def expr(f, ns, cls, sig):
    # an expression is spliced into a #define: one line
    return dict(file=f, kind='expr', sig=sig, within=[ns, cls], ctx=dict(post=[(r'\s+', ' ')]))


SPEC = dict(
    properties=['C05', 'C01'],
    ctx=dict(members=['receiver_'], methods=[], pre=PRE),
    extracts={
        # ---- materialize: _mat::_receiver<Receiver>::type ----
        'mat_sv': body(HM, M_NS, M_RCV, r'void set_value\(Values&&\.\.\. \w+\) &&', 'mat_rcv'),
        'mat_sv_param': expr(HM, M_NS, M_RCV, r'void set_value\(Values&&\.\.\. (\w+)\) &&'),
        'mat_sv_noexcept': expr(HM, M_NS, M_RCV, r'void set_value\(Values&&\.\.\. \w+\) &&' + NOEXCEPT_SPEC),
        'mat_se': body(HM, M_NS, M_RCV, r'void set_error\(Error&& \w+\) &&', 'mat_rcv'),
        'mat_se_param': expr(HM, M_NS, M_RCV, r'void set_error\(Error&& (\w+)\) &&'),
        'mat_se_noexcept': expr(HM, M_NS, M_RCV, r'void set_error\(Error&& \w+\) &&' + NOEXCEPT_SPEC),
        'mat_sd': body(HM, M_NS, M_RCV, r'void set_done\(\) &&', 'mat_rcv'),
        'mat_sd_noexcept': expr(HM, M_NS, M_RCV, r'void set_done\(\) &&' + NOEXCEPT_SPEC),
        # ---- dematerialize: _demat::_receiver<Receiver>::type ----
        'dm_sv': body(HD, D_NS, D_RCV, r'void set_value\(CPO \w+, Values&&\.\.\. \w+\) &&', 'demat_rcv'),
        'dm_sv_cpo_param': expr(HD, D_NS, D_RCV, r'void set_value\(CPO (\w+), Values&&\.\.\. \w+\) &&'),
        'dm_sv_param': expr(HD, D_NS, D_RCV, r'void set_value\(CPO \w+, Values&&\.\.\. (\w+)\) &&'),
        'dm_sv_noexcept': expr(HD, D_NS, D_RCV, r'void set_value\(CPO \w+, Values&&\.\.\. \w+\) &&' + NOEXCEPT_SPEC),
        'dm_se': body(HD, D_NS, D_RCV, r'void set_error\(Error&& \w+\) &&', 'demat_rcv'),
        'dm_se_param': expr(HD, D_NS, D_RCV, r'void set_error\(Error&& (\w+)\) &&'),
        'dm_se_noexcept': expr(HD, D_NS, D_RCV, r'void set_error\(Error&& \w+\) &&' + NOEXCEPT_SPEC),
        'dm_sd': body(HD, D_NS, D_RCV, r'void set_done\(\) &&', 'demat_rcv'),
        'dm_sd_noexcept': expr(HD, D_NS, D_RCV, r'void set_done\(\) &&' + NOEXCEPT_SPEC),
    },
    # every textual use of the wrapped receiver lies in an extracted completion function or in one of the classified spans
    # (construction, the two read-only query forwarders): no other path can complete or consume the downstream receiver
    closed_world=[
        dict(file=HM, within=M_NS + r'[\s\S]*?' + M_RCV, members=['receiver_'],
             allow=[r'Receiver receiver_;', r':\s*receiver_\(static_cast<Receiver2&&>\(receiver\)\)', r'std::as_const\(r\.receiver_\)']),
        dict(file=HD, within=D_NS + r'[\s\S]*?' + D_RCV, members=['receiver_'],
             allow=[r'Receiver receiver_;', r':\s*receiver_\(static_cast<Receiver2&&>\(receiver\)\)', r'std::as_const\(r\.receiver_\)']),
    ],
    units=[
        dict(name='mat_set_value', harness='h_mat_set_value', enforce='mat_rcv_set_value'),
        dict(name='mat_set_error', harness='h_mat_set_error', enforce='mat_rcv_set_error'),
        dict(name='mat_set_done', harness='h_mat_set_done', enforce='mat_rcv_set_done'),
        dict(name='demat_set_value', harness='h_demat_set_value', enforce='demat_rcv_set_value'),
        dict(name='demat_set_error', harness='h_demat_set_error', enforce='demat_rcv_set_error'),
        dict(name='demat_set_done', harness='h_demat_set_done', enforce='demat_rcv_set_done'),
        dict(name='lemma_roundtrip', harness='lemma_roundtrip', mode='lemma'),
        dict(name='lemma_channels', harness='lemma_channels', mode='lemma'),
        dict(name='lemma_throw_protocol', harness='lemma_throw_protocol', mode='lemma'),
    ],
    assumptions=[
        'the source operation signals each adaptor receiver exactly once (C01 for the child) -- except that a receiver function with a conditional noexcept whose call THROWS '
        'gets the exception back and then signals set_error(current_exception) on the same receiver object, which must still exist (checked: nothing completed, nothing destroyed on that path)',
        'a throwing downstream set_value leaves the downstream receiver un-completed: the may-throw stub EV_set_value counts a completion only when it returns normally',
        'unifex::set_error / unifex::set_done on the downstream receiver do not throw (noexcept by the receiver concept)',
        'is_nothrow_receiver_of_v<Receiver, tag_t<set_X>, ...> and std::is_nothrow_invocable_v<CPO, Receiver, Values...> are symbolic configuration constants (one per tag): '
        'every combination is verified; the downstream set_value stub throws only where the corresponding constant is false; invoking the set_error / set_done CPO never throws',
        'dematerialize::set_value: the template constraint `requires is_receiver_cpo_v<CPO>` (type level, not re-verified) makes `cpo` one of set_value / set_error / set_done; '
        'invoking the CPO object on the receiver IS the completion signal on that channel (definition of the CPOs, receiver_concepts.hpp)',
        'the downstream receiver may destroy the object that contains the adaptor receiver as soon as it was completed: dead-object snapshot of the receiver object after every normal completion',
        'payload identity only: values / errors are opaque tokens (a parameter pack is one token); "arriving unmodified" means the token delivered is the token received',
        'sequential code: no atomics, vf_interfere is empty',
        'NOT reached: the type-level halves of the mapping (materialize value_types / error_variant, dematerialize tuple<CPO, Tuple>::apply_impl, variant<>, append_error_types, '
        'sends_done) -- overload resolution / template metaprogramming with no function body',
        'NOT reached: the senders\' connect (tag_invoke(connect)) wraps the receiver and connects the source: a single return statement constructing C++ objects; the CPOs _mat_cpo::_fn / _demat_cpo::_fn',
    ],
    drops=['template genericity (Values..., Error, CPO: one symbolic instantiation, the tag / channel a run-time token)',
           'perfect forwarding: static_cast<T&&>(x) / std::move(x) / (T&&)x / pack expansion `x...` -> the token x',
           'unifex::set_value(receiver, [tag,] payload...) -> may-throw event EV_set_value(&receiver, tag|TAG_NONE, payload|ARG_NONE); unifex::set_error(receiver, e) -> EV_set_error(&receiver, e); '
           'unifex::set_done(receiver) -> EV_set_done(&receiver); a CPO object written as an argument (unifex::set_error) -> its tag TAG_set_error; std::current_exception() -> VF_current_exception()',
           'static_cast<CPO&&>(cpo)(receiver, values...) -> may-throw event EV_invoke_cpo(&receiver, cpo, values) which dispatches on the tag',
           'UNIFEX_TRY / UNIFEX_CATCH -> goto vf_catch_k at the may-throw stubs inside the try block; a may-throw stub outside any try block escapes the function: std::terminate if the '
           'extracted noexcept-specification holds, otherwise the exception propagates to the caller (= return with G.propagated)',
           'if constexpr (is_nothrow_receiver_of_v<...>) -> if (symbolic constant): both branches verified',
           'receiver queries (tag_invoke forwarding to the wrapped receiver), visit_continuations, the receivers\' constructors, the sender classes and the CPO objects'],
)
