/* C05 / C01 (scoped): unifex::materialize -- include/unifex/materialize.hpp -- and unifex::dematerialize -- include/unifex/dematerialize.hpp.
 * Both are stateless receiver adaptors: the operation state IS the source's operation state connected to a wrapping receiver whose only
 * member is the downstream receiver `receiver_`.  What there is to verify are the six completion functions of the two wrapping receivers:
 *   materialize    value(v...) -> VALUE(tag set_value, v...)   error(e) -> VALUE(tag set_error, e)   done -> VALUE(tag set_done)
 *                  its own error channel carries only an exception that escaped the downstream set_value
 *   dematerialize  value(tag X, a...) -> channel X with a...      error(e) -> error(e)                  done -> done
 * Bodies / expressions marked @BODY / @EXPR are extracted from /repo on every run; everything else here is specification.
 *
 * Sequential code, no atomics: there is no interference; the content is in the event stubs.
 *   signal          (channel, tag, payload): tag = the receiver CPO passed as first VALUE argument (TAG_NONE: none), payload = opaque token
 *   EV_set_value    may throw where the configuration says the downstream set_value is not nothrow; a throw completes nothing
 *   every EV_*      requires: own receiver, nothing completed yet, object not dead; after a throw only set_error may follow
 *   completion      the downstream receiver may destroy the object containing the adaptor receiver: dead-object snapshot */
#include <stddef.h>
#include <stdint.h>

struct mat_rcv { int receiver_; };              /* _mat::_receiver<Receiver>::type: the wrapped receiver is the only member */
struct demat_rcv { int receiver_; };            /* _demat::_receiver<Receiver>::type */
static struct mat_rcv MRCV;
static struct demat_rcv DRCV;

enum { TAG_NONE, TAG_set_value, TAG_set_error, TAG_set_done, TAG_N };
enum { CH_NONE, CH_VALUE, CH_ERROR, CH_DONE };
#define ARG_NONE 0                               /* no payload (set_done; an absent argument) */
#define PAY_EXCEPTION (-1)                       /* std::current_exception() inside a handler: the exception being handled */
#define PAY_NULL_EXCEPTION (-2)                  /* std::current_exception() with no exception being handled: a null exception_ptr */

struct vf_ghost {
  int* self_rcv;               /* the receiver_ member of the adaptor receiver under verification */
  _Bool cfg_nothrow[TAG_N];    /* [TAG_set_X]: is_nothrow_receiver_of_v<Receiver, tag_t<set_X>, ...>; [TAG_NONE]: the downstream's plain set_value(values...) is nothrow */
  /* persistent */
  unsigned completed;          /* downstream completion calls that returned normally */
  _Bool dead; int snap_m, snap_d;
  int channel, tag, payload;   /* the completion delivered downstream */
  /* per call */
  unsigned attempts;           /* downstream completion calls made, throwing ones included */
  _Bool threw; int thrown_tag; /* the downstream set_value threw */
  _Bool in_handler;            /* inside UNIFEX_CATCH(...) */
  _Bool propagated;            /* the exception left the function (conditional noexcept): it goes back into the source */
};
static struct vf_ghost G;

#include "vf.h"
static void vf_interfere(void) {}

/* ---------------- the channel mapping (C05), as relations over signals: used by the contracts AND by the lemmas ---------------- */
#define TAG_OF_CH(ch) ((ch) == CH_VALUE ? TAG_set_value : (ch) == CH_ERROR ? TAG_set_error : (ch) == CH_DONE ? TAG_set_done : TAG_NONE)
#define CH_OF_TAG(t)  ((t) == TAG_set_value ? CH_VALUE : (t) == TAG_set_error ? CH_ERROR : (t) == TAG_set_done ? CH_DONE : CH_NONE)
#define IS_SIGNAL(ch, tag, pay) (((ch) == CH_VALUE || (ch) == CH_ERROR || (ch) == CH_DONE) && ((ch) == CH_VALUE || (tag) == TAG_NONE) && ((ch) != CH_DONE || (pay) == ARG_NONE))
#define IS_CPO_TAG(t) ((t) == TAG_set_value || (t) == TAG_set_error || (t) == TAG_set_done)
/* materialize: every incoming signal becomes a VALUE whose first argument is the CPO of the incoming channel, the payload unchanged */
#define MAT_REL(ich, ipay, och, otag, opay) ((och) == CH_VALUE && (otag) == TAG_OF_CH(ich) && (opay) == (ipay))
/* ... except when the downstream set_value threw: then, and only then, its own error channel, with the exception that escaped */
#define MAT_THROW_REL(och, otag, opay) ((och) == CH_ERROR && (otag) == TAG_NONE && (opay) == PAY_EXCEPTION)
/* dematerialize: a VALUE (tag X, args) becomes channel X with the same args; a real error / done passes through unchanged */
#define DEMAT_REL(ich, itag, ipay, och, otag, opay) ((otag) == TAG_NONE && (opay) == (ipay) && (och) == ((ich) == CH_VALUE ? CH_OF_TAG(itag) : (ich)))

/* ---------------- exactly-once (C01): persistent state of the downstream receiver ---------------- */
#define SIGNALLABLE(completed, dead) ((completed) == 0 && !(dead))                       /* what every completion function needs on entry */
#define COMPLETED_ONCE(completed, attempts, k) ((completed) == 1 && (attempts) == (k))   /* exactly one downstream completion, in k calls */
/* a throw that left the function: nothing completed, nothing destroyed, ONE call made; the source gets the exception back */
#define THREW_BACK(completed, attempts, propagated, dead) ((completed) == 0 && (attempts) == 1 && (propagated) && !(dead))
/* a throwing downstream set_value in a completion function: EITHER the exception goes back into the source, OR it is reported here with
 * exactly one set_error(current_exception) -- and nothing else in both cases */
#define THROW_NOT_LOST (THREW_BACK(G.completed, G.attempts, G.propagated, G.dead) \
  || (COMPLETED_ONCE(G.completed, G.attempts, 2) && MAT_THROW_REL(G.channel, G.tag, G.payload) && !G.propagated))
#define UNTOUCHED (!G.dead || (MRCV.receiver_ == G.snap_m && DRCV.receiver_ == G.snap_d))

/* ---------------- event stubs ---------------- */
static void vf_complete(int ch, int tag, int pay) {
  G.completed++; G.channel = ch; G.tag = tag; G.payload = pay;
  /* the downstream receiver may destroy the object that contains this adaptor receiver now */
  MRCV.receiver_ = VF_nondet_int(); DRCV.receiver_ = VF_nondet_int(); G.snap_m = MRCV.receiver_; G.snap_d = DRCV.receiver_; G.dead = 1;
}
static void ev_pre(int* rcv) {
  VF_P(rcv == G.self_rcv, "C01: the signal goes to the adaptor's own wrapped receiver (receiver_)");
  VF_P(!G.dead, "C01: nothing is signalled / touched after the downstream receiver was completed (it may have destroyed this object)");
  VF_P(G.completed == 0, "C01: the downstream receiver is completed at most once per incoming signal");
  VF_P(G.attempts == (G.threw ? 1u : 0u), "C01: a second downstream call is made only after the first one threw");
}
static int VF_current_exception(void) { return G.in_handler ? PAY_EXCEPTION : PAY_NULL_EXCEPTION; }
/* unifex::set_value(receiver, [tag,] payload): may throw where the configuration says it is not nothrow; a throw completes nothing */
static _Bool EV_set_value(int* rcv, int tag, int pay) {
  ev_pre(rcv);
  VF_P(!G.threw, "C01: after the downstream set_value threw the only signal that may follow is set_error");
  VF_P(tag >= TAG_NONE && tag < TAG_N, "a receiver CPO tag");
  G.attempts++;
  if (tag >= TAG_NONE && tag < TAG_N && !G.cfg_nothrow[tag] && VF_nondet_bool()) { G.threw = 1; G.thrown_tag = tag; return 1; }
  vf_complete(CH_VALUE, tag, pay);
  return 0;
}
static void EV_set_error(int* rcv, int pay) { ev_pre(rcv); G.attempts++; vf_complete(CH_ERROR, TAG_NONE, pay); }
static void EV_set_done(int* rcv) {
  ev_pre(rcv);
  VF_P(!G.threw, "C01/C05: an exception that escaped the downstream set_value is reported with set_error, not set_done");
  G.attempts++; vf_complete(CH_DONE, TAG_NONE, ARG_NONE);
}
/* cpo(receiver, values...): invoking the receiver CPO named by `cpo` IS the completion signal on that channel */
static _Bool EV_invoke_cpo(int* rcv, int cpo, int pay) {
  VF_P(IS_CPO_TAG(cpo), "the invoked object is one of the receiver CPOs (template constraint is_receiver_cpo_v<CPO>)");
  if (cpo == TAG_set_value) return EV_set_value(rcv, TAG_NONE, pay);
  if (cpo == TAG_set_error) { EV_set_error(rcv, pay); return 0; }
  VF_P(pay == ARG_NONE, "set_done takes no arguments");
  EV_set_done(rcv);
  return 0;
}

/* ---------------- exceptions (generated by the spec's UNIFEX_TRY / call rules) ---------------- */
#define VF_NOTHROW_RECEIVER_OF(tag) (G.cfg_nothrow[tag])
#define VF_NOEXCEPT_IF(c) || (c)
#define VF_MAYTHROW_IN_TRY(label, call) do { if (call) goto label; } while (0)
/* outside any try block: std::terminate if the function's (extracted) noexcept-specification holds, else the exception leaves the function */
#define VF_MAYTHROW_ESCAPES(call) do { if (call) { if (VF_FN_NOEXCEPT) { VF_terminate(); } G.propagated = 1; return; } } while (0)
#define VF_HANDLER_ENTER() (G.in_handler = 1)
#define VF_HANDLER_LEAVE() (G.in_handler = 0)

/* ---------------- functions under contract ---------------- */
#define CALL_FRESH (G.attempts == 0 && !G.threw && !G.in_handler && !G.propagated && G.channel == CH_NONE && G.tag == TAG_NONE && G.payload == ARG_NONE)
#define MAT_REQ (self == &MRCV && G.self_rcv == &MRCV.receiver_ && CALL_FRESH && SIGNALLABLE(G.completed, G.dead))
#define DEMAT_REQ (self == &DRCV && G.self_rcv == &DRCV.receiver_ && CALL_FRESH && SIGNALLABLE(G.completed, G.dead))
#define A_ALL G, MRCV, DRCV
/* the relations applied to the signal actually delivered downstream */
#define MAT_REL_D(ich, ipay) MAT_REL(ich, ipay, G.channel, G.tag, G.payload)
#define MAT_THROW_REL_D MAT_THROW_REL(G.channel, G.tag, G.payload)
#define DEMAT_REL_D(ich, itag, ipay) DEMAT_REL(ich, itag, ipay, G.channel, G.tag, G.payload)

/* ======================================================= materialize ======================================================= */
/* value(v...) -> VALUE(set_value, v...).  Conditional noexcept and no try block: if the downstream set_value throws, the exception goes
 * back into the source -- which will signal set_error on this same receiver object: nothing may have been completed or destroyed. */
#define P_VALUES /*@EXPR mat_sv_param*/
#define VF_FN_NOEXCEPT (0 /*@EXPR mat_sv_noexcept*/)
void mat_rcv_set_value(struct mat_rcv* self, int P_VALUES)
__CPROVER_requires(MAT_REQ)
__CPROVER_assigns(A_ALL)
__CPROVER_ensures(!G.threw ==> (COMPLETED_ONCE(G.completed, G.attempts, 1) && MAT_REL_D(CH_VALUE, P_VALUES) && !G.propagated))   /* C05: value -> value(tag set_value, same values); C01: exactly one */
__CPROVER_ensures(G.threw ==> (G.thrown_tag == TAG_set_value && THROW_NOT_LOST))                                                        /* C01: the throw is not swallowed and nothing else is signalled */
__CPROVER_ensures((G.channel == CH_ERROR ==> G.threw) && G.channel != CH_DONE)                                                         /* C05: own error channel ONLY for an escaped exception; never done */
__CPROVER_ensures(UNTOUCHED)
/*@BODY mat_sv*/
#undef VF_FN_NOEXCEPT
#undef P_VALUES

/* error(e) -> VALUE(set_error, e); noexcept: an exception escaping the downstream set_value -> set_error(current_exception), exactly once */
#define P_ERROR /*@EXPR mat_se_param*/
#define VF_FN_NOEXCEPT (0 /*@EXPR mat_se_noexcept*/)
void mat_rcv_set_error(struct mat_rcv* self, int P_ERROR)
__CPROVER_requires(MAT_REQ)
__CPROVER_assigns(A_ALL)
__CPROVER_ensures(!G.threw ==> (COMPLETED_ONCE(G.completed, G.attempts, 1) && MAT_REL_D(CH_ERROR, P_ERROR)))                      /* C05: error -> VALUE(tag set_error, same error) */
__CPROVER_ensures(G.threw ==> (COMPLETED_ONCE(G.completed, G.attempts, 2) && MAT_THROW_REL_D && G.thrown_tag == TAG_set_error)) /* C01/C05: a throwing set_value is followed by exactly one set_error(current_exception) */
__CPROVER_ensures(G.channel == CH_ERROR ==> G.threw)                                                                                     /* C05: own error channel ONLY for an escaped exception */
__CPROVER_ensures(!G.propagated && G.dead && UNTOUCHED)                                                                                  /* noexcept; `this` untouched after the completion */
/*@BODY mat_se*/
#undef VF_FN_NOEXCEPT
#undef P_ERROR

/* done -> VALUE(set_done) */
#define VF_FN_NOEXCEPT (0 /*@EXPR mat_sd_noexcept*/)
void mat_rcv_set_done(struct mat_rcv* self)
__CPROVER_requires(MAT_REQ)
__CPROVER_assigns(A_ALL)
__CPROVER_ensures(!G.threw ==> (COMPLETED_ONCE(G.completed, G.attempts, 1) && MAT_REL_D(CH_DONE, ARG_NONE)))                       /* C05: done -> VALUE(tag set_done) */
__CPROVER_ensures(G.threw ==> (COMPLETED_ONCE(G.completed, G.attempts, 2) && MAT_THROW_REL_D && G.thrown_tag == TAG_set_done))
__CPROVER_ensures(G.channel == CH_ERROR ==> G.threw)
__CPROVER_ensures(!G.propagated && G.dead && UNTOUCHED)
/*@BODY mat_sd*/
#undef VF_FN_NOEXCEPT

/* ======================================================= dematerialize ======================================================= */
/* VALUE(cpo, a...) -> cpo(receiver, a...): channel cpo, same arguments.  Conditional noexcept, no try block: a throwing set_value goes back
 * into the source (which signals set_error on this same object next); set_error / set_done CPOs never throw. */
#define P_CPO /*@EXPR dm_sv_cpo_param*/
#define P_VALUES /*@EXPR dm_sv_param*/
#define VF_NOTHROW_INVOCABLE_CPO ((P_CPO) != TAG_set_value || G.cfg_nothrow[TAG_NONE])
#define VF_FN_NOEXCEPT (0 /*@EXPR dm_sv_noexcept*/)
void demat_rcv_set_value(struct demat_rcv* self, int P_CPO, int P_VALUES)
__CPROVER_requires(DEMAT_REQ && IS_CPO_TAG(P_CPO) && IS_SIGNAL(CH_OF_TAG(P_CPO), TAG_NONE, P_VALUES))
__CPROVER_assigns(A_ALL)
__CPROVER_ensures(!G.threw ==> (COMPLETED_ONCE(G.completed, G.attempts, 1) && DEMAT_REL_D(CH_VALUE, P_CPO, P_VALUES) && !G.propagated))  /* C05: value(tag X, args) -> channel X, same args */
__CPROVER_ensures(G.threw ==> (P_CPO == TAG_set_value && G.thrown_tag == TAG_NONE && THROW_NOT_LOST))                                   /* C01: only set_value can throw; the throw is not swallowed */
__CPROVER_ensures(UNTOUCHED)
/*@BODY dm_sv*/
#undef VF_FN_NOEXCEPT
#undef P_VALUES
#undef P_CPO

#define P_ERROR /*@EXPR dm_se_param*/
#define VF_FN_NOEXCEPT (0 /*@EXPR dm_se_noexcept*/)
void demat_rcv_set_error(struct demat_rcv* self, int P_ERROR)
__CPROVER_requires(DEMAT_REQ)
__CPROVER_assigns(A_ALL)
__CPROVER_ensures(COMPLETED_ONCE(G.completed, G.attempts, 1) && DEMAT_REL_D(CH_ERROR, TAG_NONE, P_ERROR))                        /* C05: a real error passes through unchanged */
__CPROVER_ensures(!G.threw && !G.propagated && G.dead && UNTOUCHED)
/*@BODY dm_se*/
#undef VF_FN_NOEXCEPT
#undef P_ERROR

#define VF_FN_NOEXCEPT (0 /*@EXPR dm_sd_noexcept*/)
void demat_rcv_set_done(struct demat_rcv* self)
__CPROVER_requires(DEMAT_REQ)
__CPROVER_assigns(A_ALL)
__CPROVER_ensures(COMPLETED_ONCE(G.completed, G.attempts, 1) && DEMAT_REL_D(CH_DONE, TAG_NONE, ARG_NONE))                         /* C05: done passes through unchanged */
__CPROVER_ensures(!G.threw && !G.propagated && G.dead && UNTOUCHED)
/*@BODY dm_sd*/
#undef VF_FN_NOEXCEPT

/* ---------------- harnesses ---------------- */
static int h_token(void) { int t = VF_nondet_int(); __CPROVER_assume(t > 0); return t; }                     /* window construction: a payload token */
static int h_error(void) { return VF_nondet_bool() ? h_token() : PAY_EXCEPTION; }                            /* an error may itself be an exception_ptr */
static void h_init(int* self_rcv) {
  G.self_rcv = self_rcv;
  G.cfg_nothrow[TAG_NONE] = VF_nondet_bool() ? 1 : 0; G.cfg_nothrow[TAG_set_value] = VF_nondet_bool() ? 1 : 0;
  G.cfg_nothrow[TAG_set_error] = VF_nondet_bool() ? 1 : 0; G.cfg_nothrow[TAG_set_done] = VF_nondet_bool() ? 1 : 0;
  G.completed = 0; G.dead = 0; G.channel = CH_NONE; G.tag = TAG_NONE; G.payload = ARG_NONE;
  G.attempts = 0; G.threw = 0; G.thrown_tag = TAG_NONE; G.in_handler = 0; G.propagated = 0;
  MRCV.receiver_ = VF_nondet_int(); DRCV.receiver_ = VF_nondet_int(); G.snap_m = MRCV.receiver_; G.snap_d = DRCV.receiver_;
}
void h_mat_set_value(void) {
  h_init(&MRCV.receiver_); mat_rcv_set_value(&MRCV, h_token());
  VF_CANARY("after materialize set_value");
  if (G.threw) { VF_CANARY("materialize set_value: the downstream set_value can throw (back into the source)"); } else { VF_CANARY("materialize set_value: delivered"); }
}
void h_mat_set_error(void) {
  h_init(&MRCV.receiver_); mat_rcv_set_error(&MRCV, h_error());
  VF_CANARY("after materialize set_error");
  if (G.cfg_nothrow[TAG_set_error]) { VF_CANARY("materialize set_error: nothrow branch"); } else { VF_CANARY("materialize set_error: try branch"); }
  if (G.threw) { VF_CANARY("materialize set_error: the downstream set_value can throw -> set_error"); } else { VF_CANARY("materialize set_error: delivered as a value"); }
}
void h_mat_set_done(void) {
  h_init(&MRCV.receiver_); mat_rcv_set_done(&MRCV);
  VF_CANARY("after materialize set_done");
  if (G.cfg_nothrow[TAG_set_done]) { VF_CANARY("materialize set_done: nothrow branch"); } else { VF_CANARY("materialize set_done: try branch"); }
  if (G.threw) { VF_CANARY("materialize set_done: the downstream set_value can throw -> set_error"); } else { VF_CANARY("materialize set_done: delivered as a value"); }
}
void h_demat_set_value(void) {
  h_init(&DRCV.receiver_);
  int cpo = VF_nondet_bool() ? TAG_set_value : VF_nondet_bool() ? TAG_set_error : TAG_set_done;
  int args = cpo == TAG_set_value ? h_token() : cpo == TAG_set_error ? h_error() : ARG_NONE;
  demat_rcv_set_value(&DRCV, cpo, args);
  VF_CANARY("after dematerialize set_value");
  if (G.threw) { VF_CANARY("dematerialize set_value: the downstream set_value can throw (back into the source)"); }
  if (G.channel == CH_VALUE) { VF_CANARY("dematerialize: value delivered"); }
  if (G.channel == CH_ERROR) { VF_CANARY("dematerialize: materialized error delivered as error"); }
  if (G.channel == CH_DONE) { VF_CANARY("dematerialize: materialized done delivered as done"); }
}
void h_demat_set_error(void) { h_init(&DRCV.receiver_); demat_rcv_set_error(&DRCV, h_error()); VF_CANARY("after dematerialize set_error"); }
void h_demat_set_done(void) { h_init(&DRCV.receiver_); demat_rcv_set_done(&DRCV); VF_CANARY("after dematerialize set_done"); }

/* ---------------- M4 lemmas over the contracts' relations ---------------- */
/* dematerialize(materialize(signal)) == signal, for each of the three signals; the escaped exception on materialize's own error channel
 * passes through dematerialize unchanged */
void lemma_roundtrip(void) {
  int ch = VF_nondet_int(), pay = VF_nondet_int();
  int c1 = VF_nondet_int(), t1 = VF_nondet_int(), p1 = VF_nondet_int(), c2 = VF_nondet_int(), t2 = VF_nondet_int(), p2 = VF_nondet_int();
  __CPROVER_assume(IS_SIGNAL(ch, TAG_NONE, pay));                         /* any signal of the source */
  _Bool threw = VF_nondet_bool();
  __CPROVER_assume(threw ? MAT_THROW_REL(c1, t1, p1) : MAT_REL(ch, pay, c1, t1, p1));    /* what the materialize contracts allow downstream */
  __CPROVER_assume(DEMAT_REL(c1, t1, p1, c2, t2, p2));                    /* ... fed into the dematerialize contracts */
  VF_CANARY("lemma premises satisfiable");
  if (!threw && ch == CH_VALUE) { VF_CANARY("round trip of a value"); }
  if (!threw && ch == CH_ERROR) { VF_CANARY("round trip of an error"); }
  if (!threw && ch == CH_DONE) { VF_CANARY("round trip of done"); }
  if (threw) { VF_CANARY("escaped exception"); }
  VF_P(IS_SIGNAL(c1, t1, p1), "lemma: materialize delivers a well-formed signal");
  VF_P(!threw ==> (c1 == CH_VALUE && IS_CPO_TAG(t1) && IS_SIGNAL(CH_OF_TAG(t1), TAG_NONE, p1)), "lemma: what materialize delivers satisfies the precondition of dematerialize's set_value (a receiver CPO with arguments of its channel)");
  VF_P(!threw ==> (c2 == ch && t2 == TAG_NONE && p2 == pay), "lemma C05: dematerialize(materialize(signal)) == signal -- channel and payload -- for value, error and done");
  VF_P(threw ==> (c2 == CH_ERROR && p2 == PAY_EXCEPTION), "lemma C05: an exception that escaped the downstream set_value passes through dematerialize as that error");
  VF_P(IS_SIGNAL(c2, t2, p2), "lemma: dematerialize delivers a well-formed signal");
}
/* the mapping loses nothing: different signals are materialized differently; materialize's normal output is always a value, its error
 * channel is reserved for the escaped exception, it never completes with done */
void lemma_channels(void) {
  int cha = VF_nondet_int(), paya = VF_nondet_int(), chb = VF_nondet_int(), payb = VF_nondet_int();
  int c = VF_nondet_int(), t = VF_nondet_int(), p = VF_nondet_int();
  __CPROVER_assume(IS_SIGNAL(cha, TAG_NONE, paya) && IS_SIGNAL(chb, TAG_NONE, payb));
  __CPROVER_assume(MAT_REL(cha, paya, c, t, p));
  VF_CANARY("lemma premises satisfiable");
  VF_P(CH_OF_TAG(TAG_OF_CH(cha)) == cha && IS_CPO_TAG(TAG_OF_CH(cha)), "lemma: channel <-> CPO tag is a bijection on the three channels");
  VF_P(MAT_REL(chb, payb, c, t, p) ==> (cha == chb && paya == payb), "lemma C05: materialize is injective: the delivered value determines the incoming signal");
  VF_P(c == CH_VALUE && !MAT_THROW_REL(c, t, p), "lemma C05: materialize's normal output is a value; its error channel is distinct from every materialized signal");
  VF_P(c != CH_DONE, "lemma C05: materialize never completes with done");
}
/* a throw that leaves a conditionally-noexcept completion function (materialize / dematerialize set_value) leaves the adaptor receiver
 * signallable; the set_error the source then sends completes the downstream exactly once in total */
void lemma_throw_protocol(void) {
  unsigned completed = VF_nondet_u32(), attempts = VF_nondet_u32(); _Bool propagated = VF_nondet_bool(), dead = VF_nondet_bool();
  unsigned completed2 = VF_nondet_u32(), attempts2 = VF_nondet_u32();
  __CPROVER_assume(THREW_BACK(completed, attempts, propagated, dead));                    /* ensures of *_set_value on the throwing path */
  VF_CANARY("lemma premises satisfiable");
  VF_P(SIGNALLABLE(completed, dead), "lemma C01: after the exception went back into the source the adaptor receiver can still be signalled (requires of set_error holds)");
  __CPROVER_assume(completed2 >= completed && (COMPLETED_ONCE(completed2 - completed, attempts2, 1) || COMPLETED_ONCE(completed2 - completed, attempts2, 2)));   /* ensures of *_set_error, counted from the state above */
  VF_CANARY("second step possible");
  VF_P(completed2 == 1, "lemma C01: throwing set_value followed by the source's set_error: exactly one downstream completion in total");
}
