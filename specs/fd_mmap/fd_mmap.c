/* C14 (last sentence): "Descriptors, mappings and kernel registrations are released exactly once."
 *   include/unifex/linux/safe_file_descriptor.hpp + source/linux/safe_file_descriptor.cpp   (descriptor, ::close)
 *   include/unifex/linux/mmap_region.hpp + source/linux/mmap_region.cpp                     (mapping, ::munmap)
 *   source/linux/io_uring_syscall.cpp: retry_interruptable_syscall                          (a syscall is re-issued only after EINTR)
 * Bodies / expressions marked @BODY / @EXPR are extracted from /repo on every run; everything else is specification.
 *
 * Model.  A scenario has two OS descriptors R.fd[0..1] and two mappings (R.mp[k], R.mn[k]) (a negative value / (NULL,0) = "no such
 * resource") and up to three wrapper objects.  Ghost per OS resource: `open` (1 while not yet released) and the number of release
 * calls issued on it.  ::close / ::munmap are event stubs: they demand a real resource, owned by this scenario, not yet released.
 * Rep invariant of an object: it holds a non-negative fd (size_ > 0) iff it owns an open descriptor (live mapping): not released,
 * not moved from.  Life-cycle invariant: every open resource has exactly one owner, every released one has none and was released once.
 * Each operation is proved against its property-level postcondition; the life-cycle lemmas (over the contracts, callees replaced)
 * show the invariant is established by construction, preserved by every operation, and forces "released exactly once" when the
 * objects are destroyed. */
#include <stddef.h>
#include <stdint.h>
#include <errno.h>

typedef uintptr_t vf_addr_t;                                      /* a mapping address: opaque to this code, never dereferenced */
#define VF_NULL_ADDR ((vf_addr_t)0)
struct vf_res { int fd[2]; vf_addr_t mp[2]; size_t mn[2]; };        /* identities of the OS resources: fixed during a scenario */
static struct vf_res R;
struct vf_fdghost { unsigned open[2], closes[2]; unsigned calls; };       /* calls: every ::close issued, whatever its argument */
struct vf_mmghost { unsigned live[2], unmaps[2]; unsigned calls; };
struct vf_sysghost { _Bool any; int last, err; };                   /* a syscall was issued / its result / errno */
struct vf_ghost { struct vf_fdghost f; struct vf_mmghost m; struct vf_sysghost s; };
static struct vf_ghost G;

#include "vf.h"
static void vf_interfere(void) {}

struct sfd { /*@EXPR sfd_member*/ };
struct mmr { /*@EXPR mmr_members*/ };
static struct sfd X, Y, Z;
static struct mmr MX, MY, MZ;

#define IMP(a, b) (!(a) || (b))
#define B01(e) ((e) ? 1u : 0u)

/* ================= descriptors ================= */
#define FD_IS(v, k)  ((v) >= 0 && (v) == R.fd[k])
/* rep invariant of a held value: non-negative => it names an open (not yet released) descriptor */
#define FD_RI(v)     IMP((v) >= 0, (FD_IS(v, 0) && G.f.open[0] == 1) || (FD_IS(v, 1) && G.f.open[1] == 1))
/* accounting of descriptor k: open and never closed, or closed exactly once; "no such descriptor": never anything */
#define FD_ACCT(k)   (R.fd[k] >= 0 ? (G.f.open[k] <= 1 && G.f.open[k] + G.f.closes[k] == 1) : (G.f.open[k] == 0 && G.f.closes[k] == 0))
#define FD_WORLD     (IMP(R.fd[0] >= 0 && R.fd[1] >= 0, R.fd[0] != R.fd[1]) && FD_ACCT(0) && FD_ACCT(1) && G.f.calls == G.f.closes[0] + G.f.closes[1])
/* the operation released exactly the descriptor named by v (nothing if v < 0), once; v is an expression over __CPROVER_old */
#define FD_REL1(k, v) (G.f.closes[k] == __CPROVER_old(G.f.closes[k]) + B01(FD_IS(v, k)) && G.f.open[k] + B01(FD_IS(v, k)) == __CPROVER_old(G.f.open[k]))
#define FD_RELEASED(v) (FD_REL1(0, v) && FD_REL1(1, v) && G.f.calls == __CPROVER_old(G.f.calls) + B01((v) >= 0))
#define FD_NOTHING_RELEASED FD_RELEASED(-1)

static int EV_close(int fd) {
  VF_CANARY("::close reachable");
  G.f.calls++;
  VF_P(fd >= 0, "never close(-1): ::close is issued on a real descriptor only");
  if (fd < 0) return -1;                                                  /* EBADF */
  VF_P(fd == R.fd[0] || fd == R.fd[1], "::close only on a descriptor owned by the object (no foreign descriptor is closed)");
  if (fd == R.fd[0])      { VF_P(G.f.open[0] == 1, "each descriptor is released at most once (no double close)"); if (!G.f.open[0]) return -1; G.f.open[0] = 0; G.f.closes[0]++; }
  else if (fd == R.fd[1]) { VF_P(G.f.open[1] == 1, "each descriptor is released at most once (no double close)"); if (!G.f.open[1]) return -1; G.f.open[1] = 0; G.f.closes[1]++; }
  else return -1;
  return 0;
}

/* ---- functions under contract: safe_file_descriptor ---- */
_Bool sfd_valid(struct sfd* self)
__CPROVER_requires(1)
__CPROVER_assigns()
__CPROVER_ensures((__CPROVER_return_value == 0 || __CPROVER_return_value == 1) && B01(__CPROVER_return_value) == B01(self->fd_ >= 0))   /* valid() iff it owns a descriptor */
/*@BODY sfd_valid*/

int sfd_get(struct sfd* self)
__CPROVER_requires(1)
__CPROVER_assigns()
__CPROVER_ensures(__CPROVER_return_value == self->fd_)
/*@BODY sfd_get*/

/* safe_file_descriptor(): owns nothing */
void sfd_default_ctor(struct sfd* self)
__CPROVER_requires(FD_WORLD)
__CPROVER_assigns(self->fd_, G.f)
__CPROVER_ensures(self->fd_ < 0)
__CPROVER_ensures(FD_NOTHING_RELEASED)
{ /*@EXPR sfd_dctor_init*/ /*@BODY sfd_dctor_body*/ }

/* safe_file_descriptor(int fd): adopts fd (caller: negative, or an open descriptor nobody else owns) */
void sfd_int_ctor(struct sfd* self, int fd)
__CPROVER_requires(FD_WORLD && FD_RI(fd))
__CPROVER_assigns(self->fd_, G.f)
__CPROVER_ensures(self->fd_ == fd)
__CPROVER_ensures(FD_NOTHING_RELEASED)
{ /*@EXPR sfd_ictor_init*/ /*@BODY sfd_ictor_body*/ }

/* safe_file_descriptor(safe_file_descriptor&& other): ownership moves, the source is left empty, nothing is released */
void sfd_move_ctor(struct sfd* self, struct sfd* other)
__CPROVER_requires(self != other && FD_WORLD)
/*P*/ __CPROVER_requires(FD_RI(other->fd_))
__CPROVER_assigns(self->fd_, other->fd_, G.f)
__CPROVER_ensures(self->fd_ == __CPROVER_old(other->fd_))
__CPROVER_ensures(other->fd_ < 0)
__CPROVER_ensures(FD_NOTHING_RELEASED)
{ /*@EXPR sfd_mctor_init*/ /*@BODY sfd_mctor_body*/ }

/* close(): asserted precondition valid(); releases the owned descriptor exactly once and leaves the object empty */
void sfd_close(struct sfd* self)
__CPROVER_requires(FD_WORLD)
/*P*/ __CPROVER_requires(self->fd_ >= 0)      /* close() is called on an owning object only: never close(-1) */
/*P*/ __CPROVER_requires(FD_RI(self->fd_))
__CPROVER_assigns(self->fd_, G.f)
__CPROVER_ensures(FD_RELEASED(__CPROVER_old(self->fd_)))
__CPROVER_ensures(self->fd_ < 0)
__CPROVER_ensures(FD_WORLD)
/*@BODY sfd_close*/

/* ~safe_file_descriptor(): releases iff owning, exactly once; never close(-1) */
void sfd_dtor(struct sfd* self)
__CPROVER_requires(FD_WORLD)
/*P*/ __CPROVER_requires(FD_RI(self->fd_))
__CPROVER_assigns(self->fd_, G.f)
__CPROVER_ensures(FD_RELEASED(__CPROVER_old(self->fd_)))
__CPROVER_ensures(FD_WORLD)
/*@BODY sfd_dtor*/

/* operator=(safe_file_descriptor other): `other` is a by-value parameter (already constructed by the caller, destroyed at exit).
 * The target takes other's descriptor; the target's OLD descriptor is released exactly once (iff it owned one); nothing else. */
void sfd_assign(struct sfd* self, struct sfd other)
__CPROVER_requires(FD_WORLD)
/*P*/ __CPROVER_requires(FD_RI(self->fd_) && FD_RI(other.fd_))
__CPROVER_requires(IMP(self->fd_ >= 0, self->fd_ != other.fd_))           /* unique ownership: the parameter is a distinct object */
__CPROVER_assigns(self->fd_, G.f)
__CPROVER_ensures(self->fd_ == __CPROVER_old(other.fd_))
__CPROVER_ensures(FD_RELEASED(__CPROVER_old(self->fd_)))
__CPROVER_ensures(FD_WORLD && FD_RI(self->fd_))
/*@BODY sfd_assign*/

/* ---- call-site models (C++ semantics of a by-value operator= parameter; no library code) ---- */
/* dst = std::move(src) */
void sfd_move_assign(struct sfd* dst, struct sfd* src)
__CPROVER_requires(FD_WORLD)
/*P*/ __CPROVER_requires(FD_RI(dst->fd_) && FD_RI(src->fd_))
__CPROVER_requires(IMP(dst != src && dst->fd_ >= 0, dst->fd_ != src->fd_))   /* unique ownership */
__CPROVER_assigns(dst->fd_, src->fd_, G.f)
/* distinct objects: the target takes over the source's descriptor, the source is left empty, exactly the target's old descriptor is released (once), nothing of the source */
__CPROVER_ensures(dst != src ==> (dst->fd_ == __CPROVER_old(src->fd_) && src->fd_ < 0 && FD_RELEASED(__CPROVER_old(dst->fd_))))
/* self-assignment: the descriptor is kept and NOT released */
__CPROVER_ensures(dst == src ==> (dst->fd_ == __CPROVER_old(dst->fd_) && FD_NOTHING_RELEASED))
__CPROVER_ensures(FD_WORLD && FD_RI(dst->fd_))
{ struct sfd vf_param; sfd_move_ctor(&vf_param, src); sfd_assign(dst, vf_param); }

/* dst = safe_file_descriptor{fd}  (the form used by io_epoll_context.cpp / io_uring_context.cpp) */
void sfd_reset(struct sfd* dst, int fd)
__CPROVER_requires(FD_WORLD && FD_RI(fd))
/*P*/ __CPROVER_requires(FD_RI(dst->fd_))
__CPROVER_requires(IMP(dst->fd_ >= 0, dst->fd_ != fd))                        /* the adopted descriptor is not the one already owned */
__CPROVER_assigns(dst->fd_, G.f)
__CPROVER_ensures(dst->fd_ == fd && FD_RELEASED(__CPROVER_old(dst->fd_)))
__CPROVER_ensures(FD_WORLD && FD_RI(dst->fd_))
{ struct sfd vf_param; sfd_int_ctor(&vf_param, fd); sfd_assign(dst, vf_param); }

/* ---- life cycle: three objects X, Y, Z over the two descriptors ---- */
#define FD_HOLDS(o, k) B01(FD_IS((o).fd_, k))
#define FD_OWNERS(k)   (FD_HOLDS(X, k) + FD_HOLDS(Y, k) + FD_HOLDS(Z, k))
/* every open descriptor has exactly one owner; a released one has none (no leak, no sharing, no dangling value) */
#define FD_LIFE_INV (FD_WORLD && FD_RI(X.fd_) && FD_RI(Y.fd_) && FD_RI(Z.fd_) && FD_OWNERS(0) == G.f.open[0] && FD_OWNERS(1) == G.f.open[1])
#define FD_FRESH (G.f.calls == 0 && G.f.closes[0] == 0 && G.f.closes[1] == 0 && G.f.open[0] == B01(R.fd[0] >= 0) && G.f.open[1] == B01(R.fd[1] >= 0) \
                  && IMP(R.fd[0] >= 0 && R.fd[1] >= 0, R.fd[0] != R.fd[1]))
#define FD_ALL_RELEASED_ONCE (G.f.open[0] == 0 && G.f.open[1] == 0 && G.f.closes[0] == B01(R.fd[0] >= 0) && G.f.closes[1] == B01(R.fd[1] >= 0) \
                  && G.f.calls == G.f.closes[0] + G.f.closes[1])

/* construction: X and Y adopt the two freshly opened descriptors (or a failed open: negative), Z starts empty */
void fd_life_begin(void)
__CPROVER_requires(FD_FRESH)
__CPROVER_assigns(X, Y, Z, G.f)
__CPROVER_ensures(FD_LIFE_INV && G.f.calls == 0)
{
  sfd_int_ctor(&X, R.fd[0]);
  if (R.fd[1] < 0 && VF_nondet_bool()) { sfd_default_ctor(&Y); VF_CANARY("life: default-constructed object"); } else sfd_int_ctor(&Y, R.fd[1]);
  sfd_default_ctor(&Z);
}
static struct sfd* fd_pick(void) { return VF_nondet_bool() ? &X : VF_nondet_bool() ? &Y : &Z; }
/* ANY single operation on any of the objects preserves the life-cycle invariant (hence any finite sequence does) */
void fd_life_step(void)
__CPROVER_requires(FD_LIFE_INV)
__CPROVER_assigns(X, Y, Z, G.f)
__CPROVER_ensures(FD_LIFE_INV)
{
  struct sfd* a = fd_pick(); struct sfd* b = fd_pick();
  switch (VF_nondet_u8()) {
  case 0: sfd_move_assign(a, b); if (a == b) { VF_CANARY("life: self move-assignment"); } else { VF_CANARY("life: move-assignment"); } break;
  case 1: if (sfd_valid(a)) { sfd_close(a); VF_CANARY("life: close() of an owning object"); } break;    /* close() under its guard, as at both call sites */
  case 2: sfd_reset(a, -1); VF_CANARY("life: reset from an empty temporary"); break;
  case 3: if (a != b) { sfd_dtor(a); sfd_move_ctor(a, b); VF_CANARY("life: destroy, then move-construct in place"); } break;
  case 4: sfd_dtor(a); sfd_default_ctor(a); VF_CANARY("life: destroy, then default-construct in place"); break;
  default: break;
  }
}
/* end of life: all three objects are destroyed; every descriptor has then been released exactly once */
void fd_life_end(void)
__CPROVER_requires(FD_LIFE_INV)
__CPROVER_assigns(X, Y, Z, G.f)
__CPROVER_ensures(FD_ALL_RELEASED_ONCE)
{ sfd_dtor(&Z); sfd_dtor(&Y); sfd_dtor(&X); }
/* the two-operation instance (longer sequences: induction over fd_life_step) */
void fd_life2(void)
__CPROVER_requires(FD_FRESH)
__CPROVER_assigns(X, Y, Z, G.f)
__CPROVER_ensures(FD_ALL_RELEASED_ONCE)
{ fd_life_begin(); fd_life_step(); fd_life_step(); fd_life_end(); }

/* ================= mappings ================= */
#define MM_IS(p, n, k)  ((n) > 0 && (n) == R.mn[k] && (p) == R.mp[k])
#define MM_EMPTY(p, n)  ((n) == 0 && (p) == VF_NULL_ADDR)
/* rep invariant: size_ > 0 => (ptr_, size_) is a live mapping; otherwise the object is the empty region (nullptr, 0) */
#define MM_RI(p, n)     ((n) > 0 ? ((MM_IS(p, n, 0) && G.m.live[0] == 1) || (MM_IS(p, n, 1) && G.m.live[1] == 1)) : (p) == VF_NULL_ADDR)
#define MM_RES(k)       (R.mn[k] > 0 ? R.mp[k] != VF_NULL_ADDR : R.mp[k] == VF_NULL_ADDR)
#define MM_ACCT(k)      (R.mn[k] > 0 ? (G.m.live[k] <= 1 && G.m.live[k] + G.m.unmaps[k] == 1) : (G.m.live[k] == 0 && G.m.unmaps[k] == 0))
#define MM_WORLD        (MM_RES(0) && MM_RES(1) && IMP(R.mn[0] > 0 && R.mn[1] > 0, R.mp[0] != R.mp[1]) && MM_ACCT(0) && MM_ACCT(1) && G.m.calls == G.m.unmaps[0] + G.m.unmaps[1])
#define MM_REL1(k, p, n) (G.m.unmaps[k] == __CPROVER_old(G.m.unmaps[k]) + B01(MM_IS(p, n, k)) && G.m.live[k] + B01(MM_IS(p, n, k)) == __CPROVER_old(G.m.live[k]))
#define MM_RELEASED(p, n) (MM_REL1(0, p, n) && MM_REL1(1, p, n) && G.m.calls == __CPROVER_old(G.m.calls) + B01((n) > 0))
#define MM_NOTHING_RELEASED MM_RELEASED(VF_NULL_ADDR, 0)

static int EV_munmap(vf_addr_t p, size_t n) {
  VF_CANARY("::munmap reachable");
  G.m.calls++;
  VF_P(p != VF_NULL_ADDR && n > 0, "never munmap(nullptr, 0): ::munmap is issued on a real mapping only");
  if (p == VF_NULL_ADDR || n == 0) return -1;                                     /* EINVAL */
  VF_P((p == R.mp[0] && R.mn[0] > 0) || (p == R.mp[1] && R.mn[1] > 0), "::munmap only on a mapping owned by the object");
  if (p == R.mp[0] && R.mn[0] > 0) {
    VF_P(n == R.mn[0], "a mapping is released whole, with its own length");
    VF_P(G.m.live[0] == 1, "each mapping is released at most once (no double munmap)");
    if (n != R.mn[0] || !G.m.live[0]) return -1;
    G.m.live[0] = 0; G.m.unmaps[0]++;
  } else if (p == R.mp[1] && R.mn[1] > 0) {
    VF_P(n == R.mn[1], "a mapping is released whole, with its own length");
    VF_P(G.m.live[1] == 1, "each mapping is released at most once (no double munmap)");
    if (n != R.mn[1] || !G.m.live[1]) return -1;
    G.m.live[1] = 0; G.m.unmaps[1]++;
  } else return -1;
  return 0;
}

vf_addr_t mmr_data(struct mmr* self)
__CPROVER_requires(1)
__CPROVER_assigns()
__CPROVER_ensures(__CPROVER_return_value == self->ptr_)
/*@BODY mmr_data*/

size_t mmr_size(struct mmr* self)
__CPROVER_requires(1)
__CPROVER_assigns()
__CPROVER_ensures(__CPROVER_return_value == self->size_)
/*@BODY mmr_size*/

void mmr_default_ctor(struct mmr* self)
__CPROVER_requires(MM_WORLD)
__CPROVER_assigns(self->ptr_, self->size_, G.m)
__CPROVER_ensures(MM_EMPTY(self->ptr_, self->size_))
__CPROVER_ensures(MM_NOTHING_RELEASED)
{ /*@EXPR mmr_dctor_init*/ /*@BODY mmr_dctor_body*/ }

/* mmap_region(ptr, size): adopts the mapping (caller: (nullptr, 0), or a live mapping nobody else owns) */
void mmr_ptr_ctor(struct mmr* self, vf_addr_t ptr, size_t size)
__CPROVER_requires(MM_WORLD && MM_RI(ptr, size))
__CPROVER_assigns(self->ptr_, self->size_, G.m)
__CPROVER_ensures(self->ptr_ == ptr && self->size_ == size)
__CPROVER_ensures(MM_NOTHING_RELEASED)
{ /*@EXPR mmr_pctor_init*/ /*@BODY mmr_pctor_body*/ }

void mmr_move_ctor(struct mmr* self, struct mmr* r)
__CPROVER_requires(self != r && MM_WORLD)
/*P*/ __CPROVER_requires(MM_RI(r->ptr_, r->size_))
__CPROVER_assigns(self->ptr_, self->size_, r->ptr_, r->size_, G.m)
__CPROVER_ensures(self->ptr_ == __CPROVER_old(r->ptr_) && self->size_ == __CPROVER_old(r->size_))
__CPROVER_ensures(MM_EMPTY(r->ptr_, r->size_))
__CPROVER_ensures(MM_NOTHING_RELEASED)
{ /*@EXPR mmr_mctor_init*/ /*@BODY mmr_mctor_body*/ }

/* ~mmap_region(): releases iff owning, exactly once, the whole mapping; never munmap(nullptr, 0) */
void mmr_dtor(struct mmr* self)
__CPROVER_requires(MM_WORLD)
/*P*/ __CPROVER_requires(MM_RI(self->ptr_, self->size_))
__CPROVER_assigns(self->ptr_, self->size_, G.m)
__CPROVER_ensures(MM_RELEASED(__CPROVER_old(self->ptr_), __CPROVER_old(self->size_)))
__CPROVER_ensures(MM_WORLD)
/*@BODY mmr_dtor*/

void mmr_assign(struct mmr* self, struct mmr r)
__CPROVER_requires(MM_WORLD)
/*P*/ __CPROVER_requires(MM_RI(self->ptr_, self->size_) && MM_RI(r.ptr_, r.size_))
__CPROVER_requires(IMP(self->size_ > 0 && r.size_ > 0, self->ptr_ != r.ptr_))      /* unique ownership */
__CPROVER_assigns(self->ptr_, self->size_, G.m)
__CPROVER_ensures(self->ptr_ == __CPROVER_old(r.ptr_) && self->size_ == __CPROVER_old(r.size_))
__CPROVER_ensures(MM_RELEASED(__CPROVER_old(self->ptr_), __CPROVER_old(self->size_)))
__CPROVER_ensures(MM_WORLD && MM_RI(self->ptr_, self->size_))
/*@BODY mmr_assign*/

/* dst = std::move(src) */
void mmr_move_assign(struct mmr* dst, struct mmr* src)
__CPROVER_requires(MM_WORLD)
/*P*/ __CPROVER_requires(MM_RI(dst->ptr_, dst->size_) && MM_RI(src->ptr_, src->size_))
__CPROVER_requires(IMP(dst != src && dst->size_ > 0 && src->size_ > 0, dst->ptr_ != src->ptr_))
__CPROVER_assigns(dst->ptr_, dst->size_, src->ptr_, src->size_, G.m)
__CPROVER_ensures(dst != src ==> (dst->ptr_ == __CPROVER_old(src->ptr_) && dst->size_ == __CPROVER_old(src->size_) && MM_EMPTY(src->ptr_, src->size_) \
                                  && MM_RELEASED(__CPROVER_old(dst->ptr_), __CPROVER_old(dst->size_))))
__CPROVER_ensures(dst == src ==> (dst->ptr_ == __CPROVER_old(dst->ptr_) && dst->size_ == __CPROVER_old(dst->size_) && MM_NOTHING_RELEASED))
__CPROVER_ensures(MM_WORLD && MM_RI(dst->ptr_, dst->size_))
{ struct mmr vf_param; mmr_move_ctor(&vf_param, src); mmr_assign(dst, vf_param); }

/* dst = mmap_region{ptr, size}  (the form used by io_uring_context.cpp) */
void mmr_reset(struct mmr* dst, vf_addr_t ptr, size_t size)
__CPROVER_requires(MM_WORLD && MM_RI(ptr, size))
/*P*/ __CPROVER_requires(MM_RI(dst->ptr_, dst->size_))
__CPROVER_requires(IMP(dst->size_ > 0 && size > 0, dst->ptr_ != ptr))
__CPROVER_assigns(dst->ptr_, dst->size_, G.m)
__CPROVER_ensures(dst->ptr_ == ptr && dst->size_ == size && MM_RELEASED(__CPROVER_old(dst->ptr_), __CPROVER_old(dst->size_)))
__CPROVER_ensures(MM_WORLD && MM_RI(dst->ptr_, dst->size_))
{ struct mmr vf_param; mmr_ptr_ctor(&vf_param, ptr, size); mmr_assign(dst, vf_param); }

#define MM_HOLDS(o, k) B01(MM_IS((o).ptr_, (o).size_, k))
#define MM_OWNERS(k)   (MM_HOLDS(MX, k) + MM_HOLDS(MY, k) + MM_HOLDS(MZ, k))
#define MM_LIFE_INV (MM_WORLD && MM_RI(MX.ptr_, MX.size_) && MM_RI(MY.ptr_, MY.size_) && MM_RI(MZ.ptr_, MZ.size_) && MM_OWNERS(0) == G.m.live[0] && MM_OWNERS(1) == G.m.live[1])
#define MM_FRESH (G.m.calls == 0 && G.m.unmaps[0] == 0 && G.m.unmaps[1] == 0 && G.m.live[0] == B01(R.mn[0] > 0) && G.m.live[1] == B01(R.mn[1] > 0) \
                  && MM_RES(0) && MM_RES(1) && IMP(R.mn[0] > 0 && R.mn[1] > 0, R.mp[0] != R.mp[1]))
#define MM_ALL_RELEASED_ONCE (G.m.live[0] == 0 && G.m.live[1] == 0 && G.m.unmaps[0] == B01(R.mn[0] > 0) && G.m.unmaps[1] == B01(R.mn[1] > 0) \
                  && G.m.calls == G.m.unmaps[0] + G.m.unmaps[1])

void mm_life_begin(void)
__CPROVER_requires(MM_FRESH)
__CPROVER_assigns(MX, MY, MZ, G.m)
__CPROVER_ensures(MM_LIFE_INV && G.m.calls == 0)
{
  mmr_ptr_ctor(&MX, R.mp[0], R.mn[0]);
  if (R.mn[1] == 0 && VF_nondet_bool()) { mmr_default_ctor(&MY); VF_CANARY("life: default-constructed region"); } else mmr_ptr_ctor(&MY, R.mp[1], R.mn[1]);
  mmr_default_ctor(&MZ);
}
static struct mmr* mm_pick(void) { return VF_nondet_bool() ? &MX : VF_nondet_bool() ? &MY : &MZ; }
void mm_life_step(void)
__CPROVER_requires(MM_LIFE_INV)
__CPROVER_assigns(MX, MY, MZ, G.m)
__CPROVER_ensures(MM_LIFE_INV)
{
  struct mmr* a = mm_pick(); struct mmr* b = mm_pick();
  switch (VF_nondet_u8()) {
  case 0: mmr_move_assign(a, b); if (a == b) { VF_CANARY("life: self move-assignment"); } else { VF_CANARY("life: move-assignment"); } break;
  case 1: mmr_reset(a, VF_NULL_ADDR, 0); VF_CANARY("life: reset from an empty temporary"); break;
  case 2: if (a != b) { mmr_dtor(a); mmr_move_ctor(a, b); VF_CANARY("life: destroy, then move-construct in place"); } break;
  case 3: mmr_dtor(a); mmr_default_ctor(a); VF_CANARY("life: destroy, then default-construct in place"); break;
  default: break;
  }
}
void mm_life_end(void)
__CPROVER_requires(MM_LIFE_INV)
__CPROVER_assigns(MX, MY, MZ, G.m)
__CPROVER_ensures(MM_ALL_RELEASED_ONCE)
{ mmr_dtor(&MZ); mmr_dtor(&MY); mmr_dtor(&MX); }
void mm_life2(void)
__CPROVER_requires(MM_FRESH)
__CPROVER_assigns(MX, MY, MZ, G.m)
__CPROVER_ensures(MM_ALL_RELEASED_ONCE)
{ mm_life_begin(); mm_life_step(); mm_life_step(); mm_life_end(); }

/* ================= io_uring_syscall.cpp: retry_interruptable_syscall ================= */
#define VF_ERRNO (G.s.err)
/* the callable `func` (one raw syscall).  A syscall that SUCCEEDED may have created an OS resource (io_uring_setup returns a new
 * descriptor): re-issuing it would leak the first one; a syscall that failed for a reason other than EINTR must be reported. */
static int EV_syscall(void) {
  VF_CANARY("syscall reachable");
  VF_P(!G.s.any || (G.s.last < 0 && G.s.err == EINTR), "a syscall is re-issued only after it failed with EINTR (a successful call, which may have created a descriptor, is never repeated)");
  int r = VF_nondet_int();
  if (r < 0) { int e = VF_nondet_int(); __CPROVER_assume(e > 0); G.s.err = e; }      /* errno is written on failure only: a success leaves the stale value */
  G.s.any = 1; G.s.last = r;
  return r;
}
#define RETRY_INV (!G.s.any || (G.s.last < 0 && G.s.err == EINTR))
int retry_interruptable_syscall(void)
__CPROVER_requires(!G.s.any)
__CPROVER_assigns(G.s)
__CPROVER_ensures(G.s.any && __CPROVER_return_value == G.s.last)                      /* the result of the LAST call issued is what the caller gets */
__CPROVER_ensures(!(__CPROVER_return_value < 0 && G.s.err == EINTR))                   /* an interrupted call is not reported: it was retried */
/*@BODY retry*/

/* ================= harnesses ================= */
static void h_fd_world(void) {
  R.fd[0] = VF_nondet_int(); R.fd[1] = VF_nondet_int();
  G.f.open[0] = VF_nondet_bool() ? 1 : 0; G.f.open[1] = VF_nondet_bool() ? 1 : 0;
  G.f.closes[0] = VF_nondet_bool() ? 1 : 0; G.f.closes[1] = VF_nondet_bool() ? 1 : 0;
  G.f.calls = G.f.closes[0] + G.f.closes[1];
}
/* a value an object may hold: one of the two descriptors, or any negative number */
static int h_fd_value(void) { if (VF_nondet_bool()) return R.fd[0]; if (VF_nondet_bool()) return R.fd[1]; int v = VF_nondet_int(); return v < 0 ? v : -1; }
static struct sfd* h_sfd_obj(void) { return VF_nondet_bool() ? &X : &Y; }
static void h_fd_objs(void) { X.fd_ = h_fd_value(); Y.fd_ = h_fd_value(); Z.fd_ = h_fd_value(); }

void h_sfd_default_ctor(void) { h_fd_world(); struct sfd* o = h_sfd_obj(); sfd_default_ctor(o); VF_CANARY("after safe_file_descriptor()"); }
void h_sfd_int_ctor(void) {
  h_fd_world(); struct sfd* o = h_sfd_obj(); int fd = h_fd_value();
  sfd_int_ctor(o, fd);
  VF_CANARY("after safe_file_descriptor(int)");
  if (fd >= 0) { VF_CANARY("adopting an open descriptor"); } else { VF_CANARY("adopting a failed open (negative)"); }
}
void h_sfd_move_ctor(void) {
  h_fd_world(); h_fd_objs();
  sfd_move_ctor(&X, &Y);
  VF_CANARY("after the move constructor");
  if (X.fd_ >= 0) { VF_CANARY("move construction from an owning object"); } else { VF_CANARY("move construction from an empty object"); }
}
void h_sfd_valid(void) { h_fd_world(); h_fd_objs(); _Bool v = sfd_valid(&X); if (v) { VF_CANARY("valid() true"); } else { VF_CANARY("valid() false"); } }
void h_sfd_get(void) { h_fd_world(); h_fd_objs(); int v = sfd_get(&X); VF_CANARY("after get()"); }
void h_sfd_close(void) { h_fd_world(); h_fd_objs(); struct sfd* o = h_sfd_obj(); sfd_close(o); VF_CANARY("after close()"); }
void h_sfd_dtor(void) {
  h_fd_world(); h_fd_objs(); struct sfd* o = h_sfd_obj(); _Bool owning = o->fd_ >= 0;
  sfd_dtor(o);
  if (owning) { VF_CANARY("destructor of an owning object"); } else { VF_CANARY("destructor of an empty / moved-from object"); }
}
void h_sfd_assign(void) {
  h_fd_world(); h_fd_objs(); struct sfd p; p.fd_ = h_fd_value(); _Bool had = X.fd_ >= 0, gets = p.fd_ >= 0;
  sfd_assign(&X, p);
  VF_CANARY("after operator=");
  if (had && gets) { VF_CANARY("operator=: owning target takes another descriptor"); }
  if (had && !gets) { VF_CANARY("operator=: owning target assigned from an empty parameter"); }
  if (!had && gets) { VF_CANARY("operator=: empty target takes a descriptor"); }
}
void h_sfd_move_assign(void) {
  h_fd_world(); h_fd_objs(); struct sfd* d = h_sfd_obj(); struct sfd* s = h_sfd_obj(); _Bool had = d->fd_ >= 0, gets = s->fd_ >= 0;
  sfd_move_assign(d, s);
  VF_CANARY("after move assignment");
  if (d == s && had) { VF_CANARY("self move-assignment of an owning object"); }
  if (d != s && had && gets) { VF_CANARY("move assignment: both owning"); }
  if (d != s && had && !gets) { VF_CANARY("move assignment from an empty object onto an owning one"); }
  if (d != s && !had && gets) { VF_CANARY("move assignment onto an empty object"); }
}
void h_sfd_reset(void) {
  h_fd_world(); h_fd_objs(); int fd = h_fd_value(); _Bool had = X.fd_ >= 0;
  sfd_reset(&X, fd);
  VF_CANARY("after assignment from a temporary");
  if (had && fd >= 0) { VF_CANARY("reset: the old descriptor is replaced"); }
  if (!had && fd >= 0) { VF_CANARY("reset: first descriptor stored (the I/O contexts' constructors)"); }
}
static void h_fd_fresh(void) {
  R.fd[0] = VF_nondet_int(); R.fd[1] = VF_nondet_int();
  G.f.open[0] = B01(R.fd[0] >= 0); G.f.open[1] = B01(R.fd[1] >= 0); G.f.closes[0] = 0; G.f.closes[1] = 0; G.f.calls = 0;
}
void h_fd_life_begin(void) { h_fd_fresh(); fd_life_begin(); VF_CANARY("after construction"); if (R.fd[0] >= 0 && R.fd[1] >= 0) { VF_CANARY("two open descriptors"); } }
void h_fd_life_step(void) { h_fd_world(); h_fd_objs(); fd_life_step(); VF_CANARY("after one operation"); if (G.f.open[0] + G.f.open[1] == 2) { VF_CANARY("both descriptors still owned"); } }
void h_fd_life_end(void) { h_fd_world(); h_fd_objs(); fd_life_end(); VF_CANARY("after destruction"); if (G.f.closes[0] + G.f.closes[1] == 2) { VF_CANARY("two descriptors released"); } }
void h_fd_life2(void) { h_fd_fresh(); fd_life2(); VF_CANARY("after a whole life"); if (R.fd[0] >= 0 && R.fd[1] >= 0) { VF_CANARY("whole life with two descriptors"); } }

/* ---- mappings ---- */
static void h_mm_world(void) {
  R.mp[0] = VF_nondet_uptr(); R.mp[1] = VF_nondet_uptr();
  R.mn[0] = VF_nondet_size_t(); R.mn[1] = VF_nondet_size_t();
  G.m.live[0] = VF_nondet_bool() ? 1 : 0; G.m.live[1] = VF_nondet_bool() ? 1 : 0;
  G.m.unmaps[0] = VF_nondet_bool() ? 1 : 0; G.m.unmaps[1] = VF_nondet_bool() ? 1 : 0;
  G.m.calls = G.m.unmaps[0] + G.m.unmaps[1];
}
static void h_mm_value(struct mmr* o) {
  if (VF_nondet_bool()) { o->ptr_ = R.mp[0]; o->size_ = R.mn[0]; }
  else if (VF_nondet_bool()) { o->ptr_ = R.mp[1]; o->size_ = R.mn[1]; }
  else { o->ptr_ = VF_NULL_ADDR; o->size_ = 0; }
}
static struct mmr* h_mmr_obj(void) { return VF_nondet_bool() ? &MX : &MY; }
static void h_mm_objs(void) { h_mm_value(&MX); h_mm_value(&MY); h_mm_value(&MZ); }

void h_mmr_default_ctor(void) { h_mm_world(); struct mmr* o = h_mmr_obj(); mmr_default_ctor(o); VF_CANARY("after mmap_region()"); }
void h_mmr_ptr_ctor(void) {
  h_mm_world(); struct mmr v; h_mm_value(&v); struct mmr* o = h_mmr_obj();
  mmr_ptr_ctor(o, v.ptr_, v.size_);
  VF_CANARY("after mmap_region(ptr, size)");
  if (v.size_ > 0) { VF_CANARY("adopting a live mapping"); }
}
void h_mmr_move_ctor(void) {
  h_mm_world(); h_mm_objs();
  mmr_move_ctor(&MX, &MY);
  VF_CANARY("after the move constructor");
  if (MX.size_ > 0) { VF_CANARY("move construction from an owning region"); } else { VF_CANARY("move construction from an empty region"); }
}
void h_mmr_data(void) { h_mm_world(); h_mm_objs(); vf_addr_t p = mmr_data(&MX); VF_CANARY("after data()"); }
void h_mmr_size(void) { h_mm_world(); h_mm_objs(); size_t n = mmr_size(&MX); VF_CANARY("after size()"); }
void h_mmr_dtor(void) {
  h_mm_world(); h_mm_objs(); struct mmr* o = h_mmr_obj(); _Bool owning = o->size_ > 0;
  mmr_dtor(o);
  if (owning) { VF_CANARY("destructor of an owning region"); } else { VF_CANARY("destructor of an empty / moved-from region"); }
}
void h_mmr_assign(void) {
  h_mm_world(); h_mm_objs(); struct mmr p; h_mm_value(&p); _Bool had = MX.size_ > 0, gets = p.size_ > 0;
  mmr_assign(&MX, p);
  VF_CANARY("after operator=");
  if (had && gets) { VF_CANARY("operator=: owning target takes another mapping"); }
  if (had && !gets) { VF_CANARY("operator=: owning target assigned from an empty parameter"); }
  if (!had && gets) { VF_CANARY("operator=: empty target takes a mapping"); }
}
void h_mmr_move_assign(void) {
  h_mm_world(); h_mm_objs(); struct mmr* d = h_mmr_obj(); struct mmr* s = h_mmr_obj(); _Bool had = d->size_ > 0, gets = s->size_ > 0;
  mmr_move_assign(d, s);
  VF_CANARY("after move assignment");
  if (d == s && had) { VF_CANARY("self move-assignment of an owning region"); }
  if (d != s && had && gets) { VF_CANARY("move assignment: both owning"); }
  if (d != s && had && !gets) { VF_CANARY("move assignment from an empty region onto an owning one"); }
  if (d != s && !had && gets) { VF_CANARY("move assignment onto an empty region"); }
}
void h_mmr_reset(void) {
  h_mm_world(); h_mm_objs(); struct mmr v; h_mm_value(&v); _Bool had = MX.size_ > 0;
  mmr_reset(&MX, v.ptr_, v.size_);
  VF_CANARY("after assignment from a temporary");
  if (had && v.size_ > 0) { VF_CANARY("reset: the old mapping is replaced"); }
  if (!had && v.size_ > 0) { VF_CANARY("reset: first mapping stored (io_uring_context constructor)"); }
}
static void h_mm_fresh(void) {
  R.mp[0] = VF_nondet_uptr(); R.mp[1] = VF_nondet_uptr();
  R.mn[0] = VF_nondet_size_t(); R.mn[1] = VF_nondet_size_t();
  G.m.live[0] = B01(R.mn[0] > 0); G.m.live[1] = B01(R.mn[1] > 0); G.m.unmaps[0] = 0; G.m.unmaps[1] = 0; G.m.calls = 0;
}
void h_mm_life_begin(void) { h_mm_fresh(); mm_life_begin(); VF_CANARY("after construction"); if (R.mn[0] > 0 && R.mn[1] > 0) { VF_CANARY("two live mappings"); } }
void h_mm_life_step(void) { h_mm_world(); h_mm_objs(); mm_life_step(); VF_CANARY("after one operation"); if (G.m.live[0] + G.m.live[1] == 2) { VF_CANARY("both mappings still owned"); } }
void h_mm_life_end(void) { h_mm_world(); h_mm_objs(); mm_life_end(); VF_CANARY("after destruction"); if (G.m.unmaps[0] + G.m.unmaps[1] == 2) { VF_CANARY("two mappings released"); } }
void h_mm_life2(void) { h_mm_fresh(); mm_life2(); VF_CANARY("after a whole life"); if (R.mn[0] > 0 && R.mn[1] > 0) { VF_CANARY("whole life with two mappings"); } }

/* ---- retry ---- */
void h_retry(void) {
  G.s.any = 0; G.s.last = 0; G.s.err = VF_nondet_int();           /* errno may hold anything, EINTR included, before the call */
  int r = retry_interruptable_syscall();
  VF_CANARY("after retry_interruptable_syscall");
  if (r >= 0) { VF_CANARY("syscall succeeded"); } else { VF_CANARY("syscall failed with a real error"); }
  if (r >= 0 && G.s.err == EINTR) { VF_CANARY("success with a stale errno == EINTR is returned, not retried"); }
}

/* ================= M4 lemma over the predicates of the contracts ================= */
/* The life-cycle invariant means what the property says: under FD_LIFE_INV an object holds a non-negative value iff the descriptor
 * is open and this object is its only owner; "all released once" is FD_LIFE_INV with no owner left. */
void lemma_fd_inv(void) {
  h_fd_world(); h_fd_objs();
  __CPROVER_assume(FD_LIFE_INV);
  VF_CANARY("lemma premises satisfiable");
  VF_P(IMP(X.fd_ >= 0, Y.fd_ != X.fd_ && Z.fd_ != X.fd_), "lemma: two objects never own the same descriptor");
  VF_P(IMP(Y.fd_ >= 0, Z.fd_ != Y.fd_), "lemma: two objects never own the same descriptor");
  VF_P(IMP(R.fd[0] >= 0 && G.f.open[0] == 1, X.fd_ == R.fd[0] || Y.fd_ == R.fd[0] || Z.fd_ == R.fd[0]), "lemma: an open descriptor is reachable from an object (no leak)");
  VF_P(IMP(R.fd[0] >= 0 && G.f.open[0] == 0, G.f.closes[0] == 1 && X.fd_ != R.fd[0] && Y.fd_ != R.fd[0] && Z.fd_ != R.fd[0]), "lemma: a released descriptor was released exactly once and no object still names it");
  VF_P(IMP(X.fd_ < 0 && Y.fd_ < 0 && Z.fd_ < 0, G.f.open[0] == 0 && G.f.open[1] == 0), "lemma: with every object empty, no descriptor is still open");
  h_mm_world(); h_mm_objs();
  __CPROVER_assume(MM_LIFE_INV);
  VF_CANARY("mapping lemma premises satisfiable");
  VF_P(IMP(MX.size_ > 0, !(MY.size_ > 0 && MY.ptr_ == MX.ptr_) && !(MZ.size_ > 0 && MZ.ptr_ == MX.ptr_)), "lemma: two regions never own the same mapping");
  VF_P(IMP(R.mn[0] > 0 && G.m.live[0] == 1, MX.ptr_ == R.mp[0] || MY.ptr_ == R.mp[0] || MZ.ptr_ == R.mp[0]), "lemma: a live mapping is reachable from a region (no leak)");
  VF_P(IMP(R.mn[0] > 0 && G.m.live[0] == 0, G.m.unmaps[0] == 1), "lemma: a released mapping was released exactly once");
  VF_P(IMP(MX.size_ == 0 && MY.size_ == 0 && MZ.size_ == 0, G.m.live[0] == 0 && G.m.live[1] == 0), "lemma: with every region empty, no mapping is still live");
}
