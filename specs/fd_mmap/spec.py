FH = 'include/unifex/linux/safe_file_descriptor.hpp'
FC = 'source/linux/safe_file_descriptor.cpp'
MH = 'include/unifex/linux/mmap_region.hpp'
MC = 'source/linux/mmap_region.cpp'
SY = 'source/linux/io_uring_syscall.cpp'
UH = 'include/unifex/linux/io_uring_context.hpp'
FCLS = r'class safe_file_descriptor \{'
MCLS = r'struct mmap_region \{'

# general rule missing from the global table: a constructor's mem-initialiser list  m_(E) , n_(F)  ->  m_ = E; n_ = F;
# (the list is extracted as kind='expr' = everything between ':' and the body's '{'; the (empty) body is extracted separately)
MEMINIT = [(r'(\w+)\(((?:[^()]|\((?:[^()]|\([^()]*\))*\))*)\)\s*,?\s*', r'\1 = \2; ')]
INIT = r'\s*:\s*([^{}]*?)\s*(?=\{)'          # tail of an 'expr' signature: captures the mem-initialiser list
# general rule missing from the global table: a BY-VALUE class-type parameter is destroyed at every exit of the callee
def byvalue(param, dtor):
    return dict(pre=[(r'return\s*\*this\s*;', 'return;')],                 # T& operator=: the returned reference is dropped
                post=[(r'\breturn\s*;', r'{ %s(&%s); return; }' % (dtor, param)),
                      (r'\}\s*$', ' %s(&%s); }' % (dtor, param))])
# syscalls -> event stubs (ghost per OS resource)
SYS = [(r'::close\(', 'EV_close('), (r'::munmap\(', 'EV_munmap(')]

fd_ctx = dict(cls='sfd', members=['fd_'], methods=['valid', 'close', 'get'], atomic=[], pre=SYS)
fd_init = dict(fd_ctx, pre=MEMINIT + SYS)
fd_mv = dict(fd_ctx, pre=[(r'\bother\.', 'other->')] + MEMINIT + SYS)       # `safe_file_descriptor&& other` is a pointer in C
_bv = byvalue('other', 'sfd_dtor')
fd_as = dict(fd_ctx, pre=_bv['pre'] + SYS, post=_bv['post'])
# a mapping address is never dereferenced by this code: it is an opaque number (vf_addr_t = uintptr_t).  Pointer-typed fields havocked by a
# replaced contract made paths silently infeasible (cbmc 6.11 dfcc: second `assume(havocked_ptr == p)` in a row), so no pointer is modelled.
ADDR = [(r'\bvoid\s*\*\s*', 'vf_addr_t ')]
mm_ctx = dict(cls='mmr', members=['ptr_', 'size_'], methods=[], atomic=[], pre=SYS, typemap=ADDR, post=[(r'\bNULL\b', 'VF_NULL_ADDR')])
mm_init = dict(mm_ctx, pre=MEMINIT + SYS)
mm_mv = dict(mm_ctx, pre=[(r'\br\.', 'r->')] + MEMINIT + SYS)
_bm = byvalue('r', 'mmr_dtor')
mm_as = dict(mm_ctx, pre=_bm['pre'] + SYS, post=mm_ctx['post'] + _bm['post'])
sy_ctx = dict(cls='', members=[], methods=[], atomic=[],
              pre=[(r'\bfunc\(\)', 'EV_syscall()'), (r'\berrno\b', 'VF_ERRNO')])
RETRY_INV = ('__CPROVER_assigns(G.s)\n'
             '__CPROVER_loop_invariant(RETRY_INV)')

S_DCTOR = r'safe_file_descriptor\(\) noexcept'
S_ICTOR = r'explicit safe_file_descriptor\(int fd\) noexcept'
S_MCTOR = r'safe_file_descriptor\(safe_file_descriptor&& other\) noexcept'
M_DCTOR = r'mmap_region\(\) noexcept'
M_MCTOR = r'mmap_region\(mmap_region&& r\) noexcept'
M_PCTOR = r'explicit mmap_region\(void\* ptr, std::size_t size\) noexcept'

FD_OPS = ['sfd_default_ctor', 'sfd_int_ctor', 'sfd_move_ctor', 'sfd_dtor', 'sfd_close', 'sfd_valid', 'sfd_move_assign', 'sfd_reset']
MM_OPS = ['mmr_default_ctor', 'mmr_ptr_ctor', 'mmr_move_ctor', 'mmr_dtor', 'mmr_move_assign', 'mmr_reset']

SPEC = dict(
    properties=['C14'],
    ctx=dict(),
    extracts={
        # ---- safe_file_descriptor
        'sfd_member': dict(file=FH, kind='expr', within=FCLS, sig=r'private:\s*(int fd_;)', ctx=dict()),
        'sfd_dctor_init': dict(file=FH, kind='expr', within=FCLS, sig=S_DCTOR + INIT, ctx=fd_init),
        'sfd_dctor_body': dict(file=FH, within=FCLS, sig=S_DCTOR, ctx=fd_ctx),
        'sfd_ictor_init': dict(file=FH, kind='expr', within=FCLS, sig=S_ICTOR + INIT, ctx=fd_init),
        'sfd_ictor_body': dict(file=FH, within=FCLS, sig=S_ICTOR, ctx=fd_ctx),
        'sfd_mctor_init': dict(file=FH, kind='expr', within=FCLS, sig=S_MCTOR + INIT, ctx=fd_mv),
        'sfd_mctor_body': dict(file=FH, within=FCLS, sig=S_MCTOR, ctx=fd_mv),
        'sfd_dtor': dict(file=FH, within=FCLS, sig=r'~safe_file_descriptor\(\)', ctx=fd_ctx),
        'sfd_assign': dict(file=FH, within=FCLS, sig=r'safe_file_descriptor& operator=\(safe_file_descriptor other\) noexcept', ctx=fd_as),
        'sfd_valid': dict(file=FH, within=FCLS, sig=r'bool valid\(\) const noexcept', ctx=fd_ctx),
        'sfd_get': dict(file=FH, within=FCLS, sig=r'int get\(\) const noexcept', ctx=fd_ctx),
        'sfd_close': dict(file=FC, sig=r'void safe_file_descriptor::close\(\) noexcept', ctx=fd_ctx),
        # ---- mmap_region
        'mmr_members': dict(file=MH, kind='expr', within=MCLS, sig=r'private:\s*(void\* ptr_;\s*std::size_t size_;)', ctx=dict(typemap=ADDR)),
        'mmr_dctor_init': dict(file=MH, kind='expr', within=MCLS, sig=M_DCTOR + INIT, ctx=mm_init),
        'mmr_dctor_body': dict(file=MH, within=MCLS, sig=M_DCTOR, ctx=mm_ctx),
        'mmr_pctor_init': dict(file=MH, kind='expr', within=MCLS, sig=M_PCTOR + INIT, ctx=mm_init),
        'mmr_pctor_body': dict(file=MH, within=MCLS, sig=M_PCTOR, ctx=mm_ctx),
        'mmr_mctor_init': dict(file=MH, kind='expr', within=MCLS, sig=M_MCTOR + INIT, ctx=mm_mv),
        'mmr_mctor_body': dict(file=MH, within=MCLS, sig=M_MCTOR, ctx=mm_mv),
        'mmr_dtor': dict(file=MC, sig=r'mmap_region::~mmap_region\(\)', ctx=mm_ctx),
        'mmr_assign': dict(file=MH, within=MCLS, sig=r'mmap_region& operator=\(mmap_region r\) noexcept', ctx=mm_as),
        'mmr_data': dict(file=MH, within=MCLS, sig=r'void\* data\(\) const noexcept', ctx=mm_ctx),
        'mmr_size': dict(file=MH, within=MCLS, sig=r'std::size_t size\(\) const noexcept', ctx=mm_ctx),
        # ---- io_uring_syscall.cpp: the only logic beyond the raw wrappers
        'retry': dict(file=SY, sig=r'int retry_interruptable_syscall\(F&& func\)', ctx=sy_ctx, loops={0: RETRY_INV}),
    },
    closed_world=[
        # the representation is private: every textual use of it lies in an extracted span
        dict(file=FH, members=['fd_'], within=FCLS, allow=[r'private:\s*int fd_;']),
        dict(file=FC, members=['fd_']),
        dict(file=MH, members=['ptr_', 'size_'], within=MCLS, allow=[r'private:\s*void\* ptr_;\s*std::size_t size_;']),
        dict(file=MC, members=['ptr_', 'size_']),
        # the asserted precondition of close() (valid()) is established at its only call site outside the class
        dict(file=UH, members=['close'], allow=[r'if \(fd_\.valid\(\)\) \{\s*fd_\.close\(\);\s*\}']),
        # the raw syscalls are issued only from the extracted spans
        dict(file=FC, members=['close'], allow=[r'void safe_file_descriptor::close\(\) noexcept']),
        dict(file=MC, members=['munmap']),
    ],
    units=[
        # safe_file_descriptor: every operation against the rep invariant + release accounting
        dict(name='sfd_default_ctor', harness='h_sfd_default_ctor', enforce='sfd_default_ctor'),
        dict(name='sfd_int_ctor', harness='h_sfd_int_ctor', enforce='sfd_int_ctor'),
        dict(name='sfd_move_ctor', harness='h_sfd_move_ctor', enforce='sfd_move_ctor'),
        dict(name='sfd_valid', harness='h_sfd_valid', enforce='sfd_valid'),
        dict(name='sfd_get', harness='h_sfd_get', enforce='sfd_get'),
        dict(name='sfd_close', harness='h_sfd_close', enforce='sfd_close', replace=['sfd_valid']),
        dict(name='sfd_dtor', harness='h_sfd_dtor', enforce='sfd_dtor', replace=['sfd_valid', 'sfd_close']),
        dict(name='sfd_dtor_inline', harness='h_sfd_dtor', enforce='sfd_dtor'),
        dict(name='sfd_assign', harness='h_sfd_assign', enforce='sfd_assign'),
        dict(name='sfd_move_assign', harness='h_sfd_move_assign', enforce='sfd_move_assign', replace=['sfd_move_ctor', 'sfd_assign']),
        dict(name='sfd_move_assign_inline', harness='h_sfd_move_assign', enforce='sfd_move_assign'),
        dict(name='sfd_reset', harness='h_sfd_reset', enforce='sfd_reset', replace=['sfd_int_ctor', 'sfd_assign']),
        # life-cycle lemmas over the contracts (every callee replaced by its contract)
        dict(name='fd_life_begin', harness='h_fd_life_begin', enforce='fd_life_begin', replace=FD_OPS),
        dict(name='fd_life_step', harness='h_fd_life_step', enforce='fd_life_step', replace=FD_OPS),
        dict(name='fd_life_end', harness='h_fd_life_end', enforce='fd_life_end', replace=FD_OPS),
        dict(name='fd_life2', harness='h_fd_life2', enforce='fd_life2', replace=['fd_life_begin', 'fd_life_step', 'fd_life_end']),
        # mmap_region
        dict(name='mmr_default_ctor', harness='h_mmr_default_ctor', enforce='mmr_default_ctor'),
        dict(name='mmr_ptr_ctor', harness='h_mmr_ptr_ctor', enforce='mmr_ptr_ctor'),
        dict(name='mmr_move_ctor', harness='h_mmr_move_ctor', enforce='mmr_move_ctor'),
        dict(name='mmr_data', harness='h_mmr_data', enforce='mmr_data'),
        dict(name='mmr_size', harness='h_mmr_size', enforce='mmr_size'),
        dict(name='mmr_dtor', harness='h_mmr_dtor', enforce='mmr_dtor'),
        dict(name='mmr_assign', harness='h_mmr_assign', enforce='mmr_assign'),
        dict(name='mmr_move_assign', harness='h_mmr_move_assign', enforce='mmr_move_assign', replace=['mmr_move_ctor', 'mmr_assign']),
        dict(name='mmr_move_assign_inline', harness='h_mmr_move_assign', enforce='mmr_move_assign'),
        dict(name='mmr_reset', harness='h_mmr_reset', enforce='mmr_reset', replace=['mmr_ptr_ctor', 'mmr_assign']),
        dict(name='mm_life_begin', harness='h_mm_life_begin', enforce='mm_life_begin', replace=MM_OPS),
        dict(name='mm_life_step', harness='h_mm_life_step', enforce='mm_life_step', replace=MM_OPS),
        dict(name='mm_life_end', harness='h_mm_life_end', enforce='mm_life_end', replace=MM_OPS),
        dict(name='mm_life2', harness='h_mm_life2', enforce='mm_life2', replace=['mm_life_begin', 'mm_life_step', 'mm_life_end']),
        # io_uring_syscall.cpp
        dict(name='retry_syscall', harness='h_retry', enforce='retry_interruptable_syscall', expect_loop_obligations=True),
        dict(name='lemma_fd_inv', harness='lemma_fd_inv', mode='lemma'),
    ],
    assumptions=[
        'C++ object model, made explicit in the template (call-site models sfd_move_assign / sfd_reset / mmr_move_assign / mmr_reset): `a = std::move(b)` and `a = T{args}` on a class whose operator= takes its argument BY VALUE are: construct the parameter (move constructor from b / converting constructor), run the operator= body, destroy the parameter; a constructor runs its mem-initialisers in member declaration order (here identical to list order, and the initialisers are independent), then its body',
        'every object is destroyed exactly once and not used afterwards (C++ lifetime rules for members / automatic objects: C02 territory); the life-cycle lemmas quantify over all finite sequences of {move-assign in every direction incl. self, close() under its guard, reset from an empty temporary, destroy + move-construct} on three objects and two OS resources, by induction over the invariant FD_LIFE_INV / MM_LIFE_INV',
        'caller obligation of the adopting constructors: safe_file_descriptor(int fd) is given a negative value or an OPEN descriptor that no other object owns; mmap_region(ptr, size) is given (nullptr, 0) or a LIVE mapping [ptr, ptr+size), size > 0, that no other object owns (the call sites in io_uring_context.cpp / io_epoll_context.cpp construct from a fresh syscall result after the error check; they are not extracted here)',
        'close() has the asserted precondition valid() (UNIFEX_ASSERT, obligation P-int): its two call sites (the destructor: extracted; accept_stream::cleanup in io_uring_context.hpp: closed-world pattern `if (fd_.valid()) { fd_.close(); }`) establish it; a foreign caller invoking close() on an empty object is outside the contract (release build: ::close(-1) = EBADF, nothing released)',
        '::close on an open descriptor returns 0 (EINTR / EIO from close are not modelled: Linux releases the descriptor in either case and the code, correctly, does not retry); ::munmap of a whole live mapping with its own length succeeds (result ignored by the code)',
        'single-threaded use of one object (the classes contain no synchronisation): vf_interfere is empty',
        'retry_interruptable_syscall: partial correctness (an endless EINTR storm does not terminate); errno is written by a failing syscall only (a successful one leaves a stale value, possibly EINTR); the three wrappers io_uring_setup/enter/register pass their arguments straight to syscall(2) and are not verified',
        'which descriptors / mappings the I/O contexts store in these wrappers, and the real kernel state behind them, are not reached',
    ],
    drops=['noexcept / explicit / const qualifiers, access control',
           'constructor mem-initialiser lists -> assignments (spec-level regex MEMINIT); rvalue-reference parameter -> pointer',
           'by-value class parameter of operator=: its destructor call is made explicit at every exit (spec-level regex); the returned reference (`return *this`) is dropped',
           'void* ptr_ -> opaque address number (uintptr_t): the mapped memory itself is never touched by these classes',
           '::close / ::munmap -> event stubs EV_close / EV_munmap with one ghost per OS resource; the lambda `func` of retry_interruptable_syscall -> EV_syscall, errno -> ghost',
           'template genericity of retry_interruptable_syscall over the callable'],
)
