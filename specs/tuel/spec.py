CPP = 'source/thread_unsafe_event_loop.cpp'
H = 'include/unifex/thread_unsafe_event_loop.hpp'
OB = r'class operation_base \{'
TM = [(r'(?<!struct )\boperation_base\*', 'struct operation_base*')]
NOW = [(r'clock_t::now\(\)', 'VF_now()'), (r'std::this_thread::sleep_until\(', 'EV_sleep_until(')]
loop_ctx = dict(cls='loop', members=['head_'], typemap=TM, obj_methods={'execute': 'EV_execute'}, pre=NOW)
cb_ctx = dict(cls='cancel_callback', members=['op_'], typemap=TM, pre=NOW + [(r'op_->loop_\.enqueue\(op_\)', 'loop_enqueue(op_->loop_, op_)')])
op_ctx = dict(cls='operation_base', members=['loop_', 'next_', 'prevPtr_', 'dueTime_'], typemap=TM,
              pre=NOW + [(r'loop_\.enqueue\(this\)', 'loop_enqueue(loop_, this)')])
def opx(kind):
    return dict(cls=kind, members=['duration_', 'receiver_', 'callback_'], typemap=TM,
                pre=NOW + [(r'auto& self = \*static_cast<type\*>\(p\);', 'struct top* self = (struct top*)p;'),
                           (r'self\.callback_\.destruct\(\)', 'EV_cb_destruct(self)'),
                           (r'callback_\.construct\(get_stop_token\(receiver_\), cancel_callback\{\*this\}\)', 'EV_cb_construct(this)'),
                           (r'is_stop_never_possible_v<stop_token_type_t<Receiver&>>', 'VF_CFG_stop_never_possible'),
                           (r'get_stop_token\(self\.receiver_\)\.stop_requested\(\)', 'EV_stop_requested(self)'),
                           (r'unifex::set_value\(std::move\(self\.receiver_\)\)', 'EV_set_value(self)'),
                           (r'unifex::set_done\(std::move\(self\.receiver_\)\)', 'EV_set_done(self)'),
                           (r'this->dueTime_', 'this->base.dueTime_'),
                           (r'operation_base::start\(\)', 'operation_base_start(&this->base)')])
AFTER = r'class _after_op<Duration, Receiver>::type final : public operation_base \{'
AT = r'class _at_op<Receiver>::type final : public operation_base \{'
SPEC = dict(
    properties=['C07', 'C02', 'C04', 'C06'],
    ctx=loop_ctx,
    extracts={
        'next_init': dict(file=H, kind='expr', sig=r'operation_base\* next_\s*(=?[^;]*);', within=OB),
        'prevPtr_init': dict(file=H, kind='expr', sig=r'operation_base\*\* prevPtr_\s*(=?[^;]*);', within=OB),
        'head_init': dict(file=H, kind='expr', sig=r'operation_base\* head_ = ([^;]*);', within=r'class thread_unsafe_event_loop \{'),
        'enqueue': dict(file=CPP, sig=r'void thread_unsafe_event_loop::enqueue\(operation_base\* op\) noexcept', outline={0: 'VF_LOOP0;'}),
        'enqueue_full': dict(file=CPP, sig=r'void thread_unsafe_event_loop::enqueue\(operation_base\* op\) noexcept'),
        'run_until_empty': dict(file=CPP, sig=r'void thread_unsafe_event_loop::run_until_empty\(\) noexcept', outline={0: 'VF_RLOOP;'}),
        'cancel_callback': dict(file=CPP, sig=r'void _thread_unsafe_event_loop::cancel_callback::operator\(\)\(\) noexcept', ctx=cb_ctx),
        'op_start': dict(file=H, sig=r'inline void operation_base::start\(\) noexcept', ctx=op_ctx),
        'after_start': dict(file=H, sig=r'void start\(\) noexcept', within=AFTER, ctx=opx('after')),
        'after_execute_impl': dict(file=H, sig=r'static void execute_impl\(operation_base\* p\) noexcept', within=AFTER, ctx=opx('after')),
        'at_start': dict(file=H, sig=r'void start\(\) noexcept', within=AT, ctx=opx('at')),
        'at_execute_impl': dict(file=H, sig=r'static void execute_impl\(operation_base\* p\) noexcept', within=AT, ctx=opx('at')),
    },
    closed_world=[
        dict(file=CPP, members=['head_', 'prevPtr_', 'next_']),
        dict(file=H, members=['prevPtr_', 'next_'], within=OB, allow=[r'operation_base\* next_[^;]*;', r'operation_base\*\* prevPtr_[^;]*;']),
    ],
    units=[
        dict(name='enqueue', harness='h_enqueue', enforce='loop_enqueue', defines=['VF_VERIFY_ENQUEUE'], props=['C07']),
        dict(name='enqueue_walk_step', harness='h_enqueue_loop0_body', enforce='enqueue__loop0_body', defines=['VF_VERIFY_ENQUEUE'], props=['C07']),
        dict(name='enqueue_bounded', harness='h_enqueue_bounded', mode='bounded', unwind=6, defines=['VF_VERIFY_ENQUEUE', 'VF_BOUNDED', 'NB=4'], props=['C07'], timeout=600),
        dict(name='enqueue_bounded_thorough', harness='h_enqueue_bounded', mode='bounded', unwind=10, defines=['VF_VERIFY_ENQUEUE', 'VF_BOUNDED', 'NB=8'], props=['C07'], timeout=3000, tier='thorough'),
        dict(name='cancel_callback', harness='h_cancel_callback', enforce='cancel_callback_call', replace=['loop_enqueue'], props=['C07', 'C02']),
        dict(name='run_until_empty', harness='h_run_until_empty', enforce='loop_run_until_empty', props=['C07', 'C06']),
        dict(name='run_body', harness='h_run_body', enforce='run_until_empty__loop0_body', props=['C07', 'C06']),
        dict(name='op_start', harness='h_op_start', enforce='operation_base_start', replace=['loop_enqueue'], props=['C07', 'C06']),
        dict(name='after_start', harness='h_after_start', enforce='after_start', replace=['operation_base_start', 'cancel_callback_call'], props=['C07', 'C02', 'C04']),
        dict(name='at_start', harness='h_at_start', enforce='at_start', replace=['operation_base_start', 'cancel_callback_call'], props=['C07', 'C02', 'C04']),
        dict(name='after_execute_impl', harness='h_after_execute_impl', enforce='after_execute_impl', props=['C07', 'C04', 'C06']),
        dict(name='at_execute_impl', harness='h_at_execute_impl', enforce='at_execute_impl', props=['C07', 'C04', 'C06']),
        dict(name='lemma_tuel', harness='lemma_tuel', mode='lemma'),
    ],
    assumptions=[
        'thread_unsafe_event_loop is single-threaded: no interference; steady_clock::time_point is represented by an order-isomorphic int64 scalar; now() is non-decreasing; sleep_until(t) returns with now() >= t',
        'M2 meta-argument: the successor of a list member is a member; inserting x between adjacent a <= x < b of a sorted list keeps it sorted with x after every equal element (FIFO ties); cross-checked by the bounded global unit enqueue_bounded (labelled bounded)',
        'the stop callback is invoked at most once per registration (C03); EV_cb_construct may run it inline (token already stopped)',
        'an operation is started at most once; duration arithmetic now() + duration_ does not overflow the clock representation',
    ],
    drops=['std::chrono time_point -> int64 scalar', 'op->execute() -> event stub EV_execute (may destroy the operation)', 'manual_lifetime construct/destruct of the stop callback -> EV_cb_construct / EV_cb_destruct',
           'receiver completion signals, stop-token query -> event stubs; if constexpr -> symbolic config', 'member default initialisers read from the class body (a member without one is left nondeterministic)'],
)
