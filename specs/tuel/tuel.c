/* C07 / C02(a) / C04 / C06: thread_unsafe_event_loop (source/thread_unsafe_event_loop.cpp,
 * include/unifex/thread_unsafe_event_loop.hpp): sorted timer list head_ / next_ / prevPtr_, single-threaded.
 * time_point_t is an order-isomorphic int64 (assumption).  M2 windows; the insertion walk and the run loop are cut-point
 * segments; enqueue also has a bounded global cross-check (labelled bounded). */
#include <stddef.h>
#include <stdint.h>
struct loop;
struct operation_base { struct loop* loop_; struct operation_base* next_; struct operation_base** prevPtr_; int64_t dueTime_; };
struct loop { struct operation_base* head_; };
struct top { struct operation_base base; int64_t duration_; int receiver_; int callback_; };   /* _after_op / _at_op */
struct cancel_callback { struct operation_base* op_; };
enum { CB_NONE, CB_REGISTERED, CB_DESTROYED };
struct vf_ghost {
  int64_t now;                      /* ghost current time: VF_now() readings are non-decreasing */
  unsigned enq_calls;               /* enqueue() calls made by the verified code */
  _Bool cur_is_c;                   /* the member after which the walk stopped: window node C (some later member) or W0 (the head) */
  struct operation_base* cur_next0; /* its successor before the splice */
  unsigned exec; struct operation_base* exec_op; _Bool dead; struct operation_base snap;
  int cb_state; unsigned cb_inline_runs;
  unsigned completed, value, done, polls; _Bool stop_seen;
  int64_t due0;
};
static struct vf_ghost G;
#include "vf.h"
static void vf_interfere(void) {}

static struct loop L;
static struct top OPX;                 /* the operand operation */
#define T (OPX.base)
static struct operation_base W0, W1, C, N, PN, S;
static struct cancel_callback CBK;
static char vf_opaque_obj;
#define OPAQUE ((struct operation_base*)&vf_opaque_obj)
#define OPAQUE_LINK ((struct operation_base**)&vf_opaque_obj)
static _Bool VF_CFG_stop_never_possible;
#define TIME_MAX ((int64_t)1 << 62)

static int64_t VF_now(void) { int64_t t = VF_nondet_i64(); __CPROVER_assume(t >= G.now && t < TIME_MAX); G.now = t; return t; }
static void EV_sleep_until(int64_t t) { VF_CANARY("sleep_until reachable"); if (G.now < t) G.now = t; }

/* no list link points at the operand (it is not queued) */
#define NOT_LINKED_T (L.head_ != &T && W0.next_ != &T && W1.next_ != &T && C.next_ != &T && N.next_ != &T && PN.next_ != &T && S.next_ != &T)

/* ---------------- enqueue ---------------- */
#define LIST_OK ((L.head_ == NULL || (L.head_ == &W0 && W0.prevPtr_ == &L.head_) || (L.head_ == &S && S.prevPtr_ == &L.head_) || (L.head_ == &PN && PN.prevPtr_ == &L.head_)) \
                 && (PN.next_ != &S || S.prevPtr_ == &PN.next_))
#define ENQ_REQ(self, op) ((self) == &L && (op) == &T)
/* inserted at the head: strictly earlier than the old head (an equal due time goes behind: FIFO ties) */
#define SUCC_OK(x) (T.next_ == &(x) && (x).prevPtr_ == &T.next_ && T.dueTime_ < (x).dueTime_)
#define ENQ_HEAD(h0) (L.head_ == &T && T.prevPtr_ == &L.head_ && T.next_ == (h0) && ((h0) == NULL || SUCC_OK(W0) || SUCC_OK(S) || SUCC_OK(PN)))
/* inserted after member cur: cur.due <= T.due < next.due, links consistent both ways, head unchanged */
#define AFTER_NODE(x) ((x).next_ == &T && T.prevPtr_ == &(x).next_ && (x).dueTime_ <= T.dueTime_)
#define ENQ_AFTER(h0) (L.head_ == (h0) && (h0) != NULL && (G.cur_is_c ? AFTER_NODE(C) : AFTER_NODE(W0)) \
                       && T.next_ == G.cur_next0 && (T.next_ == NULL || SUCC_OK(N)))

#ifdef VF_VERIFY_ENQUEUE
/* cut point of the insertion walk: `current` is a member with current.due <= op.due */
static void enqueue__loop0(struct loop* self, struct operation_base* op, struct operation_base** current_p) {
  VF_P(*current_p == &W0 && L.head_ == &W0 && W0.dueTime_ <= T.dueTime_, "cut point (insertion walk head): the walk starts at the head, whose due time is not later than the new operation's");
  /* an arbitrary number of steps later: current is the head itself or some later member */
  struct operation_base* cur;
  if (VF_nondet_bool()) { G.cur_is_c = 0; cur = &W0; }
  else { G.cur_is_c = 1; cur = &C; C.dueTime_ = VF_nondet_i64(); C.prevPtr_ = OPAQUE_LINK; __CPROVER_assume(W0.dueTime_ <= C.dueTime_ && C.dueTime_ <= T.dueTime_); }
  cur->next_ = VF_nondet_bool() ? &N : NULL;
  N.prevPtr_ = &cur->next_; N.next_ = VF_nondet_bool() ? OPAQUE : NULL; N.dueTime_ = VF_nondet_i64();
  __CPROVER_assume(cur->dueTime_ <= N.dueTime_);
  *current_p = cur;
  G.cur_next0 = cur->next_;
  struct operation_base* current = *current_p;
  __CPROVER_assume(!(/*@LOOPCOND enqueue.loop0.cond*/));
}
#define VF_LOOP0 enqueue__loop0(self, op, &current)

#endif

void loop_enqueue(struct loop* self, struct operation_base* op)
__CPROVER_requires(NOT_LINKED_T) /*P*/ /* an operation is never linked into the timer list twice */
__CPROVER_requires(LIST_OK) /*P*/ /* the timer list is consistent (every back pointer addresses the link that points at its node) whenever enqueue is entered */
__CPROVER_requires(ENQ_REQ(self, op) && G.enq_calls < 1000)
__CPROVER_assigns(L.head_, OPX.base.next_, OPX.base.prevPtr_, W0, W1, C, N, PN, S, G.cur_is_c, G.cur_next0, G.enq_calls)
__CPROVER_ensures(ENQ_HEAD(__CPROVER_old(L.head_)) || ENQ_AFTER(__CPROVER_old(L.head_))) /* the operation is linked exactly once, in due-time order, behind every operation with an equal or earlier due time */
__CPROVER_ensures(G.enq_calls == __CPROVER_old(G.enq_calls) + 1 && T.dueTime_ == __CPROVER_old(T.dueTime_))
#ifdef VF_VERIFY_ENQUEUE
{
  G.enq_calls++;
  {
/*@BODY enqueue*/
  }
}
#else
;
#endif

#ifdef VF_VERIFY_ENQUEUE
int enqueue__loop0_body(struct loop* self, struct operation_base* op, struct operation_base** current_p)
__CPROVER_requires(self == &L && op == &T && *current_p == &C && C.next_ == &N && C.dueTime_ <= T.dueTime_ && N.dueTime_ <= T.dueTime_)
__CPROVER_assigns(*current_p)
__CPROVER_ensures(__CPROVER_return_value == VF_X_CONTINUE)
__CPROVER_ensures(*current_p == &N && N.dueTime_ <= T.dueTime_) /* one step: move to the successor, which is again a member not later than the new operation */
{
#define current (*current_p)
/*@LOOPBODY enqueue.loop0.body*/
#undef current
}

#ifdef VF_BOUNDED
void loop_enqueue_full(struct loop* self, struct operation_base* op)
/*@BODY enqueue_full*/
#endif
#endif

/* ---------------- cancel callback ---------------- */
#define T_QUEUED_AT_HEAD (L.head_ == &T && T.prevPtr_ == &L.head_)
#define T_QUEUED_AFTER_PN (PN.next_ == &T && T.prevPtr_ == &PN.next_ && L.head_ != &T)
#define T_SUCC_OK (T.next_ == NULL || (T.next_ == &S && S.prevPtr_ == &T.next_))
void cancel_callback_call(struct cancel_callback* self)
__CPROVER_requires(T.prevPtr_ == NULL || ((T_QUEUED_AT_HEAD || T_QUEUED_AFTER_PN) && T_SUCC_OK)) /*P*/ /* prevPtr_ encodes "queued": null, or the address of the link that points at this operation (never an uninitialised value) */
__CPROVER_requires(self == &CBK && CBK.op_ == &T && T.loop_ == &L && (T.prevPtr_ == NULL ==> NOT_LINKED_T) && G.enq_calls == 0 && G.now >= 0 && G.now < TIME_MAX)
__CPROVER_requires(PN.prevPtr_ == &L.head_ || PN.prevPtr_ == OPAQUE_LINK)
__CPROVER_assigns(OPX.base.dueTime_, G.now; OPX.base.prevPtr_ != NULL: L.head_, OPX.base.next_, OPX.base.prevPtr_, W0, W1, C, N, PN, S, G.cur_is_c, G.cur_next0, G.enq_calls)
__CPROVER_ensures(G.now >= __CPROVER_old(G.now) && G.now < TIME_MAX)
__CPROVER_ensures(T.dueTime_ <= __CPROVER_old(T.dueTime_) && T.dueTime_ <= G.now) /* after a stop request the operation is due at once: it never waits for its original due time */
__CPROVER_ensures((__CPROVER_old(T.prevPtr_) != NULL && T.dueTime_ < __CPROVER_old(T.dueTime_)) ==> G.enq_calls == 1) /* a queued operation is moved: unlinked and re-queued exactly once */
__CPROVER_ensures((__CPROVER_old(T.prevPtr_) == NULL || T.dueTime_ == __CPROVER_old(T.dueTime_)) ==> (G.enq_calls == 0 && T.prevPtr_ == __CPROVER_old(T.prevPtr_) && T.next_ == __CPROVER_old(T.next_) && L.head_ == __CPROVER_old(L.head_))) /* not queued (or already due): only the due time is rewritten */
/*@BODY cancel_callback*/

/* ---------------- run_until_empty ---------------- */
#define RUN_INV (L.head_ == NULL || (L.head_ == &W0 && W0.prevPtr_ == &L.head_ && (W0.next_ == NULL || (W0.next_ == &W1 && W1.prevPtr_ == &W0.next_ && W0.dueTime_ <= W1.dueTime_))))
static void EV_execute(struct operation_base* item) {
  VF_CANARY("timer execution reachable");
  VF_P(item == &W0, "the operation executed is the head of the sorted list (earliest due time first)");
  VF_P(W0.dueTime_ <= G.now, "a timer never fires before its due time according to the loop's clock");
  VF_P(L.head_ != &W0 && (L.head_ == NULL || L.head_->prevPtr_ == &L.head_), "the loop keeps no reference to an operation it is about to complete; the remaining list is consistent");
  VF_P(G.exec == 0, "a dequeued timer is executed exactly once");
  G.exec++; G.exec_op = item;
  struct operation_base f; W0.next_ = f.next_; W0.prevPtr_ = f.prevPtr_; W0.dueTime_ = f.dueTime_; G.dead = 1; G.snap = W0;   /* its completion may destroy the operation ... */
  /* ... and may start further timers on this loop: any consistent list afterwards */
  if (VF_nondet_bool()) { L.head_ = NULL; } else { L.head_ = &W1; W1.prevPtr_ = &L.head_; W1.next_ = NULL; }
}
static void run_until_empty__loop0(struct loop* self, int64_t* lastTime_p) {
  VF_P(RUN_INV && *lastTime_p <= G.now, "cut point (run loop head): sorted list consistent, lastTime is a past clock reading");
  L.head_ = NULL;
  __CPROVER_assume(!(/*@LOOPCOND run_until_empty.loop0.cond*/));
}
#define VF_RLOOP run_until_empty__loop0(self, &lastTime)

void loop_run_until_empty(struct loop* self)
__CPROVER_requires(self == &L && RUN_INV && G.now >= 0 && G.now < TIME_MAX)
__CPROVER_assigns(L.head_, W0, W1, G)
__CPROVER_ensures(L.head_ == NULL) /* returns only when nothing is left queued */
/*@BODY run_until_empty*/

int run_until_empty__loop0_body(struct loop* self, int64_t* lastTime_p)
__CPROVER_requires(self == &L && RUN_INV && (/*@LOOPCOND run_until_empty.loop0.cond*/) && *lastTime_p <= G.now && G.now >= 0 && G.now < TIME_MAX && G.exec == 0 && !G.dead)
__CPROVER_assigns(L.head_, W0, W1, G, *lastTime_p)
__CPROVER_ensures(__CPROVER_return_value == VF_X_CONTINUE)
__CPROVER_ensures(G.exec == 1 && G.exec_op == &W0) /* one iteration: the head is removed and executed exactly once */
__CPROVER_ensures(*lastTime_p <= G.now)
__CPROVER_ensures(W0.next_ == G.snap.next_ && W0.prevPtr_ == G.snap.prevPtr_ && W0.dueTime_ == G.snap.dueTime_) /* the executed operation may be gone: never touched afterwards */
{
#define lastTime (*lastTime_p)
/*@LOOPBODY run_until_empty.loop0.body*/
#undef lastTime
}

/* ---------------- operations ---------------- */
void operation_base_start(struct operation_base* self)
__CPROVER_requires(NOT_LINKED_T) /*P*/ /* an operation is started (queued) at most once */
__CPROVER_requires(self == &T && T.loop_ == &L && LIST_OK && G.enq_calls < 1000)
__CPROVER_assigns(L.head_, OPX.base.next_, OPX.base.prevPtr_, W0, W1, C, N, PN, S, G.cur_is_c, G.cur_next0, G.enq_calls)
__CPROVER_ensures(G.enq_calls == __CPROVER_old(G.enq_calls) + 1 && T.prevPtr_ != NULL && T.dueTime_ == __CPROVER_old(T.dueTime_)) /* start() queues the operation exactly once */
/*@BODY op_start*/

static void EV_cb_construct(struct top* self) {
  VF_P(G.cb_state == CB_NONE, "the stop callback is registered once");
  G.cb_state = CB_REGISTERED;
  if (VF_nondet_bool()) { G.cb_inline_runs++; CBK.op_ = &T; cancel_callback_call(&CBK); }   /* token already stopped: the callback runs inside its registration */
}
static void EV_cb_destruct(struct top* self) { VF_P(G.cb_state == CB_REGISTERED, "the stop callback is deregistered exactly once"); VF_P(G.completed == 0, "deregistration happens before the receiver is completed"); G.cb_state = CB_DESTROYED; }
static _Bool EV_stop_requested(struct top* self) { G.polls++; _Bool r = VF_nondet_bool(); if (r) G.stop_seen = 1; return r; }
static void EV_set_value(struct top* self) { VF_CANARY("set_value reachable"); VF_P(G.completed == 0, "exactly one completion signal"); VF_P(G.cb_state == CB_DESTROYED, "the stop callback is deregistered before the receiver is completed"); VF_P(!G.stop_seen, "done instead of value when stop was requested"); G.completed++; G.value++; }
static void EV_set_done(struct top* self) { VF_CANARY("set_done reachable"); VF_P(G.completed == 0, "exactly one completion signal"); VF_P(G.cb_state == CB_DESTROYED, "the stop callback is deregistered before the receiver is completed"); VF_P(G.stop_seen, "done only when a stop request was observed"); G.completed++; G.done++; }

#define START_REQ(self) ((self) == &OPX && T.loop_ == &L && NOT_LINKED_T && LIST_OK && G.enq_calls == 0 && G.cb_state == CB_NONE && G.now >= 0 && G.now < TIME_MAX && G.completed == 0)
#define START_ASSIGNS L.head_, OPX.base.next_, OPX.base.prevPtr_, OPX.base.dueTime_, W0, W1, C, N, PN, S, G.cur_is_c, G.cur_next0, G.enq_calls, G.now, G.cb_state, G.cb_inline_runs, CBK.op_
void after_start(struct top* self)
__CPROVER_requires(START_REQ(self) && OPX.duration_ > -TIME_MAX && OPX.duration_ < TIME_MAX)
__CPROVER_assigns(START_ASSIGNS)
__CPROVER_ensures(G.enq_calls == 1 && G.cb_state == CB_REGISTERED && G.completed == 0) /* queued exactly once, whether or not the stop callback ran during its registration; nothing is completed by start() */
__CPROVER_ensures(T.dueTime_ <= G.now + OPX.duration_)
__CPROVER_ensures(G.cb_inline_runs > 0 ==> T.dueTime_ <= G.now) /* C07: stop already requested when start() registers the callback: the operation is queued as due at once, it does not wait out its delay */
/*@BODY after_start*/

void at_start(struct top* self)
__CPROVER_requires(START_REQ(self))
__CPROVER_assigns(START_ASSIGNS)
__CPROVER_ensures(G.enq_calls == 1 && G.cb_state == CB_REGISTERED && G.completed == 0)
__CPROVER_ensures(T.dueTime_ <= __CPROVER_old(T.dueTime_))
__CPROVER_ensures(G.cb_inline_runs > 0 ==> T.dueTime_ <= G.now) /* C07: same for schedule_at */
/*@BODY at_start*/

#define EXEC_REQ (G.completed == 0 && G.value == 0 && G.done == 0 && G.polls == 0 && !G.stop_seen && G.cb_state == CB_REGISTERED)
#define EXEC_ENS (G.completed == 1 && G.cb_state == CB_DESTROYED && (VF_CFG_stop_never_possible ? G.value == 1 : (G.polls == 1 && (G.done == 1) == G.stop_seen)))
void after_execute_impl(struct operation_base* p)
__CPROVER_requires(p == &OPX.base && EXEC_REQ)
__CPROVER_assigns(G.completed, G.value, G.done, G.polls, G.stop_seen, G.cb_state)
__CPROVER_ensures(EXEC_ENS) /* exactly one completion, after deregistering the stop callback; done iff stop was requested */
/*@BODY after_execute_impl*/
void at_execute_impl(struct operation_base* p)
__CPROVER_requires(p == &OPX.base && EXEC_REQ)
__CPROVER_assigns(G.completed, G.value, G.done, G.polls, G.stop_seen, G.cb_state)
__CPROVER_ensures(EXEC_ENS)
/*@BODY at_execute_impl*/

/* ---------------- harnesses ---------------- */
static void h_init(void) {
  G.now = VF_nondet_i64(); __CPROVER_assume(G.now >= 0 && G.now < TIME_MAX);
  G.enq_calls = 0; G.cur_is_c = 0; G.cur_next0 = NULL; G.exec = 0; G.exec_op = NULL; G.dead = 0; G.cb_state = CB_NONE; G.cb_inline_runs = 0;
  G.completed = 0; G.value = 0; G.done = 0; G.polls = 0; G.stop_seen = 0;
  L.head_ = /*@EXPR head_init*/;
  /* a freshly constructed operation: member initialisers as written in the class (none = indeterminate) */
  { struct operation_base* vf_n /*@EXPR next_init*/; struct operation_base** vf_p /*@EXPR prevPtr_init*/; T.next_ = vf_n; T.prevPtr_ = vf_p; }
  T.loop_ = &L; T.dueTime_ = VF_nondet_i64(); __CPROVER_assume(T.dueTime_ > -TIME_MAX && T.dueTime_ < TIME_MAX);
  OPX.duration_ = VF_nondet_i64();
  W0.next_ = NULL; W1.next_ = NULL; C.next_ = NULL; N.next_ = NULL; PN.next_ = NULL; S.next_ = NULL;
  W0.prevPtr_ = NULL; W1.prevPtr_ = NULL; C.prevPtr_ = NULL; N.prevPtr_ = NULL; PN.prevPtr_ = OPAQUE_LINK; S.prevPtr_ = NULL;
  W0.dueTime_ = VF_nondet_i64(); W1.dueTime_ = VF_nondet_i64(); PN.dueTime_ = VF_nondet_i64(); S.dueTime_ = VF_nondet_i64();
}
static void list_build(void) {   /* a sorted, consistent list not containing T: empty | [W0] | [W0, W1, ...] */
  if (VF_nondet_bool()) { L.head_ = NULL; return; }
  L.head_ = &W0; W0.prevPtr_ = &L.head_;
  if (VF_nondet_bool()) { W0.next_ = NULL; } else { W0.next_ = &W1; W1.prevPtr_ = &W0.next_; W1.next_ = NULL; __CPROVER_assume(W0.dueTime_ <= W1.dueTime_); }
}
#ifdef VF_VERIFY_ENQUEUE
void h_enqueue(void) { h_init(); list_build(); if (L.head_ == &W0 && W0.next_ == &W1) { W0.next_ = VF_nondet_bool() ? &W1 : NULL; }
  loop_enqueue(&L, &T); VF_CANARY("after enqueue"); if (L.head_ == &T) { VF_CANARY("enqueue at the head"); } else { VF_CANARY("enqueue after a member"); } }
void h_enqueue_loop0_body(void) { h_init(); struct operation_base* cur = &C; C.next_ = &N; C.dueTime_ = VF_nondet_i64(); N.dueTime_ = VF_nondet_i64(); N.next_ = VF_nondet_bool() ? OPAQUE : NULL;
  __CPROVER_assume(C.dueTime_ <= T.dueTime_ && N.dueTime_ <= T.dueTime_); enqueue__loop0_body(&L, &T, &cur); VF_CANARY("after walk step"); }
#ifdef VF_BOUNDED
#ifndef NB
#define NB 4
#endif
static struct operation_base P[NB];
void h_enqueue_bounded(void) {
  h_init();
  unsigned n = VF_nondet_u32(); __CPROVER_assume(n <= NB);
  L.head_ = n ? &P[0] : NULL;
  for (unsigned i = 0; i < NB; i++) {
    if (i < n) { P[i].dueTime_ = VF_nondet_i64(); P[i].next_ = (i + 1 < n) ? &P[i + 1] : NULL; P[i].prevPtr_ = i ? &P[i - 1].next_ : &L.head_; if (i) __CPROVER_assume(P[i - 1].dueTime_ <= P[i].dueTime_); }
  }
  loop_enqueue_full(&L, &T);
  /* global postcondition: sorted, stable (T behind every element with an equal or earlier due time), permutation, back pointers */
  struct operation_base* it = L.head_; struct operation_base** link = &L.head_; unsigned k = 0, seen_t = 0, idx = 0; _Bool ok = 1;
  while (it != NULL && k <= NB + 1) {
    ok = ok && (it->prevPtr_ == link);
    if (it == &T) { seen_t++; ok = ok && (idx == n || T.dueTime_ < P[idx].dueTime_) && (idx == 0 || P[idx - 1].dueTime_ <= T.dueTime_); }
    else { ok = ok && (idx < n && it == &P[idx]); idx++; }
    link = &it->next_; it = it->next_; k++;
  }
  VF_P(ok && seen_t == 1 && idx == n && it == NULL && k == n + 1, "bounded global check: after enqueue the list is the old list with the new operation inserted once, sorted, behind all equal due times, all back pointers consistent");
  VF_CANARY("after bounded enqueue");
}
#endif
#endif
#ifndef VF_VERIFY_ENQUEUE
static void cancel_window(void) {
  if (VF_nondet_bool()) { /* not queued: as constructed, or dequeued */ return; }
  T.next_ = VF_nondet_bool() ? &S : NULL; S.prevPtr_ = &T.next_; S.next_ = VF_nondet_bool() ? OPAQUE : NULL;
  if (VF_nondet_bool()) { L.head_ = &T; T.prevPtr_ = &L.head_; }
  else { PN.next_ = &T; T.prevPtr_ = &PN.next_; if (VF_nondet_bool()) { L.head_ = &PN; PN.prevPtr_ = &L.head_; } else { L.head_ = &W0; W0.prevPtr_ = &L.head_; W0.next_ = OPAQUE; PN.prevPtr_ = OPAQUE_LINK; } }
}
void h_cancel_callback(void) { h_init(); cancel_window(); CBK.op_ = &T; _Bool q = (T.prevPtr_ != NULL); cancel_callback_call(&CBK); VF_CANARY("after cancel callback"); if (q && G.enq_calls) { VF_CANARY("cancel of a queued timer re-queues it"); } if (!q) { VF_CANARY("cancel of a timer that is not queued"); } }
void h_run_until_empty(void) { h_init(); list_build(); loop_run_until_empty(&L); VF_CANARY("after run_until_empty"); }
void h_run_body(void) { h_init(); list_build(); __CPROVER_assume(L.head_ != NULL); int64_t last = VF_nondet_i64(); __CPROVER_assume(last <= G.now); run_until_empty__loop0_body(&L, &last); VF_CANARY("after run loop body"); }
void h_op_start(void) { h_init(); list_build(); T.next_ = NULL; T.prevPtr_ = NULL; operation_base_start(&T); VF_CANARY("after operation_base::start"); }
void h_after_start(void) { h_init(); list_build(); after_start(&OPX); VF_CANARY("after _after_op::start"); if (G.cb_inline_runs) { VF_CANARY("start with an already stopped token"); } }
void h_at_start(void) { h_init(); list_build(); at_start(&OPX); VF_CANARY("after _at_op::start"); if (G.cb_inline_runs) { VF_CANARY("start with an already stopped token"); } }
void h_after_execute_impl(void) { h_init(); G.cb_state = CB_REGISTERED; VF_CFG_stop_never_possible = VF_nondet_bool(); after_execute_impl(&OPX.base); VF_CANARY("after execute_impl"); }
void h_at_execute_impl(void) { h_init(); G.cb_state = CB_REGISTERED; VF_CFG_stop_never_possible = VF_nondet_bool(); at_execute_impl(&OPX.base); VF_CANARY("after execute_impl"); }
void lemma_tuel(void) {
  h_init();
  VF_P(L.head_ == NULL, "lemma: a fresh loop has an empty timer list");
  VF_P(T.prevPtr_ == NULL && T.next_ == NULL, "lemma: a freshly constructed operation is marked not-queued (its links are initialised)");
  VF_CANARY("lemma reachable");
}
#endif
