CPP = 'source/async_auto_reset_event.cpp'
H = 'include/unifex/async_auto_reset_event.hpp'
CLS = r'struct async_auto_reset_event final \{'
VIEW = r'struct async_auto_reset_event::stream_view final \{'

# the event's own member functions: same rewrite as group auto_reset_event (monitor rule is global); here their BODIES are inlined
# into the stream_view lambdas that call them, so the lambdas are verified against the real code, not against a contract
aare_ctx = dict(
    cls='AARE', members=['mutex_', 'state_', 'event_'], enums={'state': 'state'},
    obj_methods={'set': 'EV_event_set', 'reset': 'EV_event_reset', 'ready': 'EV_event_ready'},
)
# the lambda bodies of stream_view::next() / cleanup(): captures become parameters of the same name (evt: pointer, stopCallback: reference -> pointer)
lam_ctx = dict(cls='', members=[], methods=[], pre=[
    (r'evt->set_done\(\)', 'AARE_set_done(evt)'),
    (r'evt->set\(\)', 'AARE_set(evt)'),      # not used by the pinned code: keeps a variant that calls set() compilable (it is then refuted, not undecided)
    (r'evt->try_reset\(\)', 'AARE_try_reset(evt)'),
    (r'stopCallback\.reset\(\)', 'EV_cb_reset(stopCallback)'),
    (r'unifex::just_void_or_done\(', 'EV_just_void_or_done('),
    (r'unifex::just_done\(\)', 'EV_just_done()'),
])
# the two enclosing lambdas: what is composed with what (tokens)
factory_ctx = dict(cls='', members=[], methods=[], pre=[
    (r'(?s)auto stopCallback = \[evt\]\(\) noexcept \{[^{}]*\};', 'int stopCallback = EV_make_stop_lambda(evt);'),      # its body is the unit stop_callback_body
    (r'(?s)using stop_token_t =[^;]*;', ''),
    (r'(?s)using stop_callback_t =[^;]*;', ''),
    (r'(?s)return std::optional<stop_callback_t>\{\s*std::in_place,\s*(\w+),\s*(\w+)\s*\};', r'return EV_register_callback(\1, \2);'),
])
wait_ctx = dict(cls='', members=[], methods=[], pre=[
    (r'(?s)\[evt, &stopCallback\]\(\) noexcept \{[^{}]*\}', 'EV_make_continuation(evt, stopCallback)'),                     # its body is the unit next_continuation
    (r'(\w+)->event_\.async_wait\(\)', r'EV_async_wait(&\1->event_)'),
    (r'unifex::let_value\(', 'EV_let_value('),
])

SPEC = dict(
    properties=['C13'],
    ctx={},
    extracts={
        'state_enum': dict(file=H, kind='expr', sig=r'enum class state \{ ([^}]*) \};', within=CLS,
                           ctx=dict(post=[(r'\b([A-Z][A-Z_]*)\b', r'state_\1')])),
        'set': dict(file=CPP, sig=r'void async_auto_reset_event::set\(\) noexcept', ctx=aare_ctx),
        'set_done': dict(file=CPP, sig=r'void async_auto_reset_event::set_done\(\) noexcept', ctx=aare_ctx),
        'try_reset': dict(file=CPP, sig=r'bool async_auto_reset_event::try_reset\(\) noexcept', ctx=aare_ctx),
        'next_continuation': dict(file=H, sig=r'\[evt, &stopCallback\]\(\) noexcept', within=VIEW, ctx=lam_ctx, must_contain=[r'try_reset']),
        'stop_callback_body': dict(file=H, sig=r'auto stopCallback = \[evt\]\(\) noexcept', within=VIEW, ctx=lam_ctx, must_contain=[r'evt->']),
        'cleanup_body': dict(file=H, sig=r'unifex::defer\(\[evt = evt_\]\(\) noexcept', within=VIEW, ctx=lam_ctx, must_contain=[r'just_done']),
        'callback_factory': dict(file=H, sig=r'\[stopToken, evt\]\(\) noexcept', within=VIEW, ctx=factory_ctx, must_contain=[r'std::in_place']),
        'wait_then': dict(file=H, sig=r'\[evt\]\(auto& stopCallback\) noexcept', within=VIEW, ctx=wait_ctx, must_contain=[r'async_wait']),
    },
    closed_world=[
        # the code side of "single consumer": try_reset() is private and called only from the next() continuation
        dict(file=H, members=['try_reset'], allow=[r'bool try_reset\(\) noexcept;']),
        dict(file=CPP, members=['try_reset', 'state_', 'event_', 'mutex_']),
    ],
    units=[
        dict(name='next_continuation', harness='h_next_continuation', enforce='ars_next_continuation'),
        dict(name='stop_callback_body', harness='h_stop_callback_body', enforce='ars_stop_callback_body'),
        dict(name='cleanup_body', harness='h_cleanup_body', enforce='ars_cleanup_body'),
        dict(name='set_counts', harness='h_set', enforce='AARE_set'),
        dict(name='callback_factory', harness='h_callback_factory', enforce='ars_callback_factory'),
        dict(name='wait_then', harness='h_wait_then', enforce='ars_wait_then'),
        dict(name='lemma_ars_elements', harness='lemma_ars_elements', mode='lemma'),
    ],
    assumptions=[
        'std::mutex / std::lock_guard behave as a monitor (as in group auto_reset_event): acquire = other threads may have run, the protected state is havocked subject to the monitor invariant "inner event ready <=> state is SET or DONE" (established by the critical sections verified in group auto_reset_event and again here)',
        'stream contract: next() senders do not overlap (single consumer): between the completion of the consumer\'s async_wait and its try_reset() nobody else resets the event, so the continuation finds it SET or DONE (try_reset() asserts it; closed world: try_reset is private and called only from the continuation)',
        'the inner async_manual_reset_event obeys its contract (group event_v1); let_value runs the continuation exactly once after async_wait() completed with a value, and completes the consumer with the sender the continuation returns (just_void_or_done(true) = one element, just_void_or_done(false) = done); defer / just_done / let_value_with / let_value_with_stop_token obey their contracts (groups let_value, let_with_stop)',
        'the stop callback type runs the registered lambda at most once, on a stop request, and its destructor (optional::reset) waits for a running invocation (stop_token group)',
        'NOT extractable (pure compositions, no statement of their own): the outermost lambda of next() (let_value_with_stop_token -> let_value_with(factory, wait_then)), the defer() call of cleanup(), stream() and the stream_view constructor',
        'liveness (a set() eventually wakes the waiting next()) is the inner event\'s property (C16, groups event_v1 / auto_reset_event); here: partial correctness of what each completed next() reports',
    ],
    drops=['noexcept', 'enum class scoping', 'RAII unlock made explicit (global lock rule)', 'lambda captures -> parameters of the same name; captured reference -> pointer',
           'senders are tokens: just_void_or_done(b) -> J_VALUE / J_DONE, just_done() -> J_DONE; the stop token and the callback object are tokens',
           'the two `using` aliases and the nested lambda texts inside the enclosing lambdas (each nested lambda body is its own unit)'],
)
