/* C13 (scoped): async_auto_reset_event::stream_view -- the lambda bodies of next() and cleanup()
 * (include/unifex/async_auto_reset_event.hpp) on top of the event's critical sections (source/async_auto_reset_event.cpp).
 * Group auto_reset_event (C16) verifies set / set_done / try_reset against the monitor; what C13 adds is what a stream
 * consumer observes:
 *   - the continuation that runs when the consumer's wait on the inner event completed destroys the stop callback (once) and
 *     reports ONE ELEMENT exactly when try_reset() consumed a SET (SET -> UNSET, inner event reset: the next wait blocks until
 *     another set()), and DONE exactly when the event is permanently done -- never anything else;
 *   - a stop request (the registered callback) and cleanup() both put the event into the absorbing DONE state, and cleanup()
 *     completes with done;
 *   - lemma: elements handed out <= effective set() calls (each set() hands out at most one element; set() on a SET event
 *     coalesces), and once DONE every next() reports done.
 * The bodies of try_reset / set_done / set are INLINED into the lambdas that call them (extracted again here), so the lambdas
 * are checked against the real critical sections.  Bodies marked @BODY/@EXPR are extracted from /repo on every run. */
#include <stddef.h>
#include <stdint.h>
enum { CB_NONE, CB_REGISTERED, CB_DESTROYED };
enum { J_NONE, J_VALUE, J_DONE };
struct vf_ghost {
  _Bool ev_ready;                         /* readiness of the inner event */
  unsigned ev_set_calls, ev_reset_calls;
  _Bool known_ready;                      /* the consumer's async_wait completed and it is the single consumer */
  int acq_state; _Bool acq_ready; int rel_state; _Bool rel_ready;
  int cb; unsigned cb_resets;             /* the std::optional<stop_callback> of this next() */
  unsigned just_calls; int just_kind;
  /* composition tokens */
  unsigned lambdas, registers, waits, conts, lets; void* lambda_evt; int lambda_tok, reg_token, reg_fn, reg_tok; void* wait_on; int wait_tok; void* cont_evt; void* cont_cb; int cont_tok, let_a, let_b, let_tok;
};
static struct vf_ghost G;
#include "vf.h"
#include "vf_monitor.h"
static void vf_interfere(void) { VF_P(0, "no atomic access is expected: the protocol is monitor based"); }

enum { /*@EXPR state_enum*/ };
struct amre { int opaque; };
struct aare { struct vf_mutex mutex_; int state_; struct amre event_; };
struct cbslot { int opaque; };
static struct aare A;
static struct cbslot CB;

/* ---------------- monitor (same predicates as group auto_reset_event) ---------------- */
#define LI(s, r)            ((r) == ((s) != state_UNSET))
#define STEP_SET(o, n)      ((o) != state_DONE ? (n) == state_SET : (n) == state_DONE)
#define STEP_SET_DONE(o, n) ((n) == state_DONE)
#define STEP_RESET_OK(o, n) ((o) == state_SET && (n) == state_UNSET)
#define STEP_RESET_NO(o, n) ((o) == state_DONE && (n) == state_DONE)
static void vf_monitor_enter(struct vf_mutex* m) {
  VF_P(m == &A.mutex_, "the monitor's own mutex");
  int s = VF_nondet_int();
  __CPROVER_assume(s == state_UNSET || s == state_SET || s == state_DONE);
  __CPROVER_assume(G.known_ready ==> s != state_UNSET);
  A.state_ = s; G.ev_ready = (s != state_UNSET);
  G.acq_state = s; G.acq_ready = G.ev_ready;
}
static void vf_monitor_exit(struct vf_mutex* m) {
  VF_P(LI(A.state_, G.ev_ready), "monitor invariant restored at release: inner event ready <=> state is SET or DONE");
  VF_P(G.acq_state == state_DONE ==> A.state_ == state_DONE, "C13: DONE is absorbing (after set_done / cleanup / a stop request the stream stays done)");
  G.rel_state = A.state_; G.rel_ready = G.ev_ready;
}
static void vf_cv_wait_check(struct vf_cv* cv, struct vf_mutex* m) { VF_P(0, "no condition variable here"); }
static void EV_event_set(struct amre* e) { VF_P(e == &A.event_ && A.mutex_.held, "the inner event is set only under the monitor"); G.ev_ready = 1; G.ev_set_calls++; }
static void EV_event_reset(struct amre* e) { VF_P(e == &A.event_ && A.mutex_.held, "the inner event is reset only under the monitor"); G.ev_ready = 0; G.ev_reset_calls++; }
static _Bool EV_event_ready(struct amre* e) { VF_P(e == &A.event_ && A.mutex_.held, "the inner event's readiness is read under the monitor"); return G.ev_ready; }

/* ---------------- event stubs of the lambdas ---------------- */
static void EV_cb_reset(struct cbslot* c) {
  VF_P(c == &CB, "the stop callback of THIS next()");
  VF_P(G.cb == CB_REGISTERED && G.cb_resets == 0, "C02/C04: the stop callback is destroyed exactly once");
  G.cb = CB_DESTROYED; G.cb_resets++;
}
static int EV_just_void_or_done(_Bool is_value) {
  VF_P(G.just_calls == 0, "one result sender per next()");
  G.just_calls++; G.just_kind = is_value ? J_VALUE : J_DONE;
  return G.just_kind;
}
static int EV_just_done(void) { VF_P(G.just_calls == 0, "one result sender"); G.just_calls++; G.just_kind = J_DONE; return J_DONE; }
static int EV_make_stop_lambda(struct aare* evt) { G.lambdas++; G.lambda_evt = evt; G.lambda_tok = VF_nondet_int(); return G.lambda_tok; }
static int EV_register_callback(int token, int fn) { VF_P(G.registers == 0, "one stop callback per next()"); G.registers++; G.reg_token = token; G.reg_fn = fn; G.reg_tok = VF_nondet_int(); return G.reg_tok; }
static int EV_async_wait(struct amre* e) { VF_P(G.waits == 0, "one wait per next()"); G.waits++; G.wait_on = e; G.wait_tok = VF_nondet_int(); return G.wait_tok; }
static int EV_make_continuation(struct aare* evt, struct cbslot* cb) { G.conts++; G.cont_evt = evt; G.cont_cb = cb; G.cont_tok = VF_nondet_int(); return G.cont_tok; }
static int EV_let_value(int a, int b) { VF_P(G.lets == 0, "one let_value"); G.lets++; G.let_a = a; G.let_b = b; G.let_tok = VF_nondet_int(); return G.let_tok; }

/* ---------------- the event's critical sections (inlined into the lambdas; set() has its stream contract below) ---------------- */
static void AARE_set_done(struct aare* self)
/*@BODY set_done*/

static _Bool AARE_try_reset(struct aare* self)
/*@BODY try_reset*/

#define MON_REQ(self) ((self) == &A && !A.mutex_.held && A.mutex_.acquired == 0 && A.mutex_.released == 0 && G.ev_set_calls == 0 && G.ev_reset_calls == 0 && G.just_calls == 0)
#define MON_ENS       (!A.mutex_.held && A.mutex_.acquired == 1 && A.mutex_.released == 1)
#define NO_COMPOSE    (G.lambdas == 0 && G.registers == 0 && G.waits == 0 && G.conts == 0 && G.lets == 0)

/* producer side: set() creates a pending element only from UNSET; on a SET event it coalesces; on a DONE event it does nothing */
void AARE_set(struct aare* self)
__CPROVER_requires(MON_REQ(self) && !G.known_ready && NO_COMPOSE)
__CPROVER_assigns(A, G)
__CPROVER_ensures(MON_ENS && NO_COMPOSE && G.just_calls == 0 && G.cb_resets == __CPROVER_old(G.cb_resets))
__CPROVER_ensures(STEP_SET(G.acq_state, G.rel_state) && LI(G.rel_state, G.rel_ready))
__CPROVER_ensures(G.acq_state == state_DONE ==> (G.ev_set_calls == 0 && G.ev_reset_calls == 0))
__CPROVER_ensures(G.acq_state != state_DONE ==> (G.ev_set_calls == 1 && G.ev_reset_calls == 0))      /* the waiting next() is woken */
/*@BODY set*/

/* [evt, &stopCallback]() noexcept { stopCallback.reset(); return just_void_or_done(evt->try_reset()); }
 * runs when the consumer's async_wait() completed */
int ars_next_continuation(struct aare* evt, struct cbslot* stopCallback)
__CPROVER_requires(MON_REQ(evt) && stopCallback == &CB && G.known_ready && G.cb == CB_REGISTERED && G.cb_resets == 0 && NO_COMPOSE)
__CPROVER_assigns(A, G)
__CPROVER_ensures(MON_ENS && NO_COMPOSE)
__CPROVER_ensures(G.cb == CB_DESTROYED && G.cb_resets == 1)                                                   /* the stop callback is gone before the consumer is completed */
__CPROVER_ensures(G.just_calls == 1 && __CPROVER_return_value == G.just_kind && (G.just_kind == J_VALUE || G.just_kind == J_DONE))
__CPROVER_ensures((__CPROVER_return_value == J_VALUE) == (G.acq_state == state_SET))                          /* C13: one element exactly when a SET was there to consume */
__CPROVER_ensures((__CPROVER_return_value == J_DONE) == (G.acq_state == state_DONE))                          /* C13: done exactly when permanently done */
__CPROVER_ensures(__CPROVER_return_value == J_VALUE ==> (STEP_RESET_OK(G.acq_state, G.rel_state) && G.ev_reset_calls == 1 && G.ev_set_calls == 0 && !G.rel_ready))  /* the SET is consumed: no second element without another set() */
__CPROVER_ensures(__CPROVER_return_value == J_DONE ==> (STEP_RESET_NO(G.acq_state, G.rel_state) && G.ev_reset_calls == 0 && G.ev_set_calls == 0 && G.rel_ready))    /* stays done and ready: every later next() completes at once with done */
/*@BODY next_continuation*/

/* auto stopCallback = [evt]() noexcept { evt->set_done(); };  -- a stop request on the consumer's token ends the whole stream */
void ars_stop_callback_body(struct aare* evt)
__CPROVER_requires(MON_REQ(evt) && !G.known_ready && NO_COMPOSE)
__CPROVER_assigns(A, G)
__CPROVER_ensures(MON_ENS && NO_COMPOSE && G.just_calls == 0)
__CPROVER_ensures(G.rel_state == state_DONE && G.rel_ready && G.ev_set_calls == 1 && G.ev_reset_calls == 0)  /* DONE, and the waiting next() is woken (it will report done) */
/*@BODY stop_callback_body*/

/* cleanup(): defer([evt]() noexcept { evt->set_done(); return just_done(); }) */
int ars_cleanup_body(struct aare* evt)
__CPROVER_requires(MON_REQ(evt) && !G.known_ready && NO_COMPOSE)
__CPROVER_assigns(A, G)
__CPROVER_ensures(MON_ENS && NO_COMPOSE)
__CPROVER_ensures(G.rel_state == state_DONE && G.rel_ready && G.ev_set_calls == 1 && G.ev_reset_calls == 0)  /* C13: after cleanup the event is permanently done */
__CPROVER_ensures(G.just_calls == 1 && __CPROVER_return_value == J_DONE)                                     /* cleanup completes with done, after set_done() */
/*@BODY cleanup_body*/

/* [stopToken, evt]() noexcept { ...; return std::optional<stop_callback_t>{std::in_place, stopToken, stopCallback}; } */
int ars_callback_factory(int stopToken, struct aare* evt)
__CPROVER_requires(evt == &A && NO_COMPOSE && G.just_calls == 0)
__CPROVER_assigns(G)
__CPROVER_ensures(G.lambdas == 1 && G.lambda_evt == (void*)&A)                                                /* the callback's body is set_done() on THIS event */
__CPROVER_ensures(G.registers == 1 && G.reg_token == __CPROVER_old(stopToken) && G.reg_fn == G.lambda_tok && __CPROVER_return_value == G.reg_tok)   /* registered on the consumer's stop token */
__CPROVER_ensures(G.waits == 0 && G.conts == 0 && G.lets == 0 && G.just_calls == 0)
/*@BODY callback_factory*/

/* [evt](auto& stopCallback) noexcept { return let_value(evt->event_.async_wait(), <continuation>); } */
int ars_wait_then(struct aare* evt, struct cbslot* stopCallback)
__CPROVER_requires(evt == &A && stopCallback == &CB && NO_COMPOSE && G.just_calls == 0)
__CPROVER_assigns(G)
__CPROVER_ensures(G.waits == 1 && G.wait_on == (void*)&A.event_)                                              /* waits on THIS event's inner event */
__CPROVER_ensures(G.conts == 1 && G.cont_evt == (void*)&A && G.cont_cb == (void*)&CB)                         /* the continuation works on the same event and the same callback slot */
__CPROVER_ensures(G.lets == 1 && G.let_a == G.wait_tok && G.let_b == G.cont_tok && __CPROVER_return_value == G.let_tok)
__CPROVER_ensures(G.lambdas == 0 && G.registers == 0 && G.just_calls == 0)
/*@BODY wait_then*/

/* ---------------- harnesses ---------------- */
static void h_init(_Bool known_ready) {
  A.mutex_.held = 0; A.mutex_.acquired = 0; A.mutex_.released = 0;
  A.state_ = VF_nondet_int(); G.ev_ready = VF_nondet_bool();     /* unprotected reads are meaningless: re-established at the acquire */
  G.ev_set_calls = 0; G.ev_reset_calls = 0; G.known_ready = known_ready; G.acq_state = -1; G.rel_state = -1; G.acq_ready = 0; G.rel_ready = 0;
  G.cb = VF_nondet_int(); G.cb_resets = VF_nondet_u32(); G.just_calls = VF_nondet_u32(); G.just_kind = J_NONE;
  G.lambdas = VF_nondet_u32(); G.registers = VF_nondet_u32(); G.waits = VF_nondet_u32(); G.conts = VF_nondet_u32(); G.lets = VF_nondet_u32();
  G.lambda_evt = NULL; G.wait_on = NULL; G.cont_evt = NULL; G.cont_cb = NULL;
  G.lambda_tok = -1; G.reg_token = -1; G.reg_fn = -1; G.reg_tok = -1; G.wait_tok = -1; G.cont_tok = -1; G.let_a = -1; G.let_b = -1; G.let_tok = -1;
}
void h_set(void) {
  h_init(0); AARE_set(&A); VF_CANARY("after set");
  if (G.acq_state == state_UNSET) { VF_CANARY("set creates a pending element"); } if (G.acq_state == state_SET) { VF_CANARY("set coalesces"); } if (G.acq_state == state_DONE) { VF_CANARY("set after done"); }
}
void h_next_continuation(void) {
  h_init(1); int r = ars_next_continuation(&A, &CB);
  VF_CANARY("after the next() continuation");
  if (r == J_VALUE) { VF_CANARY("an element can be reported"); } else { VF_CANARY("done can be reported"); }
}
void h_stop_callback_body(void) { h_init(0); ars_stop_callback_body(&A); VF_CANARY("after the stop callback"); }
void h_cleanup_body(void) { h_init(0); (void)ars_cleanup_body(&A); VF_CANARY("after cleanup"); }
void h_callback_factory(void) { h_init(0); (void)ars_callback_factory(VF_nondet_int(), &A); VF_CANARY("after the callback factory"); }
void h_wait_then(void) { h_init(0); (void)ars_wait_then(&A, &CB); VF_CANARY("after wait_then"); }

/* ---------------- M4 lemma over the contracts' step predicates ---------------- */
/* one step of any party, summarised by its contract: k = 0 set(), 1 set_done() (stop callback / cleanup), 2 the next() continuation.
 * sets = set() calls, eff = set() calls that created a pending element (UNSET -> SET), elems = elements reported to the consumer. */
void lemma_ars_elements(void) {
  int s0 = VF_nondet_int(), s1 = VF_nondet_int(), k = VF_nondet_int();
  unsigned sets = VF_nondet_u32(), eff = VF_nondet_u32(), elems = VF_nondet_u32();
  __CPROVER_assume(s0 >= state_UNSET && s0 <= state_DONE && s1 >= state_UNSET && s1 <= state_DONE && k >= 0 && k <= 2 && sets < 0xffffffffu);
  /* invariant: every reported element was paid for by an effective set(); a pending SET is an effective set() not yet reported */
#define INV(s, sets, eff, elems) ((eff) <= (sets) && (elems) <= (eff) && ((s) == state_DONE || (eff) - (elems) == ((s) == state_SET ? 1u : 0u)))
  __CPROVER_assume(INV(s0, sets, eff, elems));
  __CPROVER_assume(k == 2 ==> s0 != state_UNSET);                                  /* the continuation runs after the wait completed (single consumer) */
  int result = J_NONE;
  unsigned sets1 = sets, eff1 = eff, elems1 = elems;
  if (k == 0) { __CPROVER_assume(STEP_SET(s0, s1)); sets1 = sets + 1; if (s0 == state_UNSET) eff1 = eff + 1; }
  else if (k == 1) { __CPROVER_assume(STEP_SET_DONE(s0, s1)); }
  else {                                                                            /* ars_next_continuation's postconditions */
    result = (s0 == state_SET) ? J_VALUE : J_DONE;
    __CPROVER_assume(result == J_VALUE ? STEP_RESET_OK(s0, s1) : STEP_RESET_NO(s0, s1));
    if (result == J_VALUE) elems1 = elems + 1;
  }
  VF_CANARY("lemma premises satisfiable");
  if (k == 2 && result == J_VALUE) { VF_CANARY("element step"); } if (k == 2 && result == J_DONE) { VF_CANARY("done step"); }
  VF_P(INV(s1, sets1, eff1, elems1), "lemma: the accounting invariant is preserved by every step");
  VF_P(elems1 <= sets1, "lemma C13: the stream never hands out more elements than set() was called (each set() hands out at most one element)");
  VF_P(s0 == state_DONE ==> (s1 == state_DONE && elems1 == elems && (k != 2 || result == J_DONE)), "lemma C13: after set_done / cleanup / a stop request every next() reports done and no element is ever reported again");
  VF_P((k == 2 && result == J_VALUE) ==> s1 == state_UNSET, "lemma C13: after an element was reported the event is unset: the next next() waits for another set()");
  VF_P(elems1 > elems ==> (k == 2 && s0 == state_SET), "lemma: an element is reported only by the next() continuation, consuming a SET");
}
