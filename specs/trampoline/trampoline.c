/* C06: trampoline_scheduler (include/unifex/trampoline_scheduler.hpp, source/trampoline_scheduler.cpp).
 * Single-threaded (thread_local current_): no interference.  The client code behind execute() may start further
 * operations: recursion through start()'s own contract.  Ghost G.depth = real number of execute() frames of this
 * trampoline that are active on the thread. */
#include <stddef.h>
#include <stdint.h>
struct operation_base { struct operation_base* next_; size_t maxRecursionDepth_; };
struct trampoline_state { size_t recursionDepth_; struct operation_base* head_; };
struct op { struct operation_base base; int receiver_; };
struct vf_ghost {
  size_t depth;             /* real nesting depth of inline executions */
  unsigned op_ran, op_deferred;   /* the operand operation OP was run inline / pushed on the deferred list */
  unsigned w1_ran, w1_deferred;   /* same for W1, the operation the client code may start from inside an execution */
  unsigned drained;         /* operations executed by drain's loop body */
  _Bool state_alive;        /* the outermost start()'s trampoline_state exists */
  unsigned ctor, dtor;
  _Bool dtor_head_empty;
  struct operation_base* exec_op;
  unsigned completed, value, done, polls; _Bool stop_seen;
};
static struct vf_ghost G;
#include "vf.h"
static void vf_interfere(void) {}

static struct trampoline_state* current_ = /*@EXPR current_init*/;   /* thread_local trampoline_state::current_ */
static struct trampoline_state ST;     /* an enclosing trampoline's state (nested / drain harnesses) */
static struct op OPA, OPB, OPC;
#define OP (OPA.base)
#define W0 (OPB.base)
#define W1 (OPC.base)
static char vf_opaque_obj;
#define OPAQUE ((struct operation_base*)&vf_opaque_obj)
static _Bool VF_CFG_stop_never_possible;

void operation_base_start(struct operation_base* self);

void trampoline_state_ctor(struct trampoline_state* self)
/*@BODY state_ctor*/
void trampoline_state_dtor(struct trampoline_state* self)
/*@BODY state_dtor*/
#define VF_STATE_CTOR(p) do { (p)->recursionDepth_ = /*@EXPR depth_init*/; (p)->head_ = /*@EXPR head_init*/; trampoline_state_ctor(p); G.ctor++; G.state_alive = 1; } while (0)
#define VF_STATE_DTOR(p) do { G.dtor_head_empty = ((p)->head_ == NULL); VF_P((p)->head_ == NULL, "every deferred operation has run before the outermost start() returns"); trampoline_state_dtor(p); G.dtor++; G.state_alive = 0; } while (0)

/* client code behind execute(): completes the receiver, which may schedule more work on this trampoline */
static void EV_execute(struct operation_base* op) {
  VF_CANARY("execute reachable");
  VF_P(current_ != NULL, "operations run only under a live trampoline_state");
  VF_P(G.depth == 0 || G.depth + 1 <= op->maxRecursionDepth_, "the trampoline never nests deeper than its configured depth");
  VF_P(current_->recursionDepth_ >= G.depth + 1, "recursionDepth_ over-approximates the real nesting depth");
  G.exec_op = op;
#ifdef VF_VERIFY_DRAIN
  if (G.depth == 0) G.drained++;
#endif
  G.depth++;
  if (VF_nondet_bool()) { W1.maxRecursionDepth_ = VF_nondet_size_t(); W1.next_ = NULL; operation_base_start(&W1); }
  G.depth--;
}
#define operation_base_execute(self) EV_execute(self)

#ifdef VF_VERIFY_DRAIN
void trampoline_state_drain(struct trampoline_state* self);
#else
/* contract stub of drain for the outermost start(): the local state is not addressable from a replaced contract */
static void trampoline_state_drain(struct trampoline_state* self) {
  VF_P(self == current_ && G.depth == 0, "drain runs after the first execution returned, on the live state");
  self->head_ = NULL; self->recursionDepth_ = VF_nondet_size_t(); __CPROVER_assume(self->recursionDepth_ >= 1);
  G.drained = VF_nondet_u32();
}
#endif

/* start(): outermost (current_ == NULL) runs the operation, then everything that was deferred meanwhile;
 * nested: runs inline while the configured depth allows, otherwise defers (pushes on the state's list) */
#define NESTED_FRAME (G.ctor == __CPROVER_old(G.ctor) && G.dtor == __CPROVER_old(G.dtor) && G.state_alive == __CPROVER_old(G.state_alive) && G.dtor_head_empty == __CPROVER_old(G.dtor_head_empty) && G.drained == __CPROVER_old(G.drained))
void operation_base_start(struct operation_base* self)
__CPROVER_requires((current_ == NULL && G.depth == 0 && !G.state_alive) || (current_ != NULL && G.depth >= 1 && current_->recursionDepth_ >= G.depth))
__CPROVER_requires(self == &OP || self == &W1)
__CPROVER_assigns(current_ == NULL: current_; current_ != NULL: current_->recursionDepth_, current_->head_; G, OPA.base.next_, OPC.base.next_, OPC.base.maxRecursionDepth_)
__CPROVER_ensures(G.depth == __CPROVER_old(G.depth))
__CPROVER_ensures(current_ == __CPROVER_old(current_)) /* the thread's trampoline state is restored (outermost: back to none) */
__CPROVER_ensures(__CPROVER_old(current_) == NULL ==> (self == &OP && G.op_ran == __CPROVER_old(G.op_ran) + 1 && G.op_deferred == __CPROVER_old(G.op_deferred) && G.ctor == __CPROVER_old(G.ctor) + 1 && G.dtor == __CPROVER_old(G.dtor) + 1 && G.dtor_head_empty && !G.state_alive)) /* outermost: the operation ran once and nothing is left deferred when its state is destroyed */
__CPROVER_ensures((__CPROVER_old(current_) != NULL && self == &OP) ==> (((G.op_ran == __CPROVER_old(G.op_ran) + 1 && G.op_deferred == __CPROVER_old(G.op_deferred)) || (G.op_ran == __CPROVER_old(G.op_ran) && G.op_deferred == __CPROVER_old(G.op_deferred) + 1)) && NESTED_FRAME)) /* nested: run inline or deferred, exactly one of the two, once */
__CPROVER_ensures((__CPROVER_old(current_) != NULL && self == &W1) ==> (((G.w1_ran == __CPROVER_old(G.w1_ran) + 1 && G.w1_deferred == __CPROVER_old(G.w1_deferred)) || (G.w1_ran == __CPROVER_old(G.w1_ran) && G.w1_deferred == __CPROVER_old(G.w1_deferred) + 1)) && G.op_ran == __CPROVER_old(G.op_ran) && G.op_deferred == __CPROVER_old(G.op_deferred) && G.exec_op == __CPROVER_old(G.exec_op) && NESTED_FRAME))
__CPROVER_ensures(__CPROVER_old(current_) != NULL ==> (current_->recursionDepth_ >= __CPROVER_old(current_->recursionDepth_)))
__CPROVER_ensures((__CPROVER_old(current_) != NULL && self == &OP && G.op_deferred == __CPROVER_old(G.op_deferred) + 1) ==> (current_->head_ == &OP && OP.next_ == __CPROVER_old(current_->head_))) /* deferred: pushed in front of the list */
__CPROVER_ensures((__CPROVER_old(current_) != NULL && self == &W1 && G.w1_deferred == __CPROVER_old(G.w1_deferred) + 1) ==> (current_->head_ == &W1 && W1.next_ == __CPROVER_old(current_->head_)))
__CPROVER_ensures((__CPROVER_old(current_) != NULL && self == &W1 && G.w1_deferred == __CPROVER_old(G.w1_deferred)) ==> (current_->head_ == __CPROVER_old(current_->head_)))
{
  struct operation_base* vf_head0 = current_ ? current_->head_ : NULL;
  _Bool vf_outer = (current_ == NULL);
  {
/*@BODY start*/
  }
  _Bool vf_def = !vf_outer && current_->head_ == self && vf_head0 != self;
  if (self == &OP) { if (vf_def) G.op_deferred++; else G.op_ran++; } else { if (vf_def) G.w1_deferred++; else G.w1_ran++; }
}

#ifdef VF_VERIFY_DRAIN
#define HP (G.drained ? &W1 : &W0)
#define DRAIN_INV (current_ == &ST && G.depth == 0 && ST.recursionDepth_ >= 1 && (ST.head_ == NULL || ((ST.head_ == &W0 || ST.head_ == &W1) && (ST.head_->next_ == NULL || ST.head_->next_ == OPAQUE))))
static void drain__loop0(struct trampoline_state* self) {
  VF_P(DRAIN_INV, "cut point (drain loop head): deferred list consistent, no execution active");
  ST.head_ = NULL; ST.recursionDepth_ = VF_nondet_size_t(); __CPROVER_assume(ST.recursionDepth_ >= 1);
  __CPROVER_assume(DRAIN_INV && !(/*@LOOPCOND drain.loop0.cond*/));
}
#define VF_LOOP0 drain__loop0(self)

void trampoline_state_drain(struct trampoline_state* self)
__CPROVER_requires(self == &ST && DRAIN_INV)
__CPROVER_assigns(ST, G, OPA.base.next_, OPC.base.next_, OPC.base.maxRecursionDepth_)
__CPROVER_ensures(ST.head_ == NULL && G.depth == 0) /* drain returns only with the deferred list empty */
/*@BODY drain*/

int drain__loop0_body(struct trampoline_state* self)
__CPROVER_requires(self == &ST && DRAIN_INV && (/*@LOOPCOND drain.loop0.cond*/) && ST.head_ == &W0 && G.drained == 0)
__CPROVER_assigns(ST, G, OPA.base.next_, OPC.base.next_, OPC.base.maxRecursionDepth_)
__CPROVER_ensures(__CPROVER_return_value == VF_X_CONTINUE)
__CPROVER_ensures(G.drained == 1 && G.exec_op == &W0) /* the head of the deferred list is removed and executed exactly once */
__CPROVER_ensures(G.depth == 0 && current_ == &ST && ST.recursionDepth_ >= 1)
__CPROVER_ensures(ST.head_ == __CPROVER_old(OPB.base.next_) || (ST.head_ == &W1 && W1.next_ == __CPROVER_old(OPB.base.next_))) /* the rest of the list is kept; work deferred during the execution is in front of it */
{
  int vf_r;
  {
/*@LOOPBODY drain.loop0.body*/
  }
}
#endif

/* the schedule operation's execute_impl */
static _Bool EV_stop_requested(struct op* self) { G.polls++; _Bool r = VF_nondet_bool(); if (r) G.stop_seen = 1; return r; }
static void EV_set_value(struct op* self) { VF_CANARY("set_value reachable"); VF_P(G.completed == 0, "exactly one completion signal"); VF_P(!G.stop_seen, "done is delivered instead of value when stop was requested first"); G.completed++; G.value++; }
static void EV_set_done(struct op* self) { VF_CANARY("set_done reachable"); VF_P(G.completed == 0, "exactly one completion signal"); VF_P(G.stop_seen, "done only when a stop request was observed"); G.completed++; G.done++; }
void op_execute_impl(struct operation_base* p)
__CPROVER_requires(p == &OPA.base && G.completed == 0 && G.value == 0 && G.done == 0 && G.polls == 0 && !G.stop_seen)
__CPROVER_assigns(G)
__CPROVER_ensures(G.completed == 1)
__CPROVER_ensures(VF_CFG_stop_never_possible ==> G.value == 1)
__CPROVER_ensures(!VF_CFG_stop_never_possible ==> (G.polls == 1 && (G.done == 1) == G.stop_seen))
/*@BODY execute_impl*/

/* ---------------- harnesses ---------------- */
static void h_init(void) {
  G.depth = 0; G.op_ran = 0; G.op_deferred = 0; G.w1_ran = 0; G.w1_deferred = 0; G.drained = 0; G.state_alive = 0; G.ctor = 0; G.dtor = 0; G.dtor_head_empty = 0; G.exec_op = NULL;
  G.completed = 0; G.value = 0; G.done = 0; G.polls = 0; G.stop_seen = 0;
  OP.next_ = /*@EXPR next_init*/; OP.maxRecursionDepth_ = VF_nondet_size_t();
  W0.next_ = NULL; W1.next_ = NULL;
}
void h_start(void) {
  h_init();
  if (VF_nondet_bool()) { current_ = NULL; }
  else { current_ = &ST; ST.head_ = VF_nondet_bool() ? &W0 : NULL; W0.next_ = VF_nondet_bool() ? OPAQUE : NULL; ST.recursionDepth_ = VF_nondet_size_t(); G.depth = VF_nondet_size_t(); G.state_alive = 1;
         __CPROVER_assume(G.depth >= 1 && ST.recursionDepth_ >= G.depth); }
  _Bool outer = (current_ == NULL);
  operation_base_start(&OP);
  VF_CANARY("after start");
  if (outer) { VF_CANARY("outermost start"); } else if (G.op_deferred) { VF_CANARY("nested start can defer"); } else { VF_CANARY("nested start can run inline"); }
}
#ifdef VF_VERIFY_DRAIN
static void h_drain_init(void) {
  h_init(); current_ = &ST; G.state_alive = 1; G.depth = 0; ST.recursionDepth_ = VF_nondet_size_t(); __CPROVER_assume(ST.recursionDepth_ >= 1);
  ST.head_ = VF_nondet_bool() ? &W0 : NULL; W0.next_ = VF_nondet_bool() ? OPAQUE : NULL; W0.maxRecursionDepth_ = VF_nondet_size_t();
}
void h_drain(void) { h_drain_init(); trampoline_state_drain(&ST); VF_CANARY("after drain"); }
void h_drain_body(void) { h_drain_init(); __CPROVER_assume(ST.head_ == &W0); drain__loop0_body(&ST); VF_CANARY("after drain loop body"); if (ST.head_ == &W1) { VF_CANARY("work deferred during a drained execution"); } }
#endif
void h_execute_impl(void) { h_init(); VF_CFG_stop_never_possible = VF_nondet_bool(); op_execute_impl(&OPA.base); VF_CANARY("after execute_impl"); }
void lemma_trampoline(void) {
  struct trampoline_state s; s.recursionDepth_ = /*@EXPR depth_init*/; s.head_ = /*@EXPR head_init*/;
  VF_P(s.recursionDepth_ == 1 && s.head_ == NULL, "lemma: a fresh trampoline_state has depth 1 (the outermost execution) and nothing deferred");
  VF_P(current_ == NULL, "lemma: a thread starts without a trampoline state");
  VF_CANARY("lemma reachable");
}
