H = 'include/unifex/trampoline_scheduler.hpp'
CPP = 'source/trampoline_scheduler.cpp'
OB = r'struct operation_base \{'
TST = r'struct trampoline_state \{'
OPT = r'class type final : operation_base \{'
TM = [(r'(?<!struct )\boperation_base\*', 'struct operation_base*')]
ctx = dict(cls='operation_base', members=['next_', 'maxRecursionDepth_'], methods=['execute'], typemap=TM,
           raii={'trampoline_state': ('VF_STATE_CTOR', 'VF_STATE_DTOR')}, obj_methods={'drain': 'trampoline_state_drain', 'execute': 'EV_execute'},
           pre=[(r'trampoline_state::current_', 'current_')])
st_ctx = dict(cls='trampoline_state', members=['recursionDepth_', 'head_'], typemap=TM, obj_methods={'execute': 'EV_execute'})
op_ctx = dict(cls='op', members=[],
              pre=[(r'auto& self = \*static_cast<type\*>\(p\);', 'struct op* self = (struct op*)p;'),
                   (r'is_stop_never_possible_v<stop_token_type_t<Receiver&>>', 'VF_CFG_stop_never_possible'),
                   (r'get_stop_token\(self\.receiver_\)\.stop_requested\(\)', 'EV_stop_requested(self)'),
                   (r'unifex::set_value\(static_cast<Receiver&&>\(self\.receiver_\)\)', 'EV_set_value(self)'),
                   (r'unifex::set_done\(static_cast<Receiver&&>\(self\.receiver_\)\)', 'EV_set_done(self)')])
SPEC = dict(
    properties=['C06'],
    ctx=ctx,
    extracts={
        'depth_init': dict(file=H, kind='expr', sig=r'std::size_t recursionDepth_ = ([^;]*);'),
        'head_init': dict(file=H, kind='expr', sig=r'operation_base\* head_ = ([^;]*);', within=TST),
        'next_init': dict(file=H, kind='expr', sig=r'operation_base\* next_ = ([^;]*);', within=OB),
        'current_init': dict(file=CPP, kind='expr', sig=r'trampoline_scheduler::trampoline_state::current_ = ([^;]*);'),
        'state_ctor': dict(file=H, sig=r'trampoline_state\(\) noexcept', within=TST, ctx=st_ctx),
        'state_dtor': dict(file=H, sig=r'~trampoline_state\(\)', within=TST, ctx=st_ctx),
        'start': dict(file=H, sig=r'void start\(\) noexcept', within=OB),
        'drain': dict(file=CPP, sig=r'void trampoline_scheduler::trampoline_state::drain\(\) noexcept', ctx=st_ctx, outline={0: 'VF_LOOP0;'}),
        'execute_impl': dict(file=H, sig=r'static void execute_impl\(operation_base\* p\) noexcept', within=OPT, ctx=op_ctx),
    },
    closed_world=[
        dict(file=H, members=['recursionDepth_', 'head_', 'current_'], within=r'class scheduler \{',
             allow=[r'static thread_local trampoline_state\* current_;', r'std::size_t recursionDepth_ = 1;', r'operation_base\* head_ = nullptr;']),
        dict(file=CPP, members=['recursionDepth_', 'head_', 'current_'], allow=[r'trampoline_scheduler::trampoline_state::current_ = nullptr;']),
    ],
    units=[
        dict(name='start', harness='h_start', enforce='operation_base_start', rec=True),
        dict(name='drain', harness='h_drain', enforce='trampoline_state_drain', replace=['operation_base_start'], defines=['VF_VERIFY_DRAIN']),
        dict(name='drain_body', harness='h_drain_body', enforce='drain__loop0_body', replace=['operation_base_start'], defines=['VF_VERIFY_DRAIN']),
        dict(name='execute_impl', harness='h_execute_impl', enforce='op_execute_impl'),
        dict(name='lemma_trampoline', harness='lemma_trampoline', mode='lemma'),
    ],
    assumptions=[
        'the client code behind execute() returns and may call start() on further operations of the same thread any number of times (modelled by the stub EV_execute calling start() through its contract: recursion by contract)',
        'current_ is thread_local: no interference from other threads; an operation is started at most once',
        'M2 meta-argument for drain: the deferred list is LIFO through next_; the window (head, successor opaque or NULL) covers every shape; a node pushed during an execution is linked in front of the old head',
        'inline_scheduler (no state) is not separately modelled',
    ],
    drops=['execute_(this) function pointer -> event stub EV_execute', 'trampoline_state local object: constructor / destructor made explicit (VF_STATE_CTOR / VF_STATE_DTOR at scope exit)',
           'receiver completion signals, stop-token query -> event stubs'],
)
