/* C09 (and C02 "shared heap state freed exactly once"): the future / spawned-operation state machine
 * of include/unifex/spawn_future.hpp.
 *
 * Parties:  O  the spawned operation      complete() -> [func(); destruct_op(); evt_.set()] | negotiate_deletion()
 *           F  the future, never started   drop()
 *           K  the future's stop callback  abandon()
 *           C  the started future          continuation that runs once evt_ fired
 *           D  whoever ended up owning deletion: deleter()
 * M1 on the protocol word state_ (rely = what the OTHER parties may do, guarantee = what this party may do),
 * the object S = (state_, evt_ ready, nested op alive, which union member of the result is constructed).
 * Bodies marked @BODY / @EXPR are extracted from /repo on every run; everything else is specification. */
#include <stddef.h>
#include <stdint.h>
typedef unsigned char fstate_t;
enum { /*@EXPR future_state_enum*/ };

struct sfo { fstate_t state_; unsigned char evt_; unsigned char op_; unsigned char result_; };
struct fut { struct sfo* op_; };
enum { RK_NONE, RK_VALUES, RK_ERROR };          /* which member of the values_/error_ union is constructed */
enum { P_O, P_DROP, P_K, P_CONT, P_DEL };       /* the party the verified call belongs to */

struct vf_ghost {
  int party;
  unsigned atomics; fstate_t seen0, seen1, seen2; /* my atomic accesses to state_ and the value each one observed (seen2: third and later) */
  unsigned lin_count; fstate_t lin_old, lin_new; /* my writes to state_ (at most one per call) */
  unsigned seq;                                  /* event clock */
  unsigned t_lin;
  unsigned stores, t_store;                      /* func() (result stored) */
  unsigned destructs, t_destruct;                /* nested operation destructed */
  unsigned evt_sets, t_evt;
  unsigned stop_requests, t_stop;
  unsigned deleter_calls, t_deleter; fstate_t deleter_arg, state_at_delete;   /* state_at_delete: value of state_ at the moment deleter was called */
  _Bool ready_seen; unsigned t_ready;            /* evt_.ready() returned true */
  unsigned yields, t_yield; fstate_t yield;      /* what the future completes with: FS_value / FS_error / FS_done */
  _Bool dead; struct sfo snap;                   /* the object was handed over / deleted: any later touch is an error */
  unsigned alloc_copied, values_destroyed, error_destroyed, self_destroyed, deallocated;   /* deleter internals */
  unsigned values_constructed, error_constructed;                                         /* func internals */
};
static struct vf_ghost G;
static struct sfo S;
static struct fut FUT;

static void vf_guar(fstate_t o, fstate_t n);
#define VF_G(p, o, n) vf_guar((fstate_t)(o), (fstate_t)(n))
#include "vf.h"

static const fstate_t state_INIT = /*@EXPR state_init*/;

/* ------------------------------------------------------------------------------------------------
 * protocol predicates (specification; from the property statement and the protocol description)
 * ------------------------------------------------------------------------------------------------ */
#define IS_R(s)   ((s) == FS_value || (s) == FS_error || (s) == FS_done)
#define RK_OF(s)  ((s) == FS_value ? RK_VALUES : (s) == FS_error ? RK_ERROR : RK_NONE)
#ifdef VF_ASSUME_VALUE_STORE_NOTHROW
#define MAY_THROW 0
#else
#define MAY_THROW 1
#endif

/* invariant of the live object */
#define INV(s) ( (s).state_ <= FS_complete && (s).evt_ <= 1 && (s).op_ <= 1 && (s).result_ <= RK_ERROR \
  && ((s).state_ == FS_init ==> (!(s).evt_ && (s).op_ && (s).result_ == RK_NONE)) \
  && (((s).state_ == FS_abandoned || (s).state_ == FS_complete || (s).state_ == FS_done) ==> (s).result_ == RK_NONE) \
  && ((s).state_ == FS_error ==> (s).result_ != RK_VALUES) && ((s).state_ == FS_value ==> (s).result_ != RK_ERROR) \
  && ((IS_R((s).state_) && (s).evt_) ==> (!(s).op_ && (s).result_ == RK_OF((s).state_))) )   /* published result: op destructed, result stored */

#define SAME_BUT_STATE(o, n) ((n).evt_ == (o).evt_ && (n).op_ == (o).op_ && (n).result_ == (o).result_)
#define SAME_BUT_EVT(o, n)   ((n).state_ == (o).state_ && (n).op_ == (o).op_ && (n).result_ == (o).result_)
#define SAME_BUT_OP(o, n)    ((n).state_ == (o).state_ && (n).evt_ == (o).evt_ && (n).result_ == (o).result_)
#define SAME_BUT_RES(o, n)   ((n).state_ == (o).state_ && (n).evt_ == (o).evt_ && (n).op_ == (o).op_)
#define SAME(o, n)           (SAME_BUT_STATE(o, n) && (n).state_ == (o).state_)

/* ---- guarantees: the steps each party may take on the object ---- */
#define GUAR_O(o, n) ( \
     (SAME_BUT_STATE(o, n) && (o).state_ == FS_init && IS_R((n).state_))                                            /* complete(): init -> value|error|done */ \
  || (SAME_BUT_STATE(o, n) && (o).state_ == FS_value && (n).state_ == FS_error && !(o).evt_ && (o).op_ && (o).result_ == RK_NONE) /* func(): storing the value threw */ \
  || (SAME_BUT_RES(o, n) && IS_R((o).state_) && !(o).evt_ && (o).op_ && (o).result_ == RK_NONE && (n).result_ == RK_OF((o).state_))  /* func(): result stored */ \
  || (SAME_BUT_OP(o, n) && (o).op_ && !(n).op_ && (IS_R((o).state_) ? (!(o).evt_ && (o).result_ == RK_OF((o).state_)) : ((o).state_ == FS_abandoned || (o).state_ == FS_complete))) /* destruct_op() */ \
  || (SAME_BUT_EVT(o, n) && !(o).evt_ && (n).evt_ == 1 && IS_R((o).state_) && !(o).op_ && (o).result_ == RK_OF((o).state_)) /* evt_.set(): publish */ \
  || (SAME_BUT_STATE(o, n) && (o).state_ == FS_abandoned && (n).state_ == FS_complete && !(o).op_) )              /* negotiate: hand over to the future */
#define GUAR_DROP(o, n) (SAME_BUT_STATE(o, n) && (n).state_ == FS_complete && ((o).state_ == FS_init || ((o).state_ == FS_abandoned && (o).evt_)))   /* hand over to the operation */
#define GUAR_K(o, n) ( (SAME_BUT_STATE(o, n) && (o).state_ == FS_init && (n).state_ == FS_abandoned) \
  || (SAME_BUT_EVT(o, n) && (n).evt_ == 1 && ((o).state_ == FS_abandoned || (o).state_ == FS_complete)) )
#define GUAR_CONT(o, n) (SAME_BUT_STATE(o, n) && (o).evt_ && (o).state_ == FS_abandoned && (n).state_ == FS_complete)
#define GUAR(p, o, n) ((p) == P_O ? GUAR_O(o, n) : (p) == P_DROP ? GUAR_DROP(o, n) : (p) == P_K ? GUAR_K(o, n) : (p) == P_CONT ? GUAR_CONT(o, n) : 0)

/* ---- relies: what the other parties may do between two of my accesses (reflexive, transitive) ---- */
/* O (env: F dropping or continuing, K): init -> abandoned -> complete, init -> complete; only K raises evt_ */
#define RELY_O(o, n) ( (n).op_ == (o).op_ && (n).result_ == (o).result_ && (n).evt_ >= (o).evt_ && (n).evt_ <= 1 \
  && ((n).state_ == (o).state_ || ((o).state_ == FS_init && ((n).state_ == FS_abandoned || (n).state_ == FS_complete)) || ((o).state_ == FS_abandoned && (n).state_ == FS_complete)) \
  && ((n).evt_ > (o).evt_ ==> ((n).state_ == FS_abandoned || (n).state_ == FS_complete)) )
/* what O does as seen by anybody else: completes, stores, destructs, publishes; frozen once published */
#define RELY_ENV_O(o, n) ( INV(n) && (n).evt_ >= (o).evt_ && (n).op_ <= (o).op_ \
  && ((o).evt_ ==> SAME(o, n)) \
  && ((n).state_ == (o).state_ || ((o).state_ == FS_init && IS_R((n).state_)) || (MAY_THROW && (o).state_ == FS_value && (n).state_ == FS_error)) \
  && ((n).evt_ ==> IS_R((n).state_)) && (IS_R((o).state_) ==> ((o).result_ == RK_NONE || (n).result_ == (o).result_)) )
/* F in drop() (env: O only; a stop callback, if the future was connected, has been deregistered, i.e. has finished).
 * Found abandoned / complete (connected, cancelled, destroyed unstarted): as for the continuation */
#define RELY_DROP(o, n) (((o).state_ == FS_abandoned || (o).state_ == FS_complete) ? RELY_CONT(o, n) : RELY_ENV_O(o, n))
/* K in abandon() (env: O; F is parked on evt_): as for drop, and after my init -> abandoned O may negotiate abandoned -> complete */
#define RELY_K(o, n) ( ((o).state_ == FS_abandoned || (o).state_ == FS_complete) \
  ? ((n).evt_ == (o).evt_ && (n).result_ == (o).result_ && (n).op_ <= (o).op_ && ((n).state_ == (o).state_ || ((o).state_ == FS_abandoned && (n).state_ == FS_complete && !(n).op_))) \
  : RELY_ENV_O(o, n) )
/* C, the continuation (env: O; evt_ is set): only abandoned -> complete by negotiate_deletion (after destruct_op) */
#define RELY_CONT(o, n) ( (n).evt_ == (o).evt_ && (n).result_ == (o).result_ && (n).op_ <= (o).op_ \
  && ((o).state_ == FS_abandoned ? ((n).state_ == FS_abandoned || ((n).state_ == FS_complete && !(n).op_)) : SAME(o, n)) )
#define RELY(p, o, n) ((p) == P_O ? RELY_O(o, n) : (p) == P_DROP ? RELY_DROP(o, n) : (p) == P_K ? RELY_K(o, n) : (p) == P_CONT ? RELY_CONT(o, n) : SAME(o, n))

/* a write of `complete` hands the object to the other party ("whoever observes complete deletes") */
#define HANDOVER_WRITE(n) ((n) == FS_complete)

#define UNTOUCHED_IF_DEAD(g) (!(g).dead || (S.state_ == (g).snap.state_ && S.evt_ == (g).snap.evt_ && S.op_ == (g).snap.op_ && S.result_ == (g).snap.result_))

static void vf_mark_dead(void) {
  /* the other party may delete the object from now on: havoc + snapshot */
  S.state_ = VF_nondet_u8(); S.evt_ = VF_nondet_u8(); S.op_ = VF_nondet_u8(); S.result_ = VF_nondet_u8();
  G.snap = S; G.dead = 1;
}
static void vf_env(void) {
  struct sfo o = S, n;
  n.state_ = VF_nondet_u8(); n.evt_ = VF_nondet_u8(); n.op_ = VF_nondet_u8(); n.result_ = VF_nondet_u8();
  __CPROVER_assume(RELY(G.party, o, n));
  S = n;
}
static void vf_interfere(void) {
  VF_P(!G.dead, "no access to state_ after the shared state was handed over or deleted");
  if (!G.dead) vf_env();
  if (G.atomics == 0) G.seen0 = S.state_; else if (G.atomics == 1) G.seen1 = S.state_; else G.seen2 = S.state_;   /* the value this access observes */
  G.atomics++;
}
static void vf_guar(fstate_t o, fstate_t n) {
  struct sfo so = S, sn = S;
  sn.state_ = n;
  VF_P(so.state_ == o, "guarantee bookkeeping: written location is state_");
  VF_P(GUAR(G.party, so, sn), "guarantee: this party may take this transition of state_ (the other parties' relies allow it)");
  VF_P(G.lin_count == 0, "at most one write to state_ per call");
  G.lin_old = o; G.lin_new = n; G.lin_count++; G.t_lin = G.seq++;
  if (HANDOVER_WRITE(n)) { vf_mark_dead(); G.snap.state_ = n; }   /* the macro stores n right after */
}

/* ------------------------------------------------------------------------------------------------
 * event stubs (C++-only callees) with ordering / exactly-once ghosts
 * ------------------------------------------------------------------------------------------------ */
static void EV_request_stop(struct sfo* self) {
  VF_P(self == &S && !G.dead, "stopSource_.request_stop(): the shared state has not been handed over yet");
  VF_P(G.stop_requests == 0, "stop requested once");
  G.stop_requests++; G.t_stop = G.seq++;
}
static void EV_evt_set(struct sfo* self) {
  VF_P(self == &S && !G.dead, "evt_.set(): the shared state has not been handed over yet");
  VF_P(G.evt_sets == 0, "evt_ set once");
  VF_P(G.lin_count == 1 && G.lin_new != FS_complete, "evt_.set() only by the party that won its CAS (result published / abandonment published)");
  if (G.party == P_O) {
    VF_P(G.stores == 1 && G.destructs == 1, "complete(): result stored and nested operation destructed before the future is woken");
  }
  if (G.party == P_K) {
    VF_P(G.stop_requests == 1, "abandon(): stop requested on the spawned operation before the future is woken");
  }
  struct sfo o = S;
  S.evt_ = 1;
  VF_P(GUAR(G.party, o, S), "guarantee: evt_.set() is a step this party may take now");
  G.evt_sets++; G.t_evt = G.seq++;
  vf_mark_dead();   /* the woken future may delete the shared state at once */
}
static _Bool EV_evt_ready(struct sfo* self) {
  VF_P(self == &S && !G.dead, "evt_.ready(): the shared state has not been handed over yet");
  if (!G.dead) vf_env();
  _Bool r = S.evt_ != 0;
  if (r) { G.ready_seen = 1; G.t_ready = G.seq++; }
  return r;
}
static void EV_destroy_operation(struct sfo* self) {
  VF_P(self == &S && !G.dead, "destruct_op(): the shared state has not been handed over yet");
  VF_P(G.destructs == 0, "nested operation destructed once");
  VF_P(G.evt_sets == 0 && G.deleter_calls == 0, "nested operation destructed before the future is woken / before deletion");
  VF_P(G.lin_count == 1 ==> G.stores == 1, "complete(): result stored before the nested operation is destructed");
  struct sfo o = S;
  S.op_ = 0;
  VF_P(GUAR(G.party, o, S), "guarantee: destruct_op() is a step this party may take now");
  G.destructs++; G.t_destruct = G.seq++;
}
/* contract stub of the callbacks handed to complete() (verified as store_value / store_error; set_done's is empty) */
#define FUNC_PRE(s, desired) ((s).state_ == (desired) && !(s).evt_ && (s).op_ && (s).result_ == RK_NONE)
#define FUNC_POST(o, n, desired) ( (n).evt_ == (o).evt_ && (n).op_ == (o).op_ \
  && ( ((n).state_ == (desired) && (n).result_ == RK_OF(desired)) \
    || ((desired) == FS_value && (n).state_ == FS_error && (n).result_ == RK_ERROR) ) )   /* storing the value threw: error recorded instead */
static void EV_func(struct sfo* self, fstate_t desired) {
  VF_P(self == &S && !G.dead, "func(): the shared state has not been handed over yet");
  VF_P(G.lin_count == 1 && G.lin_new == desired, "func() only after this call's CAS init -> result succeeded");
  VF_P(G.stores == 0 && G.destructs == 0 && G.evt_sets == 0, "func() first: before destruct_op() and evt_.set()");
  VF_P(FUNC_PRE(S, desired), "precondition of the result-storing callback");
  struct sfo o = S;
  if (desired == FS_value && VF_nondet_bool()) { S.state_ = FS_error; S.result_ = RK_ERROR; }
  else { S.result_ = RK_OF(desired); }
  __CPROVER_assume(FUNC_POST(o, S, desired));
  G.stores++; G.t_store = G.seq++;
}
/* contract stub of deleter() (verified as unit `deleter`): precondition = what the owner of deletion must know */
#define DELETER_PRE(s, state) ( (state) == (s).state_ && (IS_R(state) || (state) == FS_complete) && !(s).op_ && (s).result_ == RK_OF(state) )
static void EV_deleter(struct sfo* self, fstate_t state) {
  VF_P(self == &S && !G.dead, "deleter: the shared state was not handed over or deleted before (this party is entitled to it)");
  VF_P(G.deleter_calls == 0, "deleter called at most once");
  VF_P(!(G.lin_count == 1 && HANDOVER_WRITE(G.lin_new)), "the party that wrote `complete` never deletes");
  VF_P(state == S.state_, "deleter entry: the state argument is the current state_ (the union member it names is the constructed one)");
  VF_P(IS_R(state) || state == FS_complete, "deleter only with a result state or complete");
  VF_P(IS_R(state) ==> S.evt_, "result states: the operation's evt_.set() happened before deletion (operation no longer touches the state)");
  VF_P(!S.op_, "nested operation destructed before the shared state is freed");
  VF_P(state != S.state_ || S.result_ == RK_OF(state), "deleter destroys exactly the stored result (the union member the current state names is the constructed one)");
  G.deleter_calls++; G.deleter_arg = state; G.state_at_delete = S.state_; G.t_deleter = G.seq++;
  vf_mark_dead();
}
/* future side */
static struct sfo* EV_release_handle(struct fut* self) {
  struct sfo* p = self->op_;
  self->op_ = NULL;          /* unique_ptr::release(): the handle will not drop() later */
  return p;
}
static int EV_yield(fstate_t what) {
  VF_P(G.yields == 0, "the future completes once");
  G.yields++; G.yield = what; G.t_yield = G.seq++;
  return (int)what;
}
static int EV_yield_value(struct sfo* op) {
  VF_P(op == &S && !G.dead && G.deleter_calls == 0, "value moved out of the shared state before it is deleted");
  VF_P(S.state_ == FS_value && S.result_ == RK_VALUES && S.evt_, "future yields a value only if the operation's CAS init -> value won and the value was stored and published");
  return EV_yield(FS_value);
}
static int EV_yield_error(struct sfo* op) {
  VF_P(op == &S && !G.dead && G.deleter_calls == 0, "error moved out of the shared state before it is deleted");
  VF_P(S.state_ == FS_error && S.result_ == RK_ERROR && S.evt_, "future yields an error only if the operation recorded one and published it");
  return EV_yield(FS_error);
}
static int EV_yield_done(struct sfo* op) { return EV_yield(FS_done); }
/* deleter internals */
static void EV_copy_allocator(struct sfo* self) { VF_P(self == &S && G.self_destroyed == 0, "allocator copied out before the object is destroyed"); G.alloc_copied++; }
static void EV_destroy_values(struct sfo* self) {
  VF_P(self == &S && S.result_ == RK_VALUES && G.self_destroyed == 0, "values_ destroyed only if it is the constructed member, before the object goes");
  S.result_ = RK_NONE; G.values_destroyed++;
}
static void EV_destroy_error(struct sfo* self) {
  VF_P(self == &S && S.result_ == RK_ERROR && G.self_destroyed == 0, "error_ destroyed only if it is the constructed member, before the object goes");
  S.result_ = RK_NONE; G.error_destroyed++;
}
static void EV_destroy_self(struct sfo* self) {
  VF_P(self == &S && G.self_destroyed == 0 && G.alloc_copied == 1, "object destroyed once, allocator copied out first");
  VF_P(S.result_ == RK_NONE && !S.op_, "stored result and nested operation destroyed before the object");
  G.self_destroyed++;
}
static void EV_deallocate(struct sfo* self) {
  VF_P(self == &S && G.self_destroyed == 1 && G.deallocated == 0, "storage released once, after the destructor");
  G.deallocated++;
}
/* func internals */
static _Bool EV_construct_values_throws(struct sfo* op) {
  VF_P(op == &S && S.state_ == FS_value && S.result_ == RK_NONE, "values_ constructed only in state value, once");
  if (VF_nondet_bool()) return 1;      /* the copy/move threw: nothing constructed */
  struct sfo o = S;
  S.result_ = RK_VALUES; G.values_constructed++;
  VF_P(GUAR(G.party, o, S), "guarantee: storing the value is a step the operation may take now");
  return 0;
}
static void EV_construct_error(struct sfo* op) {
  VF_P(op == &S && S.state_ == FS_error && S.result_ == RK_NONE, "error_ constructed only in state error (after the state says so), once");
  struct sfo o = S;
  S.result_ = RK_ERROR; G.error_constructed++;
  VF_P(GUAR(G.party, o, S), "guarantee: storing the error is a step the operation may take now");
}

/* ------------------------------------------------------------------------------------------------
 * contracts (shared by the functions' ensures and by the M4 interleaving lemma)
 * ------------------------------------------------------------------------------------------------ */
#define GHOST_FRESH(g) ((g).atomics == 0 && (g).lin_count == 0 && (g).seq == 0 && (g).stores == 0 && (g).destructs == 0 && (g).evt_sets == 0 \
  && (g).stop_requests == 0 && (g).deleter_calls == 0 && !(g).ready_seen && (g).yields == 0 && !(g).dead \
  && (g).alloc_copied == 0 && (g).values_destroyed == 0 && (g).error_destroyed == 0 && (g).self_destroyed == 0 && (g).deallocated == 0 \
  && (g).values_constructed == 0 && (g).error_constructed == 0)
#define LAST_SEEN(g) ((g).atomics == 1 ? (g).seen0 : (g).seen1)
/* at most one write, performed by the last access, on the value that access observed */
#define LIN_WF(g) ((g).lin_count <= 1 && ((g).lin_count == 1 ==> (g).lin_old == LAST_SEEN(g)))

/* states in which each party may find the object when it starts */
#define PRE_O(s)    (INV(s) && (s).op_ && (s).result_ == RK_NONE && ((s).state_ == FS_init || (s).state_ == FS_abandoned || (s).state_ == FS_complete))
#define PRE_DROP(s) (INV(s) && ((s).state_ == FS_init || IS_R((s).state_) \
  || ((s).state_ == FS_abandoned && (s).evt_)                   /* connected, abandon() ran to its end, destroyed unstarted */ \
  || ((s).state_ == FS_complete && (s).evt_ && !(s).op_)))       /* ... and the operation has already negotiated (after destruct_op) */
#define PRE_K(s)    (INV(s) && ((s).state_ == FS_init || IS_R((s).state_)))
#define PRE_CONT(s) (INV(s) && (s).evt_ && (s).state_ != FS_init && (((s).state_ == FS_complete) ==> !(s).op_))

/* abandon(): CAS init -> abandoned; won => stop requested, THEN the future woken; lost => nothing */
#define ABANDON_POST(g) ( (g).atomics == 1 && LIN_WF(g) && ((g).lin_count == 1) == ((g).seen0 == FS_init) \
  && ((g).lin_count == 1 ==> ((g).lin_new == FS_abandoned && (g).stop_requests == 1 && (g).evt_sets == 1 && (g).t_lin < (g).t_stop && (g).t_stop < (g).t_evt && (g).dead)) \
  && ((g).lin_count == 0 ==> (IS_R((g).seen0) && (g).stop_requests == 0 && (g).evt_sets == 0)) \
  && (g).deleter_calls == 0 && (g).stores == 0 && (g).destructs == 0 && (g).yields == 0 )

/* negotiate_deletion(expected): destruct the nested operation; then exactly one of: hand over (abandoned -> complete won) / delete (found or lost to complete) */
#define NEG_ATOMICS(expected) ((expected) == FS_abandoned ? 1u : 0u)
#define NEG_POST(g, expected, a0) ( (g).destructs == 1 && (g).atomics == (a0) + NEG_ATOMICS(expected) && LIN_WF(g) \
  && ((expected) == FS_abandoned ==> (((g).lin_count == 1) == (LAST_SEEN(g) == FS_abandoned) && ((g).lin_count == 0 ==> LAST_SEEN(g) == FS_complete))) \
  && ((expected) == FS_complete ==> (g).lin_count == 0) \
  && ((g).lin_count == 1 ==> ((g).lin_new == FS_complete && (g).deleter_calls == 0 && (g).t_destruct < (g).t_lin)) \
  && ((g).lin_count == 0 ==> ((g).deleter_calls == 1 && (g).deleter_arg == FS_complete && (g).t_destruct < (g).t_deleter)) \
  && (g).dead && (g).stores == 0 && (g).evt_sets == 0 && (g).stop_requests == 0 && (g).yields == 0 )

/* complete(desired): CAS init -> desired; won => store result, destruct nested op, wake the future, in that order, no deleter;
 * lost (found abandoned / complete) => negotiate_deletion */
#define COMPLETE_POST(g, desired) ( LIN_WF(g) && ((g).seen0 == FS_init \
  ? ((g).atomics == 1 && (g).lin_count == 1 && (g).lin_new == (desired) && (g).stores == 1 && (g).destructs == 1 && (g).evt_sets == 1 \
     && (g).t_lin < (g).t_store && (g).t_store < (g).t_destruct && (g).t_destruct < (g).t_evt && (g).deleter_calls == 0 && (g).stop_requests == 0 && (g).yields == 0 && (g).dead) \
  : (((g).seen0 == FS_abandoned || (g).seen0 == FS_complete) && NEG_POST(g, (g).seen0, 1u))) )

/* drop(): init => request stop, then CAS init -> complete (operation deletes) | lost => wait evt_, delete;  result => wait evt_, delete;
 * abandoned (connected, cancelled, never started) => CAS abandoned -> complete (operation deletes) | lost => delete;  complete => delete */
#define DROP_ATOMICS(seen0) (((seen0) == FS_init || (seen0) == FS_abandoned) ? 2u : 1u)
#define DROP_RESULT_PATH(g) ((g).seen0 == FS_init || IS_R((g).seen0))
#define DROP_POST(g) ( (g).atomics >= DROP_ATOMICS((g).seen0) \
  && (g).atomics <= DROP_ATOMICS((g).seen0) + (((g).lin_count == 0 && DROP_RESULT_PATH(g)) ? 1u : 0u) /* (a re-load after the evt_ wait) */ \
  && LIN_WF(g) && ((g).seen0 == FS_init || IS_R((g).seen0) || (g).seen0 == FS_abandoned || (g).seen0 == FS_complete) \
  && ((g).stop_requests == 1) == ((g).seen0 == FS_init) && (g).stop_requests <= 1 \
  && ((g).seen0 == FS_init ==> (((g).lin_count == 1) == ((g).seen1 == FS_init) && ((g).lin_count == 0 ==> IS_R((g).seen1)))) \
  && ((g).seen0 == FS_abandoned ==> (((g).lin_count == 1) == ((g).seen1 == FS_abandoned) && ((g).lin_count == 0 ==> (g).seen1 == FS_complete))) \
  && (((g).seen0 != FS_init && (g).seen0 != FS_abandoned) ==> (g).lin_count == 0) \
  && ((g).lin_count == 1 ==> ((g).lin_new == FS_complete && (g).deleter_calls == 0 && ((g).seen0 == FS_init ==> (g).t_stop < (g).t_lin))) \
  && ((g).lin_count == 0 ==> ((g).deleter_calls == 1 && (g).deleter_arg == (g).state_at_delete /* deletes with the state the object is in THEN */ \
        && (DROP_RESULT_PATH(g) ? (IS_R((g).deleter_arg) && (g).ready_seen && (g).t_ready < (g).t_deleter) : (g).deleter_arg == FS_complete))) \
  && (g).dead && (g).stores == 0 && (g).destructs == 0 && (g).evt_sets == 0 && (g).yields == 0 )

/* continuation: load; abandoned => CAS abandoned -> complete (won: operation deletes; lost: delete) and done;
 * otherwise the loaded result is what the future yields, then delete */
#define CONT_ATOMICS(seen0) ((seen0) == FS_abandoned ? 2u : 1u)
#define CONT_YIELD(seen0) ((seen0) == FS_value ? FS_value : (seen0) == FS_error ? FS_error : FS_done)
#define CONT_POST(g) ( (g).atomics == CONT_ATOMICS((g).seen0) && LIN_WF(g) && (g).seen0 != FS_init \
  && (g).yields == 1 && (g).yield == CONT_YIELD((g).seen0) \
  && ((g).seen0 == FS_abandoned ==> (((g).lin_count == 1) == ((g).seen1 == FS_abandoned) && ((g).lin_count == 0 ==> (g).seen1 == FS_complete))) \
  && ((g).seen0 != FS_abandoned ==> (g).lin_count == 0) \
  && ((g).lin_count == 1 ==> ((g).lin_new == FS_complete && (g).deleter_calls == 0)) \
  && ((g).lin_count == 0 ==> ((g).deleter_calls == 1 && (g).deleter_arg == LAST_SEEN(g) && (g).t_yield < (g).t_deleter)) \
  && (g).dead && (g).stores == 0 && (g).destructs == 0 && (g).evt_sets == 0 && (g).stop_requests == 0 )

/* ------------------------------------------------------------------------------------------------
 * functions under contract
 * ------------------------------------------------------------------------------------------------ */
static void sfo_destruct_op(struct sfo* self)
/*@BODY destruct_op*/

void sfo_abandon(struct sfo* self)
__CPROVER_requires(self == &S && G.party == P_K && GHOST_FRESH(G) && PRE_K(S))
__CPROVER_assigns(S, G)
__CPROVER_ensures(ABANDON_POST(G))
__CPROVER_ensures(UNTOUCHED_IF_DEAD(G)) /* nothing touched after the future was woken */
/*@BODY abandon*/

void sfo_negotiate_deletion(struct sfo* self, fstate_t expected)
__CPROVER_requires(self == &S && G.party == P_O && !G.dead && G.atomics == 1 && G.seen0 == expected && G.lin_count == 0 && G.stores == 0 && G.destructs == 0 && G.evt_sets == 0 && G.stop_requests == 0 && G.deleter_calls == 0 && G.yields == 0 && G.seq < 8)
__CPROVER_requires((expected == FS_abandoned || expected == FS_complete) && INV(S) && S.op_ && S.result_ == RK_NONE)
__CPROVER_requires(expected == FS_complete ? S.state_ == FS_complete : (S.state_ == FS_abandoned || S.state_ == FS_complete))
__CPROVER_assigns(S, G.atomics, G.seen1, G.lin_count, G.lin_old, G.lin_new, G.seq, G.t_lin, G.destructs, G.t_destruct, G.deleter_calls, G.t_deleter, G.deleter_arg, G.state_at_delete, G.dead, G.snap)
__CPROVER_ensures(NEG_POST(G, expected, 1u))
__CPROVER_ensures(UNTOUCHED_IF_DEAD(G)) /* nothing touched after handing over / deleting */
/*@BODY negotiate_deletion*/

void sfo_complete(struct sfo* self, fstate_t desired)
__CPROVER_requires(self == &S && G.party == P_O && GHOST_FRESH(G) && PRE_O(S) && IS_R(desired))
__CPROVER_assigns(S, G)
__CPROVER_ensures(COMPLETE_POST(G, desired))
__CPROVER_ensures(UNTOUCHED_IF_DEAD(G))
/*@BODY complete*/

/* invariant of the spin on evt_.ready(): nothing deleted yet, the operation is in a result state and it is the one drop() remembers */
#define DROP_SPIN_INV(state) ( !G.dead && G.deleter_calls == 0 && G.lin_count == 0 && G.stop_requests == (G.seen0 == FS_init ? 1u : 0u) \
  && G.atomics == DROP_ATOMICS(G.seen0) && (state) == LAST_SEEN(G) && IS_R(state) && INV(S) && G.seq <= 2 \
  && (S.state_ == (state) || (MAY_THROW && (state) == FS_value && S.state_ == FS_error)) \
  && G.stores == 0 && G.destructs == 0 && G.evt_sets == 0 && G.yields == 0 && !G.ready_seen )

void sfo_drop(struct sfo* self)
__CPROVER_requires(self == &S && G.party == P_DROP && GHOST_FRESH(G) && PRE_DROP(S))
__CPROVER_assigns(S, G)
__CPROVER_ensures(DROP_POST(G))
__CPROVER_ensures(UNTOUCHED_IF_DEAD(G))
/*@BODY drop*/

int future_continuation(struct fut* self)
__CPROVER_requires(self == &FUT && FUT.op_ == &S && G.party == P_CONT && GHOST_FRESH(G) && PRE_CONT(S))
__CPROVER_assigns(S, G, FUT.op_)
__CPROVER_ensures(CONT_POST(G))
__CPROVER_ensures(__CPROVER_return_value == (int)G.yield)
__CPROVER_ensures(FUT.op_ == NULL) /* the handle was released: the future will not drop() the state it just disposed of */
__CPROVER_ensures(UNTOUCHED_IF_DEAD(G))
/*@BODY continuation*/

void sfo_impl_deleter(struct sfo* base, fstate_t state)
__CPROVER_requires(base == &S && G.party == P_DEL && GHOST_FRESH(G) && INV(S) && DELETER_PRE(S, state))
__CPROVER_assigns(S, G)
__CPROVER_ensures(G.values_destroyed == (__CPROVER_old(S.result_) == RK_VALUES ? 1u : 0u)) /* the stored result is destroyed exactly once, and only the constructed member */
__CPROVER_ensures(G.error_destroyed == (__CPROVER_old(S.result_) == RK_ERROR ? 1u : 0u))
__CPROVER_ensures(G.alloc_copied == 1 && G.self_destroyed == 1 && G.deallocated == 1 && G.lin_count == 0)
/*@BODY deleter*/

void receiver_store_value(struct sfo* op)
__CPROVER_requires(op == &S && G.party == P_O && !G.dead && G.lin_count == 0 && G.values_constructed == 0 && G.error_constructed == 0 && G.seq < 8 && INV(S) && FUNC_PRE(S, FS_value))
__CPROVER_assigns(S, G)
__CPROVER_ensures(FUNC_POST(__CPROVER_old(S), S, FS_value))
__CPROVER_ensures(G.values_constructed + G.error_constructed == 1 && (G.error_constructed == 1) == (G.lin_count == 1))
__CPROVER_ensures(G.lin_count == 1 ==> (G.lin_old == FS_value && G.lin_new == FS_error)) /* only when storing the value threw */
/*@BODY store_value*/

void receiver_store_error(struct sfo* op)
__CPROVER_requires(op == &S && G.party == P_O && !G.dead && G.lin_count == 0 && G.values_constructed == 0 && G.error_constructed == 0 && INV(S) && FUNC_PRE(S, FS_error))
__CPROVER_assigns(S, G)
__CPROVER_ensures(FUNC_POST(__CPROVER_old(S), S, FS_error))
__CPROVER_ensures(G.error_constructed == 1 && G.values_constructed == 0 && G.lin_count == 0)
/*@BODY store_error*/

/* ------------------------------------------------------------------------------------------------
 * harnesses
 * ------------------------------------------------------------------------------------------------ */
static void h_init(int party) {
  S.state_ = VF_nondet_u8(); S.evt_ = VF_nondet_u8(); S.op_ = VF_nondet_u8(); S.result_ = VF_nondet_u8();
  struct vf_ghost z = {0};
  G = z; G.party = party;
  FUT.op_ = &S;
}
void h_abandon(void) {
  h_init(P_K); sfo_abandon(&S); VF_CANARY("after abandon");
  if (G.lin_count) { VF_CANARY("abandon can win"); } else { VF_CANARY("abandon can lose to a natural completion"); }
}
void h_negotiate_deletion(void) {
  h_init(P_O); fstate_t e = VF_nondet_u8(); G.atomics = 1; G.seen0 = e; G.seq = VF_nondet_bool() ? 0 : 1;
  sfo_negotiate_deletion(&S, e); VF_CANARY("after negotiate_deletion");
  if (G.deleter_calls) { VF_CANARY("negotiate_deletion can delete"); if (G.atomics == 2) { VF_CANARY("negotiate_deletion can lose the race to complete"); } }
  else { VF_CANARY("negotiate_deletion can hand over"); }
}
void h_complete(void) {
  h_init(P_O); fstate_t d = VF_nondet_u8(); sfo_complete(&S, d); VF_CANARY("after complete");
  if (G.evt_sets) { VF_CANARY("complete can win"); } else { VF_CANARY("complete can find the future gone"); }
}
void h_drop(void) {
  h_init(P_DROP); sfo_drop(&S); VF_CANARY("after drop");
  if (G.seen0 == FS_init) { if (G.lin_count) { VF_CANARY("drop can hand over"); } else { VF_CANARY("drop can lose the race and delete"); } }
  else if (G.seen0 == FS_abandoned) { if (G.lin_count) { VF_CANARY("drop of an abandoned operation can hand over"); } else { VF_CANARY("drop of an abandoned operation can lose the race and delete"); } }
  else if (G.seen0 == FS_complete) { VF_CANARY("drop can find complete and delete"); }
  else { VF_CANARY("drop after completion deletes"); }
}
void h_continuation(void) {
  h_init(P_CONT); int r = future_continuation(&FUT); VF_CANARY("after continuation");
  if (G.lin_count) { VF_CANARY("continuation can hand over"); } else if (G.atomics == 2) { VF_CANARY("continuation can lose the race and delete"); }
  else if (r == FS_value) { VF_CANARY("continuation can yield a value"); } else if (r == FS_error) { VF_CANARY("continuation can yield an error"); } else { VF_CANARY("continuation can yield done"); }
}
void h_deleter(void) {
  h_init(P_DEL); fstate_t st = VF_nondet_u8(); sfo_impl_deleter(&S, st); VF_CANARY("after deleter");
  if (G.values_destroyed) { VF_CANARY("deleter can destroy values_"); } if (G.error_destroyed) { VF_CANARY("deleter can destroy error_"); }
}
void h_store_value(void) {
  h_init(P_O); receiver_store_value(&S); VF_CANARY("after store_value");
  if (G.lin_count) { VF_CANARY("store_value can take the catch path"); } else { VF_CANARY("store_value can store the value"); }
}
void h_store_error(void) { h_init(P_O); receiver_store_error(&S); VF_CANARY("after store_error"); }

/* ------------------------------------------------------------------------------------------------
 * M4 lemmas over the contracts
 * ------------------------------------------------------------------------------------------------ */
static struct sfo lm_nondet_sfo(void) { struct sfo s; s.state_ = VF_nondet_u8(); s.evt_ = VF_nondet_u8(); s.op_ = VF_nondet_u8(); s.result_ = VF_nondet_u8(); return s; }

void lemma_init(void) {
  struct sfo s0 = { state_INIT, 0, 1, RK_NONE };   /* fresh: no event, nested op constructed, no result */
  VF_P(state_INIT == FS_init, "lemma: a fresh operation state is in init");
  VF_P(INV(s0) && PRE_O(s0) && PRE_DROP(s0) && PRE_K(s0), "lemma: the initial state satisfies the invariant and every party's entry condition");
  VF_P(FS_init != FS_abandoned && FS_abandoned != FS_complete && !IS_R(FS_init) && !IS_R(FS_abandoned) && !IS_R(FS_complete) && FS_value != FS_error && FS_error != FS_done && FS_value != FS_done,
       "lemma: the six states are distinct");
  VF_P(FS_init <= FS_complete && FS_abandoned <= FS_complete && FS_value <= FS_complete && FS_error <= FS_complete && FS_done <= FS_complete, "lemma: complete is the largest enumerator (range check in INV)");
  VF_CANARY("lemma_init reachable");
}

/* (i) every guarantee step of a party is allowed by the rely of every party that is alive at that moment,
 * and preserves the invariant; relies are reflexive and transitive on the states in which their party is alive.
 * ALIVE(p, s): party p may still touch the object in state s (it has not handed over / been superseded):
 *   F dropping: until it wrote complete; it may find abandoned / complete (connected, cancelled, never started) only after abandon() finished;
 *   K: from init / a result, and after its own init -> abandoned only until it woke the future;
 *   C: once evt_ fired; if it finds complete the operation wrote it (after destructing the nested op). */
#define ALIVE(p, s) ( INV(s) && ((p) == P_DROP ? PRE_DROP(s) \
  : (p) == P_K ? ((s).state_ == FS_init || IS_R((s).state_) || (!(s).evt_ && ((s).state_ == FS_abandoned || (s).state_ == FS_complete))) \
  : (p) == P_CONT ? PRE_CONT(s) : 1) )
void lemma_rely_guarantee(void) {
  struct sfo o = lm_nondet_sfo(), n = lm_nondet_sfo(), m = lm_nondet_sfo();
  if (VF_nondet_bool()) {
    int a = VF_nondet_int(), b = VF_nondet_int();
    __CPROVER_assume(a >= P_O && a <= P_CONT && b >= P_O && b <= P_CONT && a != b);
    /* a future is either dropped or started, and a dropped one has deregistered its callback: F-dropping coexists with the operation only */
    __CPROVER_assume(!(a == P_DROP && b != P_O) && !(b == P_DROP && a != P_O));
    __CPROVER_assume(INV(o) && ALIVE(b, o) && GUAR(a, o, n));
    VF_CANARY("guarantee step premises satisfiable");
    if (a == P_O && b == P_K) { VF_CANARY("operation steps while abandon() is running"); }
    if (a == P_CONT && b == P_O) { VF_CANARY("continuation steps while the operation is running"); }
    VF_P(INV(n), "lemma: every guarantee step preserves the invariant of the live object");
    VF_P(RELY(b, o, n), "lemma: every guarantee step of one party is allowed by the rely of every other party alive at that moment");
  } else {
    int p = VF_nondet_int();
    __CPROVER_assume(p >= P_O && p <= P_DEL && ALIVE(p, o));
    VF_P(RELY(p, o, o), "lemma: relies are reflexive");
    __CPROVER_assume(RELY(p, o, n) && RELY(p, n, m));
    VF_CANARY("rely transitivity premises satisfiable");
    VF_P(RELY(p, o, m), "lemma: relies are transitive (several environment steps between two accesses)");
  }
}

/* (ii) all interleavings of the parties' contract-summarised steps.  Each party's call is cut at its atomic
 * accesses to state_; what an access observes is the global state at that moment; what the call does is whatever
 * its contract (X_POST) allows for these observations.  Finite and acyclic: at most 3 (operation) + 4 (future: connect, start, load, CAS) + 2 (callback) steps; the bound is checked by the quiescence obligation. */
#ifdef VF_STOP_CALLBACK_LIFETIME_AS_CODED
#define LM_CB_AS_CODED 1
#define LM_STEPS 10
#else
#define LM_CB_AS_CODED 0
#define LM_STEPS 9
#endif
enum { O_START, O_FUNC, O_PUBLISH, O_NEG, O_DONE };
enum { F_IDLE, F_CONNECTED, F_DROP1, F_DROPWAIT, F_WAIT, F_CONT1, F_DONE, F_GONE };
enum { K_IDLE, K_PUBLISH, K_DONE };
struct lm_world { struct sfo st; unsigned d; _Bool stop_req; _Bool deleted; };
static struct lm_world W;
static void lm_delete(fstate_t arg) {
  VF_P(W.d == 0, "lemma: the shared state is deleted at most once");
  VF_P(DELETER_PRE(W.st, arg), "lemma: whoever deletes satisfies the deleter's precondition (current state, nested op destructed, stored result named by the state)");
  VF_P(IS_R(arg) ==> W.st.evt_, "lemma: a result state is deleted only after the operation published it");
  W.d++;
}
#define LM_ALIVE(who) VF_P(W.d == 0, "lemma: " who " touches the shared state only before it is deleted")
static struct vf_ghost lm_outputs(struct vf_ghost g) {
  /* keep party / atomics / seen0 / seen1, havoc everything the contract determines */
  struct vf_ghost r;
  r.lin_count = VF_nondet_u8(); r.lin_old = VF_nondet_u8(); r.lin_new = VF_nondet_u8(); r.seq = VF_nondet_u8(); r.t_lin = VF_nondet_u8();
  r.stores = VF_nondet_u8(); r.t_store = VF_nondet_u8(); r.destructs = VF_nondet_u8(); r.t_destruct = VF_nondet_u8();
  r.evt_sets = VF_nondet_u8(); r.t_evt = VF_nondet_u8(); r.stop_requests = VF_nondet_u8(); r.t_stop = VF_nondet_u8();
  r.deleter_calls = VF_nondet_u8(); r.t_deleter = VF_nondet_u8(); r.deleter_arg = VF_nondet_u8();
  r.ready_seen = VF_nondet_bool(); r.t_ready = VF_nondet_u8(); r.yields = VF_nondet_u8(); r.t_yield = VF_nondet_u8(); r.yield = VF_nondet_u8();
  r.dead = VF_nondet_bool(); r.snap = g.snap;
  r.alloc_copied = 0; r.values_destroyed = 0; r.error_destroyed = 0; r.self_destroyed = 0; r.deallocated = 0; r.values_constructed = 0; r.error_constructed = 0;
  r.party = g.party; r.atomics = g.atomics; r.seen0 = g.seen0; r.seen1 = g.seen1; r.seen2 = VF_nondet_u8(); r.state_at_delete = g.state_at_delete;
  return r;
}
void lemma_interleavings(void) {
  struct sfo s0 = { state_INIT, 0, 1, RK_NONE };
  W.st = s0; W.d = 0; W.stop_req = 0;
  int o_pc = O_START, f_pc = F_IDLE, k_pc = K_IDLE;
  struct vf_ghost go = {0}, gf = {0}, gk = {0};
  go.party = P_O; gk.party = P_K;
  fstate_t desired = VF_nondet_u8();
  __CPROVER_assume(IS_R(desired));
  _Bool o_won = 0, f_dropped = 0, f_started = 0, f_connected = 0, f_cb_gone = 0;
  fstate_t o_result = FS_init;
  fstate_t f_yield = FS_init; _Bool f_yielded = 0;
  for (int step = 0; step < LM_STEPS; step++) {
    /* enabled steps */
    _Bool o_en = o_pc != O_DONE;
    _Bool f_en = f_pc == F_IDLE || f_pc == F_CONNECTED || f_pc == F_DROP1 || f_pc == F_CONT1 || ((f_pc == F_DROPWAIT || f_pc == F_WAIT) && W.st.evt_) || (LM_CB_AS_CODED && f_pc == F_DONE && f_started);
    /* the stop callback is registered when the future is CONNECTED (let_value_with builds its state in the operation's constructor)
     * and deregistered when the future's operation state is destroyed: before drop() for a never-started future ... */
#if LM_CB_AS_CODED
    /* ... and, as coded, only AFTER the continuation has finished for a started one */
    _Bool k_en = (k_pc == K_IDLE && f_connected && !f_cb_gone) || k_pc == K_PUBLISH;
#else
    /* ... assumption: for a started future abandon() does not run after the continuation has finished */
    _Bool k_en = (k_pc == K_IDLE && f_connected && !f_cb_gone && f_pc != F_DONE) || k_pc == K_PUBLISH;
#endif
    if (!(o_en || f_en || k_en)) break;
    int who = VF_nondet_int();
    __CPROVER_assume((who == 0 && o_en) || (who == 1 && f_en) || (who == 2 && k_en));
    if (who == 0) {
      /* ---- the spawned operation ---- */
      if (o_pc == O_START) {                           /* complete(): CAS */
        LM_ALIVE("complete()");
        VF_P(PRE_O(W.st), "lemma: complete() finds the state its contract requires");
        go.atomics = 1; go.seen0 = W.st.state_;
        if (go.seen0 == FS_init) {
          go = lm_outputs(go); __CPROVER_assume(COMPLETE_POST(go, desired));
          struct sfo o = W.st; W.st.state_ = go.lin_new;   /* its CAS won */
          VF_P(GUAR_O(o, W.st), "lemma: complete()'s write is a guarantee step");
          o_won = 1; o_pc = O_FUNC;
        } else {
          VF_P(go.seen0 == FS_abandoned || go.seen0 == FS_complete, "lemma: complete() loses only to abandoned / complete");
          struct sfo o = W.st; W.st.op_ = 0;               /* negotiate_deletion: destruct_op first */
          VF_P(GUAR_O(o, W.st), "lemma: destruct_op() in negotiate_deletion is a guarantee step");
          if (go.seen0 == FS_complete) {
            go = lm_outputs(go); __CPROVER_assume(COMPLETE_POST(go, desired));
            VF_P(go.deleter_calls == 1, "lemma: the operation deletes when it finds complete");
            lm_delete(go.deleter_arg); o_pc = O_DONE;
          } else o_pc = O_NEG;
        }
      } else if (o_pc == O_FUNC) {                     /* func(): store the result (may turn value into error) */
        LM_ALIVE("func()");
        struct sfo o = W.st, n = lm_nondet_sfo();
        VF_P(FUNC_PRE(o, desired), "lemma: the result-storing callback finds its precondition");
        __CPROVER_assume(FUNC_POST(o, n, desired) && (MAY_THROW || n.state_ == desired));
        W.st = n; o_result = n.state_; o_pc = O_PUBLISH;
      } else if (o_pc == O_PUBLISH) {                  /* destruct_op(); evt_.set() */
        LM_ALIVE("complete()'s publication");
        struct sfo o = W.st; W.st.op_ = 0;
        VF_P(GUAR_O(o, W.st), "lemma: destruct_op() after the store is a guarantee step");
        o = W.st; W.st.evt_ = 1;
        VF_P(GUAR_O(o, W.st), "lemma: evt_.set() after destruct_op() is a guarantee step");
        o_pc = O_DONE;
      } else {                                         /* negotiate_deletion: CAS abandoned -> complete */
        LM_ALIVE("negotiate_deletion()");
        go.atomics = 2; go.seen1 = W.st.state_;
        go = lm_outputs(go); __CPROVER_assume(COMPLETE_POST(go, desired));
        if (go.lin_count == 1) { struct sfo o = W.st; W.st.state_ = go.lin_new; VF_P(GUAR_O(o, W.st), "lemma: negotiate_deletion()'s write is a guarantee step"); }
        if (go.deleter_calls) lm_delete(go.deleter_arg);
        o_pc = O_DONE;
      }
    } else if (who == 1) {
      /* ---- the future ---- */
      if (f_pc == F_DONE) { f_cb_gone = 1; f_pc = F_GONE; }   /* (as coded) the started future's operation state is destroyed: callback deregistered */
      else if (f_pc == F_IDLE && VF_nondet_bool()) { f_connected = 1; f_pc = F_CONNECTED; }   /* connected (callback registered), not yet started */
      else if (f_pc == F_IDLE || f_pc == F_CONNECTED) {
        if (VF_nondet_bool()) {                        /* dropped without being started: drop(), first access */
          __CPROVER_assume(k_pc != K_PUBLISH);         /* a connected future deregisters its callback first, which waits for a running abandon() */
          f_cb_gone = 1;
          LM_ALIVE("drop()");
          VF_P(PRE_DROP(W.st), "lemma: drop() finds the state its contract requires");
          f_dropped = 1; gf.party = P_DROP; gf.atomics = 1; gf.seen0 = W.st.state_;
          if (DROP_ATOMICS(gf.seen0) == 2) { if (gf.seen0 == FS_init) W.stop_req = 1; f_pc = F_DROP1; }
          else { gf = lm_outputs(gf); gf.atomics = VF_nondet_u8(); __CPROVER_assume(DROP_POST(gf)); VF_P(gf.deleter_calls == 1 && gf.lin_count == 0, "lemma: drop() after completion deletes"); f_pc = F_DROPWAIT; }
        } else { __CPROVER_assume(f_pc == F_CONNECTED); f_started = 1; f_pc = F_WAIT; }       /* started: parked on evt_ */
      } else if (f_pc == F_DROP1) {                    /* drop(): CAS init -> complete */
        LM_ALIVE("drop()'s CAS");
        gf.atomics = 2; gf.seen1 = W.st.state_;
        gf = lm_outputs(gf); gf.atomics = VF_nondet_u8(); __CPROVER_assume(DROP_POST(gf));
        VF_P((gf.stop_requests == 1) == (gf.seen0 == FS_init), "lemma: dropping a future whose operation is still running (and was not cancelled already) requests stop");
        if (gf.lin_count == 1) { struct sfo o = W.st; W.st.state_ = gf.lin_new; VF_P(GUAR_DROP(o, W.st), "lemma: drop()'s write is a guarantee step"); f_pc = F_DONE; }
        else { VF_P(gf.deleter_calls == 1, "lemma: drop() deletes when it lost the race"); f_pc = F_DROPWAIT; }
      } else if (f_pc == F_DROPWAIT) {                 /* evt_.ready() became true: delete */
        LM_ALIVE("drop()'s deletion");
        gf.state_at_delete = W.st.state_;          /* meaning of the ghost: state_ at the moment of deletion */
        gf = lm_outputs(gf); gf.atomics = VF_nondet_u8(); __CPROVER_assume(DROP_POST(gf));
        VF_P(gf.deleter_calls == 1 && gf.lin_count == 0, "lemma: drop() deletes on this path");
        lm_delete(gf.deleter_arg); f_pc = F_DONE;
      } else if (f_pc == F_WAIT) {                     /* evt_ fired: continuation, first access (load) */
        LM_ALIVE("the continuation");
        VF_P(PRE_CONT(W.st), "lemma: the continuation finds the state its contract requires");
        gf.party = P_CONT; gf.atomics = 1; gf.seen0 = W.st.state_;
        if (CONT_ATOMICS(gf.seen0) == 2) f_pc = F_CONT1;
        else {
          gf = lm_outputs(gf); __CPROVER_assume(CONT_POST(gf));
          VF_P(gf.deleter_calls == 1 && gf.lin_count == 0, "lemma: the continuation deletes when it loads a result or complete");
          f_yield = gf.yield; f_yielded = 1; lm_delete(gf.deleter_arg); f_pc = F_DONE;
        }
      } else {                                         /* continuation: CAS abandoned -> complete */
        LM_ALIVE("the continuation's CAS");
        gf.atomics = 2; gf.seen1 = W.st.state_;
        gf = lm_outputs(gf); __CPROVER_assume(CONT_POST(gf));
        f_yield = gf.yield; f_yielded = 1;
        if (gf.lin_count == 1) { struct sfo o = W.st; W.st.state_ = gf.lin_new; VF_P(GUAR_CONT(o, W.st), "lemma: the continuation's write is a guarantee step"); }
        if (gf.deleter_calls) lm_delete(gf.deleter_arg);
        f_pc = F_DONE;
      }
    } else {
      /* ---- the stop callback ---- */
      if (k_pc == K_IDLE) {                            /* abandon(): CAS init -> abandoned */
        LM_ALIVE("abandon()");
        VF_P(PRE_K(W.st), "lemma: abandon() finds the state its contract requires");
        gk.atomics = 1; gk.seen0 = W.st.state_;
        gk = lm_outputs(gk); __CPROVER_assume(ABANDON_POST(gk));
        if (gk.lin_count == 1) { struct sfo o = W.st; W.st.state_ = gk.lin_new; VF_P(GUAR_K(o, W.st), "lemma: abandon()'s write is a guarantee step"); k_pc = K_PUBLISH; }
        else k_pc = K_DONE;
      } else {                                         /* request_stop(); evt_.set() */
        LM_ALIVE("abandon()'s publication");
        VF_P(gk.stop_requests == 1 && gk.evt_sets == 1 && gk.t_stop < gk.t_evt, "lemma: a winning abandon() requests stop before waking the future");
        W.stop_req = 1;
        struct sfo o = W.st; W.st.evt_ = 1;
        VF_P(GUAR_K(o, W.st), "lemma: abandon()'s evt_.set() is a guarantee step");
        k_pc = K_DONE;
      }
    }
    VF_P(W.d <= 1, "lemma: deleter at most once");
    VF_P(W.d == 1 || INV(W.st), "lemma: the live object satisfies the invariant after every step");
  }
  /* quiescence: the operation completed, the future was dropped or ran its continuation, the callback is not in flight */
  _Bool quiescent = o_pc == O_DONE && (f_pc == F_DONE || f_pc == F_GONE) && !(LM_CB_AS_CODED && f_pc == F_DONE && f_started) && k_pc != K_PUBLISH;
  VF_P(quiescent, "lemma: no deadlock - every maximal run ends with operation and future finished and no callback in flight (the step bound suffices)");
  if (quiescent) {
    VF_CANARY("quiescence reachable");
    VF_P(W.d == 1, "lemma: at quiescence the shared state has been deleted exactly once");
    if (f_started) {
      VF_P(f_yielded, "lemma: a started future completes");
      /* the future observes value / error / done of the operation iff the operation's CAS init -> result won */
      VF_P((f_yield == FS_value || f_yield == FS_error) ==> o_won, "lemma: the future yields a value or an error only if the operation's CAS init -> result won");
      VF_P(o_won ==> (f_yield == o_result && (o_result == desired || (desired == FS_value && o_result == FS_error))),
           "lemma: if the operation's CAS won, the future yields exactly the operation's result (even if stop was requested afterwards)");
      VF_P(!o_won ==> (f_yield == FS_done && k_pc == K_DONE && gk.lin_count == 1), "lemma: otherwise the future was cancelled (abandon won) and yields done");
      if (o_won) { VF_CANARY("started future can get the result"); } else { VF_CANARY("started future can be cancelled"); }
    }
    if (f_dropped) { VF_P(o_won || W.stop_req, "lemma: a future dropped before its operation completed requested stop"); VF_CANARY("dropped future reachable"); }
    VF_P((k_pc == K_DONE && gk.lin_count == 1) ==> W.stop_req, "lemma: a winning cancellation requested stop on the spawned operation");
  }
}
