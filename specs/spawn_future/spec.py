H = 'include/unifex/spawn_future.hpp'
BASE = r'struct _spawn_future_op_base \{'
RECV = r'struct _spawn_future_receiver<T\.\.\.>::type : _spawn_future_receiver_base \{'
IMPL = r'struct _spawn_future_op_impl<Sender, Scope, Alloc>::type final'
FROMTOK = r'struct _future_sender_from_stop_token<T\.\.\.>::type final \{'

# call abstractions shared by every span: C++-only callees of _spawn_future_op_base become event stubs
ctx = dict(
    cls='sfo',
    members=['state_'],
    methods=['negotiate_deletion', 'destruct_op'],
    enums={'_future_state': 'FS'},
    pre=[
        (r'(?<![\w>.])deleter_\(this, ([^(),;]+)\)', r'EV_deleter(this, \1)'),
        (r'(\w+)->deleter_\(\1, ([^(),;]+)\)', r'EV_deleter(\1, \2)'),
        (r'(?<![\w>.])stopSource_\.request_stop\(\)', 'EV_request_stop(this)'),
        (r'(?<![\w>.])evt_\.set\(\)', 'EV_evt_set(this)'),
        (r'(?<![\w>.])evt_\.ready\(\)', 'EV_evt_ready(this)'),
        (r'(?<![\w>.])destructOp_\(this\)', 'EV_destroy_operation(this)'),
        (r'(?<![\w>.])func\(\)', 'EV_func(this, desired)'),
    ],
)

# the future-side continuation (lambda inside _future_sender_from_stop_token::operator())
cont_pre = [
    (r'using \w+ = [^;]*;', ''),
    (r'(?<![\w>.])op_\.release\(\)', 'EV_release_handle(this)'),
    # general rule missing from the table (DESIGN 3.1 lists it): scope_guard -> armed flag + explicit run at every return
    (r'scope_guard (\w+) = \[rawOp, &state\]\(\) noexcept \{\s*([^{};]*;)\s*\};',
     r'_Bool \1_armed = 1;\n#define VF_SCOPE_EXIT_\1() do { if (\1_armed) { \2 } } while (0)\n'),
    (r'\b(cleanup)\.release\(\);', r'\1_armed = 0;'),
    (r'rawOp->get_value_sender\(\)', 'EV_yield_value(rawOp)'),
    (r'rawOp->get_error_sender\(\)', 'EV_yield_error(rawOp)'),
    (r'(?<![\w>.])just_done\(\)', 'EV_yield_done(rawOp)'),
    (r'return return_t\{([^{};]*)\};', r'{ int vf_rv = \1; VF_SCOPE_EXIT_cleanup(); return vf_rv; }'),
]

# _spawn_future_op_impl::deleter (allocator plumbing -> event stubs)
del_pre = [
    (r'using alloc_t =\s*typename [^;]*;', ''),
    (r'auto self = static_cast<type\*>\(base\);', 'struct sfo* self = base;'),
    (r'alloc_t alloc = self->alloc_;', 'EV_copy_allocator(self);'),
    (r'deactivate_union_member\(self->values_\)', 'EV_destroy_values(self)'),
    (r'deactivate_union_member\(self->error_\)', 'EV_destroy_error(self)'),
    (r'std::allocator_traits<alloc_t>::destroy\(alloc, self\)', 'EV_destroy_self(self)'),
    (r'std::allocator_traits<alloc_t>::deallocate\(alloc, self, 1\)', 'EV_deallocate(self)'),
]

# the result-storing callbacks handed to complete() by set_value / set_error
store_pre = [
    # general rule missing from the table (DESIGN 3.1 lists it): UNIFEX_TRY { may-throw stub } UNIFEX_CATCH(...) { B }
    (r'UNIFEX_TRY\s*\{\s*activate_union_member\(op->values_,[^;]*\);\s*\}\s*UNIFEX_CATCH\s*\(\.\.\.\)', 'if (EV_construct_values_throws(op))'),
    (r'activate_union_member\(op->error_, [^;]*\)', 'EV_construct_error(op)'),
]

DROP_LOOP = ('__CPROVER_assigns(S, G.ready_seen, G.t_ready, G.seq)\n'
             '__CPROVER_loop_invariant(DROP_SPIN_INV(state))')

SPEC = dict(
    properties=['C09', 'C02'],
    ctx=ctx,
    extracts={
        'future_state_enum': dict(file=H, kind='expr', sig=r'enum class _future_state : unsigned char \{([^}]*)\}',
                                  ctx=dict(post=[(r'\b([A-Za-z_]\w*)\b', r'FS_\1')])),
        'state_init': dict(file=H, kind='expr', sig=r'std::atomic<_future_state> state_\{([^}]*)\}'),
        'abandon': dict(file=H, sig=r'void abandon\(\) noexcept', within=BASE, must_contain=[r'compare_exchange_strong']),
        'complete': dict(file=H, sig=r'void complete\(_future_state desired, Func func\) noexcept', within=BASE,
                         must_contain=[r'compare_exchange_strong']),
        'negotiate_deletion': dict(file=H, sig=r'void negotiate_deletion\(_future_state expected\) noexcept', within=BASE),
        'drop': dict(file=H, sig=r'void drop\(\) noexcept', within=BASE, loops={0: DROP_LOOP},
                     # general rule missing from the table: a loop whose body is the empty statement (drop() has no do-while)
                     ctx=dict(pre=[(r'\bwhile \(([^;{}]*)\)\s*;', r'while (\1) { }')])),
        'destruct_op': dict(file=H, sig=r'void destruct_op\(\) noexcept', within=BASE),
        'deleter': dict(file=H, sig=r'deleter\(_spawn_future_op_base\* base, _future_state state\) noexcept', within=IMPL,
                        ctx=dict(pre=del_pre)),
        'continuation': dict(file=H, sig=r'\[this\]\(\) noexcept\(\s*noexcept\(op_->get_value_sender\(\), op_->get_error_sender\(\)\)\)',
                             within=FROMTOK, ctx=dict(pre=cont_pre),
                             must_contain=[r'state_\.load', r'compare_exchange_strong', r'switch \(state\)']),
        'store_value': dict(file=H, sig=r'op\(\)->complete\(_future_state::value, \[&, op = op\(\)\]\(\) noexcept', within=RECV,
                            ctx=dict(pre=store_pre)),
        'store_error': dict(file=H, sig=r'op\(\)->complete\(_future_state::error, \[&, op = op\(\)\]\(\) noexcept', within=RECV,
                            ctx=dict(pre=store_pre)),
    },
    # every textual use of the protocol word, the deleter pointer, the event and the stop source in the whole header
    closed_world=[dict(file=H, members=['state_', 'deleter_', 'evt_', 'stopSource_'],
                       allow=[r'std::atomic<_future_state> state_\{',                      # declaration (initial value extracted)
                              r'void \(\*deleter_\)\(_spawn_future_op_base\*, _future_state\) noexcept;',
                              r', deleter_\(deleter\) \{\}',                                # constructor: stores the pointer
                              r'async_manual_reset_event evt_;',
                              r'inplace_stop_source stopSource_;',
                              r'op_->evt_\.async_wait\(\)',                                 # the future waits on the event (C16)
                              r'return r\.op_->stopSource_\.get_token\(\);'])],          # the spawned operation's stop token
    units=[
        dict(name='abandon', harness='h_abandon', enforce='sfo_abandon'),
        dict(name='complete', harness='h_complete', enforce='sfo_complete', replace=['sfo_negotiate_deletion']),
        dict(name='negotiate_deletion', harness='h_negotiate_deletion', enforce='sfo_negotiate_deletion'),
        dict(name='drop', harness='h_drop', enforce='sfo_drop', defines=['VF_ASSUME_VALUE_STORE_NOTHROW'], expect_loop_obligations=True),
        # the honest rely (set_value's callback may turn value into error before evt_.set()): exposes the drop() stale-state defect
        dict(name='drop_value_store_throws', harness='h_drop', enforce='sfo_drop', expect_loop_obligations=True),
        dict(name='future_continuation', harness='h_continuation', enforce='future_continuation'),
        dict(name='deleter', harness='h_deleter', enforce='sfo_impl_deleter'),
        dict(name='store_value', harness='h_store_value', enforce='receiver_store_value'),
        dict(name='store_error', harness='h_store_error', enforce='receiver_store_error'),
        dict(name='lemma_rely_guarantee', harness='lemma_rely_guarantee', mode='lemma'),
        dict(name='lemma_init', harness='lemma_init', mode='lemma'),
        dict(name='lemma_interleavings', harness='lemma_interleavings', mode='lemma', solver='cadical'),
        # the stop callback's lifetime as the templates implement it (registered at connect, deregistered when the future's op state dies):
        # exposes abandon() on freed state and drop() reaching std::terminate()
        dict(name='lemma_interleavings_callback_lifetime_as_coded', harness='lemma_interleavings', mode='lemma', solver='cadical', defines=['VF_STOP_CALLBACK_LIFETIME_AS_CODED']),
    ],
    assumptions=[
        'each party calls its entry points once, as the templates around them do: the spawned operation calls complete() once; a future is either dropped (drop(), never started) or started (continuation runs once after evt_ fires); abandon() runs at most once (inplace_stop_callback, C03)',
        'all units except lemma_interleavings_callback_lifetime_as_coded: for a started future abandon() does not run after the continuation has finished. As coded the stop callback (registered at connect: let_value_with builds its state in the operation constructor) is deregistered only when the future\'s operation state is destroyed; the as-coded lemma lifts this assumption and fails on "abandon() touches the shared state only before it is deleted" (known finding C09-abandon-after-delete, ASan-confirmed)',
        'drop() of a connected future runs after its stop callback has been deregistered (member destruction order in let_value_with / let_value_with_stop_token; inplace_stop_callback deregistration waits for a running callback, C03): abandon() is never concurrent with drop(), but may have run to its end before it',
        'unit drop assumes the value-storing callback of set_value does not throw (weaker rely, kept for comparison); unit drop_value_store_throws verifies the same body under the honest rely (value -> error store between complete()\'s CAS and evt_.set()) and passes since fix e731689',
        'async_manual_reset_event: set() makes ready() true and wakes the waiter, does not touch the event after waking it (C16); evt_.ready()/set() are event stubs',
        'the spin in drop() is proved partially correct only (the operation eventually calls evt_.set())',
        'allocator round-trip in deleter (copy allocator, destroy, deallocate) are event stubs; allocator semantics (C12) not reached',
        'spawn_future_fn::operator() catch path (deleter(op, complete) after the future dropped a never-started operation), spawn_detached\'s terminate, nest()/scope interaction are not reached',
        'atomics sequentially consistent',
    ],
    drops=['memory orders', 'template parameter Func of complete(): func() -> contract stub EV_func (the three callbacks; the two that store something are extracted as store_value / store_error)',
           'deleter_(this, s) / rawOp->deleter_(rawOp, s) (function pointer) -> contract stub EV_deleter of the extracted deleter',
           'stopSource_.request_stop(), evt_.set(), evt_.ready(), destructOp_(this) -> event stubs',
           'scope_guard cleanup in the continuation -> armed flag + explicit run at every return (spec-level regex)',
           'UNIFEX_TRY/UNIFEX_CATCH around activate_union_member(values_) -> if (EV_construct_values_throws(op)) { catch body }',
           'variant_sender/just payloads: get_value_sender()/get_error_sender()/just_done() -> EV_yield_* (which completion the future produces)',
           'allocator type plumbing in deleter (using alloc_t, static_cast<type*>)',
           '_op_dropper::operator() and _future_stop_callback_factory (one-line call sites of drop()/abandon()), set_done\'s empty callback are not extracted'],
)
