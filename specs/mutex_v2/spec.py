CPP = 'source/async_mutex_v2.cpp'
H = 'include/unifex/v2/async_mutex.hpp'
MCLS = r'class async_mutex \{'
OPCLS = r'class type : waiter_base \{'

# the waiter list is used through the CONTRACTS of specs/atomic_list/ail_contract.h (contract stubs AIL_*)
LIST = {'push_back': 'AIL_push_back', 'push_front': 'AIL_push_front', 'pop_front': 'AIL_pop_front',
        'try_remove': 'AIL_try_remove', 'empty': 'AIL_empty'}
TYPEMAP = [(r'\bwaiter_base\b', 'struct waiter'), (r'(?<!struct )\basync_mutex\b', 'struct async_mutex'), (r'\btype\b', 'struct lock_op')]

ctx = dict(
    cls='async_mutex',
    members=['locked_', 'queue_'],
    methods=['process_queue'],
    atomic=['locked_'],
    obj_methods=LIST,
    typemap=TYPEMAP,
    pre=[(r'(\w+)->resume_\(\1\)', r'EV_resume(\1)')],      # function pointer into the waiter: the hand-off event
)
# the lock operation (lock_raw_sender::_op<Receiver>::type : waiter_base).  mutex_ is a REFERENCE member -> pointer member;
# `async_mutex& mutex = mutex_;` binds to the mutex itself, not to the member -> pointer copy
op_ctx = dict(
    cls='OP', members=['mutex_', 'cancelled_', 'started_'], methods=[], atomic=['locked_'], obj_methods=LIST, typemap=TYPEMAP,
    pre=[(r'async_mutex& mutex = mutex_;', 'async_mutex* mutex = mutex_;'),
         (r'\bmutex\.', 'mutex->'),
         (r'\bmutex_\.try_lock\(\)', 'async_mutex_try_lock(mutex_)'),
         (r'\bmutex->process_queue\(\)', 'async_mutex_process_queue(mutex)'),
         (r'(\w+)->mutex_\.unlock\(\)', r'async_mutex_unlock(\1->mutex_)'),
         (r'\bmutex_\.(queue_|locked_)', r'mutex_->\1'),
         (r'\b(push_back|push_front|try_remove)\(this\)', r'\1(&this->base)'),          # type : waiter_base upcast made explicit
         (r'\btry_complete\((\w+)\)', r'EV_try_complete(\1)'),                           # cancellable<> arbitration (C19)
         (r'(\w+)->forwardingOp_\.start\(\*\1\)', r'EV_forward_start(\1)'),              # completion_forwarder: scheduler hop, then forward_set_value
         (r'\bforwardingOp_\.start\(\*this\)', 'EV_forward_start(this)'),
         (r'unifex::set_done\(std::move\(receiver_\)\)', 'EV_set_done(this)'),
         (r'unifex::set_value\(std::move\(receiver_\)\)', 'EV_set_value(this)')],
    # every access to the operation object asserts that it has not been destroyed by a completer
    post=[(r'\bself->', 'VF_ALIVE(self)->'), (r'\bop->', 'VF_ALIVE(op)->')],
)

PQ_LOOP = '__CPROVER_assigns(PQ_ASSIGNS)\n__CPROVER_loop_invariant(PQ_INV)'

SPEC = dict(
    properties=['C15'],
    ctx=ctx,
    extracts={
        'locked_init': dict(file=H, kind='expr', sig=r'std::atomic<bool> locked_\{([^}]*)\}', within=MCLS),
        'cancelled_init': dict(file=H, kind='expr', sig=r'bool cancelled_\{([^}]*)\}', within=OPCLS),
        'started_init': dict(file=H, kind='expr', sig=r'bool started_\{([^}]*)\}', within=OPCLS),
        'process_queue': dict(file=CPP, sig=r'void async_mutex::process_queue\(\) noexcept', loops={0: PQ_LOOP}),
        'unlock': dict(file=CPP, sig=r'void async_mutex::unlock\(\) noexcept'),
        'try_lock': dict(file=H, sig=r'inline bool async_mutex::try_lock\(\) noexcept'),
        'op_start': dict(file=H, sig=r'void async_mutex::lock_raw_sender::_op<Receiver>::type::start\(\) noexcept', ctx=op_ctx),
        'op_stop': dict(file=H, sig=r'void async_mutex::lock_raw_sender::_op<Receiver>::type::stop\(\) noexcept', ctx=op_ctx),
        'op_resume': dict(file=H, sig=r'this->resume_ = \[\]\(waiter_base\* self\) noexcept', within=OPCLS,
                          ctx=dict(op_ctx, members=[], post=[(r'\bop->', 'VF_ALIVE(op)->')])),
        'op_forward_set_value': dict(file=H, sig=r'void forward_set_value\(\) noexcept', within=OPCLS, ctx=op_ctx),
    },
    closed_world=[
        dict(file=CPP, members=['locked_', 'queue_']),
        dict(file=H, members=['locked_', 'queue_'], within=MCLS,
             allow=[r'atomic_intrusive_list<waiter_base> queue_;', r'std::atomic<bool> locked_\{false\};']),
    ],
    units=[
        dict(name='try_lock', harness='h_try_lock', enforce='async_mutex_try_lock'),
        dict(name='process_queue', harness='h_process_queue', enforce='async_mutex_process_queue', expect_loop_obligations=True),
        dict(name='unlock', harness='h_unlock', enforce='async_mutex_unlock', replace=['async_mutex_process_queue']),
        dict(name='op_start', harness='h_op_start', enforce='OP_start', replace=['async_mutex_process_queue']),
        dict(name='op_stop', harness='h_op_stop', enforce='OP_stop'),
        dict(name='op_resume', harness='h_op_resume', enforce='OP_resume', replace=['async_mutex_unlock']),
        dict(name='op_forward_set_value', harness='h_op_forward_set_value', enforce='OP_forward_set_value'),
        dict(name='lemma_mutex2_init', harness='lemma_mutex2_init', mode='lemma'),
        dict(name='lemma_mutex2_exclusion', harness='lemma_mutex2_exclusion', mode='lemma'),
        dict(name='lemma_mutex2_dekker', harness='lemma_mutex2_dekker', mode='lemma'),
        dict(name='lemma_mutex2_cancel', harness='lemma_mutex2_cancel', mode='lemma'),
        dict(name='lemma_mutex2_fifo', harness='lemma_mutex2_fifo', mode='lemma'),
    ],
    assumptions=[
        'atomics and fences sequentially consistent: the two seq_cst fences of the Dekker pattern are interference points only; '
        'weak-memory effects (what the fences are for) are not reached, so a dropped fence is invisible to this check',
        'atomic_intrusive_list is used through the linearisation-point contracts of specs/atomic_list/ail_contract.h '
        '(push_back appends; pop_front returns NULL iff empty, else the front item; try_remove(item) true iff the item was still in the list; '
        'of pop_front returning an item and try_remove of that item at most one succeeds; empty). Group atomic_list checks them '
        'sequentially on bounded lists plus the unbounded link discipline; that every concurrent execution linearises to them stays an assumption',
        'only the holder pops: pop_front is called by process_queue only, and process_queue requires holder == me (checked here); '
        'push_back / try_remove of an operation are called by that operation only',
        'cancellable<> (C19, specs/cancellable): try_complete(op) returns true for exactly one caller; stop() is never run concurrently with start() '
        '(it runs either instead of start() -- stops-early, started_ false -- or after start() returned); stop() is called at most once',
        'unlock() is called by the current holder only (requires holder == me)',
        'completion_forwarder (template): forwardingOp_.start(op) eventually calls op.forward_set_value() exactly once on the receiver\'s scheduler; '
        'the receiver may destroy the operation from inside it',
        'resume_\'s else branch (try_complete false after a pop) is reached only while the operation is alive; lemma_mutex2_cancel shows that no '
        'execution of this library version reaches it (stop() completes only after a successful try_remove or before the push)',
        'not claimed: the mutex object outlives an unlock() that has stored locked_=false but not yet returned (process_queue reads queue_ and '
        'locked_ after releasing: a party that acquires, unlocks and destroys the mutex in that window would race with it)',
    ],
    drops=['memory orders', 'noexcept/[[nodiscard]]', 'template genericity (Receiver)', 'reference member mutex_ -> pointer member',
           'type : waiter_base upcast/downcast made explicit (first member)',
           'w->resume_(w) -> event stub EV_resume (hand-off); the lambda stored in resume_ is extracted and verified separately (op_resume)',
           'try_complete / forwardingOp_.start / set_value / set_done -> event stubs', 'queue_ operations -> contract stubs AIL_*',
           'async_lock() / lock_raw_sender / connect (template glue) not reached'],
)
