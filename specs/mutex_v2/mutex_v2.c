/* C15: v2 async_mutex (source/async_mutex_v2.cpp, include/unifex/v2/async_mutex.hpp).
 *
 *   locked_  : the lock flag.  false -> true transitions (try_lock / exchange(true) returning false) are the ONLY
 *              acquisitions; only the holder stores false; a hand-off (process_queue resuming a popped waiter) keeps it true.
 *   queue_   : concurrent waiter list, used through the linearisation-point CONTRACTS of
 *              specs/atomic_list/ail_contract.h (contract stubs AIL_* below); only the holder pops.
 * M1 on locked_ (rely/guarantee with ghost G.lk.i_hold = "holder == me"), the list behind contracts, the process_queue loop
 * as a native loop contract over scalar state, M4 lemmas (mutual exclusion, Dekker no-lost-waiter, cancel vs. pop, FIFO).
 * Bodies marked @BODY/@EXPR are extracted from /repo on every run; everything else here is specification. */
#include <stddef.h>
#include <stdint.h>
struct waiter { void (*resume_)(struct waiter*); };                 /* async_mutex::waiter_base (the list node part is behind the list contracts) */
struct ail { char opaque_; };                                        /* atomic_intrusive_list<waiter_base> */
struct async_mutex { struct ail queue_; _Bool locked_; };
struct lock_op { struct waiter base; struct async_mutex* mutex_; int receiver_; int forwardingOp_; _Bool cancelled_; _Bool started_; };   /* lock_raw_sender::_op<Receiver>::type : waiter_base */

enum { Q_NOT, Q_QUEUED, Q_POPPED, Q_REMOVED };   /* life of a waiter node: never pushed / in the list / taken by pop_front / taken by try_remove */
enum { PUSH_NONE, PUSH_BACK, PUSH_FRONT };

struct vf_ghost {
  struct {                      /* configuration of the unit: never assigned by verified code */
    _Bool op_mine;              /* OP is the verified party's own operation (start / stop / resume_) */
    _Bool keep_alive;           /* OP cannot be destroyed while the verified code runs (stop(): the callback destructor waits, C19/C03) */
  } c;
  struct {                      /* the lock word */
    _Bool i_hold;               /* holder == me: the verified call's party owns the lock */
    unsigned acquires, releases;/* my false->true / true->false transitions */
    unsigned locked_writes;     /* my writes to locked_ */
    _Bool lin_old;              /* value my last exchange saw */
    _Bool rel;                  /* my last write to locked_ was a release (and I have not re-acquired) */
    _Bool empty_after_release;  /* after that release, empty() said empty */
    _Bool lost_race;            /* my exchange saw the lock held by another party (after my release / after my push) */
    _Bool xchg_after_push;      /* an exchange(true) of mine happened after my push_back */
    _Bool pop_null;             /* while holding, my last pop_front returned NULL and nothing was popped since */
  } lk;
  struct {                      /* the list and the hand-off, as seen by the verified call */
    unsigned pops; struct waiter* last_popped;
    unsigned resumed; struct waiter* resumed_item; _Bool handed;
  } q;
  struct {                      /* the operand operation OP as the environment can change it */
    int op_state; _Bool popped_by_me;
    _Bool completed;            /* cancellable's completed bit of OP: some caller of try_complete has won */
    _Bool op_dead; struct lock_op snap;
  } o;
  struct {                      /* what the verified call did with its own operation */
    int push_kind; unsigned pushes; unsigned tr_calls; _Bool tr_result;
    unsigned tc_calls; _Bool tc_won;
    unsigned fwd; _Bool cancelled_at_fwd, hold_at_fwd; int state_at_fwd;
    unsigned set_value, set_done;
  } s;
};
static struct vf_ghost G;
static struct async_mutex M;
static struct lock_op OP;       /* the operand operation; its waiter node is OP.base */
static struct waiter W1;        /* some other (older) waiter */

static void vf_guar(void* p, uint64_t o, uint64_t n);
#define VF_G(p, o, n) vf_guar((void*)(p), (uint64_t)(o), (uint64_t)(n))
#include "vf.h"
#define VF_NB() (VF_nondet_bool() ? (_Bool)1 : (_Bool)0)   /* canonical truth value */
#include "../atomic_list/ail_contract.h"

#define OP_EQ_SNAP (OP.base.resume_ == G.o.snap.base.resume_ && OP.mutex_ == G.o.snap.mutex_ && OP.receiver_ == G.o.snap.receiver_ \
                    && OP.forwardingOp_ == G.o.snap.forwardingOp_ && OP.cancelled_ == G.o.snap.cancelled_ && OP.started_ == G.o.snap.started_)
#define OP_OK (!G.o.op_dead || OP_EQ_SNAP)    /* a destroyed operation is never written again */
#define VF_ALIVE(p) ({ VF_P(!G.o.op_dead, "the operation is not touched after a completer may have destroyed it"); (p); })

/* the receiver (or whoever completed the operation) destroys it: its memory is gone */
static void vf_op_dies(void) {
  struct lock_op f;
  OP.base.resume_ = f.base.resume_; OP.mutex_ = f.mutex_; OP.receiver_ = f.receiver_; OP.forwardingOp_ = f.forwardingOp_;
  OP.cancelled_ = f.cancelled_; OP.started_ = f.started_;
  G.o.snap = OP; G.o.op_dead = 1;
}

/* ---- the steps any party takes on locked_ (guarantee) ---- */
#define STEP_ACQUIRE(o, n) (!(o) && (n))      /* try_lock true / exchange(true) returned false: the unique unlocked -> locked transition */
#define STEP_SEEN(o, n)    ((o) && (n))       /* exchange(true) on a held lock: no change */
#define STEP_RELEASE(o, n) ((o) && !(n))      /* holder only */
static void vf_guar(void* p, uint64_t o, uint64_t n) {
  VF_P(p == (void*)&M.locked_, "atomic write to an unexpected location");
  VF_P(STEP_ACQUIRE(o, n) || STEP_SEEN(o, n) || STEP_RELEASE(o, n), "guarantee: locked_ is only acquired (false->true), re-observed (true->true) or released (true->false)");
  G.lk.locked_writes++;
  if (n == 0) {
    VF_P(G.lk.i_hold, "guarantee: only the holder releases the lock (stores locked_ = false)");
    VF_P(G.lk.pop_null, "the lock is released only after pop_front found the queue empty while the lock was held (no hand-off skipped)");
    G.lk.i_hold = 0; G.lk.releases++; G.lk.rel = 1; G.lk.empty_after_release = 0; G.lk.lost_race = 0; G.lk.pop_null = 0;
  } else {
    G.lk.lin_old = (o != 0);
    if (G.s.pushes >= 1) G.lk.xchg_after_push = 1;
    if (o == 0) { VF_P(!G.lk.i_hold, "the lock is free only when nobody holds it"); G.lk.i_hold = 1; G.lk.acquires++; G.lk.rel = 0; G.lk.pop_null = 0; }
    else if (!G.lk.i_hold) { G.lk.lost_race = 1; }     /* another party holds the lock now: it will drain the queue when it unlocks */
  }
}

/* ---- rely ----
 * locked_: while I hold the lock nobody else changes it (lemma_mutex2_exclusion); otherwise others acquire / release / hand off.
 * my own node: once pushed, the holder (if that is not me) may pop it, run its resume_ (try_complete + completion) and the
 *   receiver may destroy the operation; nobody else removes it.
 * another party's node: its owner pushes it / removes it at any time; only the holder pops. */
static void vf_env_queue(void) {
  if (G.c.op_mine) {
    if (G.o.op_state == Q_QUEUED && !G.lk.i_hold && VF_NB()) { G.o.op_state = Q_POPPED; G.o.popped_by_me = 0; }
    if (G.o.op_state == Q_POPPED && !G.o.popped_by_me && !G.o.completed && VF_NB()) G.o.completed = 1;
    if (G.o.op_state == Q_POPPED && !G.o.popped_by_me && G.o.completed && !G.s.tc_won && !G.c.keep_alive && !G.o.op_dead && VF_NB()) vf_op_dies();
  } else {
    if (G.o.op_state == Q_NOT && VF_NB()) G.o.op_state = Q_QUEUED;
    else if (G.o.op_state == Q_QUEUED && VF_NB()) G.o.op_state = Q_REMOVED;
  }
}
static void vf_interfere(void) {
  VF_P(!G.q.handed, "the mutex is not touched after the lock was handed to a waiter (the new holder owns it)");
  if (!G.lk.i_hold) M.locked_ = VF_NB();
  vf_env_queue();
}

/* ---------------- the waiter list: contract stubs (specs/atomic_list/ail_contract.h) ---------------- */
static size_t vf_list_size(void) {           /* number of items now: unknown, except that a queued node is an item */
  size_t n = VF_nondet_size_t();
  __CPROVER_assume(G.o.op_state != Q_QUEUED || n >= 1);
  return n;
}
static struct waiter* AIL_pop_front(struct ail* q) {
  VF_A(q == &M.queue_, "pop_front on the mutex's queue");
  VF_P(G.lk.i_hold, "only the holder pops a waiter (single popper)");
  vf_interfere();
  size_t n = vf_list_size();
  struct waiter* front = (G.o.op_state == Q_QUEUED && VF_NB()) ? &OP.base : &W1;
  struct waiter* rv = VF_NB() ? front : NULL;
  __CPROVER_assume(AIL_ENS_POP_FRONT(rv, n, front));
  if (rv == &OP.base) { G.o.op_state = Q_POPPED; G.o.popped_by_me = 1; }
  G.q.pops++; G.q.last_popped = rv; G.lk.pop_null = (rv == NULL);
  return rv;
}
static _Bool AIL_empty(struct ail* q) {
  VF_A(q == &M.queue_, "empty on the mutex's queue");
  vf_interfere();
  size_t n = vf_list_size();
  _Bool rv = VF_NB();
  __CPROVER_assume(AIL_ENS_EMPTY(rv, n));
  if (rv && G.lk.rel) G.lk.empty_after_release = 1;
  return rv;
}
static void vf_push(struct ail* q, struct waiter* item, int kind) {
  VF_A(q == &M.queue_ && item == &OP.base, "push of the operation's own node on the mutex's queue");
  VF_P(AIL_REQ_PUSH(G.o.op_state == Q_QUEUED) && G.o.op_state == Q_NOT && G.s.pushes == 0, "a waiter node is pushed once, while it is in no list");
  VF_P(!G.o.op_dead && OP.started_, "started_ is set before the node is published (stop() must take the try_remove path from then on)");
  VF_P(!G.lk.i_hold, "a party that owns the lock does not queue behind it");
  vf_interfere();
  G.o.op_state = Q_QUEUED; G.s.pushes++; G.s.push_kind = kind;
}
static void AIL_push_back(struct ail* q, struct waiter* item) { vf_push(q, item, PUSH_BACK); }
static void AIL_push_front(struct ail* q, struct waiter* item) { vf_push(q, item, PUSH_FRONT); }
static _Bool AIL_try_remove(struct ail* q, struct waiter* item) {
  VF_A(q == &M.queue_ && item == &OP.base, "try_remove of the operation's own node");
  vf_interfere();
  _Bool rv = VF_NB();
  __CPROVER_assume(AIL_ENS_TRY_REMOVE(rv, G.o.op_state == Q_QUEUED));
  if (rv) G.o.op_state = Q_REMOVED;
  G.s.tr_calls++; G.s.tr_result = rv;
  return rv;
}

/* ---------------- event stubs ---------------- */
/* w->resume_(w): the lock passes to this waiter.  Its resume_ (verified as op_resume) completes the operation; the
 * receiver may destroy it, run its critical section and unlock() again before the call returns */
static void EV_resume(struct waiter* w) {
  VF_CANARY("hand-off reachable");
  VF_P(G.lk.i_hold && M.locked_, "hand-off: the lock is held and locked_ stays true while it passes to the resumed waiter");
  VF_P(G.q.resumed == 0, "process_queue resumes at most one waiter");
  VF_P(w != NULL && w == G.q.last_popped, "the resumed waiter is the one pop_front returned (the oldest waiter: FIFO)");
  G.q.resumed++; G.q.resumed_item = w; G.lk.i_hold = 0; G.q.handed = 1;
  M.locked_ = VF_NB();
  if (w == &OP.base) {
    VF_P(G.o.op_state == Q_POPPED && G.o.popped_by_me, "a node is resumed only after it was popped");
    G.o.completed = 1;
    if (!G.c.keep_alive && !G.o.op_dead && VF_NB()) vf_op_dies();
  }
}
/* cancellable<>::try_complete (C19): true for exactly one caller */
static _Bool EV_try_complete(struct lock_op* op) {
  VF_CANARY("try_complete reachable");
  VF_P(op == &OP && !G.o.op_dead, "try_complete on the live operand operation");
  vf_env_queue();
  _Bool r = !G.o.completed;
  G.o.completed = 1; G.s.tc_calls++; G.s.tc_won = r;
  return r;
}
/* forwardingOp_.start(*op): completion_forwarder hops to the receiver's scheduler and calls forward_set_value():
 * set_done if cancelled_, else set_value -- the receiver of set_value OWNS THE LOCK from here on */
static void EV_forward_start(struct lock_op* op) {
  VF_CANARY("completion reachable");
  VF_P(op == &OP && !G.o.op_dead, "completion of the live operand operation");
  VF_P(G.s.tc_won, "the operation is completed only by the party that won try_complete");
  VF_P(G.s.fwd == 0, "the operation is completed at most once");
  G.s.fwd++; G.s.cancelled_at_fwd = OP.cancelled_; G.s.hold_at_fwd = G.lk.i_hold; G.s.state_at_fwd = G.o.op_state;
  VF_P(OP.cancelled_ ? !G.lk.i_hold : G.lk.i_hold, "completion with value <=> the completer owns the lock (it passes to the receiver); completion with done never owns it");
  VF_P(OP.cancelled_ ? (G.o.op_state == Q_NOT || G.o.op_state == Q_REMOVED) : (G.o.op_state == Q_NOT || G.o.op_state == Q_POPPED),
       "a waiter completed with done was never popped (never handed the lock); a waiter completed with value is not in the list any more");
  if (!OP.cancelled_) { G.lk.i_hold = 0; M.locked_ = VF_NB(); }     /* the receiver's critical section may already have unlocked */
  if (!G.c.keep_alive && VF_NB()) vf_op_dies();
}
static void EV_set_done(struct lock_op* op) { VF_P(G.s.set_done + G.s.set_value == 0, "one completion signal"); G.s.set_done++; }
static void EV_set_value(struct lock_op* op) { VF_P(G.s.set_done + G.s.set_value == 0, "one completion signal"); G.s.set_value++; }

/* ---------------- functions under contract ---------------- */
#define ENV_ASSIGNS M.locked_, G.o, OP
#define LOCK_ASSIGNS G.lk
#define OP_UNCHANGED_IF_ALIVE (G.o.op_dead || (OP.mutex_ == __CPROVER_old(OP.mutex_) && OP.cancelled_ == __CPROVER_old(OP.cancelled_) && OP.started_ == __CPROVER_old(OP.started_) \
                               && OP.receiver_ == __CPROVER_old(OP.receiver_) && OP.forwardingOp_ == __CPROVER_old(OP.forwardingOp_) && OP.base.resume_ == __CPROVER_old(OP.base.resume_)))

_Bool async_mutex_try_lock(struct async_mutex* self)
__CPROVER_requires(self == &M && !G.lk.i_hold && !G.q.handed && OP_OK)
__CPROVER_assigns(ENV_ASSIGNS, LOCK_ASSIGNS)
__CPROVER_ensures(__CPROVER_return_value == !G.lk.lin_old) /* true <=> the flag was false: THIS call made the unlocked -> locked transition */
__CPROVER_ensures(__CPROVER_return_value == G.lk.i_hold && G.lk.acquires == __CPROVER_old(G.lk.acquires) + (__CPROVER_return_value ? 1 : 0))
__CPROVER_ensures(G.lk.locked_writes == __CPROVER_old(G.lk.locked_writes) + 1 && G.lk.releases == __CPROVER_old(G.lk.releases))
__CPROVER_ensures(__CPROVER_return_value ==> M.locked_) /* and it stays locked while I hold it */
/*@BODY try_lock*/

/* process_queue: called by the party that owns the lock.  Either hands the lock to exactly one waiter -- the one
 * pop_front returned (front of the list) -- or releases it; a release is followed by a look at the queue, and the call
 * returns without a hand-off only if the queue was seen empty AFTER the release, or another party owns the lock now */
#define PQ_ASSIGNS ENV_ASSIGNS, LOCK_ASSIGNS, G.q
#define PQ_INV (G.lk.i_hold && M.locked_ && G.q.resumed == 0 && !G.q.handed && !G.lk.pop_null && OP_OK && (__CPROVER_loop_entry(G.lk.xchg_after_push) ==> G.lk.xchg_after_push))
void async_mutex_process_queue(struct async_mutex* self)
__CPROVER_requires(self == &M && G.lk.i_hold && M.locked_) /*P*/
__CPROVER_requires(G.q.resumed == 0 && !G.q.handed && !G.lk.pop_null && OP_OK)
__CPROVER_assigns(PQ_ASSIGNS)
__CPROVER_ensures(!G.lk.i_hold) /* the caller does not own the lock afterwards */
__CPROVER_ensures(G.q.resumed <= 1 && (G.q.resumed == 1) == G.q.handed)
__CPROVER_ensures(G.q.resumed == 1 ==> (G.q.resumed_item != NULL && G.q.resumed_item == G.q.last_popped)) /* hand-off to exactly the popped (oldest) waiter */
__CPROVER_ensures(G.q.resumed == 0 ==> (G.lk.rel && (G.lk.empty_after_release || G.lk.lost_race))) /* released: queue seen empty after the release, or somebody else owns the lock (no lost waiter, with lemma_mutex2_dekker) */
__CPROVER_ensures(OP_OK && (__CPROVER_old(G.lk.xchg_after_push) ==> G.lk.xchg_after_push))
/*@BODY process_queue*/

void async_mutex_unlock(struct async_mutex* self)
__CPROVER_requires(self == &M && G.lk.i_hold && M.locked_) /*P*/
__CPROVER_requires(G.q.resumed == 0 && !G.q.handed && !G.lk.pop_null && OP_OK)
__CPROVER_assigns(PQ_ASSIGNS)
__CPROVER_ensures(!G.lk.i_hold)
__CPROVER_ensures(G.q.resumed <= 1 && (G.q.resumed == 1) == G.q.handed)
__CPROVER_ensures(G.q.resumed == 1 ==> (G.q.resumed_item != NULL && G.q.resumed_item == G.q.last_popped))
__CPROVER_ensures(G.q.resumed == 0 ==> (G.lk.rel && (G.lk.empty_after_release || G.lk.lost_race)))
__CPROVER_ensures(OP_OK)
/*@BODY unlock*/

/* start(): either acquires synchronously (try_lock) and completes with value, owning the lock; or publishes its node at
 * the BACK of the queue and THEN looks at the lock (exchange after push): if it acquired, it drains (process_queue),
 * otherwise another party owned the lock after the push and will see the node when it releases (lemma_mutex2_dekker).
 * Nothing of the operation is touched after the push (it may be completed and destroyed by the popper). */
#define START_INLINE (G.s.pushes == 0)
void OP_start(struct lock_op* self)
__CPROVER_requires(self == &OP && OP.mutex_ == &M && G.c.op_mine && !G.c.keep_alive && G.o.op_state == Q_NOT && !G.o.completed && !G.o.op_dead && !OP.cancelled_)
__CPROVER_requires(!G.lk.i_hold && !G.q.handed && G.q.resumed == 0 && !G.lk.pop_null && G.s.pushes == 0 && G.s.tc_calls == 0 && G.s.fwd == 0 && !G.lk.xchg_after_push)
__CPROVER_assigns(PQ_ASSIGNS, G.s)
__CPROVER_ensures(G.s.pushes <= 1 && OP_OK)
__CPROVER_ensures(START_INLINE ==> (G.lk.acquires == __CPROVER_old(G.lk.acquires) + 1 && G.s.tc_calls == 1 && G.s.fwd == 1 && !G.s.cancelled_at_fwd && G.s.hold_at_fwd && G.s.state_at_fwd == Q_NOT)) /* acquired synchronously <=> not queued: completes once, with value, owning the lock */
__CPROVER_ensures(!START_INLINE ==> (G.s.push_kind == PUSH_BACK && G.lk.xchg_after_push && !G.lk.i_hold && G.s.fwd == 0 && G.s.tc_calls == 0)) /* queued at the back; the lock word is examined AFTER the push; a lock acquired there is drained, never kept */
__CPROVER_ensures(!START_INLINE ==> (G.q.resumed == 1 || G.lk.rel || G.lk.lost_race)) /* after the push: drained (hand-off or release) or the lock was seen owned by another party */
/*@BODY op_start*/

/* stop(): never touches the lock word.  Not started: completes with done (never queued).  Started: try_remove decides --
 * success: the node can no longer be popped, the operation completes with done, exactly once, without ever owning the lock;
 * failure: the node was already popped (or never pushed): stop() does nothing, the popper's resume_ decides. */
void OP_stop(struct lock_op* self)
__CPROVER_requires(self == &OP && OP.mutex_ == &M && G.c.op_mine && G.c.keep_alive && !G.o.op_dead && !G.lk.i_hold && !G.q.handed)
__CPROVER_requires(G.s.tc_calls == 0 && G.s.fwd == 0 && G.s.tr_calls == 0 && G.lk.locked_writes == 0 && G.s.pushes == 0 && G.q.pops == 0)
__CPROVER_requires(OP.started_ ? (G.o.op_state == Q_NOT || G.o.op_state == Q_QUEUED || G.o.op_state == Q_POPPED) : (G.o.op_state == Q_NOT && !G.o.completed))
__CPROVER_requires(!OP.cancelled_)
__CPROVER_assigns(ENV_ASSIGNS, G.lk, G.s)
__CPROVER_ensures(G.lk.locked_writes == 0 && !G.lk.i_hold && G.s.pushes == 0 && G.q.pops == 0) /* a cancelled waiter never acquires, releases or queues */
__CPROVER_ensures(!__CPROVER_old(OP.started_) ==> (G.s.tr_calls == 0 && G.s.tc_calls == 1 && G.s.fwd == 1 && G.s.cancelled_at_fwd && G.s.state_at_fwd == Q_NOT)) /* stopped before start: done */
__CPROVER_ensures(__CPROVER_old(OP.started_) ==> G.s.tr_calls == 1)
__CPROVER_ensures((__CPROVER_old(OP.started_) && G.s.tr_result) ==> (G.o.op_state == Q_REMOVED && G.s.tc_calls == 1 && G.s.fwd == 1 && G.s.cancelled_at_fwd && !G.s.hold_at_fwd && G.s.state_at_fwd == Q_REMOVED)) /* removed: completes with done, once, never owned the lock, can never be popped */
__CPROVER_ensures((__CPROVER_old(OP.started_) && !G.s.tr_result) ==> (G.s.tc_calls == 0 && G.s.fwd == 0 && OP.cancelled_ == 0 && OP.started_)) /* already popped: stop() does nothing; the popper's resume_ decides */
/*@BODY op_stop*/

/* resume_ (installed by the constructor): called by process_queue on the popped waiter -- the lock has passed to it.
 * Wins try_complete: completes with value, owning the lock.  Loses (somebody completed it already): the lock must not be
 * leaked nor given to the completed waiter: unlock() */
void OP_resume(struct waiter* self)
__CPROVER_requires(self == &OP.base && OP.mutex_ == &M && G.c.op_mine && G.c.keep_alive && !G.o.op_dead && G.o.op_state == Q_POPPED && G.o.popped_by_me)
__CPROVER_requires(G.lk.i_hold && M.locked_ && G.q.resumed == 0 && !G.q.handed && !G.lk.pop_null && G.s.tc_calls == 0 && G.s.fwd == 0)
__CPROVER_requires(G.o.completed || !OP.cancelled_)
__CPROVER_assigns(PQ_ASSIGNS, G.s)
__CPROVER_ensures(G.s.tc_calls == 1)
__CPROVER_ensures(G.s.tc_won ==> (G.s.fwd == 1 && !G.s.cancelled_at_fwd && G.s.hold_at_fwd && G.q.resumed == 0 && G.lk.releases == __CPROVER_old(G.lk.releases))) /* completes with value, owning the lock; does not release it */
__CPROVER_ensures(!G.s.tc_won ==> (G.s.fwd == 0 && !G.lk.i_hold && (G.q.resumed == 1 || G.lk.rel))) /* already completed (cancelled): the lock is passed on or released, never leaked, never given to this waiter */
/*@BODY op_resume*/

void OP_forward_set_value(struct lock_op* self)
__CPROVER_requires(self == &OP && !G.o.op_dead && G.s.set_value == 0 && G.s.set_done == 0)
__CPROVER_assigns(G.s)
__CPROVER_ensures(G.s.set_value + G.s.set_done == 1 && (G.s.set_done == 1) == (OP.cancelled_ != 0)) /* exactly one signal: done <=> cancelled */
/*@BODY op_forward_set_value*/

/* ---------------- harnesses ---------------- */
static void h_init(_Bool hold) {
  M.locked_ = hold ? 1 : VF_NB();
  G.lk.i_hold = hold; G.lk.acquires = VF_nondet_u32() % 4; G.lk.releases = VF_nondet_u32() % 4; G.lk.locked_writes = 0; G.lk.lin_old = 0; G.lk.rel = 0;
  G.lk.empty_after_release = 0; G.lk.lost_race = 0; G.lk.xchg_after_push = 0; G.lk.pop_null = 0; G.q.pops = 0; G.q.last_popped = NULL;
  G.q.resumed = 0; G.q.resumed_item = NULL; G.q.handed = 0;
  G.c.op_mine = 0; G.c.keep_alive = 0; G.o.op_state = Q_NOT; G.o.popped_by_me = 0; G.s.push_kind = PUSH_NONE; G.s.pushes = 0; G.s.tr_calls = 0; G.s.tr_result = 0;
  G.o.completed = 0; G.s.tc_calls = 0; G.s.tc_won = 0; G.s.fwd = 0; G.s.cancelled_at_fwd = 0; G.s.hold_at_fwd = 0; G.s.state_at_fwd = Q_NOT;
  G.s.set_value = 0; G.s.set_done = 0; G.o.op_dead = 0;
  OP.mutex_ = &M; OP.receiver_ = VF_nondet_int(); OP.forwardingOp_ = VF_nondet_int(); OP.cancelled_ = /*@EXPR cancelled_init*/; OP.started_ = /*@EXPR started_init*/;
}
void h_try_lock(void) { h_init(0); _Bool r = async_mutex_try_lock(&M); VF_CANARY("after try_lock"); if (r) { VF_CANARY("try_lock can succeed"); } else { VF_CANARY("try_lock can fail"); } }
static void h_pq_init(void) {
  h_init(1);
  G.c.op_mine = VF_NB();
  int s = VF_nondet_int(); __CPROVER_assume(s == Q_NOT || s == Q_QUEUED || s == Q_REMOVED); G.o.op_state = s;
  if (G.c.op_mine) { __CPROVER_assume(s == Q_QUEUED); OP.started_ = 1; G.s.pushes = 1; G.s.push_kind = PUSH_BACK; G.lk.xchg_after_push = 1; }
}
void h_process_queue(void) {
  h_pq_init(); async_mutex_process_queue(&M); VF_CANARY("after process_queue");
  if (G.q.resumed) { VF_CANARY("process_queue can hand off"); if (G.q.resumed_item == &OP.base) { VF_CANARY("process_queue can hand off to the operand"); } }
  else if (G.lk.empty_after_release) { VF_CANARY("process_queue can release on an empty queue"); }
  else { VF_CANARY("process_queue can lose the re-acquire race"); }
  if (G.lk.acquires != G.lk.releases && G.lk.releases >= 2) { VF_CANARY("process_queue can re-acquire and go round again"); }
}
void h_unlock(void) { h_pq_init(); async_mutex_unlock(&M); VF_CANARY("after unlock"); if (G.q.resumed) { VF_CANARY("unlock can hand off"); } else { VF_CANARY("unlock can release"); } }
void h_op_start(void) {
  h_init(0); G.c.op_mine = 1;
  OP_start(&OP); VF_CANARY("after start");
  if (START_INLINE) { VF_CANARY("start can acquire synchronously"); }
  else if (G.q.resumed) { VF_CANARY("start can drain the queue itself"); if (G.q.resumed_item == &OP.base) { VF_CANARY("start can pop its own node"); } }
  else if (G.lk.lost_race && !G.lk.rel) { VF_CANARY("start can stay queued behind another holder"); }
  if (G.o.op_dead) { VF_CANARY("the operation can be destroyed before start returns"); }
}
void h_op_stop(void) {
  h_init(0); G.c.op_mine = 1; G.c.keep_alive = 1;
  OP.started_ = VF_NB();
  if (OP.started_) { int s = VF_nondet_int(); __CPROVER_assume(s == Q_NOT || s == Q_QUEUED || s == Q_POPPED); G.o.op_state = s; G.o.completed = (s == Q_QUEUED) ? 0 : VF_NB(); }
  _Bool st = OP.started_;
  OP_stop(&OP); VF_CANARY("after stop");
  if (!st) { VF_CANARY("stop before start"); } else if (G.s.tr_result) { VF_CANARY("stop can remove the waiter"); } else { VF_CANARY("stop can find the waiter already popped"); }
}
void h_op_resume(void) {
  h_init(1); G.c.op_mine = 1; G.c.keep_alive = 1; OP.started_ = 1; G.o.op_state = Q_POPPED; G.o.popped_by_me = 1; G.s.pushes = 1; G.s.push_kind = PUSH_BACK;
  G.lk.xchg_after_push = 1;
  G.o.completed = VF_NB(); if (G.o.completed) OP.cancelled_ = VF_NB();
  OP_resume(&OP.base); VF_CANARY("after resume_");
  if (G.s.tc_won) { VF_CANARY("resume_ can complete with value"); } else { VF_CANARY("resume_ can find the operation completed and unlock"); }
}
void h_op_forward_set_value(void) { h_init(0); OP.cancelled_ = VF_NB(); OP_forward_set_value(&OP); VF_CANARY("after forward_set_value"); if (G.s.set_done) { VF_CANARY("done"); } else { VF_CANARY("value"); } }

/* ---------------- M4 lemmas over the contracts ---------------- */
void lemma_mutex2_init(void) {
  _Bool locked_init = /*@EXPR locked_init*/;
  VF_P(locked_init == 0, "lemma: a fresh mutex is unlocked (no holder)");
  VF_P((/*@EXPR cancelled_init*/) == 0 && (/*@EXPR started_init*/) == 0, "lemma: a fresh lock operation is neither cancelled nor started");
  VF_CANARY("lemma_mutex2_init reachable");
}
/* ghost: holders = number of parties between an acquisition and the matching release / hand-off chain.
 * Invariant: locked_ == (holders == 1), holders <= 1.  One step of any party, as allowed by vf_guar:
 *   acquire (try_lock true, exchange(true) returned false): STEP_ACQUIRE, holders++
 *   seen    (exchange(true) returned true):                 STEP_SEEN
 *   release (holder only: vf_guar requires i_hold):         STEP_RELEASE, holders--
 *   hand-off (EV_resume requires i_hold && locked_):        locked_ unchanged, holders unchanged (ownership moves) */
void lemma_mutex2_exclusion(void) {
  _Bool o = VF_NB() ? 1 : 0, n = VF_NB() ? 1 : 0;
  unsigned holders = VF_nondet_u32();
  __CPROVER_assume(holders <= 1 && (o == (holders == 1)));
  _Bool stepper_holds = VF_NB();                 /* the stepping party's i_hold */
  __CPROVER_assume(stepper_holds ==> holders == 1);
  int kind = VF_nondet_int(); __CPROVER_assume(kind >= 0 && kind <= 3);
  _Bool acquire = kind == 0 && STEP_ACQUIRE(o, n);
  _Bool seen = kind == 1 && STEP_SEEN(o, n);
  _Bool release = kind == 2 && STEP_RELEASE(o, n) && stepper_holds;
  _Bool handoff = kind == 3 && o && n && stepper_holds;
  __CPROVER_assume(acquire || seen || release || handoff);
  VF_CANARY("lemma premises satisfiable");
  unsigned h2 = holders + (acquire ? 1 : 0) - (release ? 1 : 0);
  VF_P(h2 <= 1, "lemma (mutual exclusion): at most one holder after any step");
  VF_P(n == (h2 == 1), "lemma: locked_ <=> somebody holds the mutex, after any step");
  VF_P(acquire ==> holders == 0, "lemma: an acquisition (try_lock true / async_lock value) happens only while nobody holds the mutex");
  VF_P((holders == 1 && !stepper_holds) ==> n, "lemma (rely of the holder): no step of another party changes locked_ while I hold the mutex");
  VF_P((holders == 1 && !stepper_holds) ==> h2 == 1, "lemma: no other party's step takes the mutex away from its holder");
}
/* Dekker (no lost waiter) under sequential consistency.  All linearisation points are totally ordered:
 *   waiter W:  tP = its push_back,  tX = its exchange(true)       tP < tX      (start's contract: xchg_after_push)
 *   holder H:  tR = its release store, tE = its empty() afterwards  tR < tE      (process_queue's contract: released => the queue was examined after the release, or lost_race)
 * W is neither popped nor removed before tE (otherwise it was served / cancelled, not lost). */
void lemma_mutex2_dekker(void) {
  unsigned tP = VF_nondet_u32() % 64, tX = VF_nondet_u32() % 64, tR = VF_nondet_u32() % 64, tE = VF_nondet_u32() % 64;
  __CPROVER_assume(tP != tX && tP != tR && tP != tE && tX != tR && tX != tE && tR != tE);
  __CPROVER_assume(tP < tX && tR < tE);
  VF_CANARY("lemma premises satisfiable");
  _Bool e_sees_item = tP < tE;            /* list contract: empty() is false while the pushed item is in the list */
  _Bool x_after_release = tR < tX;
  VF_P(e_sees_item || x_after_release, "lemma (Dekker): the releaser's look at the queue sees the pushed waiter, or the waiter's exchange follows the release");
  /* case e_sees_item: empty() returned false: process_queue does not return there; it returns only after a hand-off, or after
   * its exchange saw another holder (lost_race), or it re-acquires and pops again.
   * case x_after_release: the waiter's exchange reads the last write before tX.  If that is a release (false): the waiter
   * acquires and drains itself (start's contract).  If it is an acquisition by H' (true): H' holds the mutex at tX > tP, its own
   * release tR' comes after tX and its look tE' after that: */
  unsigned tR2 = VF_nondet_u32() % 128, tE2 = VF_nondet_u32() % 128;
  __CPROVER_assume(tX < tR2 && tR2 < tE2);
  VF_P(tP < tE2, "lemma: a holder that owns the mutex at the waiter's exchange releases after the push, so ITS look at the queue sees the waiter (induction over holders)");
}
/* cancel vs. pop: life of a waiter node (list contracts): NOT -push-> QUEUED -pop_front-> POPPED | -try_remove true-> REMOVED.
 * stop() completes with done only after try_remove returned true (REMOVED) or before the push (NOT, not started);
 * resume_ (hand-off) is called only on a POPPED node. */
void lemma_mutex2_cancel(void) {
  int s = VF_nondet_int(); __CPROVER_assume(s >= Q_NOT && s <= Q_REMOVED);
  int kind = VF_nondet_int(); __CPROVER_assume(kind >= 0 && kind <= 2);
  int s2 = s; _Bool tr = 0, popped_it = 0;
  if (kind == 0) { __CPROVER_assume(AIL_REQ_PUSH(s == Q_QUEUED) && s == Q_NOT); s2 = Q_QUEUED; }                       /* push_back (start, once) */
  else if (kind == 1) { popped_it = (s == Q_QUEUED) && VF_NB(); if (popped_it) s2 = Q_POPPED; }                 /* pop_front by the holder: returns an item of the list */
  else { tr = VF_NB(); __CPROVER_assume(AIL_ENS_TRY_REMOVE(tr, s == Q_QUEUED)); if (tr) s2 = Q_REMOVED; }      /* try_remove by stop() */
  VF_CANARY("lemma premises satisfiable");
  VF_P(s == Q_POPPED ==> s2 == Q_POPPED, "lemma: a popped waiter can no longer be removed: stop() finds try_remove false and does nothing");
  VF_P(s == Q_REMOVED ==> s2 == Q_REMOVED, "lemma: a removed (cancelled) waiter can never be popped: it is never handed the lock");
  VF_P(!(tr && popped_it), "lemma: of pop_front and try_remove at most one takes the node");
  /* hence stop()'s done completion (needs REMOVED or NOT) and a hand-off (needs POPPED) never both happen to one operation,
   * and resume_'s `try_complete false' branch is not reached: the only other completers are start() (inline, node never pushed)
   * and stop() (node REMOVED or never pushed) */
  _Bool stop_completes = VF_NB(), handed_lock = VF_NB();
  __CPROVER_assume(stop_completes ==> (s2 == Q_REMOVED || s2 == Q_NOT));
  __CPROVER_assume(handed_lock ==> s2 == Q_POPPED);
  VF_P(!(stop_completes && handed_lock), "lemma: a waiter completed with done by stop() is never handed the lock, and vice versa");
}
/* FIFO: push_back appends (position = running tail counter), pop_front returns the front (least position among the items) */
void lemma_mutex2_fifo(void) {
  unsigned posA = VF_nondet_u32() % 1024, posB = VF_nondet_u32() % 1024;
  __CPROVER_assume(posA < posB);                       /* A's push_back linearised before B's */
  static struct waiter A, B;
  struct waiter* front = (posA < posB) ? &A : &B;      /* front of a list holding (at least) A and B, older items already gone */
  struct waiter* rv = VF_NB() ? &A : (VF_NB() ? &B : NULL);
  __CPROVER_assume(AIL_ENS_POP_FRONT(rv, (size_t)2, front));
  VF_CANARY("lemma premises satisfiable");
  VF_P(rv == &A, "lemma (FIFO): while an earlier waiter is still queued, pop_front never returns a later one; process_queue resumes exactly what pop_front returned");
}
