H = 'include/unifex/reduce_stream.hpp'
NEXT = r'struct _next_receiver<StreamSender, State, ReducerFunc, Receiver>::type \{'
ERRC = r'struct _error_cleanup_receiver<StreamSender, State, ReducerFunc, Receiver>::\s*type \{'
DONEC = r'struct _done_cleanup_receiver<StreamSender, State, ReducerFunc, Receiver>::\s*type \{'
OPC = r'struct _op<StreamSender, State, ReducerFunc, Receiver>::type \{'

SLOT = r'(next_|errorCleanup_|doneCleanup_)'
# declarators of the completion payloads, tolerant of a reference / const qualifier (%s: the reference token)
SV_SIG = r'void set_value\((?:const\s+)?Values\s*%s\s*\.\.\.\s*values\)'
NE_SIG = r'void set_error\((?:const\s+)?std::exception_ptr\s*%s\s*ex\)'
CE_SIG = r'void set_error\((?:const\s+)?Error\s*%s\s*error\)'


def _tok(t):
    """second initialiser of error_cleanup_receiver_t{op, <error>}: the error that is parked in the cleanup receiver"""
    t = (t or '').strip()
    if not t:
        return 'VF_NO_TOK'
    if t == 'std::current_exception()':
        return 'vf_current_exception()'
    return t          # std::move(ex) -> (ex) by the global table; anything else trips the residual scan / the C compiler


def _connect(m):
    # activate_union_member_with(SLOT, [&] { return connect(next|cleanup(stream_), RECEIVER{op [, error]}); })
    # kept: the slot, WHICH stream operation is connected, the receiver type, the parked error; dropped: the stream / op arguments
    return 'VF_THROWS(EV_connect(VF_THE_OP, SL_%s, K_%s, R_%s, %s));' % (m.group(1), m.group(2), m.group(3), _tok(m.group(4)))


def _reduce(m):
    # [op.state_ =] std::invoke(op.reducer_, std::move(op.state_), (Values&&)values...)
    # kept: the assignment target (NULL when the result is discarded), the accumulator argument, the element; may throw
    tgt = '&(%s)' % m.group(1) if m.group(1) else 'NULL'
    return 'VF_THROWS(EV_reduce(op, %s, %s, values))' % (tgt, m.group(2))


EVENTS = [
    (r'auto& op = op_;', 'struct rs_op* op = op_;'),
    (r'(?s)(?:(op\.state_)\s*=\s*)?std::invoke\(\s*op\.reducer_,\s*std::move\((op\.state_)\),\s*\(Values&&\)values\.\.\.\)', _reduce),
    (r'(?s)unifex::activate_union_member_with\(\s*(?:op\.)?' + SLOT + r',\s*\[&\]\s*\{\s*return unifex::connect\(\s*(next|cleanup)\((?:op\.)?stream_\),\s*'
     r'(next_receiver_t|error_cleanup_receiver_t|done_cleanup_receiver_t)\{\s*(?:op|\*this)\s*(?:,\s*([^{};]*?))?\s*\}\s*\);\s*\}\s*\);', _connect),
    (r'unifex::deactivate_union_member\(\s*(?:op\.)?' + SLOT + r'\s*\)', r'EV_deactivate(VF_THE_OP, SL_\1)'),
    (r'unifex::start\(\s*(?:op\.)?' + SLOT + r'\.get\(\)\s*\)', r'EV_start(VF_THE_OP, SL_\1)'),
    # completion signals to the consumer's receiver: the payload is kept as a token (error) / as the accumulator value (state)
    (r'(?s)unifex::set_error\(\s*static_cast<Receiver&&>\((?:op\.)?receiver_\),\s*std::current_exception\(\)\)', 'EV_set_error_exception(VF_THE_OP)'),
    (r'(?s)unifex::set_error\(\s*static_cast<Receiver&&>\((?:op\.)?receiver_\),\s*\(Error&&\)\s*(\w+)\)', r'EV_set_error_tok(VF_THE_OP, \1)'),
    (r'(?s)unifex::set_error\(\s*static_cast<Receiver&&>\((?:op\.)?receiver_\),\s*std::move\((\w+)\)\)', r'EV_set_error_tok(VF_THE_OP, \1)'),
    (r'(?s)unifex::set_value\(\s*std::move\((?:op\.)?receiver_\),\s*std::move\(((?:op\.)?state_)\)\)', r'EV_set_value_state(VF_THE_OP, \1)'),
    (r'(?s)unifex::set_done\(\s*std::move\((?:op\.)?receiver_\)\)', 'EV_set_done(VF_THE_OP)'),
    # the generic set_error overload of the next receiver: wrap, forward to the exception_ptr overload
    (r'std::move\(\*this\)\.set_error\(make_exception_ptr\(\(Error&&\)e\)\)', 'next_rcv_set_error(this, EV_make_exception_ptr(e))'),
    # UNIFEX_TRY { A } UNIFEX_CATCH(...) { B } -> { A' } if (0) { vf_catch: ; B }; the block-scoped constant VF_IN_TRY tells a may-throw
    # event whether a handler exists (inside the handler itself and in functions without try a throw is std::terminate: noexcept)
    (r'UNIFEX_TRY\s*\{', '{ enum { VF_IN_TRY = 1 };'),
    (r'\}\s*UNIFEX_CATCH\s*\(\.\.\.\)\s*\{', '} if (0) { vf_catch: ;'),
    (r'\bop\.', 'op->'),
]
# every access to the operation / to the receiver object asserts that the object still exists (no statement changed)
ALIVE = [(r'\bop->', 'VF_ALIVE(op)->'), (r'\bself->(op_|ex_)\b', r'VF_RCV_ALIVE(self)->\1')]


def throws(has_try):
    """a may-throw event jumps to the handler only from inside the try block (VF_IN_TRY); before the try block, inside the handler
    itself (everything after the vf_catch label: the handler is the tail of both functions that have one) and in functions
    without a handler it is std::terminate (noexcept).  The handler must not contain a jump back to its own label (a loop)."""
    if not has_try:
        return [(r'\bVF_THROWS\(', 'VF_THROWS_NOTRY(')]
    return [(r'\bVF_THROWS\(', 'VF_THROWS_TRY('),
            (r'(?s)vf_catch: ;.*', lambda m: m.group(0).replace('VF_THROWS_TRY(', 'VF_THROWS_NOTRY('))]


def rcv_ctx(cls, members, has_try):
    return dict(cls=cls, members=members, methods=[], pre=EVENTS, post=[(r'\bVF_THE_OP\b', 'op')] + throws(has_try) + ALIVE)


def op_ctx(has_try):
    return dict(cls='rs_op', members=['state_'], methods=[], pre=EVENTS,
                post=[(r'\bVF_THE_OP\b', 'self')] + throws(has_try) + [(r'\bself->', 'VF_ALIVE(self)->')])


TOKEN_SIG = (r'(?s)return std::move\(cpo\)\(std::as_const\(r\.op_\.receiver_\)\);\s*\}\s*'
             r'((?:friend unstoppable_token\s+tag_invoke\(tag_t<get_stop_token>, const type&\) noexcept \{\s*return \{\};\s*\})?)')
TOKEN_CTX = dict(pre=[(r'(?s)^friend unstoppable_token.*$', 'TOKEN_UNSTOPPABLE'), (r'^$', 'TOKEN_OF_CONSUMER')])

SPEC = dict(
    properties=['C13', 'C02'],
    ctx={},
    extracts={
        'sends_done': dict(file=H, kind='expr', sig=r'static constexpr bool sends_done = ([^;]*);'),
        # the four completion payloads are taken BY VALUE on purpose: each callback destroys the child operation state (which may own
        # the payload, e.g. next(stream) = just(x)) before it uses the payload.  The declarator's reference token is extracted
        # (empty = by value) and becomes a C constant: with a reference the payload lives in the child and dies with it
        'sv_ref': dict(file=H, kind='expr', sig=SV_SIG % '((?:&&|&)?)', within=NEXT),
        'ne_ref': dict(file=H, kind='expr', sig=NE_SIG % '((?:&&|&)?)', within=NEXT),
        'ee_ref': dict(file=H, kind='expr', sig=CE_SIG % '((?:&&|&)?)', within=ERRC),
        'de_ref': dict(file=H, kind='expr', sig=CE_SIG % '((?:&&|&)?)', within=DONEC),
        'ctor': dict(file=H, sig=r'explicit type\(\s*StreamSender2&& stream,\s*State2&& state,\s*ReducerFunc2&& reducer,\s*Receiver2&& receiver\)', within=OPC, ctx=op_ctx(False)),
        'dtor': dict(file=H, sig=r'~type\(\)', within=OPC, ctx=op_ctx(False)),
        'start': dict(file=H, sig=r'void start\(\) noexcept', within=OPC, ctx=op_ctx(True), must_contain=[r'UNIFEX_TRY']),
        'next_set_value': dict(file=H, sig=SV_SIG % '(?:&&|&)?' + r' && noexcept', within=NEXT, ctx=rcv_ctx('next_rcv', ['op_'], True), must_contain=[r'UNIFEX_TRY']),
        'next_set_done': dict(file=H, sig=r'void set_done\(\) && noexcept', within=NEXT, ctx=rcv_ctx('next_rcv', ['op_'], False)),
        'next_set_error': dict(file=H, sig=NE_SIG % '(?:&&|&)?' + r' && noexcept', within=NEXT, ctx=rcv_ctx('next_rcv', ['op_'], False)),
        'next_set_error_generic': dict(file=H, sig=r'void set_error\(Error&& e\) && noexcept', within=NEXT, ctx=rcv_ctx('next_rcv', ['op_'], False)),
        'errc_set_error': dict(file=H, sig=CE_SIG % '(?:&&|&)?' + r' noexcept', within=ERRC, ctx=rcv_ctx('errc_rcv', ['op_', 'ex_'], False)),
        'errc_set_done': dict(file=H, sig=r'void set_done\(\) noexcept', within=ERRC, ctx=rcv_ctx('errc_rcv', ['op_', 'ex_'], False)),
        'donec_set_error': dict(file=H, sig=CE_SIG % '(?:&&|&)?' + r' && noexcept', within=DONEC, ctx=rcv_ctx('donec_rcv', ['op_'], False)),
        'donec_set_done': dict(file=H, sig=r'void set_done\(\) && noexcept', within=DONEC, ctx=rcv_ctx('donec_rcv', ['op_'], False)),
        # the stop token the cleanup receivers answer get_stop_token with: their own overload (unstoppable_token), or - when there is none - what the
        # generic query forwarding in front of it yields, i.e. the consumer's token (optional group: '' when the overload is absent)
        'errc_token': dict(file=H, kind='expr', sig=TOKEN_SIG, within=ERRC, ctx=TOKEN_CTX),
        'donec_token': dict(file=H, kind='expr', sig=TOKEN_SIG, within=DONEC, ctx=TOKEN_CTX),
    },
    closed_world=[
        dict(file=H, members=['next_', 'errorCleanup_', 'doneCleanup_', 'ex_', 'state_'], within=r'namespace _reduce \{',
             allow=[r'next_op next_;', r'error_op errorCleanup_;', r'done_op doneCleanup_;', r'std::exception_ptr ex_;',
                    r'UNIFEX_NO_UNIQUE_ADDRESS State state_;', r',\s*state_\(std::forward<State2>\(state\)\)']),
    ],
    units=[
        dict(name='ctor', harness='h_ctor', enforce='rs_op_ctor'),
        dict(name='dtor', harness='h_dtor', enforce='rs_op_dtor'),
        dict(name='start', harness='h_start', enforce='rs_op_start'),
        dict(name='next_set_value', harness='h_next_set_value', enforce='next_rcv_set_value'),
        dict(name='next_set_done', harness='h_next_set_done', enforce='next_rcv_set_done'),
        dict(name='next_set_error', harness='h_next_set_error', enforce='next_rcv_set_error'),
        dict(name='next_set_error_generic', harness='h_next_set_error_generic', enforce='next_rcv_set_error_generic', replace=['next_rcv_set_error']),
        dict(name='error_cleanup_set_done', harness='h_errc_set_done', enforce='errc_rcv_set_done'),
        dict(name='error_cleanup_set_error', harness='h_errc_set_error', enforce='errc_rcv_set_error'),
        dict(name='done_cleanup_set_done', harness='h_donec_set_done', enforce='donec_rcv_set_done'),
        dict(name='done_cleanup_set_error', harness='h_donec_set_error', enforce='donec_rcv_set_error'),
        dict(name='lemma_rs_lifecycle', harness='lemma_rs_lifecycle', mode='lemma'),
        dict(name='lemma_rs_init', harness='lemma_rs_init', mode='lemma'),
        dict(name='lemma_rs_cleanup_token', harness='lemma_rs_cleanup_token', mode='lemma'),
    ],
    assumptions=[
        'stream concept, children: each next(stream) / cleanup(stream) operation completes exactly once, only after it was started, through exactly one of its receiver\'s set_value / set_error / set_done (next) or set_done / set_error (cleanup); it may do so inline inside start(); it does not touch its own operation state after calling its receiver',
        'the owner destroys the reduce operation only before start() or after the completion signal; start() is called once',
        'connect(cleanup(stream), receiver) does not throw: the three call sites are in noexcept receiver functions outside any try block (one of them inside the catch handler), so a throwing cleanup connect is std::terminate. OBSERVATION (C02 wording "failure reported through set_error"): there is no path that reports it',
        'the consumer receiver\'s set_value(state) does not throw: done_cleanup_receiver::set_done is noexcept without a try block (a throwing set_value is std::terminate, not set_error)',
        'activate_union_member_with has the strong exception guarantee (manual_lifetime.hpp scope guard; not re-verified here); unifex::start() and deactivate_union_member do not throw',
        'the reducer is an arbitrary function of (accumulator, element) that may throw; a throwing reducer counts as applied to its element (the fold then ends with that exception as the error). Move semantics of std::move(op.state_) (a moved-from accumulator after a throw) are not modelled: the accumulator is not delivered on that path',
        'a failing cleanup (set_error on a cleanup receiver) is reported with the CLEANUP\'s error; on the error path the parked stream error is then dropped (destroyed with the cleanup operation that holds it): taken from the code, the property text does not say which of the two errors wins',
        'start(): when the FIRST connect(next(stream)) throws, set_error(current_exception) is delivered without cleanup(stream): no next() was ever started, which is all the property demands',
        'the element-by-element recursion (a next() completing inside start) is not unrolled: one element per unit, chained by the lifecycle lemma; termination / stack depth not claimed',
        'payload ownership: a completion payload received BY REFERENCE is taken to live in the child operation state that produced it (e.g. next(stream) = just(x)) and to die with it; BY VALUE it lives in the callback\'s own frame. The reference token of the four declarators is extracted from the source (sv_ref / ne_ref / ee_ref / de_ref); the generic set_error(Error&& e) overload converts to an exception_ptr BEFORE the next operation is destroyed (it forwards to the by-value overload)',
        'sequential code: no atomics, vf_interfere is empty; the union members, state_ and ex_ are touched only by the extracted spans (closed-world scan)',
    ],
    drops=['template genericity (StreamSender, State, ReducerFunc, Receiver)', 'element values beyond one scalar token; error payloads -> integer tokens (std::exception_ptr copies/moves are tokens)',
           'the stream / operation arguments of connect() inside the activate_union_member_with lambdas: the slot, WHICH stream operation (next / cleanup) and WHICH receiver type (and the parked error) are kept',
           'UNIFEX_TRY / UNIFEX_CATCH -> block-scoped VF_IN_TRY + goto vf_catch at the may-throw stubs (reducer, connect)',
           'reference member op_ -> pointer (`auto& op = op_;` -> `struct rs_op* op = op_;`)',
           'receiver queries (tag_invoke forwarding; the cleanup receivers\' get_stop_token overload IS read: lemma_rs_cleanup_token), visit_continuations, the sender type, its connect and the reduce_stream CPO',
           'constructor mem-initialisers (stream_, state_, reducer_, receiver_ copies: an exception there propagates out of connect())'],
)
