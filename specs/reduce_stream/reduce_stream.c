/* C13 / C02: unifex::reduce_stream(stream, initialState, reducer) -- include/unifex/reduce_stream.hpp.
 *
 * _op::type keeps ONE child operation state alive in  union { next_, errorCleanup_, doneCleanup_ }  and has NO discriminator:
 * ~type() {} destroys nothing, so every child must have been destroyed by its own completion callback before the consumer's
 * receiver is completed (it may destroy the operation right there).  Sequential code (no atomics): the value is in the event
 * stubs of ../sequence/slots.h (slot ghosts NONE / ALIVE / STARTED / COMPLETING, may-throw events with the strong guarantee,
 * completion stubs with the dead-object snapshot) plus the stream obligations written here:
 *   - next(stream) is connected only into next_, at start() or from the VALUE completion of the previous next(); cleanup(stream)
 *     only into a cleanup slot, once, from the completion of the last next() (so never while a next() is outstanding);
 *   - the reducer is applied exactly once per element, to (fold so far, the element that arrived), in arrival order (ghost
 *     sequence number), and its result is what the next round / the final set_value sees;
 *   - the consumer's result is delivered exactly once, only from a CLEANUP completion (or directly when the very first connect
 *     threw: no next() was ever started), with nothing alive, and nothing of the operation is touched afterwards;
 *   - the error path parks the stream's error (or the caught exception) in the error-cleanup receiver and delivers exactly that
 *     token after the cleanup finished.
 * Bodies marked @BODY / @EXPR are extracted from /repo on every run; everything else is specification. */
#include <stddef.h>
#include <stdint.h>

struct rs_op { int64_t state_; };                      /* the accumulator; stream_, reducer_, receiver_ are not modelled */
struct next_rcv { struct rs_op* op_; };
struct errc_rcv { struct rs_op* op_; int ex_; };       /* error_cleanup_receiver: the parked error */
struct donec_rcv { struct rs_op* op_; };
static struct rs_op OP;
static struct next_rcv NRCV;
static struct errc_rcv ERCV;
static struct donec_rcv DRCV;

enum { SL_next_, SL_errorCleanup_, SL_doneCleanup_ };
enum { K_next, K_cleanup };
enum { R_next_receiver_t, R_error_cleanup_receiver_t, R_done_cleanup_receiver_t };
enum { VF_IN_TRY = 0 };                                 /* shadowed by a block-scoped constant 1 inside a try block */
#define VF_NO_TOK 0
/* the reference token of the four payload declarators (extracted; empty = by value).  By value the payload lives in the
 * callback's own frame; by reference it lives in the child operation state that produced it and dies with it. */
static const _Bool VF_VALUES_BY_REF = sizeof("/*@EXPR sv_ref*/") > 1;      /* _next_receiver::set_value(Values... values) */
static const _Bool VF_NEXT_ERR_BY_REF = sizeof("/*@EXPR ne_ref*/") > 1;    /* _next_receiver::set_error(std::exception_ptr ex) */
static const _Bool VF_ERRC_ERR_BY_REF = sizeof("/*@EXPR ee_ref*/") > 1;    /* _error_cleanup_receiver::set_error(Error error) */
static const _Bool VF_DONEC_ERR_BY_REF = sizeof("/*@EXPR de_ref*/") > 1;   /* _done_cleanup_receiver::set_error(Error error) */
#define VF_PAYLOAD_IN_CHILD(s) (((s) == SL_next_ && G.signal == CH_VALUE && VF_VALUES_BY_REF) || ((s) == SL_next_ && G.signal == CH_ERROR && VF_NEXT_ERR_BY_REF) \
   || ((s) == SL_errorCleanup_ && G.signal == CH_ERROR && VF_ERRC_ERR_BY_REF) || ((s) == SL_doneCleanup_ && G.signal == CH_ERROR && VF_DONEC_ERR_BY_REF))
#define PAYLOAD_MSG "C02/C13: the payload of the child's completion (the element / the error) outlives the child operation that produced it: it was copied out (taken by value) before that operation state was destroyed"
#define SENDS_DONE (/*@EXPR sends_done*/)

#define VF_NSLOT 3
#define VF_OP_T struct rs_op
#define VF_OP_HAVOC() do { OP.state_ = VF_nondet_i64(); } while (0)
#define VF_OP_EQ(a, b) ((a).state_ == (b).state_)
#define VF_SLOT_IS_OP(s) 1
#define RS_ALL_NONE (G.slot[SL_next_] == LS_NONE && G.slot[SL_errorCleanup_] == LS_NONE && G.slot[SL_doneCleanup_] == LS_NONE)
#define VF_UNION_EMPTY(s) RS_ALL_NONE
/* no discriminator: the (empty) destructor is right exactly when nothing is alive */
#define VF_DISCR_OK(op) RS_ALL_NONE
#define RS_ONLY(s) (G.slot[s] != LS_NONE && G.slot[((s) + 1) % 3] == LS_NONE && G.slot[((s) + 2) % 3] == LS_NONE)
#define VF_DISCR_OK_AT_START(op, s) RS_ONLY(s)
#define VF_CHECK_CONSTRUCT(op, s) do { } while (0)      /* the stream obligations of a connect are in EV_connect below */
#define VF_CHECK_DESTROY(op, s) do { VF_P((s) == G.running, "C02/C13: a child operation is destroyed only by its OWN completion callback (the one being run), never another slot"); \
    if ((s) == G.running && VF_PAYLOAD_IN_CHILD(s)) G.payload_dead = 1; } while (0)
#define VF_CHECK_START(op, s) do { G.state_at_start = (op)->state_; \
    VF_P((s) == SL_next_ || G.running == SL_next_, "C13: cleanup(stream) is started only from the completion of the last next()"); } while (0)
#define VF_CHECK_COMPLETE(op, ch) do { G.state_atc = (op)->state_; \
    VF_P(G.running != SL_next_, "C13: the consumer's result is never delivered from a next() completion: done / error of next() always route through cleanup(stream) first"); \
    VF_P(G.running != -1 || (G.starts[SL_next_] == 0 && G.starts[SL_errorCleanup_] == 0 && G.starts[SL_doneCleanup_] == 0 && G.throws == 1 && (ch) == CH_ERROR_EXCEPTION), \
         "C13: start() completes the consumer directly only when the first connect(next(stream)) threw (no next() was ever started, no cleanup owed)"); \
    VF_P((ch) != CH_VALUE || (G.running == SL_doneCleanup_ && G.signal == CH_DONE), "C13: the fold is delivered with set_value only after the done-path cleanup(stream) completed successfully"); \
    VF_P((ch) != CH_DONE || SENDS_DONE, "reduce_stream never completes with done (sends_done == false): the end of the stream is the value completion"); } while (0)
/* connect(next(stream), ..) may throw; connect(cleanup(stream), ..) is assumed not to (its call sites are noexcept without a handler) */
#define VF_MAY_THROW(s) ((s) == SL_next_)
#define VF_GHOST_EXTRA int64_t fold, element, state_at_start, state_atc, delivered; unsigned index, applied, reduces, parks, next_connects, cleanup_connects; \
  int parked_tok, cur_exc, delivered_tok, wrapped, wrapped_from; _Bool reduce_threw, payload_dead;
#define VF_RCV_HAVOC() do { NRCV.op_ = NULL; ERCV.op_ = NULL; ERCV.ex_ = VF_nondet_int(); DRCV.op_ = NULL; } while (0)
#include "../sequence/slots.h"

/* a may-throw event: jump to the handler when one exists, otherwise the enclosing noexcept function terminates */
#define VF_THROWS_TRY(x) do { if (x) { if (VF_IN_TRY) goto vf_catch; VF_terminate(); } } while (0)
#define VF_THROWS_NOTRY(x) do { if (x) { VF_terminate(); } } while (0)

static int vf_fresh_tok(void) { int t = VF_nondet_int(); __CPROVER_assume(t != VF_NO_TOK); return t; }
/* std::current_exception(): the exception being handled */
static int vf_current_exception(void) {
  VF_P(G.throws > 0, "std::current_exception() is read inside a handler, after a may-throw event threw");
  return G.cur_exc;
}
/* make_exception_ptr(e) */
static int EV_make_exception_ptr(int e) { G.wrapped_from = e; G.wrapped = vf_fresh_tok(); return G.wrapped; }

/* activate_union_member_with(slot, [&]{ return connect(next|cleanup(stream_), receiver{op [, error]}); }) */
static _Bool EV_connect(struct rs_op* op, int s, int kind, int rcv, int tok) {
  VF_P(op == &OP && !G.dead, "connect: " DEAD_MSG);
  VF_P((s == SL_next_) == (kind == K_next), "C13: next(stream) is connected into next_, cleanup(stream) into a cleanup slot");
  VF_P((s == SL_next_ && rcv == R_next_receiver_t) || (s == SL_errorCleanup_ && rcv == R_error_cleanup_receiver_t) || (s == SL_doneCleanup_ && rcv == R_done_cleanup_receiver_t),
       "the child in a slot completes into that slot's receiver (which destroys that slot)");
  if (kind == K_next) {
    VF_P(G.running == -1 || (G.running == SL_next_ && G.signal == CH_VALUE), "C13: the next element is requested at start() or after the previous next() produced a VALUE -- never after done / error");
    VF_P(G.cleanup_connects == 0 && G.next_connects == 0, "C13: one next() per round, none after cleanup was requested");
    VF_P(G.running == -1 || (G.reduces == 1 && !G.reduce_threw), "C13: the next element is requested only after the current one was folded in");
    VF_P(tok == VF_NO_TOK, "the next receiver carries no error");
  } else {
    VF_P(G.running == SL_next_, "C13: cleanup(stream) is requested from the completion of the last next() (never while a next() is outstanding, never at start)");
    VF_P(G.cleanup_connects == 0, "C13: cleanup(stream) is requested exactly once");
    VF_P((s == SL_errorCleanup_) == (tok != VF_NO_TOK), "the error path parks a (non-null) error in the cleanup receiver, the done path none");
    if (s == SL_errorCleanup_ && G.signal == CH_ERROR && G.throws == 0) VF_P(!G.payload_dead, PAYLOAD_MSG);      /* parking the stream's error `ex` */
    VF_P((s == SL_doneCleanup_) == (G.signal == CH_DONE && G.throws == 0), "C13: the done cleanup (which ends in set_value) is chosen exactly when next() completed with done; every failure takes the error cleanup");
  }
  if (vf_slot_construct(op, s, VF_MAY_THROW(s))) { G.cur_exc = vf_fresh_tok(); return 1; }
  if (kind == K_next) G.next_connects++; else G.cleanup_connects++;
  if (s == SL_errorCleanup_) { G.parked_tok = tok; G.parks++; }
  return 0;
}

/* [op.state_ =] std::invoke(op.reducer_, std::move(op.state_), values...): the user's reducer, may throw */
static _Bool EV_reduce(struct rs_op* op, int64_t* target, int64_t acc, int64_t v) {
  VF_CANARY("reducer reachable");
  VF_P(op == &OP && !G.dead, "reducer: " DEAD_MSG);
  VF_P(G.running == SL_next_ && G.signal == CH_VALUE, "C13: the reducer is invoked only for an element produced by next()");
  VF_P(G.reduces == 0, "C13: the reducer is applied to each element exactly once");
  VF_P(G.applied == G.index, "C13: elements are folded in arrival order: element k is applied after exactly the elements 0..k-1");
  VF_P(acc == G.fold, "C13: the reducer is applied to the fold over the previous elements");
  VF_P(v == G.element, "C13: the reducer is applied to the element that arrived");
  VF_P(!G.payload_dead, PAYLOAD_MSG);
  G.reduces++; G.applied++;
  if (vf_nb()) { G.throws++; G.reduce_threw = 1; G.cur_exc = vf_fresh_tok(); return 1; }
  G.fold = VF_nondet_i64();
  if (target) *target = G.fold;
  return 0;
}

static void EV_set_value_state(struct rs_op* op, int64_t v) { G.delivered = v; EV_set_value_nothrow(op); }
static void EV_set_error_tok(struct rs_op* op, int tok) {
  VF_P(tok != VF_NO_TOK, "a real error is delivered (not a moved-from / null exception_ptr)");
  if (G.signal == CH_ERROR) VF_P(!G.payload_dead, PAYLOAD_MSG);      /* a cleanup's own error `error` is forwarded */
  G.delivered_tok = tok; EV_set_error(op);
}

/* ---------------- contracts ---------------- */
#define A_ALL OP, NRCV, ERCV, DRCV, G
#define RS_FRESH (VF_FRESH_CALL && !G.payload_dead && G.reduces == 0 && G.parks == 0 && G.next_connects == 0 && G.cleanup_connects == 0 && !G.reduce_threw)
#define COMPLETING(s) (G.slot[s] == LS_COMPLETING && G.slot[((s) + 1) % 3] == LS_NONE && G.slot[((s) + 2) % 3] == LS_NONE && G.running == (s))
#define NO_ACTS_BUT(s) (G.acts[((s) + 1) % 3] == 0 && G.acts[((s) + 2) % 3] == 0)
#define NO_STARTS_BUT(s) (G.starts[((s) + 1) % 3] == 0 && G.starts[((s) + 2) % 3] == 0)
#define NO_DEACTS_BUT(s) (G.deacts[((s) + 1) % 3] == 0 && G.deacts[((s) + 2) % 3] == 0)
#define NO_EVENTS (VF_ZERO_COUNTS && G.completed == 0 && G.reduces == 0 && G.parks == 0 && G.next_connects == 0 && G.cleanup_connects == 0)
#define ATC_NONE (G.atc[SL_next_] == LS_NONE && G.atc[SL_errorCleanup_] == LS_NONE && G.atc[SL_doneCleanup_] == LS_NONE)
/* child s was connected, started and is now the only thing alive; nothing delivered by this call */
#define HANDED_TO(s) (G.acts[s] == 1 && G.starts[s] == 1 && G.slot[s] == LS_STARTED && RS_ONLY(s) && NO_ACTS_BUT(s) && NO_STARTS_BUT(s) && G.completed == 0)

/* constructor: mem-initialisers only; the body connects nothing (the operation may be destroyed unstarted by the empty destructor) */
void rs_op_ctor(struct rs_op* self)
__CPROVER_requires(self == &OP && RS_FRESH && RS_ALL_NONE && G.running == -1)
__CPROVER_assigns(A_ALL)
__CPROVER_ensures(RS_ALL_NONE && NO_EVENTS && !G.dead && G.throws == 0)
/*@BODY ctor*/

/* ~type() {}: by the owner, before start() or after the completion signal: nothing is alive, nothing to destroy */
void rs_op_dtor(struct rs_op* self)
__CPROVER_requires(self == &OP && RS_FRESH && RS_ALL_NONE && G.running == -1)
__CPROVER_assigns(A_ALL)
__CPROVER_ensures(RS_ALL_NONE && NO_EVENTS && G.throws == 0)
/*@BODY dtor*/

/* start(): connect + start the first next(stream); a throwing connect -> set_error(current_exception), no cleanup owed */
void rs_op_start(struct rs_op* self)
__CPROVER_requires(self == &OP && RS_FRESH && RS_ALL_NONE && G.running == -1 && G.applied == 0)
__CPROVER_assigns(A_ALL)
__CPROVER_ensures(G.throws == 0 ==> (HANDED_TO(SL_next_) && G.next_connects == 1 && G.state_at_start == __CPROVER_old(OP.state_)))  /* the initial state is what the first round folds into */
__CPROVER_ensures(G.throws != 0 ==> (G.throws == 1 && VF_COMPLETED_ON(CH_ERROR_EXCEPTION) && ATC_NONE && RS_ALL_NONE && G.acts[SL_next_] == 0 && G.starts[SL_next_] == 0 && G.next_connects == 0))
__CPROVER_ensures(NO_ACTS_BUT(SL_next_) && NO_STARTS_BUT(SL_next_) && G.cleanup_connects == 0 && G.reduces == 0 && G.applied == 0 && G.parks == 0 \
                  && G.deacts[SL_next_] == 0 && NO_DEACTS_BUT(SL_next_))
__CPROVER_ensures(G.dead && UNTOUCHED)
/*@BODY start*/

/* next() produced element number G.index: destroy the completed next op, fold the element in (may throw), connect the next
 * next() into the same storage (may throw), start it.  Any throw: park the exception, run the error cleanup. */
void next_rcv_set_value(struct next_rcv* self, int64_t values)
__CPROVER_requires(self == &NRCV && NRCV.op_ == &OP && RS_FRESH && COMPLETING(SL_next_) && G.signal == CH_VALUE && values == G.element && OP.state_ == G.fold && G.applied == G.index)
__CPROVER_assigns(A_ALL)
__CPROVER_ensures(G.deacts[SL_next_] == 1 && NO_DEACTS_BUT(SL_next_))                                  /* the completed next op is destroyed exactly once, nothing else */
__CPROVER_ensures(G.reduces == 1 && G.applied == __CPROVER_old(G.index) + 1)                          /* C13: this element folded exactly once, in order */
__CPROVER_ensures(G.throws == 0 ==> (HANDED_TO(SL_next_) && G.next_connects == 1 && G.cleanup_connects == 0 && G.parks == 0 \
                                     && G.state_at_start == G.fold))                                  /* C13: the stored accumulator is reducer(fold, element) when the next round begins */
__CPROVER_ensures(G.throws != 0 ==> (G.throws == 1 && HANDED_TO(SL_errorCleanup_) && G.next_connects == 0 && G.cleanup_connects == 1 \
                                     && G.parks == 1 && G.parked_tok == G.cur_exc))                    /* C13/C02: reducer or connect threw: the exception is parked, cleanup runs */
__CPROVER_ensures(G.dead && UNTOUCHED)
/*@BODY next_set_value*/

/* next() completed with done: destroy it, connect + start cleanup(stream) as doneCleanup_ */
void next_rcv_set_done(struct next_rcv* self)
__CPROVER_requires(self == &NRCV && NRCV.op_ == &OP && RS_FRESH && COMPLETING(SL_next_) && G.signal == CH_DONE && OP.state_ == G.fold)
__CPROVER_assigns(A_ALL)
__CPROVER_ensures(G.deacts[SL_next_] == 1 && NO_DEACTS_BUT(SL_next_))
__CPROVER_ensures(HANDED_TO(SL_doneCleanup_) && G.cleanup_connects == 1 && G.next_connects == 0 && G.parks == 0 && G.throws == 0)
__CPROVER_ensures(G.reduces == 0 && G.applied == __CPROVER_old(G.applied) && G.fold == __CPROVER_old(G.fold) && G.state_at_start == G.fold)   /* the accumulator is left as it is for the final set_value */
__CPROVER_ensures(G.dead && UNTOUCHED)
/*@BODY next_set_done*/

/* next() completed with an error: park it in the error-cleanup receiver, destroy the next op, connect + start the cleanup */
void next_rcv_set_error(struct next_rcv* self, int ex)
__CPROVER_requires(self == &NRCV && NRCV.op_ == &OP && RS_FRESH && COMPLETING(SL_next_) && G.signal == CH_ERROR && ex != VF_NO_TOK)
__CPROVER_assigns(A_ALL)
__CPROVER_ensures(G.deacts[SL_next_] == 1 && NO_DEACTS_BUT(SL_next_))
__CPROVER_ensures(HANDED_TO(SL_errorCleanup_) && G.cleanup_connects == 1 && G.next_connects == 0 && G.throws == 0)
__CPROVER_ensures(G.parks == 1 && G.parked_tok == __CPROVER_old(ex))                                  /* C13: the stream's error is what will be delivered */
__CPROVER_ensures(G.reduces == 0 && G.applied == __CPROVER_old(G.applied))
__CPROVER_ensures(G.wrapped == __CPROVER_old(G.wrapped) && G.wrapped_from == __CPROVER_old(G.wrapped_from))   /* frame (used by the generic overload) */
__CPROVER_ensures(G.dead && UNTOUCHED)
/*@BODY next_set_error*/

/* set_error(Error&&) for any other error type: wrapped into an exception_ptr, same path */
void next_rcv_set_error_generic(struct next_rcv* self, int e)
__CPROVER_requires(self == &NRCV && NRCV.op_ == &OP && RS_FRESH && COMPLETING(SL_next_) && G.signal == CH_ERROR && e != VF_NO_TOK)
__CPROVER_assigns(A_ALL)
__CPROVER_ensures(G.deacts[SL_next_] == 1 && NO_DEACTS_BUT(SL_next_))
__CPROVER_ensures(HANDED_TO(SL_errorCleanup_) && G.cleanup_connects == 1 && G.next_connects == 0 && G.throws == 0)
__CPROVER_ensures(G.parks == 1 && G.parked_tok == G.wrapped && G.wrapped_from == __CPROVER_old(e))
__CPROVER_ensures(G.reduces == 0 && G.dead && UNTOUCHED)
/*@BODY next_set_error_generic*/

#define CLEANUP_FRAME(s) (G.deacts[s] == 1 && NO_DEACTS_BUT(s) && G.acts[s] == 0 && NO_ACTS_BUT(s) && G.starts[s] == 0 && NO_STARTS_BUT(s) && ATC_NONE \
   && G.reduces == 0 && G.next_connects == 0 && G.cleanup_connects == 0 && G.throws == 0)
/* error cleanup finished: deliver the PARKED error, exactly once, after the cleanup operation (which holds it) was destroyed */
void errc_rcv_set_done(struct errc_rcv* self)
__CPROVER_requires(self == &ERCV && ERCV.op_ == &OP && RS_FRESH && COMPLETING(SL_errorCleanup_) && G.signal == CH_DONE && ERCV.ex_ == G.parked_tok && G.parked_tok != VF_NO_TOK)
__CPROVER_assigns(A_ALL)
__CPROVER_ensures(VF_COMPLETED_ON(CH_ERROR) && G.delivered_tok == __CPROVER_old(G.parked_tok))
__CPROVER_ensures(CLEANUP_FRAME(SL_errorCleanup_))
/*@BODY errc_set_done*/

/* error cleanup failed: the cleanup's error is delivered (the parked one dies with the cleanup operation) */
void errc_rcv_set_error(struct errc_rcv* self, int error)
__CPROVER_requires(self == &ERCV && ERCV.op_ == &OP && RS_FRESH && COMPLETING(SL_errorCleanup_) && G.signal == CH_ERROR && error != VF_NO_TOK && ERCV.ex_ == G.parked_tok)
__CPROVER_assigns(A_ALL)
__CPROVER_ensures(VF_COMPLETED_ON(CH_ERROR) && G.delivered_tok == __CPROVER_old(error))
__CPROVER_ensures(CLEANUP_FRAME(SL_errorCleanup_))
/*@BODY errc_set_error*/

/* done cleanup finished: deliver the fold with set_value */
void donec_rcv_set_done(struct donec_rcv* self)
__CPROVER_requires(self == &DRCV && DRCV.op_ == &OP && RS_FRESH && COMPLETING(SL_doneCleanup_) && G.signal == CH_DONE && OP.state_ == G.fold)
__CPROVER_assigns(A_ALL)
__CPROVER_ensures(VF_COMPLETED_ON(CH_VALUE) && G.delivered == __CPROVER_old(G.fold) && G.state_atc == __CPROVER_old(G.fold))   /* C13: the result is the fold over precisely the elements applied */
__CPROVER_ensures(CLEANUP_FRAME(SL_doneCleanup_))
/*@BODY donec_set_done*/

void donec_rcv_set_error(struct donec_rcv* self, int error)
__CPROVER_requires(self == &DRCV && DRCV.op_ == &OP && RS_FRESH && COMPLETING(SL_doneCleanup_) && G.signal == CH_ERROR && error != VF_NO_TOK)
__CPROVER_assigns(A_ALL)
__CPROVER_ensures(VF_COMPLETED_ON(CH_ERROR) && G.delivered_tok == __CPROVER_old(error))
__CPROVER_ensures(CLEANUP_FRAME(SL_doneCleanup_))
/*@BODY donec_set_error*/

/* ---------------- harnesses ---------------- */
static void h_havoc(void) {
  vf_ghost_havoc();
  G.fold = VF_nondet_i64(); G.element = VF_nondet_i64(); G.state_at_start = VF_nondet_i64(); G.state_atc = VF_nondet_i64(); G.delivered = VF_nondet_i64();
  G.index = VF_nondet_u32(); G.applied = VF_nondet_u32(); G.reduces = VF_nondet_u32(); G.parks = VF_nondet_u32();
  G.next_connects = VF_nondet_u32(); G.cleanup_connects = VF_nondet_u32();
  G.parked_tok = VF_nondet_int(); G.cur_exc = VF_NO_TOK; G.delivered_tok = VF_NO_TOK; G.wrapped = VF_NO_TOK; G.wrapped_from = VF_NO_TOK; G.reduce_threw = vf_nb(); G.payload_dead = vf_nb();
  OP.state_ = VF_nondet_i64(); G.snap = OP;
  NRCV.op_ = &OP; ERCV.op_ = &OP; ERCV.ex_ = VF_nondet_int(); DRCV.op_ = &OP;
}
void h_ctor(void) { h_havoc(); rs_op_ctor(&OP); VF_CANARY("after the constructor"); }
void h_dtor(void) { h_havoc(); rs_op_dtor(&OP); VF_CANARY("after the destructor"); }
void h_start(void) {
  h_havoc(); rs_op_start(&OP);
  VF_CANARY("after start");
  if (G.throws) { VF_CANARY("the first connect(next) can throw"); } else { VF_CANARY("the first next() can be started"); }
}
void h_next_set_value(void) {
  h_havoc(); next_rcv_set_value(&NRCV, VF_nondet_i64());
  VF_CANARY("after next set_value");
  if (G.throws == 0) { VF_CANARY("next round can be started"); }
  if (G.throws && G.reduce_threw) { VF_CANARY("the reducer can throw"); }
  if (G.throws && !G.reduce_threw) { VF_CANARY("re-connect of next() can throw"); }
  if (G.index > 0) { VF_CANARY("not only the first element"); }
}
void h_next_set_done(void) { h_havoc(); next_rcv_set_done(&NRCV); VF_CANARY("after next set_done"); }
void h_next_set_error(void) { h_havoc(); next_rcv_set_error(&NRCV, VF_nondet_int()); VF_CANARY("after next set_error"); }
void h_next_set_error_generic(void) { h_havoc(); next_rcv_set_error_generic(&NRCV, VF_nondet_int()); VF_CANARY("after next set_error (generic)"); }
void h_errc_set_done(void) { h_havoc(); errc_rcv_set_done(&ERCV); VF_CANARY("after error-cleanup set_done"); }
void h_errc_set_error(void) { h_havoc(); errc_rcv_set_error(&ERCV, VF_nondet_int()); VF_CANARY("after error-cleanup set_error"); }
void h_donec_set_done(void) { h_havoc(); donec_rcv_set_done(&DRCV); VF_CANARY("after done-cleanup set_done"); }
void h_donec_set_error(void) { h_havoc(); donec_rcv_set_error(&DRCV, VF_nondet_int()); VF_CANARY("after done-cleanup set_error"); }

/* ---------------- M4 lemmas over the contracts' predicates ---------------- */
/* abstract life cycle: one step = one verified call (its contract), or "the started child calls its receiver" (the children's
 * C01, assumed).  Shows: the preconditions of the callbacks are what the previous step provides; at most one child alive; the
 * fold is applied once per arrived element; cleanup started exactly once, after the last next() completed; the result is
 * delivered exactly once, after the cleanup completed (or when no next() was ever started), with nothing alive. */
struct lst { uint8_t n, e, d; int sig; unsigned arrived, applied, nstarts, cstarts, cdone, completed; int channel; _Bool started, parked, destroyed; };
enum { T_START_OK, T_START_THROW, T_NEXT_CALLS, T_NEXT_VALUE_OK, T_NEXT_VALUE_THROW, T_NEXT_DONE, T_NEXT_ERROR, T_CLEANUP_CALLS,
       T_DONEC_DONE, T_DONEC_ERROR, T_ERRC_DONE, T_ERRC_ERROR, T_DTOR, T_N };
#define L_ALL_NONE(x) ((x).n == LS_NONE && (x).e == LS_NONE && (x).d == LS_NONE)
static _Bool l_step(struct lst o, struct lst* out, int t, int sig) {
  struct lst x = o; _Bool en = 0;
  switch (t) {
  case T_START_OK:         en = !o.started && !o.destroyed && L_ALL_NONE(o) && o.applied == 0;                         /* rs_op_start, no throw */
                           x.started = 1; x.n = LS_STARTED; x.nstarts = o.nstarts + 1; break;
  case T_START_THROW:      en = !o.started && !o.destroyed && L_ALL_NONE(o) && o.applied == 0;                         /* rs_op_start, connect threw */
                           x.started = 1; x.completed = o.completed + 1; x.channel = CH_ERROR_EXCEPTION; break;
  case T_NEXT_CALLS:       en = o.n == LS_STARTED && (sig == CH_VALUE || sig == CH_DONE || sig == CH_ERROR);           /* the next() child calls its receiver */
                           x.n = LS_COMPLETING; x.sig = sig; if (sig == CH_VALUE) x.arrived = o.arrived + 1; break;
  case T_NEXT_VALUE_OK:    en = o.n == LS_COMPLETING && o.e == LS_NONE && o.d == LS_NONE && o.sig == CH_VALUE && o.completed == 0 && o.applied + 1 == o.arrived;   /* next_rcv_set_value */
                           x.applied = o.applied + 1; x.n = LS_STARTED; x.nstarts = o.nstarts + 1; break;
  case T_NEXT_VALUE_THROW: en = o.n == LS_COMPLETING && o.e == LS_NONE && o.d == LS_NONE && o.sig == CH_VALUE && o.completed == 0 && o.applied + 1 == o.arrived;
                           x.applied = o.applied + 1; x.n = LS_NONE; x.e = LS_STARTED; x.cstarts = o.cstarts + 1; x.parked = 1; break;
  case T_NEXT_DONE:        en = o.n == LS_COMPLETING && o.e == LS_NONE && o.d == LS_NONE && o.sig == CH_DONE && o.completed == 0;      /* next_rcv_set_done */
                           x.n = LS_NONE; x.d = LS_STARTED; x.cstarts = o.cstarts + 1; break;
  case T_NEXT_ERROR:       en = o.n == LS_COMPLETING && o.e == LS_NONE && o.d == LS_NONE && o.sig == CH_ERROR && o.completed == 0;     /* next_rcv_set_error(_generic) */
                           x.n = LS_NONE; x.e = LS_STARTED; x.cstarts = o.cstarts + 1; x.parked = 1; break;
  case T_CLEANUP_CALLS:    en = (o.e == LS_STARTED || o.d == LS_STARTED) && (sig == CH_DONE || sig == CH_ERROR);       /* the cleanup child calls its receiver */
                           if (o.e == LS_STARTED) x.e = LS_COMPLETING; else x.d = LS_COMPLETING; x.sig = sig; x.cdone = o.cdone + 1; break;
  case T_DONEC_DONE:       en = o.d == LS_COMPLETING && o.n == LS_NONE && o.e == LS_NONE && o.sig == CH_DONE && o.completed == 0;      /* donec_rcv_set_done */
                           x.d = LS_NONE; x.completed = o.completed + 1; x.channel = CH_VALUE; break;
  case T_DONEC_ERROR:      en = o.d == LS_COMPLETING && o.n == LS_NONE && o.e == LS_NONE && o.sig == CH_ERROR && o.completed == 0;
                           x.d = LS_NONE; x.completed = o.completed + 1; x.channel = CH_ERROR; break;
  case T_ERRC_DONE:        en = o.e == LS_COMPLETING && o.n == LS_NONE && o.d == LS_NONE && o.sig == CH_DONE && o.completed == 0 && o.parked;   /* errc_rcv_set_done */
                           x.e = LS_NONE; x.parked = 0; x.completed = o.completed + 1; x.channel = CH_ERROR; break;
  case T_ERRC_ERROR:       en = o.e == LS_COMPLETING && o.n == LS_NONE && o.d == LS_NONE && o.sig == CH_ERROR && o.completed == 0 && o.parked;
                           x.e = LS_NONE; x.parked = 0; x.completed = o.completed + 1; x.channel = CH_ERROR; break;
  default:                 en = !o.destroyed && L_ALL_NONE(o) && (o.completed == 1 || !o.started);                         /* rs_op_dtor: by the owner, before start or after completion */
                           x.destroyed = 1; break;
  }
  *out = x;
  return en;
}
#define L_ONE_OR_NONE(x) (((x).n != LS_NONE ? 1 : 0) + ((x).e != LS_NONE ? 1 : 0) + ((x).d != LS_NONE ? 1 : 0) <= 1)
#define L_PENDING_VALUE(x) ((x).n == LS_COMPLETING && (x).sig == CH_VALUE)
#define L_REACH(x) ( L_ONE_OR_NONE(x) && (x).completed <= 1 && (x).cstarts <= 1 && (x).cdone <= (x).cstarts \
   && (x).n <= LS_COMPLETING && (x).e <= LS_COMPLETING && (x).d <= LS_COMPLETING && (x).n != LS_ALIVE && (x).e != LS_ALIVE && (x).d != LS_ALIVE \
   && (x).arrived == (x).applied + (L_PENDING_VALUE(x) ? 1u : 0u) \
   && (!(x).started ? (L_ALL_NONE(x) && (x).completed == 0 && (x).cstarts == 0 && (x).nstarts == 0 && (x).applied == 0 && !(x).parked) : 1) \
   && (((x).started && (x).completed == 0) ? !L_ALL_NONE(x) : 1) \
   && ((x).completed == 1 ? (L_ALL_NONE(x) && (x).started && (((x).cstarts == 1 && (x).cdone == 1 && (x).nstarts >= 1) || ((x).nstarts == 0 && (x).cstarts == 0 && (x).channel == CH_ERROR_EXCEPTION))) : 1) \
   && ((x).n != LS_NONE ? ((x).cstarts == 0 && (x).nstarts >= 1) : 1) \
   && (((x).e != LS_NONE || (x).d != LS_NONE) ? ((x).cstarts == 1 && (x).completed == 0 && (x).nstarts >= 1) : 1) \
   && (((x).e == LS_STARTED || (x).d == LS_STARTED) ? (x).cdone == 0 : 1) && (((x).e == LS_COMPLETING || (x).d == LS_COMPLETING) ? (x).cdone == 1 : 1) \
   && ((x).parked == ((x).e != LS_NONE)) \
   && (((x).n == LS_COMPLETING) ? ((x).sig == CH_VALUE || (x).sig == CH_DONE || (x).sig == CH_ERROR) : 1) \
   && (((x).e == LS_COMPLETING || (x).d == LS_COMPLETING) ? ((x).sig == CH_DONE || (x).sig == CH_ERROR) : 1) \
   && (((x).completed == 1 && (x).channel == CH_VALUE) ? ((x).cdone == 1 && (x).arrived == (x).applied) : 1) \
   && ((x).destroyed ? (L_ALL_NONE(x) && ((x).completed == 1 || !(x).started)) : 1) )
void lemma_rs_lifecycle(void) {
  struct lst o, n; int t = VF_nondet_int(), sig = VF_nondet_int();
  o.n = VF_nondet_u8(); o.e = VF_nondet_u8(); o.d = VF_nondet_u8(); o.sig = VF_nondet_int(); o.arrived = VF_nondet_u32(); o.applied = VF_nondet_u32();
  o.nstarts = VF_nondet_u32(); o.cstarts = VF_nondet_u32(); o.cdone = VF_nondet_u32(); o.completed = VF_nondet_u32(); o.channel = VF_nondet_int();
  o.started = vf_nb(); o.parked = vf_nb(); o.destroyed = vf_nb();
  __CPROVER_assume(t >= 0 && t < T_N && o.nstarts < 0xffffffffu && o.arrived < 0xffffffffu);
  __CPROVER_assume(L_REACH(o));
  __CPROVER_assume(l_step(o, &n, t, sig));
  VF_CANARY("lemma premises satisfiable");
  if (t == T_START_OK) { VF_CANARY("start enabled"); } if (t == T_START_THROW) { VF_CANARY("start/throw enabled"); } if (t == T_NEXT_VALUE_OK) { VF_CANARY("next value enabled"); }
  if (t == T_NEXT_VALUE_THROW) { VF_CANARY("next value/throw enabled"); } if (t == T_NEXT_DONE) { VF_CANARY("next done enabled"); } if (t == T_NEXT_ERROR) { VF_CANARY("next error enabled"); }
  if (t == T_DONEC_DONE) { VF_CANARY("done-cleanup done enabled"); } if (t == T_DONEC_ERROR) { VF_CANARY("done-cleanup error enabled"); }
  if (t == T_ERRC_DONE) { VF_CANARY("error-cleanup done enabled"); } if (t == T_ERRC_ERROR) { VF_CANARY("error-cleanup error enabled"); } if (t == T_DTOR) { VF_CANARY("dtor enabled"); }
  VF_P(L_REACH(n), "lemma: the life-cycle invariant (at most one child alive, fold applied once per arrived element, cleanup started at most once, at most one completion, result only after cleanup) is inductive over the contracts");
  VF_P((n.completed == 1) ==> L_ALL_NONE(n), "lemma: when the consumer's result has been delivered nothing is alive: the empty destructor is correct");
  VF_P((n.completed == 1 && n.nstarts >= 1) ==> (n.cstarts == 1 && n.cdone == 1), "lemma C13: if a next() was ever started, cleanup(stream) was started exactly once and had completed before the result was delivered");
  VF_P((n.cstarts > o.cstarts) ==> (o.cstarts == 0 && o.n == LS_COMPLETING && n.n == LS_NONE), "lemma C13: cleanup is started once, from the completion of the outstanding next(), after that next op was destroyed");
  VF_P((n.completed == 1 && n.channel == CH_VALUE) ==> (n.applied == n.arrived && n.cdone == 1), "lemma C13: the value result is the fold over precisely the elements that arrived, delivered after cleanup");
  VF_P((n.applied > o.applied) ==> (n.applied == o.applied + 1 && L_PENDING_VALUE(o) && o.arrived == n.applied), "lemma C13: element k is folded in exactly once, by the completion that delivered it, after elements 0..k-1");
  VF_P(o.completed == 1 ==> (t == T_DTOR), "lemma: after the completion signal nothing but the destructor is enabled (exactly one completion)");
  VF_P((o.n == LS_STARTED || o.e == LS_STARTED || o.d == LS_STARTED) ==> (t == T_NEXT_CALLS || t == T_CLEANUP_CALLS), "lemma: while a child runs the operation only waits for it");
  VF_P(n.destroyed ==> L_ALL_NONE(n), "lemma: the destructor runs with nothing alive");
}
void lemma_rs_init(void) {
  struct lst i; i.n = LS_NONE; i.e = LS_NONE; i.d = LS_NONE; i.sig = CH_NONE; i.arrived = 0; i.applied = 0; i.nstarts = 0; i.cstarts = 0; i.cdone = 0; i.completed = 0;
  i.channel = CH_NONE; i.started = 0; i.parked = 0; i.destroyed = 0;
  VF_CANARY("lemma_rs_init reachable");
  VF_P(L_REACH(i), "lemma: a freshly constructed operation (nothing connected) satisfies the life-cycle invariant and may be destroyed unstarted");
  VF_P(!VF_VALUES_BY_REF && !VF_NEXT_ERR_BY_REF && !VF_ERRC_ERR_BY_REF && !VF_DONEC_ERR_BY_REF, "lemma C02: the four completion payloads (element, stream error, cleanup errors) are taken by value: they survive the destruction of the child operation state");
  VF_P(!SENDS_DONE, "lemma: the sender declares sends_done == false, matching 'the end of the stream is the value completion'");
}

/* C13: cleanup(stream) must run to completion exactly once even when the consumer has requested stop: the receivers that
 * reduce_stream connects cleanup(stream) to answer get_stop_token with a token that can never be stopped */
enum { TOKEN_UNSTOPPABLE = 1, TOKEN_OF_CONSUMER = 2 };
void lemma_rs_cleanup_token(void) {
  int errc = /*@EXPR errc_token*/;
  int donec = /*@EXPR donec_token*/;
  VF_P(errc == TOKEN_UNSTOPPABLE, "lemma C13: the error-path cleanup receiver's stop token is unstoppable_token (a stop request on the consumer cannot cancel cleanup(stream))");
  VF_P(donec == TOKEN_UNSTOPPABLE, "lemma C13: the done/value-path cleanup receiver's stop token is unstoppable_token (a stop request on the consumer cannot cancel cleanup(stream))");
  VF_CANARY("lemma_rs_cleanup_token reachable");
}
