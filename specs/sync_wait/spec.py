H = 'include/unifex/sync_wait.hpp'
PROMISE = r'struct promise \{'
RCV = r'struct _receiver \{'

STATE = [(r'promise<T>::state::', 'state::'), (r'promise_t::state::', 'state::')]
TRY = [(r'UNIFEX_TRY\s*\{', '{'), (r'\}\s*UNIFEX_CATCH\s*\(\.\.\.\)\s*\{', '} if (0) { vf_catch:')]
# storing the result: activate_union_member<T>(member, args...) = placement-construct the union member (the value's constructor may throw,
# strong guarantee by its scope_guard; std::exception_ptr's copy / move do not throw)
RESULT = [
    (r'unifex::activate_union_member\(promise_\.value_, \(Values&&\)values\.\.\.\);', 'if (EV_activate_value(&promise_.value_)) goto vf_catch;'),
    (r'unifex::activate_union_member\(\s*promise_\.exception_, std::current_exception\(\)\)', 'EV_activate_exception(&promise_.exception_, VF_CURRENT_EXCEPTION)'),
    (r'unifex::activate_union_member\(promise_\.exception_, std::move\(err\)\)', 'EV_activate_exception(&promise_.exception_, err)'),
    (r'unifex::deactivate_union_member\((\w+)\)', r'EV_deactivate_\1(&\1)'),
]
rcv_ctx = dict(cls='receiver', members=['promise_', 'ctx_', 'frame_'], methods=['signal_complete'], enums={'state': 'PS'},
               pre=STATE + TRY + RESULT + [
                   (r'\bpromise_\.', 'promise_->'),              # reference member -> pointer
                   (r'\bctx_\.stop\(\)', 'EV_ctx_stop(ctx_)'),   # manual_event_loop::stop(): contract of group manual_event_loop
                   (r'std::move\(\*this\)\.set_error\(\s*make_exception_ptr\(std::system_error\{ec, "sync_wait"\}\)\)', 'receiver_set_error(this, EV_make_exception_ptr())'),
                   (r'std::move\(\*this\)\.set_error\(make_exception_ptr\(\(Error&&\)e\)\)', 'receiver_set_error(this, EV_make_exception_ptr())'),
               ],
               # instrumentation (no statement changed): writes of the result state are counted; the receiver (it lives in the operation state)
               # and everything it refers to are not touched after the waiter was woken
               post=[(r'(\S+)->state_ = (\w+);', r'VF_SET_STATE(\1, \2);'), (r'\bself->', 'VF_RCV_ALIVE(self)->')])
promise_ctx = dict(cls='promise_t', members=['state_', 'value_', 'exception_'], methods=[], enums={'state': 'PS'}, pre=STATE + RESULT)
# locals of _impl with destructors, innermost scope first (destructor order at a scope exit = processing order)
RAII = {'vf_operation': ('VF_NOOP', 'EV_op_dtor'), 'initial_stack_root': ('EV_stack_root_ctor', 'EV_stack_root_dtor'),
        'manual_event_loop': ('EV_ctx_ctor', 'EV_ctx_dtor'), 'promise_t': ('VF_PROMISE_CTOR', 'promise_t_dtor')}
impl_ctx = dict(cls='sync_wait', members=[], methods=[], enums={'state': 'PS'}, raii=RAII,
                pre=STATE + [
                    (r'using promise_t = _sync_wait::promise<Result>;', ''),
                    (r'initial_stack_root stackRoot\{frameAddress, returnAddress\};', 'initial_stack_root stackRoot;'),
                    # connect may throw (before the operation exists); the receiver is bound to THIS promise, THIS loop, the root's frame
                    (r'auto operation = connect\(\s*\(Sender&&\)sender,\s*_sync_wait::receiver_t<Result>\{(\w+), (\w+), (\w+)\.frame\}\);',
                     r'if (EV_connect_throws()) { VF_RESULT(VF_THROWN); return; } vf_operation operation; EV_connect(&operation, &\1, &\2, &\3);'),
                    (r'(?<![\w.>])start\(operation\);', 'EV_start(&operation);'),
                    (r'\bctx\.run\(\);', 'EV_ctx_run(&ctx);'),
                    (r'switch \(promise\.state_\)', 'switch (VF_READ_STATE(&promise))'),
                    (r'return std::nullopt;', '{ VF_RESULT(VF_NULLOPT); return; }'),
                    (r'return std::move\(promise\.value_\)\.get\(\);', '{ VF_RESULT(EV_take_value(&promise.value_)); return; }'),
                    (r'std::rethrow_exception\(promise\.exception_\.get\(\)\);', '{ VF_RESULT(EV_rethrow(&promise.exception_)); return; }'),
                ])

SPEC = dict(
    properties=['C01'],
    ctx=dict(),
    extracts={
        'state_init': dict(file=H, kind='expr', sig=r'state state_ = ([^;]*);', within=PROMISE, ctx=promise_ctx),
        'PS_enumerators': dict(file=H, kind='expr', sig=r'enum class state \{\s*([^}]*?)\s*\};', within=PROMISE, ctx=dict(pre=[(r'(\w+)', r'PS_\1')])),
        'promise_dtor': dict(file=H, sig=r'~promise\(\)', within=PROMISE, ctx=promise_ctx),
        'set_value': dict(file=H, sig=r'void set_value\(Values&&\.\.\. values\) && noexcept', within=RCV, ctx=rcv_ctx),
        'set_error': dict(file=H, sig=r'void set_error\(std::exception_ptr err\) && noexcept', within=RCV, ctx=rcv_ctx),
        'set_error_ec': dict(file=H, sig=r'void set_error\(std::error_code ec\) && noexcept', within=RCV, ctx=rcv_ctx),
        'set_error_generic': dict(file=H, sig=r'void set_error\(Error&& e\) && noexcept', within=RCV, ctx=rcv_ctx),
        'set_done': dict(file=H, sig=r'void set_done\(\) && noexcept', within=RCV, ctx=rcv_ctx),
        'signal_complete': dict(file=H, sig=r'void signal_complete\(\) noexcept', within=RCV, ctx=rcv_ctx),
        'impl': dict(file=H, sig=r'_impl\(Sender&& sender, frame_ptr frameAddress, instruction_ptr returnAddress\)', ctx=impl_ctx),
    },
    closed_world=[
        dict(file=H, members=['state_', 'value_', 'exception_'],
             allow=[r'manual_lifetime<T> value_;', r'manual_lifetime<std::exception_ptr> exception_;', r'state state_ = [^;]*;']),
    ],
    units=[
        dict(name='set_value', harness='h_set_value', enforce='receiver_set_value'),
        dict(name='set_error', harness='h_set_error', enforce='receiver_set_error'),
        dict(name='set_error_ec', harness='h_set_error_ec', enforce='receiver_set_error_ec', replace=['receiver_set_error']),
        dict(name='set_error_generic', harness='h_set_error_generic', enforce='receiver_set_error_generic', replace=['receiver_set_error']),
        dict(name='set_done', harness='h_set_done', enforce='receiver_set_done'),
        dict(name='signal_complete', harness='h_signal_complete', enforce='receiver_signal_complete'),
        dict(name='promise_dtor', harness='h_promise_dtor', enforce='promise_t_dtor'),
        dict(name='impl', harness='h_impl', enforce='sync_wait_impl', replace=['promise_t_dtor']),
        dict(name='lemma_sw_protocol', harness='lemma_sw_protocol', mode='lemma'),
        dict(name='lemma_sw_init', harness='lemma_sw_init', mode='lemma'),
    ],
    assumptions=[
        'the sender passed to sync_wait obeys C01: after start() exactly one of the receiver\'s set_value / set_error / set_done is called, once, possibly inline or on another thread (this is what the other C01 groups prove for the library\'s senders)',
        'manual_event_loop (specs/manual_event_loop, C06): run() returns only after it observed, under the lock, stop() having been called; stop() = lock, set the flag, notify_all, unlock; the waiter may return as soon as stop() has released the lock, and then destroys the operation, the loop and the promise',
        'std::mutex::unlock may be followed immediately by the destruction of the mutex by the woken thread (POSIX); stop() touches nothing after releasing the lock (proved in specs/manual_event_loop)',
        'activate_union_member has the strong exception guarantee (its scope_guard destroys the half-built union member); copying / moving std::exception_ptr does not throw',
        'C++ object model in _impl (written in the template via the raii rule): locals are destroyed in reverse order of declaration at scope exit, on return and on an exception leaving the function',
    ],
    drops=['template genericity (Result / Values... / Sender)', 'the value payload, the exception payload (std::current_exception(), make_exception_ptr(...))',
           'reference members promise_ / ctx_ / frame_ -> pointers', 'std::optional<Result> return value -> result code recorded in a ghost (nullopt / value / exception thrown)',
           'connect / start / manual_event_loop::run / stop, the async-stack root (C20) -> event stubs', 'UNIFEX_TRY / UNIFEX_CATCH -> goto vf_catch by spec-level regexes',
           'get_scheduler / get_async_stack_frame customisations and the sync_wait / sync_wait_r CPO wrappers (argument plumbing) are not reached'],
)
