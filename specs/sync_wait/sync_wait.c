/* C01 (sync_wait is the anchor that observes a completion): include/unifex/sync_wait.hpp
 *   _sync_wait::promise<T>::~promise, _sync_wait::_receiver<T>::type::{set_value, set_error (3 overloads), set_done, signal_complete},
 *   _sync_wait::_impl (the waiter).
 * Bodies / expressions marked @BODY / @EXPR are extracted from /repo on every run; everything else is specification.
 *
 * Protocol between the completing thread C and the waiter W:
 *   C: writes the result (union member + state_), exactly once, then calls manual_event_loop::stop() -- the wake-up event;
 *   W: start(); run() returns only after stop(); then destroys the operation (the receiver lives in it), reads state_, destroys loop and promise.
 * Proved: exactly one result state is written, with exactly the matching payload; the wake-up happens only after it is written, once;
 * C touches neither the receiver nor the promise nor the loop after the wake-up (dead-object snapshot); W reads the result only after
 * run() returned, maps each state to its outcome, never reaches std::terminate(), destroys the stored payload exactly once. */
#include <stddef.h>
#include <stdint.h>

enum { /*@EXPR PS_enumerators*/ };
struct ml { char storage; };                              /* manual_lifetime<...>: raw storage; which member is active is ghost state */
struct promise_t { struct ml value_; struct ml exception_; int state_; };
struct manual_event_loop { int opaque; };
struct initial_stack_root { int frame; };
struct vf_operation { int opaque; };
struct receiver { struct promise_t* promise_; struct manual_event_loop* ctx_; void* frame_; };
#define STATE_INIT (/*@EXPR state_init*/)

enum { VF_NORESULT, VF_NULLOPT, VF_VALUE, VF_RETHROWN, VF_THROWN };   /* outcome of _impl: nullopt / the value / the stored exception rethrown / connect threw */

struct vf_ghost {
  /* result storage */
  _Bool value_active, exc_active; unsigned activations, deactivations, state_writes;
  _Bool threw;                       /* constructing the value threw */
  /* wake-up */
  unsigned stops; int woke_state; _Bool woke_value_active, woke_exc_active;
  _Bool dead; struct promise_t snap_pr; struct receiver snap_rcv;
  /* waiter */
  struct promise_t* p; struct manual_event_loop* c;
  _Bool connect_threw, connected, started, run_returned;
  unsigned starts, runs, completions, state_reads, results, takes, rethrows;
  unsigned op_dtors, ctx_ctors, ctx_dtors, root_ctors, root_dtors;
  int result;
};
static struct vf_ghost G;
static struct promise_t PR;
static struct manual_event_loop CTX;
static struct receiver RCV;
static int FRAME;

#include "vf.h"
static void vf_interfere(void) {}     /* no atomics here: the hand-over is the monitor inside manual_event_loop (specs/manual_event_loop) */

#define IMP(a, b) (!(a) || (b))
#define BEQ(a, b) ((a) ? ((b) ? 1 : 0) : ((b) ? 0 : 1))
/* a completed promise: one of the three result states, with exactly the matching payload alive */
#define CONSISTENT(st, va, ea) ( ((st) == PS_done || (st) == PS_value || (st) == PS_error) && BEQ((st) == PS_value, va) && BEQ((st) == PS_error, ea) )
/* any promise state the destructor may meet: incomplete (nothing stored) or completed */
#define PR_INV(st, va, ea) ( ((st) == PS_incomplete && !(va) && !(ea)) || CONSISTENT(st, va, ea) )

/* ---------------- instrumentation ---------------- */
#define VF_RCV_ALIVE(p) ({ VF_P(!G.dead, "the completing thread does not touch the receiver (operation state) after the waiter was woken"); (p); })
#define VF_SET_STATE(pp, v) do { \
    VF_P(!G.dead, "the promise is not written after the waiter was woken (it may be gone)"); \
    VF_P((pp) == &PR, "the receiver writes the promise it was connected with"); \
    VF_P(PR.state_ == PS_incomplete && G.state_writes == 0, "exactly one result state is written"); \
    PR.state_ = (v); G.state_writes++; } while (0)

/* ---------------- event stubs: result storage ---------------- */
/* activate_union_member(promise_.value_, values...): T's constructor may throw; strong guarantee */
static _Bool EV_activate_value(struct ml* m) {
  VF_P(m == &PR.value_ && !G.dead, "the value is stored in this promise");
  VF_P(!G.value_active && !G.exc_active && G.activations == 0, "exactly one result payload is stored (no union member is activated over another)");
  if (VF_nondet_bool()) { G.threw = 1; return 1; }
  G.value_active = 1; G.activations++;
  return 0;
}
#define VF_CURRENT_EXCEPTION 1
static void EV_activate_exception(struct ml* m, int e) {
  VF_P(m == &PR.exception_ && !G.dead, "the exception is stored in this promise");
  VF_P(!G.value_active && !G.exc_active && G.activations == 0, "exactly one result payload is stored (no union member is activated over another)");
  G.exc_active = 1; G.activations++;
}
static void EV_deactivate_value_(struct ml* m) {
  VF_CANARY("value destruction reachable");
  VF_P(G.value_active, "the stored value is destroyed exactly once, and only if it was stored");
  G.value_active = 0; G.deactivations++;
}
static void EV_deactivate_exception_(struct ml* m) {
  VF_CANARY("exception destruction reachable");
  VF_P(G.exc_active, "the stored exception is destroyed exactly once, and only if it was stored");
  G.exc_active = 0; G.deactivations++;
}
static int EV_make_exception_ptr(void) { return 2; }

/* manual_event_loop::stop(): the wake-up event.  Contract (specs/manual_event_loop): lock, set the flag, notify_all, unlock.  As soon as
 * the lock is released the waiter's run() may return: operation (with this receiver), loop and promise may be destroyed. */
static void EV_ctx_stop(struct manual_event_loop* c) {
  VF_CANARY("wake-up reachable");
  VF_P(c == &CTX && !G.dead, "the receiver stops the loop it was connected with, while that loop is alive");
  VF_P(G.stops == 0, "the waiter is woken exactly once");
  VF_P(CONSISTENT(PR.state_, G.value_active, G.exc_active) && G.state_writes == 1, "the waiter is woken only after the result state and its payload were written");
  G.stops++; G.woke_state = PR.state_; G.woke_value_active = G.value_active; G.woke_exc_active = G.exc_active;
  struct promise_t fp; struct receiver fr;
  PR.state_ = fp.state_; PR.value_ = fp.value_; PR.exception_ = fp.exception_; RCV.promise_ = fr.promise_; RCV.ctx_ = fr.ctx_; RCV.frame_ = fr.frame_;
  G.snap_pr = PR; G.snap_rcv = RCV; G.dead = 1;
}
#define UNTOUCHED_AFTER_WAKE (!G.dead || (PR.state_ == G.snap_pr.state_ && PR.value_.storage == G.snap_pr.value_.storage && PR.exception_.storage == G.snap_pr.exception_.storage \
   && RCV.promise_ == G.snap_rcv.promise_ && RCV.ctx_ == G.snap_rcv.ctx_ && RCV.frame_ == G.snap_rcv.frame_))

/* ---------------- the receiver ---------------- */
#define RCV_REQ(self) ((self) == &RCV && RCV.promise_ == &PR && RCV.ctx_ == &CTX && !G.dead && PR.state_ == PS_incomplete && !G.value_active && !G.exc_active \
   && G.activations == 0 && G.deactivations == 0 && G.state_writes == 0 && G.stops == 0 && !G.threw)
/* completed: one state write, then one wake-up, nothing afterwards */
#define RCV_ENS (G.state_writes == 1 && G.stops == 1 && G.dead && G.deactivations == 0 && UNTOUCHED_AFTER_WAKE)

void receiver_signal_complete(struct receiver* self)
__CPROVER_requires(self == &RCV && RCV.ctx_ == &CTX && !G.dead && G.stops == 0 && G.state_writes == 1 && CONSISTENT(PR.state_, G.value_active, G.exc_active))
__CPROVER_assigns(G, PR, RCV)
__CPROVER_ensures(G.stops == 1 && G.dead && UNTOUCHED_AFTER_WAKE)
/*@BODY signal_complete*/

void receiver_set_value(struct receiver* self)
__CPROVER_requires(RCV_REQ(self))
__CPROVER_assigns(G, PR, RCV)
__CPROVER_ensures(RCV_ENS && G.activations == 1)
__CPROVER_ensures(!G.threw ==> (G.woke_state == PS_value && G.woke_value_active && !G.woke_exc_active))   /* the value state with the value stored */
__CPROVER_ensures(G.threw ==> (G.woke_state == PS_error && G.woke_exc_active && !G.woke_value_active))    /* storing the value threw: the error state with that exception stored */
/*@BODY set_value*/

void receiver_set_error(struct receiver* self, int err)
__CPROVER_requires(RCV_REQ(self)) /*P*/ /* called once, on a receiver that has not completed yet */
__CPROVER_assigns(G, PR, RCV)
__CPROVER_ensures(RCV_ENS && G.activations == 1 && G.woke_state == PS_error && G.woke_exc_active && !G.woke_value_active)
/*@BODY set_error*/

void receiver_set_error_ec(struct receiver* self, int ec)
__CPROVER_requires(RCV_REQ(self))
__CPROVER_assigns(G, PR, RCV)
__CPROVER_ensures(RCV_ENS && G.woke_state == PS_error && G.woke_exc_active && !G.woke_value_active)
/*@BODY set_error_ec*/

void receiver_set_error_generic(struct receiver* self, int e)
__CPROVER_requires(RCV_REQ(self))
__CPROVER_assigns(G, PR, RCV)
__CPROVER_ensures(RCV_ENS && G.woke_state == PS_error && G.woke_exc_active && !G.woke_value_active)
/*@BODY set_error_generic*/

void receiver_set_done(struct receiver* self)
__CPROVER_requires(RCV_REQ(self))
__CPROVER_assigns(G, PR, RCV)
__CPROVER_ensures(RCV_ENS && G.activations == 0 && G.woke_state == PS_done && !G.woke_value_active && !G.woke_exc_active)
/*@BODY set_done*/

/* ---------------- the promise ---------------- */
#define VF_PROMISE_CTOR(pp) do { (pp)->state_ = STATE_INIT; G.p = (pp); } while (0)
void promise_t_dtor(struct promise_t* self)
__CPROVER_requires(PR_INV(self->state_, G.value_active, G.exc_active) && G.deactivations <= 8)
__CPROVER_assigns(G.value_active, G.exc_active, G.deactivations)
__CPROVER_ensures(!G.value_active && !G.exc_active)                                                     /* nothing leaks */
__CPROVER_ensures(G.deactivations == __CPROVER_old(G.deactivations) + ((__CPROVER_old(G.value_active) || __CPROVER_old(G.exc_active)) ? 1 : 0))  /* the one stored payload is destroyed once; none if nothing was stored */
/*@BODY promise_dtor*/

/* ---------------- the waiter ---------------- */
#define VF_NOOP(x) ((void)0)
static void EV_ctx_ctor(struct manual_event_loop* c) { G.c = c; G.ctx_ctors++; }
static void EV_ctx_dtor(struct manual_event_loop* c) {
  VF_P(c == G.c && G.ctx_dtors == 0, "the loop is destroyed once");
  VF_P(G.connect_threw || G.op_dtors == 1, "the loop outlives the operation whose receiver refers to it");
  VF_P(G.connect_threw || (G.run_returned && G.stops == 1), "the loop is destroyed only after the wake-up was delivered");
  G.ctx_dtors++;
}
static void EV_stack_root_ctor(struct initial_stack_root* r) { G.root_ctors++; }
static void EV_stack_root_dtor(struct initial_stack_root* r) {
  VF_P(G.connect_threw || G.op_dtors == 1, "the async-stack root outlives the operation whose receiver refers to its frame");
  G.root_dtors++;
}
static _Bool EV_connect_throws(void) { _Bool t = VF_nondet_bool(); if (t) G.connect_threw = 1; return t; }
static void EV_connect(struct vf_operation* op, struct promise_t* p, struct manual_event_loop* c, struct initial_stack_root* r) {
  VF_P(p == G.p && c == G.c && !G.connected, "the receiver is bound to this call's promise and this call's loop");
  G.connected = 1;
}
/* the sender completes (C01 of the sender: exactly once after start()) by calling one of the receiver functions above: their contracts */
static void vf_completion(void) {
  VF_P(G.completions == 0 && G.started, "a completion arrives after start(), once");
  int k = VF_nondet_int(); __CPROVER_assume(k == PS_done || k == PS_value || k == PS_error);
  G.p->state_ = k; G.value_active = (k == PS_value); G.exc_active = (k == PS_error); if (k != PS_done) G.activations++;
  G.state_writes++; G.stops++; G.woke_state = k; G.completions++;
}
static void EV_start(struct vf_operation* op) {
  VF_P(G.connected && !G.started && G.p->state_ == PS_incomplete, "start() on the connected, not yet started operation; nothing delivered before start");
  G.started = 1; G.starts++;
  if (VF_nondet_bool()) vf_completion();        /* inline completion */
}
/* manual_event_loop::run(): returns only after stop() (specs/manual_event_loop: RET_POST) */
static void EV_ctx_run(struct manual_event_loop* c) {
  VF_CANARY("run reachable");
  VF_P(c == G.c && G.started && G.runs == 0, "the waiter blocks once, after the operation was started");
  if (G.completions == 0) vf_completion();      /* ... by another thread, meanwhile */
  VF_P(G.stops == 1, "run() returns only after the wake-up");
  G.runs++; G.run_returned = 1;
}
static void EV_op_dtor(struct vf_operation* op) {
  VF_P(G.completions == 1 && G.run_returned && G.op_dtors == 0, "the operation state is destroyed once, only after it completed and the waiter was woken");
  G.op_dtors++;
}
#define VF_READ_STATE(pp) ({ VF_P(G.run_returned && (pp) == G.p, "the waiter reads the result state only after run() returned (after the wake-up)"); G.state_reads++; (pp)->state_; })
static int EV_take_value(struct ml* m) { VF_CANARY("value outcome reachable"); VF_P(m == &G.p->value_ && G.value_active, "the value is taken only if the value state was written"); G.takes++; return VF_VALUE; }
static int EV_rethrow(struct ml* m) { VF_CANARY("exception outcome reachable"); VF_P(m == &G.p->exception_ && G.exc_active, "the exception is rethrown only if the error state was written"); G.rethrows++; return VF_RETHROWN; }
#define VF_RESULT(x) do { int vf_r = (x); VF_P(G.results == 0, "one outcome"); G.result = vf_r; G.results++; } while (0)

void sync_wait_impl(void)
__CPROVER_requires(!G.value_active && !G.exc_active && G.activations == 0 && G.deactivations == 0 && G.state_writes == 0 && G.stops == 0 && !G.dead)
__CPROVER_requires(!G.connect_threw && !G.connected && !G.started && !G.run_returned && G.starts == 0 && G.runs == 0 && G.completions == 0 && G.state_reads == 0 && G.results == 0 && G.takes == 0 && G.rethrows == 0)
__CPROVER_requires(G.op_dtors == 0 && G.ctx_ctors == 0 && G.ctx_dtors == 0 && G.root_ctors == 0 && G.root_dtors == 0 && G.result == VF_NORESULT)
__CPROVER_assigns(G)
__CPROVER_ensures(G.results == 1 && G.ctx_ctors == 1 && G.ctx_dtors == 1 && G.root_ctors == 1 && G.root_dtors == 1)
/* connect threw: nothing started, nothing waited for, everything unwound */
__CPROVER_ensures(G.connect_threw ==> (G.result == VF_THROWN && G.starts == 0 && G.runs == 0 && G.op_dtors == 0 && G.state_reads == 0))
/* otherwise: started once, waited once, exactly one completion consumed; the operation destroyed before the result is read */
__CPROVER_ensures(!G.connect_threw ==> (G.starts == 1 && G.runs == 1 && G.completions == 1 && G.op_dtors == 1 && G.state_reads == 1))
/* the outcome is the documented function of the one result state that was written */
__CPROVER_ensures(!G.connect_threw ==> BEQ(G.result == VF_NULLOPT, G.woke_state == PS_done))
__CPROVER_ensures(!G.connect_threw ==> (BEQ(G.result == VF_VALUE, G.woke_state == PS_value) && G.takes == (G.woke_state == PS_value ? 1 : 0)))
__CPROVER_ensures(!G.connect_threw ==> (BEQ(G.result == VF_RETHROWN, G.woke_state == PS_error) && G.rethrows == (G.woke_state == PS_error ? 1 : 0)))
/* the stored payload is destroyed exactly once */
__CPROVER_ensures(!G.value_active && !G.exc_active && G.deactivations == G.activations)
/*@BODY impl*/

/* ---------------- harnesses ---------------- */
static void h_zero(void) {
  G.value_active = 0; G.exc_active = 0; G.activations = 0; G.deactivations = 0; G.state_writes = 0; G.threw = 0; G.stops = 0; G.dead = 0;
  G.woke_state = -1; G.woke_value_active = 0; G.woke_exc_active = 0;
  G.p = NULL; G.c = NULL; G.connect_threw = 0; G.connected = 0; G.started = 0; G.run_returned = 0;
  G.starts = 0; G.runs = 0; G.completions = 0; G.state_reads = 0; G.results = 0; G.takes = 0; G.rethrows = 0;
  G.op_dtors = 0; G.ctx_ctors = 0; G.ctx_dtors = 0; G.root_ctors = 0; G.root_dtors = 0; G.result = VF_NORESULT;
  PR.state_ = STATE_INIT; RCV.promise_ = &PR; RCV.ctx_ = &CTX; RCV.frame_ = &FRAME;
}
void h_set_value(void) { h_zero(); receiver_set_value(&RCV); VF_CANARY("after set_value"); if (G.threw) { VF_CANARY("storing the value can throw"); } else { VF_CANARY("the value can be stored"); } }
void h_set_error(void) { h_zero(); receiver_set_error(&RCV, 1); VF_CANARY("after set_error"); }
void h_set_error_ec(void) { h_zero(); receiver_set_error_ec(&RCV, 1); VF_CANARY("after set_error(error_code)"); }
void h_set_error_generic(void) { h_zero(); receiver_set_error_generic(&RCV, 1); VF_CANARY("after set_error(Error&&)"); }
void h_set_done(void) { h_zero(); receiver_set_done(&RCV); VF_CANARY("after set_done"); }
void h_signal_complete(void) {
  h_zero();
  int k = VF_nondet_int(); __CPROVER_assume(k == PS_done || k == PS_value || k == PS_error);
  PR.state_ = k; G.value_active = (k == PS_value); G.exc_active = (k == PS_error); G.state_writes = 1;
  receiver_signal_complete(&RCV);
  VF_CANARY("after signal_complete");
}
void h_promise_dtor(void) {
  h_zero();
  int k = VF_nondet_int(); __CPROVER_assume(k == PS_incomplete || k == PS_done || k == PS_value || k == PS_error);
  PR.state_ = k; G.value_active = (k == PS_value); G.exc_active = (k == PS_error);
  promise_t_dtor(&PR);
  VF_CANARY("after ~promise");
  if (k == PS_incomplete) { VF_CANARY("~promise of an incomplete promise"); }
}
void h_impl(void) {
  h_zero();
  sync_wait_impl();
  VF_CANARY("after _impl");
  if (G.result == VF_NULLOPT) { VF_CANARY("sync_wait can return nullopt"); }
  if (G.result == VF_THROWN) { VF_CANARY("connect can throw"); }
}

/* ---------------- M4 lemmas over the contracts ---------------- */
struct proto { int st; _Bool va, ea; unsigned writes, stops; _Bool w_returned, c_done; };
enum { ST_W_VALUE, ST_W_ERROR, ST_W_DONE, ST_STOP, ST_RUN_RETURNS, ST_NKINDS };
#define INV(p) ( PR_INV((p).st, (p).va, (p).ea) && (p).writes <= 1 && (p).stops <= 1 && BEQ((p).writes == 1, (p).st != PS_incomplete) \
   && IMP((p).stops == 1, (p).writes == 1) && IMP((p).w_returned, (p).stops == 1) && BEQ((p).c_done, (p).stops == 1) )
/* rely of the waiter (inside run()): the completer writes the result once, then stops; rely of the completer: the waiter does nothing
 * to the promise and does not return before the stop */
#define RELY_W(a, b) ( INV(b) && IMP((a).stops == 1, (b).st == (a).st && BEQ((b).va, (a).va) && BEQ((b).ea, (a).ea) && (b).stops == 1) && IMP((a).writes == 1, (b).st == (a).st) && BEQ((b).w_returned, (a).w_returned) )
#define RELY_C(a, b) ( INV(b) && (b).st == (a).st && BEQ((b).va, (a).va) && BEQ((b).ea, (a).ea) && (b).writes == (a).writes && (b).stops == (a).stops && IMP((a).stops == 0, !(b).w_returned) )
void lemma_sw_protocol(void) {
  struct proto a, b;
  a.st = VF_nondet_int(); a.va = VF_nondet_bool() ? 1 : 0; a.ea = VF_nondet_bool() ? 1 : 0; a.writes = VF_nondet_u32(); a.stops = VF_nondet_u32(); a.w_returned = VF_nondet_bool() ? 1 : 0; a.c_done = VF_nondet_bool() ? 1 : 0;
  __CPROVER_assume(INV(a));
  int kind = VF_nondet_int(); __CPROVER_assume(kind >= 0 && kind < ST_NKINDS);
  b = a; _Bool en = 0;
  switch (kind) {           /* the steps as the receiver's contracts (VF_SET_STATE, EV_activate_*, EV_ctx_stop) and run()'s contract describe them */
  case ST_W_VALUE: en = a.st == PS_incomplete && !a.c_done; b.st = PS_value; b.va = 1; b.writes = 1; break;
  case ST_W_ERROR: en = a.st == PS_incomplete && !a.c_done; b.st = PS_error; b.ea = 1; b.writes = 1; break;
  case ST_W_DONE:  en = a.st == PS_incomplete && !a.c_done; b.st = PS_done; b.writes = 1; break;
  case ST_STOP:    en = a.stops == 0 && a.writes == 1 && CONSISTENT(a.st, a.va, a.ea); b.stops = 1; b.c_done = 1; break;   /* the completer's last step */
  case ST_RUN_RETURNS: en = a.stops == 1 && !a.w_returned; b.w_returned = 1; break;
  }
  __CPROVER_assume(en);
  VF_CANARY("lemma premises satisfiable");
  VF_P(INV(b), "lemma: every step preserves the protocol invariant");
  if (kind != ST_RUN_RETURNS) VF_P(RELY_W(a, b), "lemma: the completer's steps are allowed by the waiter's rely");
  else VF_P(RELY_C(a, b) || a.stops == 1, "lemma: the waiter's step is allowed by the completer's rely (it returns only after the completer's last step)");
  VF_P(IMP(b.w_returned, CONSISTENT(b.st, b.va, b.ea) && b.writes == 1), "lemma: when run() has returned exactly one result state has been written, with its payload: the switch in _impl never reaches std::terminate()");
  VF_P(IMP(a.c_done, kind == ST_RUN_RETURNS), "lemma: after the wake-up the completing thread takes no further step (it touches nothing the waiter may destroy)");
}
void lemma_sw_init(void) {
  VF_P(STATE_INIT == PS_incomplete, "lemma: a fresh promise is incomplete");
  VF_P(PS_incomplete != PS_done && PS_incomplete != PS_value && PS_incomplete != PS_error && PS_done != PS_value && PS_done != PS_error && PS_value != PS_error, "lemma: four distinct states");
  VF_P(PR_INV(STATE_INIT, 0, 0), "lemma: a fresh promise (nothing stored) satisfies the promise invariant");
  VF_CANARY("lemma_sw_init reachable");
}
