/* C02 / C05 / C01: unifex::let_error(source, func) -- include/unifex/let_error.hpp -- and unifex::let_done(source, done) --
 * include/unifex/let_done.hpp.  Same shape as sequence / let_value: ONE child operation state alive in
 * union { sourceOp_, finalOp_ }; the second step is triggered by the source's ERROR (let_error) / DONE (let_done) channel, the other
 * channels are forwarded unchanged.  The two use different disciplines:
 *   let_error  discriminator `bool started_`: the destructor destroys sourceOp_ only if start() was never called; after start() every
 *              completion path destroys what is alive BEFORE it signals (the child operation from inside its own completion callback,
 *              the stored error after the final operation that references it);
 *   let_done   discriminator `int startedOp_` (> 0 sourceOp_ alive, < 0 finalOp_ alive, 0 nothing): the destructor destroys the named member.
 * The halves are selected by -DVF_LET_DONE (units of let_done) and share ../sequence/slots.h.
 * Bodies marked @BODY / @EXPR are extracted from /repo on every run; everything else is specification. */
#include <stddef.h>
#include <stdint.h>

#ifndef VF_LET_DONE
/* ======================================================= let_error ======================================================= */
struct le_op { _Bool started_; };
struct le_rcv { struct le_op* op_; };
struct le_frcv { struct le_op* op_; };
static struct le_op OP;
static struct le_rcv RCV;
static struct le_frcv FRCV;

enum { SL_source, SL_final, SL_error };
/* default member initialiser of started_ (a member without initialiser stays nondeterministic) */
#define STARTED_INIT_INTO(lhs) do { _Bool vf_i /*@EXPR le_started_init*/; (lhs) = vf_i; } while (0)

#define VF_NSLOT 3
#define VF_OP_T struct le_op
#define VF_OP_HAVOC() do { OP.started_ = vf_nb(); } while (0)
#define VF_OP_EQ(a, b) ((a).started_ == (b).started_)
#define VF_SLOT_IS_OP(s) ((s) != SL_error)
#define VF_UNION_EMPTY(s) ((s) == SL_error ? G.slot[SL_error] == LS_NONE : (G.slot[SL_source] == LS_NONE && G.slot[SL_final] == LS_NONE))
/* the discriminator tells the truth: an unstarted operation holds exactly the connected source; a started one is destroyed (by its
 * receiver, after the completion signal) with NOTHING left alive, because ~type() then destroys nothing */
#define DISCR_OK_(st, so, fi, er) ( (!(st) && (so) == LS_ALIVE && (fi) == LS_NONE && (er) == LS_NONE) || ((st) && (so) == LS_NONE && (fi) == LS_NONE && (er) == LS_NONE) )
#define VF_DISCR_OK(op) DISCR_OK_((op)->started_, G.slot[SL_source], G.slot[SL_final], G.slot[SL_error])
/* when a child is started it may complete inline and its completion path destroys it: the destructor must not destroy it again */
#define VF_DISCR_OK_AT_START(op, s) ((op)->started_ != 0)
#define IN_SOURCE_ERROR (G.running == SL_source && G.signal == CH_ERROR)
#define VF_CHECK_CONSTRUCT(op, s) do { \
    if ((s) == SL_error) { \
      VF_P(IN_SOURCE_ERROR, "C05: an error is stored only when the source completed with set_error"); \
      VF_P(G.slot[SL_source] == LS_COMPLETING, "C02: the source's error is copied BEFORE the source operation (which may own it) is destroyed"); \
    } else if ((s) == SL_final) { \
      VF_P(IN_SOURCE_ERROR, "C05: the error handler's sender is created only after the source completed with set_error (value / done are forwarded: func is never invoked)"); \
      VF_P(G.deacts[SL_source] == 1, "C02/C05: the final operation is connected only after the source operation state was destroyed (they share storage)"); \
      VF_P(G.slot[SL_error] == LS_ALIVE, "C02: func is invoked on the stored error (nothing read uninitialised)"); \
    } else { VF_P(G.running == -1 && G.acts[SL_source] == 0, "the source is connected once, by the constructor"); } } while (0)
#define VF_CHECK_DESTROY(op, s) do { if ((s) == SL_error) { \
      VF_P(G.slot[SL_final] == LS_NONE, "C02: the stored error is destroyed only after the final operation, which references it, was destroyed"); } } while (0)
#define VF_CHECK_START(op, s) do { if ((s) == SL_final) { \
      VF_P(IN_SOURCE_ERROR && G.deacts[SL_source] == 1 && G.slot[SL_error] == LS_ALIVE, "C05: the final operation is started only after the source finished with an error and was destroyed, with the error stored"); } \
    else { VF_P(G.running == -1, "the source is started by start() only"); } } while (0)
#define VF_CHECK_COMPLETE(op, ch) do { G.started_atc = (op)->started_; } while (0)
#define VF_GHOST_EXTRA _Bool started_atc; _Bool in_try; unsigned terminates;
#define VF_RCV_HAVOC() do { RCV.op_ = NULL; FRCV.op_ = NULL; } while (0)
#include "../sequence/slots.h"

/* an exception outside any try block of an (unconditionally) noexcept function */
#define VF_THROWN do { if (G.in_try) goto vf_catch; G.terminates++; VF_terminate(); } while (0)
/* func_(err) + connect of its result into finalOp_: one may-throw event */
static _Bool EV_invoke_and_connect(struct le_op* op, int s) {
  VF_P(op == &OP && !G.dead && G.slot[SL_error] == LS_ALIVE, "C02: func_(err) reads the stored error: it is alive");
  return EV_activate(op, s);
}

/* ---------------- contracts ---------------- */
#define A_ALL OP, RCV, FRCV, G
#define OP_AFTER_CTOR (!OP.started_ && G.slot[SL_source] == LS_ALIVE && G.slot[SL_final] == LS_NONE && G.slot[SL_error] == LS_NONE)
#define SOURCE_COMPLETING (OP.started_ && G.slot[SL_source] == LS_COMPLETING && G.slot[SL_final] == LS_NONE && G.slot[SL_error] == LS_NONE && G.running == SL_source)
#define FINAL_COMPLETING (OP.started_ && G.slot[SL_source] == LS_NONE && G.slot[SL_final] == LS_COMPLETING && G.slot[SL_error] == LS_ALIVE && G.running == SL_final)
#define NO_ACTS (G.acts[SL_source] == 0 && G.acts[SL_final] == 0 && G.acts[SL_error] == 0)
#define NO_DEACTS (G.deacts[SL_source] == 0 && G.deacts[SL_final] == 0 && G.deacts[SL_error] == 0)
#define NO_STARTS (G.starts[SL_source] == 0 && G.starts[SL_final] == 0 && G.starts[SL_error] == 0)
#define ATC_ALL_NONE (G.atc[SL_source] == LS_NONE && G.atc[SL_final] == LS_NONE && G.atc[SL_error] == LS_NONE)
#define WAS_ALIVE(s) (__CPROVER_old(G.slot[s]) != LS_NONE ? 1u : 0u)
#define FRESH (VF_FRESH_CALL && !G.in_try && G.terminates == 0)

/* _op::type constructor: func_, receiver_ from the mem-initialiser list, started_ from its default member initialiser (extracted),
 * then the body connects the source into sourceOp_. */
void le_op_ctor(struct le_op* self)
__CPROVER_requires(self == &OP && FRESH && VF_ALL_NONE && G.running == -1)   /* started_ holds whatever its default member initialiser gave it (harness) */
__CPROVER_assigns(A_ALL)
__CPROVER_ensures(G.throws == 0 ==> (OP_AFTER_CTOR && VF_DESTRUCTIBLE(&OP) && G.acts[SL_source] == 1))   /* C02: the operation may be destroyed without being started: ~type() destroys sourceOp_ */
__CPROVER_ensures(G.throws != 0 ==> (VF_ALL_NONE && G.acts[SL_source] == 0))                     /* connect threw: nothing constructed (the exception leaves connect(); ~type() does not run) */
__CPROVER_ensures(G.completed == 0 && NO_STARTS && NO_DEACTS && G.acts[SL_final] == 0 && G.acts[SL_error] == 0 && !G.dead)
/*@BODY le_ctor*/

/* ~type(): destroys sourceOp_ iff start() was never called */
void le_op_dtor(struct le_op* self)
__CPROVER_requires(self == &OP && FRESH && VF_DESTRUCTIBLE(&OP) && G.running == -1)
__CPROVER_assigns(A_ALL)
__CPROVER_ensures(VF_ALL_NONE)                                                                    /* nothing leaked */
__CPROVER_ensures(G.deacts[SL_source] == WAS_ALIVE(SL_source) && G.deacts[SL_final] == 0 && G.deacts[SL_error] == 0) /* the unstarted source destroyed exactly once; after start() nothing is left to destroy */
__CPROVER_ensures(G.completed == 0 && NO_ACTS && NO_STARTS)
/*@BODY le_dtor*/

/* start(): records "started" BEFORE starting the source (which may complete, and destroy everything, inline) */
void le_op_start(struct le_op* self)
__CPROVER_requires(self == &OP && FRESH && OP_AFTER_CTOR && G.running == -1)
__CPROVER_assigns(A_ALL)
__CPROVER_ensures(G.starts[SL_source] == 1 && G.slot[SL_source] == LS_STARTED && G.starts[SL_final] == 0)
__CPROVER_ensures(G.completed == 0 && NO_ACTS && NO_DEACTS)                                        /* C01: start() itself delivers nothing */
__CPROVER_ensures(G.dead && UNTOUCHED)
/*@BODY le_start*/

/* source completed with values / done: the completed source operation is destroyed, then the signal is forwarded unchanged; func is
 * never invoked.  set_value has a conditional noexcept and no try block: if the receiver's set_value throws, the exception goes back
 * into the source, which will signal set_error on this receiver object next -- both must then still exist. */
void le_rcv_set_value(struct le_rcv* self)
__CPROVER_requires(self == &RCV && RCV.op_ == &OP && FRESH && SOURCE_COMPLETING && G.signal == CH_VALUE)
__CPROVER_assigns(A_ALL)
__CPROVER_ensures(!G.sv_threw ==> (VF_COMPLETED_ON(CH_VALUE) && ATC_ALL_NONE && G.deacts[SL_source] == 1))
__CPROVER_ensures(G.sv_threw ==> ((G.completed == 0 && !G.dead && !G.rcv_dead && G.slot[SL_source] == LS_COMPLETING && G.deacts[SL_source] == 0) /* C02: EITHER the exception goes back into a source that (with its receiver) has not been destroyed */ \
                                  || (VF_COMPLETED_ON(CH_ERROR_EXCEPTION) && ATC_ALL_NONE && G.deacts[SL_source] == 1)))                          /* OR it is turned into set_error(current_exception) here */
__CPROVER_ensures(NO_ACTS && NO_STARTS && G.deacts[SL_final] == 0 && G.deacts[SL_error] == 0 && UNTOUCHED)
/*@BODY le_rcv_set_value*/

void le_rcv_set_done(struct le_rcv* self)
__CPROVER_requires(self == &RCV && RCV.op_ == &OP && FRESH && SOURCE_COMPLETING && G.signal == CH_DONE)
__CPROVER_assigns(A_ALL)
__CPROVER_ensures(VF_COMPLETED_ON(CH_DONE) && ATC_ALL_NONE && G.deacts[SL_source] == 1)
__CPROVER_ensures(NO_ACTS && NO_STARTS && G.deacts[SL_final] == 0 && G.deacts[SL_error] == 0)
/*@BODY le_rcv_set_done*/

/* source completed with an error: copy it, destroy the source operation, invoke func on the copy, connect and start the final operation
 * in the source's storage.  A throwing copy / func / connect -> set_error(current_exception), exactly once, with nothing left alive. */
void le_rcv_set_error(struct le_rcv* self)
__CPROVER_requires(self == &RCV && RCV.op_ == &OP && FRESH && SOURCE_COMPLETING && G.signal == CH_ERROR)
__CPROVER_assigns(A_ALL)
__CPROVER_ensures(G.deacts[SL_source] == 1 && G.acts[SL_source] == 0 && G.starts[SL_source] == 0 && G.deacts[SL_final] == 0 && G.terminates == 0) /* the completed source is destroyed exactly once, on every path */
__CPROVER_ensures(G.throws == 0 ==> (G.acts[SL_error] == 1 && G.acts[SL_final] == 1 && G.starts[SL_final] == 1 && G.deacts[SL_error] == 0 \
                                     && G.slot[SL_source] == LS_NONE && G.slot[SL_final] == LS_STARTED && G.slot[SL_error] == LS_ALIVE && G.completed == 0)) /* C05: next step started; nothing delivered by this call */
__CPROVER_ensures(G.throws != 0 ==> (G.throws == 1 && VF_COMPLETED_ON(CH_ERROR_EXCEPTION) && ATC_ALL_NONE && G.started_atc && G.starts[SL_final] == 0 && G.acts[SL_final] == 0 \
                                     && G.deacts[SL_error] == G.acts[SL_error] && G.acts[SL_error] == (G.thrown_at == SL_final ? 1u : 0u))) /* C02/C05: a throw becomes set_error(current_exception) with everything destroyed exactly once */
__CPROVER_ensures(G.dead && UNTOUCHED)
/*@BODY le_rcv_set_error*/

/* final receiver: destroy the completed final operation, then the stored error it referenced; then forward the final sender's result */
void le_frcv_cleanup(struct le_op* op)
__CPROVER_requires(op == &OP && !G.dead && G.slot[SL_source] == LS_NONE && G.slot[SL_final] == LS_COMPLETING && G.slot[SL_error] == LS_ALIVE && G.deacts[SL_final] == 0 && G.deacts[SL_error] == 0)
__CPROVER_assigns(A_ALL)
__CPROVER_ensures(VF_ALL_NONE && G.deacts[SL_final] == 1 && G.deacts[SL_error] == 1 && G.deacts[SL_source] == __CPROVER_old(G.deacts[SL_source]))
__CPROVER_ensures(G.completed == __CPROVER_old(G.completed) && !G.dead && OP.started_ == __CPROVER_old(OP.started_))
/*@BODY le_frcv_cleanup*/

#define FINAL_FRAME (NO_ACTS && NO_STARTS && ATC_ALL_NONE && G.started_atc && G.deacts[SL_final] == 1 && G.deacts[SL_error] == 1 && G.deacts[SL_source] == 0 && G.terminates == 0)
void le_frcv_set_value(struct le_frcv* self)
__CPROVER_requires(self == &FRCV && FRCV.op_ == &OP && FRESH && FINAL_COMPLETING && G.signal == CH_VALUE)
__CPROVER_assigns(A_ALL)
__CPROVER_ensures(VF_COMPLETED_ON(G.sv_threw ? CH_ERROR_EXCEPTION : CH_VALUE))      /* C05: a throwing set_value is turned into set_error(current_exception) */
__CPROVER_ensures(FINAL_FRAME)
/*@BODY le_frcv_set_value*/

void le_frcv_set_done(struct le_frcv* self)
__CPROVER_requires(self == &FRCV && FRCV.op_ == &OP && FRESH && FINAL_COMPLETING && G.signal == CH_DONE)
__CPROVER_assigns(A_ALL)
__CPROVER_ensures(VF_COMPLETED_ON(CH_DONE))
__CPROVER_ensures(FINAL_FRAME)
/*@BODY le_frcv_set_done*/

void le_frcv_set_error(struct le_frcv* self)
__CPROVER_requires(self == &FRCV && FRCV.op_ == &OP && FRESH && FINAL_COMPLETING && G.signal == CH_ERROR)
__CPROVER_assigns(A_ALL)
__CPROVER_ensures(VF_COMPLETED_ON(CH_ERROR))
__CPROVER_ensures(FINAL_FRAME)
/*@BODY le_frcv_set_error*/

/* ---------------- harnesses ---------------- */
static void h_havoc(void) {
  vf_ghost_havoc();
  G.started_atc = 0; G.in_try = vf_nb(); G.terminates = VF_nondet_u32();
  OP.started_ = vf_nb(); G.snap = OP;
  RCV.op_ = &OP; FRCV.op_ = &OP;
}
void h_le_ctor(void) {
  h_havoc(); STARTED_INIT_INTO(OP.started_); le_op_ctor(&OP);
  VF_CANARY("after the constructor");
  if (G.throws) { VF_CANARY("connect(source) can throw"); } else { VF_CANARY("constructor can succeed"); }
}
void h_le_dtor(void) {
  h_havoc(); le_op_dtor(&OP);
  VF_CANARY("after the destructor");
  if (G.deacts[SL_source]) { VF_CANARY("destructor destroys the unstarted sourceOp_"); } else { VF_CANARY("destructor of a started (completed) operation destroys nothing"); }
}
void h_le_start(void) { h_havoc(); le_op_start(&OP); VF_CANARY("after start"); }
void h_le_rcv_set_value(void) {
  h_havoc(); le_rcv_set_value(&RCV);
  VF_CANARY("after source set_value");
  if (G.sv_threw) { VF_CANARY("receiver set_value can throw"); } else { VF_CANARY("receiver set_value can succeed"); }
}
void h_le_rcv_set_done(void) { h_havoc(); le_rcv_set_done(&RCV); VF_CANARY("after source set_done"); }
void h_le_rcv_set_error(void) {
  h_havoc(); le_rcv_set_error(&RCV);
  VF_CANARY("after source set_error");
  if (G.throws && G.thrown_at == SL_error) { VF_CANARY("the error copy can throw"); }
  if (G.throws && G.thrown_at == SL_final) { VF_CANARY("func / connect can throw"); }
  if (!G.throws) { VF_CANARY("final operation can be started"); }
}
void h_le_frcv_cleanup(void) { h_havoc(); le_frcv_cleanup(&OP); VF_CANARY("after cleanup"); }
void h_le_frcv_set_value(void) {
  h_havoc(); le_frcv_set_value(&FRCV);
  VF_CANARY("after final set_value");
  if (G.sv_threw) { VF_CANARY("receiver set_value can throw"); } else { VF_CANARY("receiver set_value can succeed"); }
}
void h_le_frcv_set_done(void) { h_havoc(); le_frcv_set_done(&FRCV); VF_CANARY("after final set_done"); }
void h_le_frcv_set_error(void) { h_havoc(); le_frcv_set_error(&FRCV); VF_CANARY("after final set_error"); }

/* ---------------- M4 lemmas over the contracts' predicates ---------------- */
struct lst { _Bool st; uint8_t so, fi, er; unsigned aso, afi, aer, dso, dfi, der; unsigned completed; _Bool destroyed; };
#define L_DISCR_OK(x) DISCR_OK_((x).st, (x).so, (x).fi, (x).er)
#define L_ALIVE(f) ((f) != LS_NONE ? 1u : 0u)
#define L_BAL(x) ((x).aso == (x).dso + L_ALIVE((x).so) && (x).afi == (x).dfi + L_ALIVE((x).fi) && (x).aer == (x).der + L_ALIVE((x).er) && (x).aso <= 1 && (x).afi <= 1 && (x).aer <= 1 && (x).dso <= 1 && (x).dfi <= 1 && (x).der <= 1)
enum { T_START, T_SRC_CALLS, T_SRC_FORWARD, T_SRC_ERROR_OK, T_SRC_ERROR_COPY_THROWS, T_SRC_ERROR_CONNECT_THROWS, T_FIN_CALLS, T_FIN_FORWARD, T_DTOR, T_N };
#define L_SOURCE_COMPLETING(o) ((o).st && (o).so == LS_COMPLETING && (o).fi == LS_NONE && (o).er == LS_NONE && (o).completed == 0)
static _Bool l_step(struct lst o, struct lst* n, int t) {
  struct lst x = o; _Bool en = 0;
  switch (t) {
  case T_START:       en = !o.st && o.so == LS_ALIVE && o.fi == LS_NONE && o.er == LS_NONE && !o.destroyed; x.st = 1; x.so = LS_STARTED; break;   /* le_op_start */
  case T_SRC_CALLS:   en = o.so == LS_STARTED; x.so = LS_COMPLETING; break;
  case T_SRC_FORWARD: en = L_SOURCE_COMPLETING(o); x.so = LS_NONE; x.dso = o.dso + 1; x.completed = o.completed + 1; break;               /* le_rcv_set_value (no throw) / set_done */
  case T_SRC_ERROR_OK: en = L_SOURCE_COMPLETING(o);                                                                                     /* le_rcv_set_error, no throw */
                      x.er = LS_ALIVE; x.aer = o.aer + 1; x.so = LS_NONE; x.dso = o.dso + 1; x.fi = LS_STARTED; x.afi = o.afi + 1; break;
  case T_SRC_ERROR_COPY_THROWS: en = L_SOURCE_COMPLETING(o); x.so = LS_NONE; x.dso = o.dso + 1; x.completed = o.completed + 1; break;     /* ... the error copy threw */
  case T_SRC_ERROR_CONNECT_THROWS: en = L_SOURCE_COMPLETING(o);                                                                         /* ... func / connect threw */
                      x.aer = o.aer + 1; x.der = o.der + 1; x.so = LS_NONE; x.dso = o.dso + 1; x.completed = o.completed + 1; break;
  case T_FIN_CALLS:   en = o.fi == LS_STARTED; x.fi = LS_COMPLETING; break;
  case T_FIN_FORWARD: en = o.st && o.fi == LS_COMPLETING && o.so == LS_NONE && o.er == LS_ALIVE && o.completed == 0;                    /* le_frcv_set_* */
                      x.fi = LS_NONE; x.dfi = o.dfi + 1; x.er = LS_NONE; x.der = o.der + 1; x.completed = o.completed + 1; break;
  default:            en = !o.destroyed && L_DISCR_OK(o) && (o.completed == 1 || !o.st);                                                /* le_op_dtor: by the owner, before start or after completion */
                      if (!o.st) { x.so = LS_NONE; x.dso = o.dso + 1; } x.destroyed = 1; break;
  }
  *n = x;
  return en;
}
#define L_REACH(x) (L_BAL(x) && (x).completed <= 1 && ((x).destroyed ? ((x).so == LS_NONE && (x).fi == LS_NONE && (x).er == LS_NONE) : ( \
     (!(x).st && (x).completed == 0 && (x).so == LS_ALIVE && (x).fi == LS_NONE && (x).er == LS_NONE && (x).afi == 0 && (x).aer == 0) \
  || ((x).st && (x).completed == 0 && ((x).so == LS_STARTED || (x).so == LS_COMPLETING) && (x).fi == LS_NONE && (x).er == LS_NONE && (x).afi == 0 && (x).aer == 0) \
  || ((x).st && (x).completed == 0 && (x).so == LS_NONE && ((x).fi == LS_STARTED || (x).fi == LS_COMPLETING) && (x).er == LS_ALIVE && (x).dso == 1) \
  || ((x).st && (x).completed == 1 && (x).so == LS_NONE && (x).fi == LS_NONE && (x).er == LS_NONE && (x).dso == 1) )))
void lemma_le_lifecycle(void) {
  struct lst o, n; int t = VF_nondet_int();
  o.st = vf_nb(); o.so = VF_nondet_u8(); o.fi = VF_nondet_u8(); o.er = VF_nondet_u8();
  o.aso = VF_nondet_u32(); o.afi = VF_nondet_u32(); o.aer = VF_nondet_u32(); o.dso = VF_nondet_u32(); o.dfi = VF_nondet_u32(); o.der = VF_nondet_u32();
  o.completed = VF_nondet_u32(); o.destroyed = vf_nb();
  __CPROVER_assume(t >= 0 && t < T_N && o.so <= LS_COMPLETING && o.fi <= LS_COMPLETING && o.er <= LS_ALIVE);
  __CPROVER_assume(L_REACH(o));
  __CPROVER_assume(l_step(o, &n, t));
  VF_CANARY("lemma premises satisfiable");
  if (t == T_START) { VF_CANARY("start enabled"); } if (t == T_SRC_FORWARD) { VF_CANARY("source forward enabled"); } if (t == T_SRC_ERROR_OK) { VF_CANARY("source error enabled"); }
  if (t == T_SRC_ERROR_COPY_THROWS) { VF_CANARY("copy throw enabled"); } if (t == T_SRC_ERROR_CONNECT_THROWS) { VF_CANARY("connect throw enabled"); }
  if (t == T_FIN_FORWARD) { VF_CANARY("final forward enabled"); } if (t == T_DTOR) { VF_CANARY("dtor enabled"); }
  VF_P(L_REACH(n), "lemma: the life-cycle invariant (construct/destroy balanced per slot, at most one completion, started_ tells whether sourceOp_ is the destructor's to destroy) is inductive over the contracts");
  VF_P((n.completed == 1 && !n.destroyed) ==> (L_DISCR_OK(n) && n.st), "lemma: once the completion signal was delivered nothing is alive and started_ is set: the destructor has nothing to do and does nothing");
  VF_P((!n.st && !n.destroyed) ==> L_DISCR_OK(n), "lemma: an unstarted operation holds exactly the connected source: the destructor destroys it");
  VF_P(n.destroyed ==> (n.so == LS_NONE && n.fi == LS_NONE && n.er == LS_NONE && n.aso == n.dso && n.afi == n.dfi && n.aer == n.der), "lemma: after the destructor every child operation and the stored error that were constructed have been destroyed exactly once");
  VF_P((n.fi != LS_NONE) ==> (n.er == LS_ALIVE), "lemma: while the final operation exists the error it references is alive");
  VF_P(o.completed == 1 ==> (t == T_DTOR), "lemma: after the completion signal nothing but the destructor is enabled (exactly one completion)");
  VF_P((o.so == LS_STARTED || o.fi == LS_STARTED) ==> (t == T_SRC_CALLS || t == T_FIN_CALLS), "lemma: while a child runs the operation only waits for it");
}
void lemma_le_init(void) {
  struct lst i; STARTED_INIT_INTO(i.st); i.so = LS_ALIVE; i.fi = LS_NONE; i.er = LS_NONE; i.aso = 1; i.afi = 0; i.aer = 0; i.dso = 0; i.dfi = 0; i.der = 0; i.completed = 0; i.destroyed = 0;
  VF_CANARY("lemma_le_init reachable");
  VF_P(i.st == 0, "lemma: a fresh operation is not started");
  VF_P(L_REACH(i) && L_DISCR_OK(i), "lemma: a freshly constructed operation satisfies the life-cycle invariant and may be destroyed unstarted");
}

#else
/* ======================================================= let_done ======================================================= */
struct ld_op { int startedOp_; };
struct ld_rcv { struct ld_op* op_; };
struct ld_frcv { struct ld_op* op_; };
static struct ld_op OP;
static struct ld_rcv RCV;
static struct ld_frcv FRCV;
static _Bool VF_CFG_nothrow;     /* std::is_nothrow_invocable_v<Done> && is_nothrow_connectable_v<final_sender_t, final_receiver> */

enum { SL_source, SL_final };
/* default member initialiser of startedOp_ (a member without initialiser stays nondeterministic) */
#define STARTEDOP_INIT_INTO(lhs) do { int vf_i /*@EXPR ld_startedOp_init*/; (lhs) = vf_i; } while (0)

#define VF_NSLOT 2
#define VF_OP_T struct ld_op
#define VF_OP_HAVOC() do { OP.startedOp_ = VF_nondet_int(); } while (0)
#define VF_OP_EQ(a, b) ((a).startedOp_ == (b).startedOp_)
#define VF_SLOT_IS_OP(s) 1
#define VF_UNION_EMPTY(s) (G.slot[SL_source] == LS_NONE && G.slot[SL_final] == LS_NONE)
/* the discriminator tells the truth: the sign of startedOp_ names exactly the member of the union that is alive */
#define DISCR_OK_(st, so, fi) ( ((st) > 0 && (so) != LS_NONE && (fi) == LS_NONE) || ((st) < 0 && (so) == LS_NONE && (fi) != LS_NONE) || ((st) == 0 && (so) == LS_NONE && (fi) == LS_NONE) )
#define VF_DISCR_OK(op) DISCR_OK_((op)->startedOp_, G.slot[SL_source], G.slot[SL_final])
#define IN_SOURCE_DONE (G.running == SL_source && G.signal == CH_DONE)
#define VF_CHECK_CONSTRUCT(op, s) do { if ((s) == SL_final) { \
      VF_P(IN_SOURCE_DONE, "C05: the done handler's sender is created only after the source completed with set_done (value / error are forwarded: done_ is never invoked)"); \
      VF_P(G.deacts[SL_source] == 1, "C02/C05: the final operation is connected only after the source operation state was destroyed (they share storage)"); } \
    else { VF_P(G.running == -1 && G.acts[SL_source] == 0, "the source is connected once, by the constructor"); } } while (0)
#define VF_CHECK_DESTROY(op, s) do { } while (0)
#define VF_CHECK_START(op, s) do { G.startedOp_at_start = (op)->startedOp_; if ((s) == SL_final) { \
      VF_P(IN_SOURCE_DONE && G.deacts[SL_source] == 1, "C05: the final operation is started only after the source finished with done and was destroyed"); } \
    else { VF_P(G.running == -1, "the source is started by start() only"); } } while (0)
#define VF_CHECK_COMPLETE(op, ch) do { G.startedOp_atc = (op)->startedOp_; } while (0)
/* done_() / connect throw only when not noexcept; connect(source) in the constructor may */
#define VF_MAY_THROW(s) ((s) == SL_source || !VF_CFG_nothrow)
#define VF_GHOST_EXTRA int startedOp_atc, startedOp_at_start; _Bool in_try; unsigned terminates;
#define VF_RCV_HAVOC() do { RCV.op_ = NULL; FRCV.op_ = NULL; } while (0)
#include "../sequence/slots.h"

/* an exception outside any try block of an (unconditionally) noexcept function */
#define VF_THROWN do { if (G.in_try) goto vf_catch; G.terminates++; VF_terminate(); } while (0)
/* done_() + connect of its result into finalOp_: one may-throw event */
static _Bool EV_invoke_and_connect(struct ld_op* op, int s) { return EV_activate(op, s); }

/* ---------------- contracts ---------------- */
#define A_ALL OP, RCV, FRCV, G
#define OP_AFTER_CTOR (OP.startedOp_ > 0 && G.slot[SL_source] == LS_ALIVE && G.slot[SL_final] == LS_NONE)
#define SOURCE_COMPLETING (OP.startedOp_ > 0 && G.slot[SL_source] == LS_COMPLETING && G.slot[SL_final] == LS_NONE && G.running == SL_source)
#define FINAL_COMPLETING (OP.startedOp_ < 0 && G.slot[SL_source] == LS_NONE && G.slot[SL_final] == LS_COMPLETING && G.running == SL_final)
#define NO_ACTS (G.acts[SL_source] == 0 && G.acts[SL_final] == 0)
#define NO_DEACTS (G.deacts[SL_source] == 0 && G.deacts[SL_final] == 0)
#define NO_STARTS (G.starts[SL_source] == 0 && G.starts[SL_final] == 0)
#define WAS_ALIVE(s) (__CPROVER_old(G.slot[s]) != LS_NONE ? 1u : 0u)
#define FRESH (VF_FRESH_CALL && !G.in_try && G.terminates == 0)
/* the receiver's set_value threw and the exception went back into the child (conditional noexcept, no try block): nothing has changed,
 * the child will signal set_error on the same receiver object */
#define SV_PROPAGATED(slotid) (G.completed == 0 && !G.dead && !G.rcv_dead && G.slot[slotid] == LS_COMPLETING && NO_DEACTS && OP.startedOp_ == __CPROVER_old(OP.startedOp_))

/* _op::type constructor: done_, receiver_ from the mem-initialiser list, startedOp_ from its default member initialiser (extracted),
 * then the body connects the source into sourceOp_ and records it in startedOp_. */
void ld_op_ctor(struct ld_op* self)
__CPROVER_requires(self == &OP && FRESH && VF_ALL_NONE && G.running == -1)   /* startedOp_ holds whatever its default member initialiser gave it (harness) */
__CPROVER_assigns(A_ALL)
__CPROVER_ensures(G.throws == 0 ==> (OP_AFTER_CTOR && VF_DESTRUCTIBLE(&OP) && G.acts[SL_source] == 1))   /* C02: the discriminator names sourceOp_: the operation may be destroyed without being started */
__CPROVER_ensures(G.throws != 0 ==> (VF_ALL_NONE && G.acts[SL_source] == 0))                     /* connect threw: nothing constructed (the exception leaves connect(); ~type() does not run) */
__CPROVER_ensures(G.completed == 0 && NO_STARTS && NO_DEACTS && G.acts[SL_final] == 0 && !G.dead)
/*@BODY ld_ctor*/

/* ~type(): destroys exactly the alive member named by the sign of startedOp_ */
void ld_op_dtor(struct ld_op* self)
__CPROVER_requires(self == &OP && FRESH && VF_DESTRUCTIBLE(&OP) && G.running == -1)
__CPROVER_assigns(A_ALL)
__CPROVER_ensures(VF_ALL_NONE)                                                                    /* nothing leaked */
__CPROVER_ensures(G.deacts[SL_source] == WAS_ALIVE(SL_source) && G.deacts[SL_final] == WAS_ALIVE(SL_final)) /* each alive child destroyed exactly once */
__CPROVER_ensures(G.completed == 0 && NO_ACTS && NO_STARTS)
/*@BODY ld_dtor*/

void ld_op_start(struct ld_op* self)
__CPROVER_requires(self == &OP && FRESH && OP_AFTER_CTOR && G.running == -1)
__CPROVER_assigns(A_ALL)
__CPROVER_ensures(G.starts[SL_source] == 1 && G.slot[SL_source] == LS_STARTED && G.starts[SL_final] == 0)
__CPROVER_ensures(G.completed == 0 && NO_ACTS && NO_DEACTS)                                        /* C01: start() itself delivers nothing */
__CPROVER_ensures(G.dead && UNTOUCHED)
/*@BODY ld_start*/

/* source value / error: forwarded unchanged, done_ never invoked; the source operation is left to the destructor */
#define SOURCE_FORWARD_FRAME (NO_ACTS && NO_STARTS && NO_DEACTS && G.terminates == 0)
void ld_rcv_set_value(struct ld_rcv* self)
__CPROVER_requires(self == &RCV && RCV.op_ == &OP && FRESH && SOURCE_COMPLETING && G.signal == CH_VALUE)
__CPROVER_assigns(A_ALL)
__CPROVER_ensures(!G.sv_threw ==> (VF_COMPLETED_ON(CH_VALUE) && G.atc[SL_source] == LS_COMPLETING && G.atc[SL_final] == LS_NONE && G.startedOp_atc > 0))
__CPROVER_ensures(G.sv_threw ==> SV_PROPAGATED(SL_source))
__CPROVER_ensures(SOURCE_FORWARD_FRAME && UNTOUCHED)
/*@BODY ld_rcv_set_value*/

void ld_rcv_set_error(struct ld_rcv* self)
__CPROVER_requires(self == &RCV && RCV.op_ == &OP && FRESH && SOURCE_COMPLETING && G.signal == CH_ERROR)
__CPROVER_assigns(A_ALL)
__CPROVER_ensures(VF_COMPLETED_ON(CH_ERROR) && G.atc[SL_source] == LS_COMPLETING && G.atc[SL_final] == LS_NONE && G.startedOp_atc > 0)
__CPROVER_ensures(SOURCE_FORWARD_FRAME)
/*@BODY ld_rcv_set_error*/

/* source done: destroy it, invoke done_, connect and start the final operation in the same storage.
 * A throwing done_ / connect -> set_error(current_exception), exactly once, with startedOp_ == 0 and nothing alive. */
void ld_rcv_set_done(struct ld_rcv* self)
__CPROVER_requires(self == &RCV && RCV.op_ == &OP && FRESH && SOURCE_COMPLETING && G.signal == CH_DONE)
__CPROVER_assigns(A_ALL)
__CPROVER_ensures(G.deacts[SL_source] == 1 && G.acts[SL_source] == 0 && G.deacts[SL_final] == 0 && G.starts[SL_source] == 0 && G.terminates == 0) /* the completed source is destroyed exactly once */
__CPROVER_ensures(G.throws == 0 ==> (G.acts[SL_final] == 1 && G.starts[SL_final] == 1 && G.slot[SL_final] == LS_STARTED && G.slot[SL_source] == LS_NONE \
                                     && G.startedOp_at_start < 0 && G.completed == 0))                                          /* C05: next step started, nothing delivered by this call */
__CPROVER_ensures(G.throws != 0 ==> (!VF_CFG_nothrow && G.throws == 1 && VF_COMPLETED_ON(CH_ERROR_EXCEPTION) && G.startedOp_atc == 0 \
                                     && G.atc[SL_source] == LS_NONE && G.atc[SL_final] == LS_NONE && G.acts[SL_final] == 0 && G.starts[SL_final] == 0)) /* C02/C05: done_ / connect threw */
__CPROVER_ensures(G.dead && UNTOUCHED)
/*@BODY ld_rcv_set_done*/

/* final receiver: the result of let_done is the final sender's result; the final operation is left to the destructor */
#define FINAL_FORWARD_FRAME (NO_ACTS && NO_STARTS && NO_DEACTS && G.terminates == 0)
#define FINAL_ATC (G.atc[SL_source] == LS_NONE && G.atc[SL_final] == LS_COMPLETING && G.startedOp_atc < 0)
void ld_frcv_set_value(struct ld_frcv* self)
__CPROVER_requires(self == &FRCV && FRCV.op_ == &OP && FRESH && FINAL_COMPLETING && G.signal == CH_VALUE)
__CPROVER_assigns(A_ALL)
__CPROVER_ensures(!G.sv_threw ==> (VF_COMPLETED_ON(CH_VALUE) && FINAL_ATC))
__CPROVER_ensures(G.sv_threw ==> SV_PROPAGATED(SL_final))
__CPROVER_ensures(FINAL_FORWARD_FRAME && UNTOUCHED)
/*@BODY ld_frcv_set_value*/

void ld_frcv_set_done(struct ld_frcv* self)
__CPROVER_requires(self == &FRCV && FRCV.op_ == &OP && FRESH && FINAL_COMPLETING && G.signal == CH_DONE)
__CPROVER_assigns(A_ALL)
__CPROVER_ensures(VF_COMPLETED_ON(CH_DONE) && FINAL_ATC)
__CPROVER_ensures(FINAL_FORWARD_FRAME)
/*@BODY ld_frcv_set_done*/

void ld_frcv_set_error(struct ld_frcv* self)
__CPROVER_requires(self == &FRCV && FRCV.op_ == &OP && FRESH && FINAL_COMPLETING && G.signal == CH_ERROR)
__CPROVER_assigns(A_ALL)
__CPROVER_ensures(VF_COMPLETED_ON(CH_ERROR) && FINAL_ATC)
__CPROVER_ensures(FINAL_FORWARD_FRAME)
/*@BODY ld_frcv_set_error*/

/* ---------------- harnesses ---------------- */
static void h_havoc(void) {
  vf_ghost_havoc();
  G.startedOp_atc = 0; G.startedOp_at_start = 0; G.in_try = vf_nb(); G.terminates = VF_nondet_u32();
  OP.startedOp_ = VF_nondet_int(); G.snap = OP;
  RCV.op_ = &OP; FRCV.op_ = &OP;
  VF_CFG_nothrow = vf_nb();
}
void h_ld_ctor(void) {
  h_havoc(); STARTEDOP_INIT_INTO(OP.startedOp_); ld_op_ctor(&OP);
  VF_CANARY("after the constructor");
  if (G.throws) { VF_CANARY("connect(source) can throw"); } else { VF_CANARY("constructor can succeed"); }
}
void h_ld_dtor(void) {
  h_havoc(); ld_op_dtor(&OP);
  VF_CANARY("after the destructor");
  if (G.deacts[SL_source]) { VF_CANARY("destructor destroys sourceOp_"); }
  if (G.deacts[SL_final]) { VF_CANARY("destructor destroys finalOp_"); }
  if (!G.deacts[SL_source] && !G.deacts[SL_final]) { VF_CANARY("destructor of an empty operation"); }
}
void h_ld_start(void) { h_havoc(); ld_op_start(&OP); VF_CANARY("after start"); }
void h_ld_rcv_set_value(void) {
  h_havoc(); ld_rcv_set_value(&RCV);
  VF_CANARY("after source set_value");
  if (G.sv_threw) { VF_CANARY("receiver set_value can throw"); } else { VF_CANARY("receiver set_value can succeed"); }
}
void h_ld_rcv_set_error(void) { h_havoc(); ld_rcv_set_error(&RCV); VF_CANARY("after source set_error"); }
void h_ld_rcv_set_done(void) {
  h_havoc(); ld_rcv_set_done(&RCV);
  VF_CANARY("after source set_done");
  if (G.throws) { VF_CANARY("done_ / connect can throw"); } else { VF_CANARY("final operation can be started"); }
  if (VF_CFG_nothrow) { VF_CANARY("noexcept branch"); } else { VF_CANARY("potentially throwing branch"); }
}
void h_ld_frcv_set_value(void) {
  h_havoc(); ld_frcv_set_value(&FRCV);
  VF_CANARY("after final set_value");
  if (G.sv_threw) { VF_CANARY("receiver set_value can throw"); } else { VF_CANARY("receiver set_value can succeed"); }
}
void h_ld_frcv_set_done(void) { h_havoc(); ld_frcv_set_done(&FRCV); VF_CANARY("after final set_done"); }
void h_ld_frcv_set_error(void) { h_havoc(); ld_frcv_set_error(&FRCV); VF_CANARY("after final set_error"); }

/* ---------------- M4 lemmas over the contracts' predicates ---------------- */
struct lst { int st; uint8_t so, fi; unsigned aso, afi, dso, dfi; unsigned completed; _Bool destroyed; };
#define L_DISCR_OK(x) DISCR_OK_((x).st, (x).so, (x).fi)
#define L_DESTRUCTIBLE(x) (L_DISCR_OK(x) && (x).so != LS_STARTED && (x).fi != LS_STARTED)
#define L_ALIVE(f) ((f) != LS_NONE ? 1u : 0u)
#define L_BAL(x) ((x).aso == (x).dso + L_ALIVE((x).so) && (x).afi == (x).dfi + L_ALIVE((x).fi) && (x).aso <= 1 && (x).afi <= 1 && (x).dso <= 1 && (x).dfi <= 1)
enum { T_START, T_SRC_CALLS, T_SRC_FORWARD, T_SRC_DONE_OK, T_SRC_DONE_THROWS, T_FIN_CALLS, T_FIN_FORWARD, T_DTOR, T_N };
#define L_SOURCE_COMPLETING(o) ((o).st > 0 && (o).so == LS_COMPLETING && (o).fi == LS_NONE && (o).completed == 0)
static _Bool l_step(struct lst o, struct lst* n, int t) {
  struct lst x = o; _Bool en = 0;
  switch (t) {
  case T_START:       en = o.st > 0 && o.so == LS_ALIVE && o.fi == LS_NONE && !o.destroyed; x.so = LS_STARTED; break;                       /* ld_op_start */
  case T_SRC_CALLS:   en = o.so == LS_STARTED; x.so = LS_COMPLETING; break;
  case T_SRC_FORWARD: en = L_SOURCE_COMPLETING(o); x.completed = o.completed + 1; break;                                               /* ld_rcv_set_value (no throw) / set_error */
  case T_SRC_DONE_OK: en = L_SOURCE_COMPLETING(o); x.so = LS_NONE; x.dso = o.dso + 1; x.fi = LS_STARTED; x.afi = o.afi + 1; x.st = -1; break;  /* ld_rcv_set_done, no throw */
  case T_SRC_DONE_THROWS: en = L_SOURCE_COMPLETING(o); x.so = LS_NONE; x.dso = o.dso + 1; x.st = 0; x.completed = o.completed + 1; break;   /* ... done_ / connect threw */
  case T_FIN_CALLS:   en = o.fi == LS_STARTED; x.fi = LS_COMPLETING; break;
  case T_FIN_FORWARD: en = o.st < 0 && o.fi == LS_COMPLETING && o.so == LS_NONE && o.completed == 0; x.completed = o.completed + 1; break; /* ld_frcv_set_* (no throw) */
  default:            en = !o.destroyed && L_DESTRUCTIBLE(o) && (o.completed == 1 || (o.so == LS_ALIVE && o.fi == LS_NONE));            /* ld_op_dtor */
                      if (o.so != LS_NONE) { x.so = LS_NONE; x.dso = o.dso + 1; } if (o.fi != LS_NONE) { x.fi = LS_NONE; x.dfi = o.dfi + 1; } x.st = 0; x.destroyed = 1; break;
  }
  *n = x;
  return en;
}
#define L_REACH(x) (L_BAL(x) && (x).completed <= 1 && ((x).destroyed ? ((x).so == LS_NONE && (x).fi == LS_NONE) : (L_DISCR_OK(x) && ( \
     ((x).st > 0 && (x).completed == 0 && (x).afi == 0 && (x).dso == 0) \
  || ((x).st > 0 && (x).completed == 1 && (x).so == LS_COMPLETING && (x).afi == 0 && (x).dso == 0) \
  || ((x).st < 0 && (x).completed == 0 && ((x).fi == LS_STARTED || (x).fi == LS_COMPLETING) && (x).dso == 1) \
  || ((x).st < 0 && (x).completed == 1 && (x).fi == LS_COMPLETING && (x).dso == 1) \
  || ((x).st == 0 && (x).completed == 1 && (x).dso == 1 && (x).afi == 0) ))))
void lemma_ld_lifecycle(void) {
  struct lst o, n; int t = VF_nondet_int();
  o.st = VF_nondet_int(); o.so = VF_nondet_u8(); o.fi = VF_nondet_u8(); o.aso = VF_nondet_u32(); o.afi = VF_nondet_u32(); o.dso = VF_nondet_u32(); o.dfi = VF_nondet_u32();
  o.completed = VF_nondet_u32(); o.destroyed = vf_nb();
  __CPROVER_assume(t >= 0 && t < T_N && o.so <= LS_COMPLETING && o.fi <= LS_COMPLETING);
  __CPROVER_assume(L_REACH(o));
  __CPROVER_assume(l_step(o, &n, t));
  VF_CANARY("lemma premises satisfiable");
  if (t == T_START) { VF_CANARY("start enabled"); } if (t == T_SRC_FORWARD) { VF_CANARY("source forward enabled"); } if (t == T_SRC_DONE_OK) { VF_CANARY("source done enabled"); }
  if (t == T_SRC_DONE_THROWS) { VF_CANARY("done throw enabled"); } if (t == T_FIN_FORWARD) { VF_CANARY("final forward enabled"); } if (t == T_DTOR) { VF_CANARY("dtor enabled"); }
  VF_P(L_REACH(n), "lemma: the life-cycle invariant (truthful discriminator, at most one child alive, construct/destroy balanced per slot, at most one completion) is inductive over the contracts");
  VF_P((n.completed == 1 && !n.destroyed) ==> L_DESTRUCTIBLE(n), "lemma: once the completion signal was delivered the operation is destructible (the sign of startedOp_ names exactly what is alive, no child running)");
  VF_P(n.destroyed ==> (n.so == LS_NONE && n.fi == LS_NONE && n.aso == n.dso && n.afi == n.dfi), "lemma: after the destructor every child operation that was constructed has been destroyed exactly once");
  VF_P(o.completed == 1 ==> (t == T_DTOR), "lemma: after the completion signal nothing but the destructor is enabled (exactly one completion)");
  VF_P((o.so == LS_STARTED || o.fi == LS_STARTED) ==> (t == T_SRC_CALLS || t == T_FIN_CALLS), "lemma: while a child runs the operation only waits for it");
}
void lemma_ld_init(void) {
  int st0; STARTEDOP_INIT_INTO(st0);
  VF_CANARY("lemma_ld_init reachable");
  VF_P(st0 == 0, "lemma: a fresh operation's discriminator says `nothing alive` until the constructor body has connected the source");
}
#endif
