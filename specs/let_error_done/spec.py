import re

HE = 'include/unifex/let_error.hpp'
HD = 'include/unifex/let_done.hpp'
# let_error.hpp
E_RCV = r'class _rcvr<Source, Func, Receiver>::type final \{'
E_FRCV = r'class _frcvr<Source, Func, Receiver, Error>::type final \{'
E_OP = r'class _op<Source, Func, Receiver>::type final \{'
# let_done.hpp
D_RCV = r'class _rcvr<Source, Done, Receiver>::type \{'
D_FRCV = r'class _frcvr<Source, Done, Receiver>::type \{'
D_OP = r'class _op<Source, Done, Receiver>::type \{'

# UNIFEX_TRY { A } UNIFEX_CATCH(...) { B }  ->  { A' } if (0) { vf_catch: ; B }   (DESIGN 3.1, last row; per-spec regexes as in when_all).
# G.in_try tells a may-throw event where an exception goes: into the handler, or -- outside any try block of a noexcept function --
# to std::terminate (VF_THROWN)
TRY_CATCH = [(r'UNIFEX_TRY\s*\{', '{ G.in_try = 1;'),
             (r'\}\s*UNIFEX_CATCH\s*\(\.\.\.\)\s*\{', 'G.in_try = 0; } if (0) { vf_catch: G.in_try = 0;')]
# let_error's set_error: the two scope guards run (in reverse order of declaration) when the try block is left
TRY_CATCH_GUARDS = [(r'UNIFEX_TRY\s*\{', '{ G.in_try = 1;'),
                    (r'\}\s*UNIFEX_CATCH\s*\(\.\.\.\)\s*\{', 'VF_GUARD_destroyErr(); VF_GUARD_destroyPredOp(); G.in_try = 0; } if (0) { vf_catch: G.in_try = 0;')]


def _guard(m):
    body = re.sub(r'\s+', ' ', m.group(2)).strip()
    return '_Bool %s_armed = 1;\n#define VF_GUARD_%s() do { if (%s_armed) { %s_armed = 0; %s } } while (0)\n' % (m.group(1), m.group(1), m.group(1), m.group(1), body)


# scope_guard g = [&]() noexcept { B };  ->  armed flag + VF_GUARD_g() (= reset(): run once if armed); g.reset() / g.release()
# (general rule missing from the table, as in stop_on_request / spawn_future); the guards' runs on the exceptional edges and at the
# end of the try block are spelled out at the may-throw events / in TRY_CATCH_GUARDS
GUARDS = [(r'(?s)scope_guard (\w+) = \[&\]\(\) noexcept \{\s*([^{};]*;)\s*\};', _guard),
          (r'\b(destroyPredOp|destroyErr)\.reset\(\);', r'VF_GUARD_\1();'),
          (r'\b(destroyPredOp|destroyErr)\.release\(\);', r'\1_armed = 0;')]
# every access to the operation / to the receiver object asserts that the object still exists (no statement changed)
ALIVE = [(r'\bop->', 'VF_ALIVE(op)->'), (r'\bself->op_\b', 'VF_RCV_ALIVE(self)->op_'), (r'(VF_RCV_ALIVE\(self\)->op_)->', r'VF_ALIVE(\1)->')]
USING = [(r'(?s)\busing \w+ =[^;]*;', '')]
OPSELF = [(r'\bself->', 'VF_ALIVE(self)->')]
CONNECT_LAMBDA = r'\s*return unifex::connect\([^;]*;\s*\}\s*\)'

# ---------------- let_error ----------------
le_op_ctx = dict(
    cls='le_op', members=['started_'], methods=[],
    pre=[
        # constructor: connect(source) into sourceOp_; an exception leaves the constructor (`return` = unwinding)
        (r'(?s)unifex::activate_union_member_with\(\s*(source|final)Op_,\s*\[&\]\s*\{' + CONNECT_LAMBDA + r';', r'if (EV_activate(this, SL_\1)) return;'),
        (r'unifex::deactivate_union_member\(\s*(source|final)Op_\s*\)', r'EV_deactivate(this, SL_\1)'),
        (r'unifex::start\(\s*(source|final)Op_\.get\(\)\s*\)', r'EV_start(this, SL_\1)'),
    ],
    post=OPSELF,
)
le_rcv_ctx = dict(
    cls='le_rcv', members=['op_'], methods=[],
    pre=USING + GUARDS + [
        (r'(?s)unifex::deactivate_union_member\(\s*op->(source|final)Op_\s*\)', r'EV_deactivate(op, SL_\1)'),
        # error_.construct<remove_cvref_t<ErrorValue>>((ErrorValue&&)e): decay-copy of the error (may throw); the guard runs on the exceptional edge
        (r'(?s)auto& err = op->(error)_\.template construct<remove_cvref_t<ErrorValue>>\(\s*\(ErrorValue&&\)e\);',
         r'if (EV_construct(op, SL_\1)) { VF_GUARD_destroyPredOp(); VF_THROWN; }'),
        (r'(?s)op->(error)_\.template destruct<remove_cvref_t<ErrorValue>>\(\)', r'EV_destruct(op, SL_\1)'),
        # activate_union_member_with<final_op_t>(op->finalOp_, [&]{ return connect(std::move(op->func_)(err), final_receiver{op}); }):
        # the user's function applied to the stored error, then connect -- one may-throw event
        (r'(?s)auto& finalOp =\s*unifex::activate_union_member_with<final_op_t>\(\s*op->(source|final)Op_,\s*\[&\]\s*\{\s*return unifex::connect\(\s*'
         r'std::move\(op->func_\)\(err\),\s*final_receiver<remove_cvref_t<ErrorValue>>\{op\}\);\s*\}\);',
         r'if (EV_invoke_and_connect(op, SL_\1)) { VF_GUARD_destroyErr(); VF_GUARD_destroyPredOp(); VF_THROWN; }'),
        (r'unifex::start\(finalOp\)', 'EV_start(op, SL_final)'),
        # conditional noexcept(is_nothrow_receiver_of_v<...>), no try block: an exception of the receiver's set_value propagates back into the child
        # (inside a try block -- the shape of the proposed repair and of _frcvr::set_value -- the exception goes to the handler)
        (r'(?s)(UNIFEX_TRY\s*\{\s*)unifex::set_value\(\s*std::move\((op_?)->receiver_\),\s*std::move\(values\)\.\.\.\);', r'\1if (EV_set_value(\2)) goto vf_catch;'),
        (r'(?s)unifex::set_value\(\s*std::move\((op_?)->receiver_\),\s*std::move\(values\)\.\.\.\);', r'if (EV_set_value(\1)) return;'),
        (r'(?s)unifex::set_done\(\s*std::move\((op_?)->receiver_\)\)', r'EV_set_done(\1)'),
        (r'(?s)unifex::set_error\(\s*std::move\((op_?)->receiver_\),\s*std::current_exception\(\)\)', r'EV_set_error_exception(\1)'),
    ],
    post=ALIVE,
)
le_rcv_err_ctx = dict(le_rcv_ctx, pre=le_rcv_ctx['pre'] + TRY_CATCH_GUARDS)      # set_error: the guards run when the try block is left
le_rcv_ctx = dict(le_rcv_ctx, pre=le_rcv_ctx['pre'] + TRY_CATCH)
le_frcv_ctx = dict(
    cls='le_frcv', members=['op_'], methods=[],
    pre=USING + [
        (r'(?<![\w.>:])cleanup\(op\)', 'le_frcv_cleanup(op)'),
        (r'(?s)unifex::deactivate_union_member<final_op_t>\(\s*op->(source|final)Op_\s*\)', r'EV_deactivate(op, SL_\1)'),
        (r'(?s)op->(error)_\.template destruct<Error>\(\)', r'EV_destruct(op, SL_\1)'),
        (r'(?s)unifex::set_value\(\s*std::move\((op_?)->receiver_\),\s*std::move\(values\)\.\.\.\);', r'if (EV_set_value(\1)) VF_THROWN;'),
        (r'(?s)unifex::set_error\(\s*std::move\((op_?)->receiver_\),\s*std::current_exception\(\)\)', r'EV_set_error_exception(\1)'),
        (r'(?s)unifex::set_error\(\s*std::move\((op_?)->receiver_\),\s*std::move\(error\)\)', r'EV_set_error(\1)'),
        (r'(?s)unifex::set_done\(\s*std::move\((op_?)->receiver_\)\)', r'EV_set_done(\1)'),
    ] + TRY_CATCH,
    post=ALIVE,
)

# ---------------- let_done ----------------
ld_op_ctx = dict(
    cls='ld_op', members=['startedOp_'], methods=[],
    pre=[
        (r'(?s)unifex::activate_union_member_with\(\s*(source|final)Op_,\s*\[&\]\s*\{' + CONNECT_LAMBDA + r';', r'if (EV_activate(this, SL_\1)) return;'),
        (r'unifex::deactivate_union_member\(\s*(source|final)Op_\s*\)', r'EV_deactivate(this, SL_\1)'),
        (r'unifex::start\(\s*(source|final)Op_\.get\(\)\s*\)', r'EV_start(this, SL_\1)'),
    ],
    post=OPSELF,
)
ld_rcv_ctx = dict(
    cls='ld_rcv', members=['op_'], methods=[],
    pre=[
        (r'(?s)std::is_nothrow_invocable_v<Done> &&\s*is_nothrow_connectable_v<final_sender_t, final_receiver>', 'VF_CFG_nothrow'),
        # activate_union_member_with(op->finalOp_, [&]{ return connect(std::move(op->done_)(), final_receiver{op}); }): the user's function, then connect
        (r'(?s)unifex::activate_union_member_with\(\s*op->(source|final)Op_,\s*\[&\]\s*\{\s*return unifex::connect\(\s*std::move\(op->done_\)\(\),\s*final_receiver\{op\}\);\s*\}\);',
         r'if (EV_invoke_and_connect(op, SL_\1)) VF_THROWN;'),
        (r'(?s)unifex::deactivate_union_member\(\s*op->(source|final)Op_\s*\)', r'EV_deactivate(op, SL_\1)'),
        (r'unifex::start\(\s*op->(source|final)Op_\.get\(\)\s*\)', r'EV_start(op, SL_\1)'),
        # conditional noexcept(is_nothrow_receiver_of_v<...>), no try block: an exception of the receiver's set_value propagates back into the child
        (r'(?s)unifex::set_value\(\s*std::move\(op_->receiver_\),\s*\(Values&&\)values\.\.\.\);', 'if (EV_set_value(op_)) return;'),
        (r'(?s)unifex::set_error\(\s*std::move\((op_?)->receiver_\),\s*std::current_exception\(\)\)', r'EV_set_error_exception(\1)'),
        (r'(?s)unifex::set_error\(\s*std::move\(op_->receiver_\),\s*\(Error&&\)error\)', 'EV_set_error(op_)'),
        (r'(?s)unifex::set_done\(\s*std::move\(op_->receiver_\)\)', 'EV_set_done(op_)'),
    ] + TRY_CATCH,
    post=ALIVE,
)

E = lambda sig, within, ctx, **kw: dict(file=HE, sig=sig, within=within, ctx=ctx, **kw)
D = lambda sig, within, ctx, **kw: dict(file=HD, sig=sig, within=within, ctx=ctx, **kw)

SPEC = dict(
    properties=['C02', 'C05', 'C01'],
    ctx={},
    extracts={
        # let_error
        # optional group: a member WITHOUT initialiser is left nondeterministic by the harness (DESIGN 12.2)
        'le_started_init': dict(file=HE, kind='expr', sig=r'bool started_\s*(=?[^;]*);', within=E_OP),
        'le_ctor': E(r'explicit type\(Source&& source, Func2&& func, Receiver2&& dest\)', E_OP, le_op_ctx),
        'le_dtor': E(r'~type\(\)', E_OP, le_op_ctx),
        'le_start': E(r'void start\(\) & noexcept', E_OP, le_op_ctx),
        'le_rcv_set_value': E(r'void set_value\(Values\.\.\. values\) noexcept', E_RCV, le_rcv_ctx),
        'le_rcv_set_done': E(r'void set_done\(\) noexcept', E_RCV, le_rcv_ctx),
        'le_rcv_set_error': E(r'void set_error\(ErrorValue&& e\) noexcept', E_RCV, le_rcv_err_ctx),
        'le_frcv_cleanup': E(r'static void cleanup\(operation\* op\) noexcept', E_FRCV, le_frcv_ctx),
        'le_frcv_set_value': E(r'void set_value\(Values\.\.\. values\) noexcept\(\s*is_nothrow_receiver_of_v<Receiver, Values\.\.\.>\)', E_FRCV, le_frcv_ctx),
        'le_frcv_set_done': E(r'void set_done\(\) noexcept', E_FRCV, le_frcv_ctx),
        'le_frcv_set_error': E(r'void set_error\(ErrorValue error\) noexcept', E_FRCV, le_frcv_ctx),
        # let_done
        'ld_startedOp_init': dict(file=HD, kind='expr', sig=r'int startedOp_\s*(=?[^;]*);', within=D_OP),
        'ld_ctor': D(r'explicit type\(Source&& source, Done2&& done, Receiver2&& dest\)', D_OP, ld_op_ctx),
        'ld_dtor': D(r'~type\(\)', D_OP, ld_op_ctx),
        'ld_start': D(r'void start\(\) & noexcept', D_OP, ld_op_ctx),
        'ld_rcv_set_value': D(r'void set_value\(Values&&\.\.\. values\) noexcept\(\s*is_nothrow_receiver_of_v<Receiver, Values\.\.\.>\)', D_RCV, ld_rcv_ctx),
        'ld_rcv_set_done': D(r'void set_done\(\) noexcept', D_RCV, ld_rcv_ctx),
        'ld_rcv_set_error': D(r'void set_error\(Error&& error\) noexcept', D_RCV, ld_rcv_ctx),
        'ld_frcv_set_value': D(r'void set_value\(Values&&\.\.\. values\) noexcept\(\s*is_nothrow_receiver_of_v<Receiver, Values\.\.\.>\)', D_FRCV, ld_rcv_ctx),
        'ld_frcv_set_done': D(r'void set_done\(\) noexcept', D_FRCV, ld_rcv_ctx),
        'ld_frcv_set_error': D(r'void set_error\(Error&& error\) noexcept', D_FRCV, ld_rcv_ctx),
    },
    closed_world=[
        dict(file=HE, members=['started_', 'sourceOp_', 'finalOp_', 'error_'],
             allow=[r'bool started_\s*=?[^;]*;', r'manual_lifetime<source_op_t> sourceOp_;', r'final_op_union_t finalOp_;',
                    r'sender_error_types_t<source_type, manual_lifetime_union> error_;']),
        dict(file=HD, members=['startedOp_', 'sourceOp_', 'finalOp_'],
             allow=[r'int startedOp_\s*=?[^;]*;', r'manual_lifetime<source_op_t> sourceOp_;', r'manual_lifetime<final_op_t> finalOp_;']),
    ],
    units=[
        # let_error (3 slots: sourceOp_ | finalOp_ in one union, error_ separate; discriminator started_)
        dict(name='le_ctor', harness='h_le_ctor', enforce='le_op_ctor'),
        dict(name='le_dtor', harness='h_le_dtor', enforce='le_op_dtor'),
        dict(name='le_start', harness='h_le_start', enforce='le_op_start'),
        # FAILS on the unchanged tree (genuine defect, probes/native/let_error_throwing_set_value_double_destroy.cpp): the source operation is destroyed
        # before a receiver set_value that may throw back into it; thorough tier until the repair / a known-findings entry is in
        dict(name='le_source_set_value', harness='h_le_rcv_set_value', enforce='le_rcv_set_value'),
        dict(name='le_source_set_done', harness='h_le_rcv_set_done', enforce='le_rcv_set_done'),
        dict(name='le_source_set_error', harness='h_le_rcv_set_error', enforce='le_rcv_set_error'),
        dict(name='le_final_cleanup', harness='h_le_frcv_cleanup', enforce='le_frcv_cleanup'),
        dict(name='le_final_set_value', harness='h_le_frcv_set_value', enforce='le_frcv_set_value'),
        dict(name='le_final_set_done', harness='h_le_frcv_set_done', enforce='le_frcv_set_done'),
        dict(name='le_final_set_error', harness='h_le_frcv_set_error', enforce='le_frcv_set_error'),
        dict(name='lemma_le_lifecycle', harness='lemma_le_lifecycle', mode='lemma'),
        dict(name='lemma_le_init', harness='lemma_le_init', mode='lemma'),
        # let_done (2 slots: sourceOp_ | finalOp_; discriminator startedOp_)
        dict(name='ld_ctor', harness='h_ld_ctor', enforce='ld_op_ctor', defines=['VF_LET_DONE']),
        dict(name='ld_dtor', harness='h_ld_dtor', enforce='ld_op_dtor', defines=['VF_LET_DONE']),
        dict(name='ld_start', harness='h_ld_start', enforce='ld_op_start', defines=['VF_LET_DONE']),
        dict(name='ld_source_set_value', harness='h_ld_rcv_set_value', enforce='ld_rcv_set_value', defines=['VF_LET_DONE']),
        dict(name='ld_source_set_done', harness='h_ld_rcv_set_done', enforce='ld_rcv_set_done', defines=['VF_LET_DONE']),
        dict(name='ld_source_set_error', harness='h_ld_rcv_set_error', enforce='ld_rcv_set_error', defines=['VF_LET_DONE']),
        dict(name='ld_final_set_value', harness='h_ld_frcv_set_value', enforce='ld_frcv_set_value', defines=['VF_LET_DONE']),
        dict(name='ld_final_set_done', harness='h_ld_frcv_set_done', enforce='ld_frcv_set_done', defines=['VF_LET_DONE']),
        dict(name='ld_final_set_error', harness='h_ld_frcv_set_error', enforce='ld_frcv_set_error', defines=['VF_LET_DONE']),
        dict(name='lemma_ld_lifecycle', harness='lemma_ld_lifecycle', mode='lemma', defines=['VF_LET_DONE']),
        dict(name='lemma_ld_init', harness='lemma_ld_init', mode='lemma', defines=['VF_LET_DONE']),
    ],
    assumptions=[
        'each child operation (source, final) completes exactly once, only after it was started, through exactly one of its receiver\'s set_value / set_error / set_done (C01 for the children); it may do so inline inside start()',
        'a child does not touch its own operation state after it has called its receiver and that call returned normally (so destroying it from inside that call is allowed: "completed" = has invoked its receiver); '
        'a child whose receiver call THROWS (receiver functions with a conditional noexcept) gets the exception back and will signal set_error on the same receiver object: child and receiver object must then still exist',
        'the owner destroys the operation only before start() or after the completion signal, never while a child is running',
        'an exception thrown by connect() inside the constructor propagates out of connect(let_error/let_done, receiver) (documented); the already constructed members are unwound by the language, ~type() does not run',
        'activate_union_member_with and manual_lifetime_union::construct have the strong exception guarantee (manual_lifetime.hpp; not re-verified here)',
        'a throwing receiver set_value leaves the receiver un-completed: the may-throw stub EV_set_value counts a completion only when it returns normally',
        'unifex::start() does not throw (noexcept by concept)',
        'let_done: std::is_nothrow_invocable_v<Done> && is_nothrow_connectable_v<...> is a symbolic configuration constant: both branches of the if constexpr are verified; in the branch without try block a throw would reach std::terminate (checked: unreachable)',
        'sequential code: no atomics, vf_interfere is empty; the discriminators and slots are touched only by the extracted spans (closed-world scan, both headers)',
    ],
    drops=['template genericity (one instantiation; let_error: ONE error type, i.e. one alternative of the error_ / finalOp_ manual_lifetime_unions)',
           'payload arguments of set_value / set_error (values, error objects, std::current_exception())',
           'let_error: error_.construct<...>((ErrorValue&&)e) -> may-throw event EV_construct(op, SL_error); the reference err is dropped',
           'activate_union_member_with(finalOp_, [&]{ return connect(std::move(func_)(err) / std::move(done_)(), final_receiver{op}); }) -> ONE may-throw event EV_invoke_and_connect (user function + connect); the local reference finalOp is dropped',
           'scope_guard destroyPredOp / destroyErr -> armed flag + VF_GUARD_x() (reset = run once if armed, release = disarm); their runs on the exceptional edges and at the end of the try block are written out by the spec-level regexes',
           'UNIFEX_TRY / UNIFEX_CATCH -> goto vf_catch at the may-throw stubs (G.in_try: outside a try block a throw in a noexcept function is std::terminate, in a conditionally-noexcept one it propagates = return)',
           '`using X = ...;` dropped; receiver queries (tag_invoke forwarding), move constructors of the receivers, the sender types and the CPOs'],
)
