/* C08 / C02: v0 async_scope (include/unifex/v0/async_scope.hpp).
 * opState_ = 2*count + open (bit0 = still open, bits 1.. = outstanding spawned operations).  Same protocol shape as the v2
 * scope: M1 rely/guarantee on opState_, M4 lemma "event set iff (closed and count 0)", plus the sequential glue around it:
 * spawn() (admit or destroy, strong exception guarantee), the spawned receiver (destroy, free, THEN give the unit back),
 * request_stop / complete / cleanup / await_and_sync (close, stop request, wait - in that order), the destructor's assertions.
 * Bodies marked @BODY/@EXPR are extracted from /repo on every run; everything else here is specification. */
#include <stddef.h>
struct async_scope;
struct v0_op { int storage; };                 /* manual_lifetime<connect_result_t<Sender, receiver<Sender>>> on the heap */
struct v0_receiver { int stopToken_; void* op_; struct async_scope* scope_; };   /* lives inside the operation state */
struct uptr { struct v0_op* p; };              /* std::unique_ptr<manual_lifetime<op>> */
struct vf_ghost {
  size_t lin_old, lin_new;   /* values at the verified call's own write */
  unsigned lin_count;        /* number of writes the call performed */
  unsigned evt_set;          /* EV_evt_set calls */
  size_t my_refs;            /* units of count the calling party owns */
  unsigned stop_requests;    /* stopSource_.request_stop() calls */
  unsigned waits;            /* evt_.async_wait() started */
  _Bool want_stop;           /* the verified sender is cleanup() (stop request required) rather than complete() (none allowed) */
  _Bool waited;              /* the wait has completed */
  unsigned terminates;
  /* spawn / spawned receiver */
  _Bool threw;               /* a may-throw callee threw: the exception leaves spawn() */
  unsigned allocs, constructs, op_destructs, block_deletes, starts, done_calls;
  _Bool block_alive;         /* the heap block exists */
  _Bool op_alive;            /* an operation state (incl. its receiver) is constructed in the block */
  _Bool rcv_dead; struct v0_receiver snap;
};
static struct vf_ghost G;
#define VF_G(p, o, n) (vf_guarantee((size_t)(o), (size_t)(n)), G.lin_old = (size_t)(o), G.lin_new = (size_t)(n), G.lin_count++, \
                       G.my_refs = ((size_t)(n) == (size_t)(o) + 2 ? G.my_refs + 1 : (size_t)(n) + 2 == (size_t)(o) ? G.my_refs - 1 : G.my_refs))
static void vf_guarantee(size_t o, size_t n);
#include "vf.h"

struct async_scope { size_t opState_; int evt_; int stopSource_; };
static struct async_scope S;
static struct v0_op OPB;
static struct v0_receiver RCV;

#define AS_COUNT_MAX ((size_t)1 << 40)   /* resource bound standing in for the code's own overflow assert */
enum { TOKEN_SCOPE = 7 };                /* stopSource_.get_token() */

static const size_t stoppedBit = /*@EXPR stoppedBit*/;
static const size_t opState_INIT = /*@EXPR opState_init*/;

static _Bool AS_is_stopping(size_t state)
/*@BODY is_stopping*/

static size_t AS_op_count(size_t state)
/*@BODY op_count*/

/* --- protocol predicates (specification, from the property statement) --- */
#define OPEN(s)   (((s) & (size_t)1) != 0)
#define COUNT(s)  ((s) >> 1)
#define STEP_ADMIT(o, n) (OPEN(o) && (n) == (o) + 2)
#define STEP_DONE(o, n)  (COUNT(o) >= 1 && (n) == (o) - 2)
#define STEP_CLOSE(o, n) ((n) == ((o) & ~(size_t)1))
static void vf_guarantee(size_t o, size_t n) {
  VF_P(STEP_ADMIT(o, n) || STEP_DONE(o, n) || STEP_CLOSE(o, n),
       "guarantee: every write to the scope word is admit(+1 while open), done(-1) or close");
  VF_P(!STEP_DONE(o, n) || STEP_CLOSE(o, n) || G.my_refs >= 1, "guarantee: a unit is given back only by a party that owns one");
}
/* rely: the open bit only goes 1->0; once closed the count never grows; the count never drops below the units I own */
#define RELY(o, n) ((!OPEN(o) ? !OPEN(n) : 1) && (!OPEN(o) ? COUNT(n) <= COUNT(o) : 1) \
                    && COUNT(n) >= G.my_refs && COUNT(n) < AS_COUNT_MAX)
static void vf_interfere(void) {
  size_t o = S.opState_;
  size_t n = VF_nondet_size_t();
  __CPROVER_assume(RELY(o, n));
  S.opState_ = n;
}

/* ---------------- event stubs ---------------- */
static void EV_evt_set(struct async_scope* s) {
  VF_CANARY("evt_.set() reachable");
  VF_P(s == &S, "the event that is set is the scope's");
  G.evt_set++;
}
/* evt_.async_wait() as a stage: the join starts waiting.  It completes only after some set(); by lemma_scope_protocol the
 * word is then 0 and stays 0. */
static void EV_evt_async_wait(struct async_scope* s) {
  VF_CANARY("join wait reachable");
  VF_P(s == &S && G.waits == 0, "a started join waits exactly once");
  VF_P(!OPEN(S.opState_), "C08: the scope is closed before the join starts waiting (nothing is admitted while it waits)");
  VF_P(G.want_stop ? G.stop_requests == 1 : G.stop_requests == 0,
       "C08: cleanup() delivers the stop request before (never after) its join can complete; complete() requests no stop");
  G.waits++;
  size_t n = VF_nondet_size_t();
  __CPROVER_assume(n == 0);
  S.opState_ = n; G.waited = 1;
}
static void EV_stop_source_request_stop(struct async_scope* s) {
  VF_CANARY("stopSource_.request_stop() reachable");
  VF_P(s == &S && G.stop_requests == 0, "one stop request per request_stop()/cleanup()");
  VF_P(!G.waited, "C08: the stop request is delivered before the join completed (the scope may be gone afterwards)");
  G.stop_requests++;
  vf_interfere();   /* the callbacks may complete outstanding operations inline */
}
static int EV_scope_token(struct async_scope* s) { VF_P(s == &S, "token of the scope's own stop source"); return TOKEN_SCOPE; }
static void EV_terminate(void) { VF_CANARY("std::terminate() reachable"); G.terminates++; }

/* spawn(): allocation / connect / start of the spawned operation */
#define UP_CTOR(u) ((u)->p = NULL)
#define UP_GET(u) ((u)->p)
#define UP_RELEASE(u) ({ struct v0_op* vf_r = (u)->p; (u)->p = NULL; vf_r; })
static void EV_block_delete(struct v0_op* op) {
  VF_P(op == &OPB && G.block_alive, "C02: the heap block of a spawned operation is freed exactly once");
  VF_P(!G.op_alive, "C02: the block is freed only after the operation state in it was destroyed (or never constructed)");
  G.block_alive = 0; G.block_deletes++;
}
#define UP_DTOR(u) do { if ((u)->p != NULL) { EV_block_delete((u)->p); (u)->p = NULL; } } while (0)
static _Bool EV_allocate(struct uptr* u) {
  VF_P(u->p == NULL && !G.block_alive, "one allocation per spawn()");
  if (VF_nondet_bool()) { G.threw = 1; return 1; }
  G.allocs++; G.block_alive = 1; u->p = &OPB; return 0;
}
static _Bool EV_construct_with(struct v0_op* block, int token, struct v0_op* op, struct async_scope* scope) {
  VF_P(block == &OPB && G.block_alive && !G.op_alive, "the operation is constructed once, into the freshly allocated block");
  VF_P(token == TOKEN_SCOPE, "C08: the spawned receiver observes the scope's stop token (request_stop() reaches spawned work)");
  VF_P(op == &OPB && scope == &S, "the spawned receiver knows its own block and its scope");
  VF_P(G.lin_count == 0, "nothing is counted before connect() succeeded");
  if (VF_nondet_bool()) { G.threw = 1; return 1; }
  G.op_alive = 1; G.constructs++;
  RCV.stopToken_ = token; RCV.op_ = op; RCV.scope_ = scope;
  return 0;
}
static void EV_op_destruct(struct v0_op* op) {
  VF_P(op == &OPB && G.op_alive && G.block_alive, "C02: the operation state is destroyed exactly once, while its block exists");
  VF_P(G.done_calls == 0, "C08: the operation state is destroyed BEFORE its unit is given back to the scope (the join cannot complete over a live spawned operation)");
  G.op_alive = 0; G.op_destructs++;
  struct v0_receiver f; f.stopToken_ = VF_nondet_int(); f.op_ = NULL; f.scope_ = NULL;   /* the receiver is part of the operation state */
  RCV = f; G.snap = f; G.rcv_dead = 1;
}
static void EV_start(struct v0_op* op) {
  VF_CANARY("start of the spawned operation reachable");
  VF_P(op == &OPB && G.op_alive && G.starts == 0, "the spawned operation is started once, after it was constructed");
  VF_P(G.lin_count == 1 && G.my_refs == 1, "C08: a spawned operation is started only after it was admitted (counted) by the scope");
  G.starts++;
  G.my_refs = 0;           /* the unit now belongs to the running operation (its receiver gives it back) */
  vf_interfere();
  if (VF_nondet_bool()) { G.op_alive = 0; G.block_alive = 0; }   /* it may already have completed and freed itself */
}
static struct v0_receiver* VF_RCV(struct v0_receiver* r) {
  VF_P(!G.rcv_dead, "C02: the receiver (part of the operation state) is not accessed after the operation state was destroyed");
  return r;
}

/* ---------------- functions under contract: the protocol word ---------------- */
#define FRESH_LIN (G.lin_count == 0 && G.evt_set == 0 && COUNT(S.opState_) < AS_COUNT_MAX)

_Bool async_scope_try_record_start(struct async_scope* self)
__CPROVER_requires(self == &S && G.lin_count == 0 && G.my_refs == 0 && COUNT(S.opState_) < AS_COUNT_MAX)
__CPROVER_assigns(S.opState_, G.lin_old, G.lin_new, G.lin_count, G.my_refs)
__CPROVER_ensures(__CPROVER_return_value ==> (G.lin_count == 1 && OPEN(G.lin_old) && G.lin_new == G.lin_old + 2 && G.my_refs == 1)) /* admitted before close => counted, exactly one unit */
__CPROVER_ensures(!__CPROVER_return_value ==> (G.lin_count == 0 && G.my_refs == 0)) /* refused => nothing written */
__CPROVER_ensures(!__CPROVER_return_value ==> !OPEN(S.opState_)) /* refused only because the scope was seen closed (and closed is stable) */
/*@BODY try_record_start*/

void record_done(struct async_scope* scope)
__CPROVER_requires(scope == &S) /*P*/
__CPROVER_requires(FRESH_LIN && G.my_refs == 1 && COUNT(S.opState_) >= 1)
__CPROVER_assigns(S.opState_, G.lin_old, G.lin_new, G.lin_count, G.evt_set, G.my_refs)
__CPROVER_ensures(G.lin_count == 1 && G.lin_new == G.lin_old - 2 && COUNT(G.lin_old) >= 1 && G.my_refs == 0) /* removes exactly one unit */
__CPROVER_ensures((G.evt_set >= 1) == (G.lin_new == 0)) /* join event set iff this step made (closed and count 0) true */
__CPROVER_ensures(G.evt_set <= 1)
/*@BODY record_done*/

void async_scope_end_of_scope(struct async_scope* self)
__CPROVER_requires(self == &S && FRESH_LIN && G.my_refs == 0)
__CPROVER_assigns(S.opState_, G.lin_old, G.lin_new, G.lin_count, G.evt_set, G.my_refs)
__CPROVER_ensures(G.lin_count == 1 && G.lin_new == (G.lin_old & ~(size_t)1) && G.my_refs == 0) /* closes, count untouched */
__CPROVER_ensures((G.evt_set >= 1) ==> (G.lin_new == 0)) /* join event set only when closed and nothing outstanding */
__CPROVER_ensures((G.lin_new == 0 && G.lin_old != 0) ==> (G.evt_set == 1)) /* and the step that MAKES (closed and count 0) true sets it */
#ifdef VF_SINGLE_SETTER
__CPROVER_ensures((G.evt_set >= 1) ==> (G.lin_old != 0)) /* ... and no other step does: a close that finds (closed, 0) must not set the event again (it could overtake the real setter) */
#endif
__CPROVER_ensures(G.evt_set <= 1 && !OPEN(S.opState_))
/*@BODY end_of_scope*/

/* ---------------- request_stop / get_stop_token / the join senders ---------------- */
void async_scope_request_stop(struct async_scope* self)
__CPROVER_requires(self == &S && FRESH_LIN && G.my_refs == 0 && G.stop_requests == 0 && !G.waited)
__CPROVER_assigns(S.opState_, G.lin_old, G.lin_new, G.lin_count, G.evt_set, G.my_refs, G.stop_requests)
__CPROVER_ensures(G.lin_count == 1 && G.lin_new == (G.lin_old & ~(size_t)1) && !OPEN(S.opState_)) /* closes the scope: nothing is admitted afterwards */
__CPROVER_ensures(G.stop_requests == 1 && G.my_refs == 0) /* C08: and delivers a stop request to the outstanding spawned work */
__CPROVER_ensures(G.evt_set <= 1 && (G.evt_set >= 1 ==> G.lin_new == 0))
/*@BODY request_stop*/

int async_scope_get_stop_token(struct async_scope* self)
__CPROVER_requires(self == &S)
__CPROVER_assigns()
__CPROVER_ensures(__CPROVER_return_value == TOKEN_SCOPE) /* the token of the source that request_stop() signals and that spawn() hands to spawned work */
/*@BODY get_stop_token*/

void async_scope_await_and_sync(struct async_scope* self)
__CPROVER_requires(self == &S && G.waits == 0 && !G.waited && G.my_refs == 0)
__CPROVER_requires(!OPEN(S.opState_)) /*P*/
__CPROVER_requires(G.want_stop ? G.stop_requests == 1 : G.stop_requests == 0) /*P*/
__CPROVER_assigns(S.opState_, G.waits, G.waited)
__CPROVER_ensures(G.waits == 1 && G.waited && S.opState_ == 0) /* completes after the wait, on a scope that is closed with nothing outstanding */
/*@BODY await_and_sync*/

void async_scope_complete(struct async_scope* self)
__CPROVER_requires(self == &S && FRESH_LIN && G.my_refs == 0 && G.stop_requests == 0 && G.waits == 0 && !G.waited && !G.want_stop)
__CPROVER_assigns(S.opState_, G.lin_old, G.lin_new, G.lin_count, G.evt_set, G.my_refs, G.stop_requests, G.waits, G.waited)
__CPROVER_ensures(G.lin_count == 1 && G.lin_new == (G.lin_old & ~(size_t)1)) /* exactly one close per started join */
__CPROVER_ensures(G.waits == 1 && G.waited && S.opState_ == 0) /* completes only when closed and every spawned operation has completed */
__CPROVER_ensures(G.stop_requests == 0) /* complete() does not cancel outstanding work */
/*@BODY complete*/

void async_scope_cleanup(struct async_scope* self)
__CPROVER_requires(self == &S && FRESH_LIN && G.my_refs == 0 && G.stop_requests == 0 && G.waits == 0 && !G.waited && G.want_stop)
__CPROVER_assigns(S.opState_, G.lin_old, G.lin_new, G.lin_count, G.evt_set, G.my_refs, G.stop_requests, G.waits, G.waited)
__CPROVER_ensures(G.lin_count == 1 && G.lin_new == (G.lin_old & ~(size_t)1))
__CPROVER_ensures(G.waits == 1 && G.waited && S.opState_ == 0)
__CPROVER_ensures(G.stop_requests == 1) /* C08: cleanup() additionally delivers a stop request to all outstanding spawned work (before waiting: EV_evt_async_wait) */
/*@BODY cleanup*/

void async_scope_dtor(struct async_scope* self)
__CPROVER_requires(self == &S && S.opState_ == 0 && G.my_refs == 0 && G.lin_count == 0) /* destroyed only after a join completed */
__CPROVER_assigns(S.opState_)
__CPROVER_ensures(G.lin_count == 0)
/*@BODY dtor*/

/* ---------------- spawn and the spawned operation's receiver ---------------- */
#define SPAWN_FRESH (!G.threw && G.allocs == 0 && G.constructs == 0 && G.op_destructs == 0 && G.block_deletes == 0 && G.starts == 0 && G.done_calls == 0 \
                     && !G.block_alive && !G.op_alive && !G.rcv_dead)
void async_scope_spawn(struct async_scope* self)
__CPROVER_requires(self == &S && FRESH_LIN && G.my_refs == 0 && SPAWN_FRESH)
__CPROVER_assigns(S.opState_, G, OPB, RCV)
__CPROVER_ensures(G.lin_count <= 1 && G.allocs <= 1 && G.constructs <= 1 && G.evt_set == 0 && G.done_calls == 0)
__CPROVER_ensures(G.threw ==> (G.starts == 0 && G.lin_count == 0 && G.op_destructs == 0 && G.constructs == 0 && !G.op_alive && !G.block_alive && G.block_deletes == G.allocs)) /* C02: allocation or connect() threw: nothing started, nothing counted, the block (if any) freed exactly once */
__CPROVER_ensures(!G.threw ==> (G.allocs == 1 && G.constructs == 1))
__CPROVER_ensures((!G.threw && G.lin_count == 1) ==> (OPEN(G.lin_old) && G.lin_new == G.lin_old + 2 && G.starts == 1 && G.op_destructs == 0 && G.block_deletes == 0 && G.my_refs == 0)) /* admitted before close: counted, started once, now owns itself */
__CPROVER_ensures((!G.threw && G.lin_count == 0) ==> (!OPEN(S.opState_) && G.starts == 0 && G.op_destructs == 1 && G.block_deletes == 1 && !G.op_alive && !G.block_alive)) /* C08: spawned after close: never started, destroyed and freed exactly once */
/*@BODY spawn*/

#define RECORD_DONE(s) do { VF_P(G.op_destructs == 1 && G.block_deletes == 1, "C08: the unit is given back only after the spawned operation state was destroyed and freed"); \
                            record_done(s); G.done_calls++; } while (0)
#define RCV_PRE (self == &RCV && RCV.scope_ == &S && RCV.op_ == &OPB && RCV.stopToken_ == TOKEN_SCOPE && G.op_alive && G.block_alive && !G.rcv_dead \
                 && G.op_destructs == 0 && G.block_deletes == 0 && G.done_calls == 0 && G.terminates == 0 && FRESH_LIN && G.my_refs == 1 && COUNT(S.opState_) >= 1)
#define RCV_UNTOUCHED (RCV.stopToken_ == G.snap.stopToken_ && RCV.op_ == G.snap.op_ && RCV.scope_ == G.snap.scope_)
#define RCV_DONE_POST (G.op_destructs == 1 && G.block_deletes == 1 && !G.op_alive && !G.block_alive /* C02: destroyed and freed exactly once */ \
                       && G.done_calls == 1 && G.lin_count == 1 && G.lin_new == G.lin_old - 2 && G.my_refs == 0 /* C08: exactly one unit given back per admitted operation */ \
                       && ((G.evt_set >= 1) == (G.lin_new == 0)) && G.evt_set <= 1 && G.terminates == 0 && G.rcv_dead && RCV_UNTOUCHED)
#define RCV_ASSIGNS S.opState_, G.lin_old, G.lin_new, G.lin_count, G.evt_set, G.my_refs, G.op_alive, G.block_alive, G.op_destructs, G.block_deletes, G.done_calls, G.rcv_dead, G.snap, RCV

void v0_receiver_set_done(struct v0_receiver* self)
__CPROVER_requires(RCV_PRE)
__CPROVER_assigns(RCV_ASSIGNS)
__CPROVER_ensures(RCV_DONE_POST)
/*@BODY rcv_set_done*/

void v0_receiver_set_value(struct v0_receiver* self)
__CPROVER_requires(RCV_PRE)
__CPROVER_assigns(RCV_ASSIGNS)
__CPROVER_ensures(RCV_DONE_POST)
/*@BODY rcv_set_value*/

void v0_receiver_set_error(struct v0_receiver* self)
__CPROVER_requires(RCV_PRE)
__CPROVER_assigns(G.terminates)
__CPROVER_ensures(G.terminates == 1 && G.lin_count == 0 && G.done_calls == 0) /* an error completion of spawned work terminates; it is never swallowed as a normal completion */
/*@BODY rcv_set_error*/

/* ---------------- harnesses ---------------- */
static void h_common(void) {
  S.opState_ = VF_nondet_size_t();
  G.lin_count = 0; G.evt_set = 0; G.my_refs = 0; G.stop_requests = 0; G.waits = 0; G.waited = 0; G.want_stop = 0; G.terminates = 0;
  G.threw = 0; G.allocs = 0; G.constructs = 0; G.op_destructs = 0; G.block_deletes = 0; G.starts = 0; G.done_calls = 0;
  G.block_alive = 0; G.op_alive = 0; G.rcv_dead = 0;
}
static void h_rcv(void) { h_common(); G.my_refs = 1; G.block_alive = 1; G.op_alive = 1; RCV.stopToken_ = TOKEN_SCOPE; RCV.op_ = &OPB; RCV.scope_ = &S; }
void h_try_record_start(void) { h_common(); _Bool r = async_scope_try_record_start(&S); VF_CANARY("after try_record_start"); if (r) { VF_CANARY("try_record_start can succeed"); } else { VF_CANARY("try_record_start can fail"); } }
void h_record_done(void) { h_common(); G.my_refs = 1; record_done(&S); VF_CANARY("after record_done"); if (G.evt_set) { VF_CANARY("record_done can be the last completion of a closed scope"); } else { VF_CANARY("record_done can be a non-last completion"); } }
void h_end_of_scope(void) { h_common(); async_scope_end_of_scope(&S); VF_CANARY("after end_of_scope"); if (G.lin_old == 0) { VF_CANARY("end_of_scope on a scope that is already closed with nothing outstanding"); } if (G.evt_set == 0) { VF_CANARY("end_of_scope with work outstanding"); } }
void h_request_stop(void) { h_common(); async_scope_request_stop(&S); VF_CANARY("after request_stop"); }
void h_get_stop_token(void) { h_common(); async_scope_get_stop_token(&S); VF_CANARY("after get_stop_token"); }
void h_await_and_sync(void) { h_common(); G.want_stop = VF_nondet_bool() ? 1 : 0; G.stop_requests = VF_nondet_u32(); async_scope_await_and_sync(&S); VF_CANARY("after await_and_sync"); }
void h_complete(void) { h_common(); async_scope_complete(&S); VF_CANARY("after complete"); }
void h_cleanup(void) { h_common(); G.want_stop = 1; async_scope_cleanup(&S); VF_CANARY("after cleanup"); }
void h_dtor(void) { h_common(); async_scope_dtor(&S); VF_CANARY("after ~async_scope"); }
void h_spawn(void) {
  h_common(); async_scope_spawn(&S); VF_CANARY("after spawn");
  if (G.threw && G.allocs == 0) { VF_CANARY("allocation can throw"); }
  if (G.threw && G.allocs == 1) { VF_CANARY("connect can throw"); }
  if (!G.threw && G.starts == 1) { VF_CANARY("spawn into an open scope"); }
  if (!G.threw && G.starts == 0) { VF_CANARY("spawn into a closed scope"); }
}
void h_rcv_set_done(void) { h_rcv(); v0_receiver_set_done(&RCV); VF_CANARY("after receiver set_done"); }
void h_rcv_set_value(void) { h_rcv(); v0_receiver_set_value(&RCV); VF_CANARY("after receiver set_value"); }
void h_rcv_set_error(void) { h_rcv(); v0_receiver_set_error(&RCV); VF_CANARY("after receiver set_error"); }

/* ---------------- M4 lemmas over the contracts ---------------- */
/* One step of any party, summarised by its contract (STEP_* + when the event is set). */
void lemma_scope_protocol(void) {
  size_t o = VF_nondet_size_t(), n = VF_nondet_size_t();
  __CPROVER_assume(COUNT(o) < AS_COUNT_MAX);
  int kind = VF_nondet_int();
  __CPROVER_assume(kind >= 0 && kind <= 2);
  _Bool evt;
  if (kind == 0) { __CPROVER_assume(STEP_ADMIT(o, n)); evt = 0; }
  else if (kind == 1) { __CPROVER_assume(STEP_DONE(o, n)); evt = (n == 0); }
#ifdef VF_SINGLE_SETTER
  else { __CPROVER_assume(STEP_CLOSE(o, n)); evt = (n == 0 && o != 0); }
#else
  else { __CPROVER_assume(STEP_CLOSE(o, n)); evt = VF_nondet_bool() ? 1 : 0; __CPROVER_assume((!evt || n == 0) && (!(n == 0 && o != 0) || evt)); }   /* end_of_scope's quick contract */
#endif
  VF_CANARY("lemma premises satisfiable");
  /* (i) every guarantee step is allowed by every other party's rely, provided the stepping party only gives up units it owns */
  size_t others = VF_nondet_size_t();
  __CPROVER_assume(others <= COUNT(o) && (kind == 1 ? others <= COUNT(o) - 1 : 1));
  VF_P((!OPEN(o) ? !OPEN(n) : 1), "lemma: open bit never comes back");
  VF_P((!OPEN(o) ? COUNT(n) <= COUNT(o) : 1), "lemma: once closed the count never grows (nothing starts after close)");
  VF_P(COUNT(n) >= others, "lemma: a step never consumes a unit owned by another party");
  /* (ii) the event is set only in a step that ends in (closed, 0) ... */
  VF_P(evt ==> (!OPEN(n) && COUNT(n) == 0), "lemma: join event set only when closed and nothing outstanding");
  /* ... and the step that first reaches (closed, 0) sets it */
  VF_P((n == 0 && o != 0) ==> evt, "lemma: the step that makes (closed and count 0) true sets the join event");
  /* (iii) state 0 is absorbing */
  VF_P((o == 0) ==> (n == 0 || kind == 1), "lemma: (closed,0) is absorbing (done needs an owned unit, which count 0 excludes)");
  VF_P((o == 0 && kind == 1) ==> 0, "lemma: no completion step is enabled at count 0");
#ifdef VF_SINGLE_SETTER
  /* (iv) exactly one step of the whole history sets the event: the one that reaches 0 (0 is absorbing, so it is unique) */
  VF_P(evt ==> o != 0, "lemma: only the step that reaches (closed, 0) sets the join event (a single setter: nobody overtakes it)");
#endif
}
void lemma_scope_init(void) {
  VF_P(OPEN(opState_INIT) && COUNT(opState_INIT) == 0, "lemma: a fresh scope is open with count 0");
  VF_P(stoppedBit == 1, "lemma: the open bit is bit 0 (count = state >> 1)");
  size_t s = VF_nondet_size_t();
  VF_P(AS_is_stopping(s) == !OPEN(s), "lemma: is_stopping(state) <=> open bit clear");
  VF_P(AS_op_count(s) == COUNT(s), "lemma: op_count(state) = state >> 1");
  VF_CANARY("lemma_scope_init reachable");
}
