H = 'include/unifex/v0/async_scope.hpp'
CLS = r'struct async_scope \{'
RCV = r'struct _receiver<Sender>::type final : _receiver_base \{'
RBASE = r'struct _receiver_base \{'

# sequence(just_from([this]() noexcept { A }), B)  ->  { A }; B;     (predecessor runs to its value completion, then the
# successor is started: group `sequence`; just_from of a noexcept lambda completes inline with a value)
STAGES = [
    (r'just_from\(\[this\]\(\) noexcept (\{[^{}]*\})\)', r'\1'),
    (r'(?s)return sequence\(\s*(\{[^{}]*\}|await_and_sync\(\))\s*,\s*(\{[^{}]*\}|await_and_sync\(\))\s*\);', r'\1; \2;'),
]

ctx = dict(
    cls='async_scope',
    members=['opState_'],
    methods=['try_record_start', 'end_of_scope', 'request_stop', 'await_and_sync'],
    pre=[
        (r'\bis_stopping\(', 'AS_is_stopping('),
        (r'\bop_count\(', 'AS_op_count('),
        (r'(\w+)->evt_\.set\(\)', r'EV_evt_set(\1)'),
        (r'(?<![\w>.])evt_\.set\(\)', 'EV_evt_set(this)'),
        (r'(?<![\w>.])stopSource_\.request_stop\(\)', 'EV_stop_source_request_stop(this)'),
        (r'(?<![\w>.])stopSource_\.get_token\(\)', 'EV_scope_token(this)'),
    ],
)

# spawn(): unique_ptr<manual_lifetime<op>> made explicit (raii rule: destructor call at every exit of the declaring block);
# a may-throw stub that throws leaves the function (`return` = unwinding through the unique_ptr's destructor)
spawn_ctx = dict(
    raii={'uptr': ('UP_CTOR', 'UP_DTOR')},
    pre=[
        (r'auto opToStart = std::make_unique<manual_lifetime<_operation_t<Sender>>>\(\);',
         'uptr opToStart; if (EV_allocate(&opToStart)) return;'),
        (r'(?s)opToStart->construct_with\(\[&\]\s*\{\s*return connect\(\s*\(Sender\s*&&\)\s*sender,\s*receiver<Sender>\{\s*([^,{}]*),\s*([^,{}]*),\s*([^,{}]*)\}\);\s*\}\);',
         r'if (EV_construct_with(UP_GET(&opToStart), \1, \2, \3)) return;'),
        (r'opToStart\.release\(\)', 'UP_RELEASE(&opToStart)'),
        (r'opToStart\.get\(\)', 'UP_GET(&opToStart)'),
        (r'opToStart->', 'UP_GET(&opToStart)->'),
        (r'unifex::start\((.*?)->get\(\)\);', r'EV_start(\1);'),
        (r'(UP_GET\(&opToStart\))->destruct\(\)', r'EV_op_destruct(\1)'),
    ],
)

rcv_ctx = dict(
    cls='v0_receiver', members=['scope_', 'op_', 'stopToken_'], methods=['set_done'],
    typemap=[(r'manual_lifetime<_operation_t<Sender>>\s*\*', 'struct v0_op*')],
    pre=[
        (r'(\w+)->destruct\(\)', r'EV_op_destruct(\1)'),
        (r'\bdelete (\w+);', r'EV_block_delete(\1);'),
        (r'\brecord_done\(([^()]*)\)', r'RECORD_DONE(\1)'),
        (r'std::terminate\(\)', 'EV_terminate()'),
    ],
    # instrumentation (no statement changed): every access through the receiver asserts the receiver still exists
    post=[(r'\bself->', 'VF_RCV(self)->')],
)

SPEC = dict(
    properties=['C08', 'C02'],
    ctx=ctx,
    extracts={
        'stoppedBit': dict(file=H, kind='expr', sig=r'static constexpr std::size_t stoppedBit\{([^}]*)\}'),
        'opState_init': dict(file=H, kind='expr', sig=r'std::atomic<std::size_t> opState_\{([^}]*)\}', within=CLS),
        'is_stopping': dict(file=H, sig=r'static bool is_stopping\(std::size_t state\) noexcept'),
        'op_count': dict(file=H, sig=r'static std::size_t op_count\(std::size_t state\) noexcept'),
        'try_record_start': dict(file=H, sig=r'\[\[nodiscard\]\] bool try_record_start\(\) noexcept', within=CLS,
                                 loops={0: '__CPROVER_assigns(opState, S.opState_, G.lin_old, G.lin_new, G.lin_count, G.my_refs)\n'
                                           '__CPROVER_loop_invariant(G.lin_count == 0 && G.my_refs == 0 && opState == S.opState_ && COUNT(opState) < AS_COUNT_MAX)'}),
        'record_done': dict(file=H, sig=r'friend void record_done\(async_scope\* scope\) noexcept', within=CLS),
        'end_of_scope': dict(file=H, sig=r'void end_of_scope\(\) noexcept', within=CLS),
        'request_stop': dict(file=H, sig=r'void request_stop\(\) noexcept', within=CLS),
        'get_stop_token': dict(file=H, sig=r'inplace_stop_token get_stop_token\(\) noexcept', within=CLS),
        'await_and_sync': dict(file=H, sig=r'\[\[nodiscard\]\] auto await_and_sync\(\) noexcept', within=CLS,
                               ctx=dict(pre=[(r'(?s)return then\(evt_\.async_wait\(\), \[this\]\(\) noexcept \{(.*?)\}\);',
                                              r'EV_evt_async_wait(this); {\1}')])),
        'complete': dict(file=H, sig=r'\[\[nodiscard\]\] auto complete\(\) noexcept', within=CLS, ctx=dict(pre=STAGES)),
        'cleanup': dict(file=H, sig=r'\[\[nodiscard\]\] auto cleanup\(\) noexcept', within=CLS, ctx=dict(pre=STAGES)),
        'dtor': dict(file=H, sig=r'~async_scope\(\)', within=CLS),
        'spawn': dict(file=H, sig=r'void spawn\(Sender&& sender\)', within=CLS, ctx=spawn_ctx,
                      must_contain=[r'try_record_start\(\)', r'make_unique']),
        'rcv_set_value': dict(file=H, sig=r'void set_value\(\) noexcept', within=RCV, ctx=rcv_ctx),
        'rcv_set_done': dict(file=H, sig=r'void set_done\(\) noexcept', within=RCV, ctx=rcv_ctx),
        'rcv_set_error': dict(file=H, sig=r'\[\[noreturn\]\] void set_error\(std::exception_ptr\) noexcept', within=RBASE, ctx=rcv_ctx),
    },
    closed_world=[dict(file=H, members=['opState_', 'evt_', 'stopSource_'], within=CLS,
                       allow=[r'std::atomic<std::size_t> opState_\{', r'async_manual_reset_event evt_;', r'inplace_stop_source stopSource_;'])],
    units=[
        dict(name='try_record_start', harness='h_try_record_start', enforce='async_scope_try_record_start', expect_loop_obligations=True),
        dict(name='record_done', harness='h_record_done', enforce='record_done'),
        dict(name='end_of_scope', harness='h_end_of_scope', enforce='async_scope_end_of_scope'),
        # the event is set only by the step that MAKES (closed and count 0) true: a second end_of_scope() on a scope that is already
        # (closed, 0) must not set it again, otherwise it can overtake the real setter (record_done between its fetch_sub and its
        # evt_.set()), let the join complete and the scope be destroyed under that setter.  FAILS on the code as written (finding).
        dict(name='end_of_scope_single_setter', harness='h_end_of_scope', enforce='async_scope_end_of_scope',
             defines=['VF_SINGLE_SETTER']),
        dict(name='request_stop', harness='h_request_stop', enforce='async_scope_request_stop', replace=['async_scope_end_of_scope']),
        dict(name='get_stop_token', harness='h_get_stop_token', enforce='async_scope_get_stop_token'),
        dict(name='await_and_sync', harness='h_await_and_sync', enforce='async_scope_await_and_sync'),
        dict(name='complete', harness='h_complete', enforce='async_scope_complete',
             replace=['async_scope_end_of_scope', 'async_scope_await_and_sync']),
        dict(name='cleanup', harness='h_cleanup', enforce='async_scope_cleanup',
             replace=['async_scope_request_stop', 'async_scope_await_and_sync']),
        dict(name='dtor', harness='h_dtor', enforce='async_scope_dtor'),
        dict(name='spawn', harness='h_spawn', enforce='async_scope_spawn', replace=['async_scope_try_record_start']),
        dict(name='receiver_set_done', harness='h_rcv_set_done', enforce='v0_receiver_set_done', replace=['record_done']),
        dict(name='receiver_set_value', harness='h_rcv_set_value', enforce='v0_receiver_set_value', replace=['v0_receiver_set_done']),
        dict(name='receiver_set_error', harness='h_rcv_set_error', enforce='v0_receiver_set_error'),
        dict(name='lemma_scope_protocol', harness='lemma_scope_protocol', mode='lemma'),
        dict(name='lemma_scope_single_setter', harness='lemma_scope_protocol', mode='lemma', defines=['VF_SINGLE_SETTER']),
        dict(name='lemma_scope_init', harness='lemma_scope_init', mode='lemma'),
    ],
    assumptions=[
        'one spawned operation completes exactly once, through set_value / set_done / set_error of the receiver spawn() connected it to, and not before it was started (C01 for the spawned sender)',
        'sequence(just_from(f), s): f runs to completion, then s is started (groups sequence / just_from); then(s, f): f runs after s completed with a value; both are written out as "first; second" by spec-level regexes',
        'async_manual_reset_event: set() wakes the waiters, async_wait() completes only after some set() (C16); after the wait the scope word is 0 by lemma_scope_protocol (the event is set only in a step ending in (closed, 0), which is absorbing)',
        'inplace_stop_source::request_stop() runs the registered callbacks (C03); the token passed to connect() by spawn() is the one get_stop_token() returns',
        'make_unique / connect inside construct_with have the strong exception guarantee (nothing allocated / nothing constructed when they throw)',
        'count < 2^40 (resource bound standing in for UNIFEX_ASSERT(opState + 2 > opState))',
        'atomics sequentially consistent',
        'the scope is destroyed only after a join completed (the destructor asserts exactly that)',
        'FINDING (not repaired): end_of_scope() sets evt_ whenever the old count is 0, also when the scope was already closed: request_stop() followed by complete()/cleanup() (or two joins) lets the second end_of_scope() set the event between the last record_done()\'s fetch_sub and its evt_.set(); the join completes, the scope is destroyed and record_done() calls set() on the destroyed event (probes/native/async_scope_v0_second_close_overtakes_last_completion.cpp). The obligation is unit end_of_scope_single_setter (+ lemma_scope_single_setter), tier=thorough only; the quick tier proves "set only when the new state is (closed, 0), and set by the step that makes it so" (true of the code as written and of the repaired code)',
    ],
    drops=['memory orders', 'noexcept/[[nodiscard]]/[[maybe_unused]]/friend',
           'evt_.set(), evt_.async_wait(), stopSource_.request_stop(), stopSource_.get_token() -> event stubs',
           'sequence / just_from / then sender composition in complete(), cleanup(), await_and_sync() -> sequential stages',
           'spawn(): std::make_unique -> EV_allocate + explicit unique_ptr destructor at every exit (raii rule), construct_with([&]{ return connect(...) }) -> EV_construct_with(block, token, block, scope), unifex::start -> EV_start, destruct() -> EV_op_destruct',
           'receiver set_done: op->destruct() / delete op -> EV_op_destruct / EV_block_delete; record_done(scope) wrapped in an ordering check (RECORD_DONE)',
           'template genericity (Sender); spawn_on / spawn_call_on are pure forwarding to spawn()'],
)
